"""C08 - instances of subclasses of built-in types keep their class."""
import ast

import printercheck as PC
import pprop
import valgen
from common import rng

PROP = 'C08'


def has_sub(t):
    return 'sub' in valgen.vkinds(t)


def oracle(c):
    if c.text.startswith('EXC '):
        return 'pformat raised ' + c.text
    if c.warnings:
        return 'a printer failed or warned: ' + c.warnings[0][:160]
    try:
        got = PC.eval_text(c.text)
    except Exception as e:
        return 'output is not an evaluable expression: %s: %s' % (type(e).__name__, e)
    import c01
    want = c01.expected(c.value, c.cfg.get('sort_dict_keys', False))
    if not PC.strict_equal(got, want):
        return 'evaluates to %r (%s), expected %r (%s)' % (got, type(got).__name__, want, type(want).__name__)
    # the subclass instance is printed as a call of the qualified name
    if c.term[0] == 'sub':
        try:
            tree = ast.parse('(' + c.text + '\n)', mode='eval').body
        except SyntaxError as e:
            return 'does not parse: %s' % e
        cls = type(c.value)
        # classes of the running script are named without a module prefix, always by their qualified name
        qn = cls.__qualname__ if cls.__module__ == '__main__' else '%s.%s' % (cls.__module__, cls.__qualname__)
        if not (isinstance(tree, ast.Call) and ast.unparse(tree.func) == qn and len(tree.args) <= 1 and not tree.keywords):
            return 'not a call of %s around one literal: %s' % (qn, c.text[:200])
    return None


def subs_of(r, inner_terms):
    out = []
    for t in inner_terms:
        for fl in valgen.FLAVORS:
            out.append(('sub', fl, t))
    return out


def cases_for(tier):
    r = rng(PROP)
    cases = []
    long_s = 'word ' * 30
    bases = [('int', 0), ('int', -7), ('int', 2 ** 70), ('float', 1.5), ('float', -0.0), ('float', float('inf')),
             ('float', float('-inf')), ('float', float('nan')), ('str', ''), ('str', 'a'), ('str', "it's \"q\" \\"),
             ('str', long_s), ('str', 'x' * 90), ('bytes', b''), ('bytes', b'ab\x00"' * 12), ('bytes', b'q' * 80),
             ('list', []), ('list', [('int', 1), ('str', 'a b c ' * 10)]), ('tuple', []), ('tuple', [('int', 1)]),
             ('tuple', [('none',), ('bool', True)]), ('set', []), ('set', [('int', 3)]), ('frozenset', []),
             ('frozenset', [('str', 'k')]), ('dict', []), ('dict', [(('str', 'k'), ('int', 1))]),
             ('dict', [(('int', i), ('str', 'v' * i)) for i in range(4)])]
    subs = subs_of(r, bases) + [('sub', 'intenum', ('int', 1)), ('sub', 'intenum', ('int', 2))]
    widths = [1, 2, 5, 10, 11, 12, 20, 40, 79, 200]
    for s in subs:
        hashable = valgen.hashable(s)
        ctxs = [s, ('list', [s]), ('tuple', [('int', 1), s, ('none',)]), ('dict', [(('str', 'k' * 10), s)]),
                ('call', 'make', [s], [('key', s)]), ('list', [('list', [('list', [s])])])]
        if hashable:
            ctxs += [('dict', [(s, ('int', 1))]), ('set', [s]), ('frozenset', [s, ('int', 5)])]
        # nested subclass instances
        if s[2][0] == 'list':
            ctxs.append(('sub', 'plain', ('list', [s])))
        for t in ctxs:
            for _ in range(2 if tier == 'quick' else 6):
                w = r.choice(widths)
                cases.append(('enum', t, dict(width=w, ribbon_width=r.choice([w, max(1, w // 2), 200]),
                                              indent=r.choice([1, 4, 8]))))
    # "too wide for the rest of the line but fits on its own"
    for n in range(50, 80, 3):
        for fl in valgen.FLAVORS:
            t = ('dict', [(('str', 'k' * 10), ('sub', fl, ('str', 'a' * n)))])
            cases.append(('boundary', t, dict(width=79)))
            t = ('dict', [(('str', 'k' * 10), ('sub', fl, ('bytes', b'b' * n)))])
            cases.append(('boundary', t, dict(width=79)))
    n = 1200 if tier == 'quick' else 20000
    k = 0
    while k < n:
        t = valgen.rand_val(r, r.randint(2, 25), {'sub'})
        if not has_sub(t):
            continue
        k += 1
        v, _ = valgen.build(t)
        for cfg in PC.std_cfgs(r, 2, sort=(r.random() < 0.3 and PC.comparable(v))):
            cases.append(('random', t, cfg))
    return cases


RULE = ('subclasses of list, tuple, set, frozenset, dict, str, bytes, int, float in three flavours (plain, __repr__ '
        'override, __str__ override) plus IntEnum members, over base values incl. empty ones, strings long enough to be '
        'split / unsplittable and too wide for their line, special floats; each placed at top level, as sole element, '
        'one of many, dict value, dict key / set element (hashable ones), call argument and keyword, deeply nested, '
        'nested subclass-in-subclass; widths 1..200; boundary family {"k"*10: S("a"*n)} for n around the line width; '
        'seeded random trees containing subclass instances. Oracle: eval with the defining module in scope, '
        'type-exact structural equality (type() of every node), top-level output is a call of the qualified name '
        'around at most one literal, no warning. Compared with the model character for character.')


def main(tier):
    return pprop.run_property(PROP, tier, cases_for(tier), oracle, RULE)


def replay(path):
    return pprop.replay_property(path, oracle)

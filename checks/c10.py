"""C10 - max_seq_len shows exactly the first N elements and says how many were dropped."""
import re

import printercheck as PC
import pprop
import valgen
from common import rng

PROP = 'C10'
NOTICE = re.compile(r'\.\.\.and (\d+) more elements')


def truncated(v, n, sort, notices):
    """the value the output must evaluate to, and (appended to notices) the numbers of
    omitted elements in the order their comments must appear"""
    if isinstance(v, dict):
        items = list(v.items())
        if sort:
            items = sorted(items, key=lambda kv: kv[0])
        shown = items[:n]
        out = type(v)({truncated(k, n, sort, notices): truncated(x, n, sort, notices) for k, x in shown})
        if len(items) > n:
            notices.append(len(items) - n)
        return out
    if isinstance(v, (list, tuple, set, frozenset)):
        els = list(v)
        shown = [truncated(x, n, sort, notices) for x in els[:n]]
        if len(els) > n:
            notices.append(len(els) - n)
        return type(v)(shown) if not isinstance(v, tuple) else type(v)(tuple(shown))
    if isinstance(v, valgen.UserObj):
        return valgen.UserObj(v.cname, tuple(truncated(x, n, sort, notices) for x in v.args),
                              [(k, truncated(x, n, sort, notices)) for k, x in v.kwargs])
    return v


def oracle(c):
    if c.text.startswith('EXC '):
        return 'pformat raised ' + c.text
    if c.warnings:
        return 'a printer failed or warned: ' + c.warnings[0][:160]
    n = c.cfg.get('max_seq_len', 1000)
    sort = c.cfg.get('sort_dict_keys', False)
    words = []
    for tok in PC.comments_of(c.text):       # a notice may be wrapped over several "# " lines
        words += tok[1:].split()
    # the user's own comments (wrapped family: single marker words) stay; they are not notices
    marks = [w.strip('.') for w in words if w.strip('.') in MARKS]
    wanted_marks = marks_of(c.term)
    if sorted(marks) != sorted(wanted_marks):
        return 'the user comments %r, expected %r' % (marks, wanted_marks)
    joined = ' '.join(w for w in words if w.strip('.') not in MARKS)
    found = [int(k) for k in NOTICE.findall(joined)]
    rest = NOTICE.sub('', joined).replace('.', ' ').strip()
    if rest:
        return 'unexpected comment text %r' % rest[:80]
    value = c.value
    if wanted_marks:
        value, _sx = valgen.build(PC.strip_comments_term(c.term))
    if n is None:
        big = dict(c.cfg)
        big['max_seq_len'] = 10 ** 9
        text2, w2 = PC.impl_pformat(c.value, big)
        if text2 != c.text:
            return 'max_seq_len=None differs from a limit larger than every container:\n%s\n--- vs ---\n%s' % (
                c.text[:300], text2[:300])
        if found:
            return 'truncation notice with max_seq_len=None: %r' % found
        n = 10 ** 9
    notices = []
    want = truncated(value, n, sort, notices)
    try:
        got = PC.eval_text(c.text)
    except Exception as e:
        return 'output is not an evaluable expression: %s: %s' % (type(e).__name__, e)
    if not PC.strict_equal(got, want):
        return 'evaluates to %r, expected the truncated value %r' % (got, want)
    if found != notices:
        return 'truncation notices %r, expected %r (omitted counts in document order)' % (found, notices)
    return None


MARKS = ('usernote', 'topnote', 'tailnote', 'see{docs}', '{0}', '{{x}}', '%s', '{')      # user texts are data, not templates


def marks_of(t):
    out = []
    k = t[0]
    if k in ('commented', 'trailing'):
        return [t[2]] + marks_of(t[1])
    if k in ('list', 'tuple', 'set', 'frozenset'):
        for x in t[1]:
            out += marks_of(x)
    elif k == 'dict':
        for a, b in t[1]:
            out += marks_of(a) + marks_of(b)
    elif k == 'sub':
        out += marks_of(t[2])
    elif k == 'call':
        for x in t[2]:
            out += marks_of(x)
        for _k, x in t[3]:
            out += marks_of(x)
    return out


def cases_for(tier):
    r = rng(PROP)
    cases = []
    seqs = []
    for k in ('list', 'tuple', 'set', 'frozenset'):
        for ln in (0, 1, 2, 3, 4, 6):
            seqs.append((k, [('int', i) for i in range(ln)]))
    for ln in (0, 1, 2, 3, 4, 6):
        seqs.append(('dict', [(('int', i), ('str', 'v%d' % i)) for i in range(ln)]))
        seqs.append(('dict', [(('str', 'k%d' % (9 - i)), ('list', [('int', j) for j in range(i)])) for i in range(ln)]))
    subs = [('sub', 'plain', s) for s in seqs]
    nested = [('list', [s, ('tuple', [s, s])]) for s in seqs if s[0] in ('list', 'tuple', 'dict')]
    nested += [('dict', [(('str', 'a'), s)]) for s in seqs]
    nested += [('call', 'make', [s], [('kw', s)]) for s in seqs[:12]]
    for t in seqs + subs + nested:
        for msl in (1, 2, 3, 5, None, 1000):
            w = r.choice([1, 10, 40, 79, 200])
            cases.append(('enum', t, dict(width=w, max_seq_len=msl, indent=r.choice([1, 4]),
                                          sort_dict_keys=r.random() < 0.5)))
    # the container that is cut carries the user's own comment / trailing comment (single marker words): the
    # notice with the right count must still be there, top level and nested
    for t in seqs + subs:
        if len(t[1] if t[0] != 'sub' else t[2][1]) < 2:
            continue
        tails = ['tailnote', 'see{docs}', '{0}', '{{x}}', '%s', '{']
        for wrap in (lambda x: ('trailing', x, r.choice(tails)), lambda x: ('commented', x, 'topnote'),
                     lambda x: ('trailing', x, r.choice(tails[1:])),
                     lambda x: ('trailing', ('commented', x, 'topnote'), r.choice(tails))):
            wt = wrap(t)
            if t[0] == 'frozenset' or (t[0] == 'sub' and t[2][0] == 'frozenset'):
                if wt[0] == 'trailing':
                    continue      # known finding C09-trailing-dropped: frozenset's printer takes no trailing comment
            for shape in (wt, ('list', [wt, ('int', 1)]), ('dict', [(('str', 'k'), wt)]), ('call', 'make', [wt], [('kw', wt)])):
                for msl in (1, 2, 5, None):
                    cases.append(('wrapped', shape, dict(width=r.choice([10, 40, 79]), max_seq_len=msl,
                                                         indent=r.choice([1, 4]))))
    # long containers around the limits that exist in the package (PrettyContext's own default of
    # 1000, powers of two): the limit just below / at / above the length, None, and huge limits
    import sys
    longs = (999, 1000, 1001, 1500) if tier == 'quick' else (255, 256, 257, 999, 1000, 1001, 1023, 1024, 1025, 1500, 2049, 5000)
    for ln in longs:
        shapes = [('list', [('int', i % 7) for i in range(ln)]),
                  ('tuple', [('int', i % 7) for i in range(ln)]),
                  ('set', [('int', i) for i in range(ln)]),
                  ('frozenset', [('int', i) for i in range(ln)]),
                  ('dict', [(('int', i), ('int', 0)) for i in range(ln)]),
                  ('dict', [(('str', 'a'), ('list', [('list', [('int', i % 3) for i in range(ln)])]))])]
        for t in shapes:
            for msl in (None, ln - 1, ln, ln + 1, 1000, 10 ** 9, sys.maxsize):
                cases.append(('long', t, dict(width=r.choice([20, 79]), max_seq_len=msl)))
    n = 1200 if tier == 'quick' else 20000
    for _ in range(n):
        t = valgen.rand_val(r, r.randint(4, 40), {'sub', 'call'})
        v, _ = valgen.build(t)
        cmp_ok = PC.comparable(v)
        for cfg in PC.std_cfgs(r, 2, with_msl=True, sort=(r.random() < 0.4 and cmp_ok)):
            cases.append(('random', t, cfg))
    return cases


RULE = ('list/tuple/set/frozenset/dict of length 0,1,2,3,4,6 (native and subclass), nested in each other, as dict '
        'values, as call arguments and keywords, x max_seq_len in {1,2,3,5,None,1000} x widths x sort on/off; containers '
        'of 999/1000/1001/1500 (thorough: also 255..257, 1023..1025, 2049, 5000) elements x max_seq_len in {None, '
        'len-1, len, len+1, 1000, 10**9, sys.maxsize}; seeded '
        'random trees up to 40 nodes. Oracle: eval(output) is type-exactly the value with every container cut to its '
        'first N elements in iteration order (sorted order for sorted dicts); the COMMENT tokens are exactly the '
        'notices "...and K more elements" with K = len - N for the longer containers, in document order; with None: '
        'no notice, no warning, same text as with a limit of 10**9. Compared with the model.')


def nontrivial(c):
    return '...and' in c.text


def main(tier):
    return pprop.run_property(PROP, tier, cases_for(tier), oracle, RULE, nontrivial=nontrivial,
                              extra=pprop.explicit_over_default('max_seq_len', 2, (None, 1, 3, 1000)))


def replay(path):
    import json
    p = json.load(open(path))
    if p.get('kind') == 'configured-default-not-applied':
        import prettyprinter as P
        import printercheck as PC_
        v = valgen.build(PC_.unjson(p['term']))[0]
        factory = dict(P.get_default_config())
        PC_.impl_pformat(v, p['cfg'])
        P.set_default_config(**{p['key']: p['configured_default']})
        try:
            got, _ = PC_.impl_pformat(v, p['cfg'])
            want, _ = PC_.impl_pformat(v, dict(p['cfg'], **{p['key']: p['configured_default']}))
        finally:
            P.set_default_config(**{p['key']: factory[p['key']]})
        print('same' if got == want else 'DIFFERENT:\n%s\n---\n%s' % (got[:300], want[:300]))
        return 0 if got == want else 1
    if p.get('kind') == 'explicit-over-default':
        import prettyprinter as P
        import printercheck as PC_
        v = valgen.build(PC_.unjson(p['term']))[0]
        factory = dict(P.get_default_config())
        base, _ = PC_.impl_pformat(v, p['cfg'])
        P.set_default_config(**{p['key']: p['configured_default']})
        try:
            got, _ = PC_.impl_pformat(v, p['cfg'])
        finally:
            P.set_default_config(**{p['key']: factory[p['key']]})
        print('same' if got == base else 'DIFFERENT:\n%s\n---\n%s' % (got[:300], base[:300]))
        return 0 if got == base else 1
    return pprop.replay_property(path, oracle)

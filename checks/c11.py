"""C11 - depth cuts off exactly below the requested nesting level."""
import ast

import printercheck as PC
import pprop
import valgen
from common import rng

PROP = 'C11'


def _is_sub_name(name):
    """the printed name of a generated subclass of a built-in type: valgen.MyX_f, valgen.Holder.MyX_f (nested), or -
    for the classes standing for those of the running script - MyX_f / MainOuter.MyX_f without a module"""
    return name.split('.')[-1].startswith('My') and name.split('.')[0] in ('valgen', 'MainOuter', name.split('.')[-1])
F_KW = 'C11-keyword-leaves'
F_KEY = 'C11-str-keys'
F_SPECIAL = 'C11-special-float'
F_EMPTY = 'C11-empty-containers'


def height(t):
    """nesting height: 0 for a leaf, 1 + max over the elements for a container / call"""
    k = t[0]
    if k in ('commented', 'trailing'):
        return height(t[1])
    if k in ('list', 'tuple', 'set', 'frozenset'):
        return 1 + max([height(x) for x in t[1]] + [0]) if t[1] else 1
    if k == 'dict':
        return 1 + max([max(height(a), height(b)) for a, b in t[1]] + [0]) if t[1] else 1
    if k == 'sub':
        return height(t[2])
    if k == 'call':
        hs = [height(x) for x in t[2]] + [height(x) for _k, x in t[3]]
        return 1 + max(hs + [0])
    if k == 'float' and (t[1] != t[1] or t[1] in (float('inf'), float('-inf'))):
        return 1           # printed as the call float('inf')
    return 0


def is_ellipsis(n):
    return isinstance(n, ast.Constant) and n.value is Ellipsis


def placeholder_ok(full, cut):
    """is [cut] the ellipsis placeholder of the type of [full]?"""
    def call_of(name_ok):
        return isinstance(cut, ast.Call) and name_ok(ast.unparse(cut.func)) and len(cut.args) == 1 and \
            not cut.keywords and is_ellipsis(cut.args[0])
    if isinstance(full, ast.UnaryOp):
        full = full.operand
    if isinstance(full, ast.Constant):
        v = full.value
        if isinstance(v, bool) or v is None or v is Ellipsis:
            return False
        return call_of(lambda nm: nm == type(v).__name__)
    if isinstance(full, ast.List):
        return isinstance(cut, ast.List) and len(cut.elts) == 1 and is_ellipsis(cut.elts[0])
    if isinstance(full, ast.Tuple):
        return is_ellipsis(cut)
    if isinstance(full, ast.Set):
        return call_of(lambda nm: nm == 'set')
    if isinstance(full, ast.Dict):
        return isinstance(cut, ast.Set) and len(cut.elts) == 1 and is_ellipsis(cut.elts[0])
    if isinstance(full, ast.Call):
        fname = ast.unparse(full.func)
        if call_of(lambda nm: nm == fname):
            return True
        # subclass of list / tuple / dict: Cls([...]) / Cls((...)) / Cls({...})
        if isinstance(cut, ast.Call) and ast.unparse(cut.func) == fname and len(cut.args) == 1 and not cut.keywords:
            a = cut.args[0]
            if is_ellipsis(a) or (isinstance(a, (ast.List, ast.Set)) and len(a.elts) == 1 and is_ellipsis(a.elts[0])):
                return not full.args or len(full.args) == 1
    return False


def is_kwleaf(n):
    return isinstance(n, ast.Constant) and (isinstance(n.value, bool) or n.value is None or n.value is Ellipsis)


def is_strkey(n):
    if isinstance(n, ast.Constant) and isinstance(n.value, (str, bytes)):
        return True
    return isinstance(n, ast.Call) and _is_sub_name(ast.unparse(n.func)) and len(n.args) == 1 and \
        is_strkey(n.args[0])


def is_empty_seq(n):
    if isinstance(n, (ast.List, ast.Tuple)) and not n.elts:
        return True
    return isinstance(n, ast.Call) and not n.args and not n.keywords and \
        (ast.unparse(n.func) in ('set', 'frozenset') or _is_sub_name(ast.unparse(n.func)))


def is_special_float(n):
    return isinstance(n, ast.Call) and len(n.args) == 1 and isinstance(n.args[0], ast.Constant) and \
        n.args[0].value in ('inf', '-inf', 'nan')


def walk(full, cut, k, d, notes, keypos=False):
    """-> error message or None; notes collects known-deviation ids"""
    if k >= d:
        if placeholder_ok(full, cut):
            return None
        if ast.dump(full) == ast.dump(cut):
            if is_kwleaf(full):
                notes.add(F_KW)
                return None
            if keypos and is_strkey(full) and k == d:
                notes.add(F_KEY)
                return None
            if is_empty_seq(full):
                notes.add(F_EMPTY)
                return None
        return 'at nesting %d >= depth %d expected the placeholder of %s, got %s' % (
            k, d, ast.unparse(full)[:60], ast.unparse(cut)[:60])
    # k < d: printed in full down to the next level
    if is_special_float(full) and k == d - 1 and isinstance(cut, ast.Call) and \
            ast.unparse(cut.func) == ast.unparse(full.func) and ast.unparse(cut.args[0]) == 'str(...)':
        notes.add(F_SPECIAL)
        return None
    if type(full) is not type(cut):
        return 'at nesting %d < depth %d expected %s in full, got %s' % (k, d, ast.unparse(full)[:60], ast.unparse(cut)[:60])
    if isinstance(full, (ast.List, ast.Tuple, ast.Set)):
        if len(full.elts) != len(cut.elts):
            return 'element count differs: %s vs %s' % (ast.unparse(full)[:60], ast.unparse(cut)[:60])
        for a, b in zip(full.elts, cut.elts):
            e = walk(a, b, k + 1, d, notes)
            if e:
                return e
        return None
    if isinstance(full, ast.Dict):
        if len(full.keys) != len(cut.keys):
            return 'entry count differs'
        for (ka, va), (kb, vb) in zip(zip(full.keys, full.values), zip(cut.keys, cut.values)):
            e = walk(ka, kb, k + 1, d, notes, keypos=True) or walk(va, vb, k + 1, d, notes)
            if e:
                return e
        return None
    if isinstance(full, ast.Call):
        if is_special_float(full):
            return None if ast.dump(full) == ast.dump(cut) else 'special float changed: %s' % ast.unparse(cut)
        if ast.unparse(full.func) != ast.unparse(cut.func) or len(full.args) != len(cut.args) or \
                [x.arg for x in full.keywords] != [x.arg for x in cut.keywords]:
            return 'call shape differs: %s vs %s' % (ast.unparse(full)[:60], ast.unparse(cut)[:60])
        fname = ast.unparse(full.func)
        sole = len(full.args) == 1 and not full.keywords
        wrapper = _is_sub_name(fname) or fname in ('frozenset', 'valgen.Color')
        hug = sole and (wrapper or isinstance(full.args[0], (ast.List, ast.Dict, ast.Tuple)))
        if wrapper and sole and isinstance(full.args[0], ast.Constant):
            # Cls(literal) of an int/float/str/bytes subclass is a leaf
            return None if ast.dump(full) == ast.dump(cut) else 'leaf changed: %s' % ast.unparse(cut)[:60]
        for a, b in zip(full.args, cut.args):
            e = walk(a, b, k if hug else k + 1, d, notes)
            if e:
                return e
        for a, b in zip(full.keywords, cut.keywords):
            e = walk(a.value, b.value, k + 1, d, notes)
            if e:
                return e
        return None
    return None if ast.dump(full) == ast.dump(cut) else 'leaf differs: %s vs %s' % (
        ast.unparse(full)[:60], ast.unparse(cut)[:60])


def oracle(c):
    if c.text.startswith('EXC '):
        return 'pformat raised ' + c.text
    if c.warnings:
        return 'a printer failed or warned: ' + c.warnings[0][:160]
    d = c.cfg.get('depth')
    nolimit = dict(c.cfg)
    nolimit['depth'] = None
    full_text, _w = PC.impl_pformat(c.value, nolimit)
    if d is None:
        return None
    if d > height(c.term):
        if c.text != full_text:
            return 'depth=%d exceeds the nesting height %d but the output differs from depth=None:\n%s\n--- vs ---\n%s' % (
                d, height(c.term), c.text[:300], full_text[:300])
        return None
    try:
        full = ast.parse('(' + full_text + '\n)', mode='eval').body
        cut = ast.parse('(' + c.text + '\n)', mode='eval').body
    except SyntaxError as e:
        return 'output does not parse: %s' % e
    notes = set()
    e = walk(full, cut, 0, d, notes)
    if e:
        return e
    for fid in (F_KW, F_KEY, F_SPECIAL, F_EMPTY):
        if fid in notes:
            return ('known', fid, fid)
    return None


def cases_for(tier):
    r = rng(PROP)
    cases = []
    n = 1500 if tier == 'quick' else 25000
    for i in range(n):
        t = valgen.rand_val(r, r.randint(2, 30), [{'sub', 'call'}, set(), {'comment'}, {'comment', 'call', 'sub'}][i % 4])
        h = height(t)
        for _ in range(3):
            w = r.choice([1, 5, 20, 79, 200])
            d = r.choice([0, 1, 2, 3, h, h + 1, h + 2, max(0, h - 1)])
            cases.append(('random', t, dict(width=w, ribbon_width=r.choice([w, 200]), indent=r.choice([1, 4]), depth=d)))
    # commented dict values / sequence elements / call arguments: the broken variants re-render the value
    for d in range(0, 5):
        for w in (10, 30, 79):
            inner = ('list', [('int', 1), ('list', [('int', 2), ('list', [('int', 3)])])])
            cm = ('commented', inner, 'note: set by the loader at startup')
            for t in (('dict', [(('str', 'key'), cm), (('str', 'other'), ('int', 1))]), ('list', [cm, ('int', 0)]),
                      ('call', 'make', [cm], [('kw', cm)]), ('dict', [(('commented', ('tuple', [('int', 1), ('tuple', [('int', 2)])]), 'key note'), cm)])):
                cases.append(('commented', t, dict(depth=d, width=w)))
    # the sole positional argument of a call: exactly list/dict/tuple are hugged (no level consumed);
    # subclass instances, sets, calls and anything with a keyword beside it are not
    deep3 = ('list', [('int', 2), ('list', [('int', 3), ('list', [('int', 4)])])])
    inners = [('list', [('int', 1), deep3]), ('tuple', [('int', 1), deep3]), ('dict', [(('str', 'k'), deep3)]),
              ('set', [('int', 1), ('tuple', [('int', 2), ('tuple', [('int', 3)])])]),
              ('frozenset', [('tuple', [('int', 2), ('tuple', [('int', 3)])])])]
    for inner in inners:
        wraps = [inner, ('sub', 'plain', inner), ('sub', 'reprov', inner), ('commented', inner, 'why'),
                 ('commented', ('sub', 'plain', inner), 'why'), ('call', 'inner', [inner], [])]
        if inner[0] != 'frozenset':        # pretty_frozenset takes no trailing comment (C09-trailing-dropped)
            wraps.append(('trailing', inner, 'tail'))
        for a in wraps:
            for t in (('call', 'make', [a], []), ('list', [('call', 'make', [a], [])]),
                      ('call', 'make', [a], [('kw', ('int', 1))]), ('call', 'make', [a, ('int', 0)], []),
                      ('call', 'outer', [('call', 'make', [a], [])], [])):
                for d in range(0, 7):
                    cases.append(('sole-arg', t, dict(depth=d, width=r.choice([10, 79]))))
    # nested singletons of every leaf, every depth
    for leaf in valgen.LEAVES:
        t = leaf
        for lvl in range(4):
            for d in range(0, lvl + 3):
                cases.append(('tower', t, dict(depth=d, width=r.choice([10, 79]))))
            t = r.choice([('list', [t]), ('tuple', [t, ('int', 1)]), ('dict', [(('str', 'k'), t)]),
                          ('dict', [(t, ('int', 0))]) if valgen.hashable(t) else ('list', [t, t]),
                          ('call', 'make', [t], []), ('frozenset', [t]) if valgen.hashable(t) else ('list', [t])])
    return cases


RULE = ('seeded random value trees up to 30 nodes (half with subclass instances and pretty_call objects) x depth in '
        '{0,1,2,3,height-1,height,height+1,height+2} x widths; towers of singleton containers (list, tuple, dict value, '
        'dict key, call argument, frozenset) over every leaf of the adversarial alphabet at every depth 0..levels+2; '
        'commented dict values / elements / call arguments at depths 0..4 x widths 10, 30, 79 (both comment placements); '
        'calls whose sole positional argument is a list/tuple/dict/set/frozenset - native, subclass instance, commented, '
        'inside another call, with a keyword or second argument beside it - at depths 0..6. '
        'Oracle on the implementation: for depth > height the text equals depth=None; otherwise the syntax tree of '
        'the output is walked in parallel with the tree of the unlimited output: below the cut everything identical, '
        'at nesting >= depth the placeholder of that node\'s own type ([...], (...), {...}, T(...)). The three '
        'deviations of the literal reading are open findings. Compared with the model character for character.')


def nontrivial(c):
    return '...' in c.text


SHARE_SHAPES = {
    'shallow-then-deep': lambda s: [s(), [[s()]]],
    'deep-then-shallow': lambda s: [[[s()]], s()],
    'dict': lambda s: {'a': {'b': {'k': s()}}, 'c': {'k': s()}},
    'tuple-and-call': lambda s: (s(), [valgen_call(s())]),
    'three-levels': lambda s: [s(), [s()], [[s()]], [[[s()]]]],
}


def valgen_call(x):
    valgen.ensure_registered()
    return valgen.UserObj('make', (x,), [])


def shared_oracle(term, shape, depth, width):
    """the cut depends on the nesting level of an occurrence, not on the object: a value in which ONE object is
    referenced at several levels prints, under every depth, like the equal value built from separate copies"""
    mk = SHARE_SHAPES[shape]
    one = valgen.build(term)[0]
    shared = mk(lambda: one)
    copies = mk(lambda: valgen.build(term)[0])
    cfg = dict(depth=depth, width=width)
    a, _w = PC.impl_pformat(shared, cfg)
    b, _w = PC.impl_pformat(copies, cfg)
    if a != b:
        return 'depth=%r: one object referenced at several levels prints\n%s\n--- separate equal copies print ---\n%s' % (depth, a[:300], b[:300])
    return None


def shared_cases(tier, r):
    out = []
    subs = [('list', [('int', 1), ('int', 2)]), ('tuple', [('int', 1), ('list', [('int', 2)])]),
            ('dict', [(('str', 'k'), ('tuple', [('int', 1), ('int', 2)]))]), ('set', [('int', 5)]),
            ('list', [('list', [('list', [('int', 7)])])])]
    for _ in range(10 if tier == 'quick' else 200):
        subs.append(valgen.rand_val(r, r.randint(2, 8), {'sub'}))
    for t in subs:
        if t[0] not in ('list', 'tuple', 'dict', 'set', 'sub'):
            continue
        for shape in SHARE_SHAPES:
            if shape == 'dict' and not valgen.hashable(('str', 'k')):
                continue
            for d in (0, 1, 2, 3, 4, 5, None):
                out.append((t, shape, d, r.choice([20, 79])))
    return out


def shared_extra(run, res):
    pprop.explicit_over_default('depth', 1, (None, 0, 2, 5))(run, res)
    from common import rng as _rng
    n = 0
    for t, shape, d, w in shared_cases(run.tier, _rng(PROP + '/shared')):
        n += 1
        msg = shared_oracle(t, shape, d, w)
        if msg and len(run.violations) < 6:
            run.violation({'kind': 'shared-object-levels', 'term': PC.jsonable(t), 'shape': shape, 'depth': d, 'width': w,
                           'detail': msg})
    run.count(n)
    run.coverage['shared_object_at_several_levels_cases'] = n


def main(tier):
    return pprop.run_property(PROP, tier, cases_for(tier), oracle,
                              RULE + ' One object referenced at several nesting levels (5 shapes x depths 0..5, None): '
                              'same text as the equal value built from separate copies.',
                              nontrivial=nontrivial, extra=shared_extra)


def replay(path):
    import json
    p = json.load(open(path))
    if p.get('kind') == 'shared-object-levels':
        import printercheck as PC_
        msg = shared_oracle(PC_.unjson(p['term']), p['shape'], p['depth'], p['width'])
        print('oracle:', msg)
        return 1 if msg else 0
    if p.get('kind') == 'configured-default-not-applied':
        import prettyprinter as P
        import printercheck as PC_
        v = valgen.build(PC_.unjson(p['term']))[0]
        factory = dict(P.get_default_config())
        PC_.impl_pformat(v, p['cfg'])
        P.set_default_config(**{p['key']: p['configured_default']})
        try:
            got, _ = PC_.impl_pformat(v, p['cfg'])
            want, _ = PC_.impl_pformat(v, dict(p['cfg'], **{p['key']: p['configured_default']}))
        finally:
            P.set_default_config(**{p['key']: factory[p['key']]})
        print('same' if got == want else 'DIFFERENT:\n%s\n---\n%s' % (got[:300], want[:300]))
        return 0 if got == want else 1
    if p.get('kind') == 'explicit-over-default':
        import prettyprinter as P
        import printercheck as PC_
        v = valgen.build(PC_.unjson(p['term']))[0]
        factory = dict(P.get_default_config())
        base, _ = PC_.impl_pformat(v, p['cfg'])
        P.set_default_config(**{p['key']: p['configured_default']})
        try:
            got, _ = PC_.impl_pformat(v, p['cfg'])
        finally:
            P.set_default_config(**{p['key']: factory[p['key']]})
        print('same' if got == base else 'DIFFERENT:\n%s\n---\n%s' % (got[:300], base[:300]))
        return 0 if got == base else 1
    return pprop.replay_property(path, oracle)

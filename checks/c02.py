"""C02 - string and bytes literals are reproduced exactly, however they are split."""
import ast
import itertools
import json

import printercheck as PC
import valgen
from common import cps, from_cps, rng, run_driver
from framework import Run

PROP = 'C02'
ALPHA = ["'", '"', '\\', ' ', '\n', 'a', 'é', '\U0001F600', '\x00', '\x85']
BALPHA = [b"'", b'"', b'\\', b' ', b'\n', b'a', b'\xe9', b'\x00', b'-']
CONTEXTS = ['top', 'sole', 'one-of-many', 'dict-key', 'dict-value', 'call-arg']


def place(ctx, leaf):
    if ctx == 'top':
        return leaf
    if ctx == 'sole':
        return ('list', [leaf])
    if ctx == 'one-of-many':
        return ('tuple', [('int', 1), leaf, ('none',)])
    if ctx == 'dict-key':
        return ('dict', [(leaf, ('int', 0))])
    if ctx == 'dict-value':
        return ('dict', [(('int', 0), leaf)])
    if ctx == 'call-arg':
        return ('call', 'f', [('int', 1), leaf], [('kw', leaf)])
    raise ValueError(ctx)


def strings(tier, r):
    out = []
    maxlen = 3 if tier == 'quick' else 4
    for n in range(0, maxlen + 1):
        for tup in itertools.product(ALPHA, repeat=n):
            out.append(''.join(tup))
    for n in range(0, 3 if tier == 'quick' else 4):
        for tup in itertools.product(BALPHA, repeat=n):
            out.append(b''.join(tup))
    for _ in range(300 if tier == 'quick' else 4000):
        out.append(valgen.rand_str(r, r.choice([10, 25, 60, 150])))
        out.append(valgen.rand_bytes(r, r.choice([10, 25, 60])))
        out.append(' '.join(r.choice(['lorem', 'ipsum', "it's", '"q"', 'x' * r.randint(1, 30), 'é']) for _ in range(r.randint(3, 25))))
        out.append(''.join(chr(r.choice([r.randint(0, 0x7f), r.randint(0x80, 0x2ff), r.randint(0x2000, 0x206f),
                                         r.randint(0xd7ff, 0xd7ff), r.randint(0xe000, 0xf8ff), r.randint(0x1f600, 0x1f64f),
                                         0x10ffff])) for _ in range(r.randint(1, 40))))
    # no whitespace at all, punctuation between the words: the non-word split pattern (str and bytes)
    for _ in range(120 if tier == 'quick' else 1500):
        out.append(valgen.rand_punct_text(r, False))
        out.append(valgen.rand_punct_text(r, True))
    # long runs of ONE byte / character (every byte value; characters of every class the splitter and the
    # escaper distinguish): no break opportunity, nothing but escapes, nothing but separators ...
    step = 1 if tier != 'quick' else 5
    for v in sorted(set(range(0, 256, step)) | {0, 9, 10, 32, 34, 39, 92, 127, 128, 0xaa, 0xbf, 0xc0, 0xff}):
        out.append(bytes([v]) * r.choice([30, 75, 130]))
    for ch in ['\xa0', '\u0301', '\u2028', '\u3000', '\U0001F600', '\ud7ff', '\x85', '\x1c', '/', '-', '_', '\x00', '\\', "'", '"']:
        out.append(ch * r.choice([30, 75, 130]))
        out.append(('ab' + ch) * r.choice([20, 45]))
    return out


def oracle_text(s, ctxname, text):
    """property oracle for one placement: the literal(s) evaluate back to s with the right type,
    every piece carries the bytes prefix, no piece is empty unless s is"""
    try:
        val = ast.literal_eval('(' + text + '\n)') if ctxname != 'call-arg' else None
    except Exception as e:
        return 'not a literal expression: %s' % e
    if ctxname == 'top':
        got = [val]
    elif ctxname == 'sole':
        got = [val[0]] if isinstance(val, list) and len(val) == 1 else None
    elif ctxname == 'one-of-many':
        got = [val[1]] if isinstance(val, tuple) and len(val) == 3 else None
    elif ctxname == 'dict-key':
        got = list(val.keys()) if isinstance(val, dict) and len(val) == 1 else None
    elif ctxname == 'dict-value':
        got = list(val.values()) if isinstance(val, dict) and len(val) == 1 else None
    else:
        try:
            tree = ast.parse('(' + text + '\n)', mode='eval').body
            got = [ast.literal_eval(tree.args[1]), ast.literal_eval(tree.keywords[0].value)]
        except Exception as e:
            return 'call argument is not a literal: %s' % e
    if got is None:
        return 'unexpected shape: %r' % (val,)
    for g in got:
        if type(g) is not type(s) or g != s:
            return 'literal evaluates to %r' % (g,)
    pieces = PC.string_tokens(text)
    if not pieces:
        return 'no string literal in the output'
    for p in pieces:
        if isinstance(s, bytes) != p.startswith('b'):
            return 'piece %r has the wrong prefix' % p
        body = ast.literal_eval(p)
        if len(body) == 0 and len(s) > 0:
            return 'empty piece %r' % p
    return None


def main(tier):
    run = Run(PROP, tier)
    built = run.build()
    run.prove()
    if built:
        from prettyprinter.prettyprinter import str_to_lines, escape_str_for_quote, determine_quote_strategy
        r = rng(PROP)
        strs = strings(tier, r)
        # ---- direct sub-checks of the helpers against the model ------------
        reqs = [valgen.uni_request()]
        impl = []
        meta = []
        for s in strs:
            isb = isinstance(s, bytes)
            reqs.append('(quote (%s))' % cps(s))
            impl.append('Q %d' % ord(determine_quote_strategy(s)))
            meta.append(('quote', s))
            for q in ("'", '"'):
                reqs.append('(escape %d %d (%s))' % (isb, ord(q), cps(s)))
                impl.append('E ' + ','.join(str(ord(ch)) for ch in escape_str_for_quote(q, s)))
                meta.append(('escape', q, s))
                # the literal-decoding specification PyLit.literal_value vs CPython
                body = escape_str_for_quote(q, s)
                reqs.append('(litval %d %d (%s))' % (isb, ord(q), cps(body)))
                try:
                    val = ast.literal_eval(('b' if isb else '') + q + body + q)
                    impl.append('V ' + ','.join(str(c) for c in (val if isb else map(ord, val))))
                except Exception as e:
                    impl.append('V none')
                meta.append(('literal_value', q, body))
            mls = range(1, 13) if len(s) <= 4 else [r.randint(1, 12), r.randint(10, 40)]
            for ml in mls:
                q = r.choice(["'", '"'])
                try:
                    if PC.TIMEOUTS[0] >= PC.MAX_TIMEOUTS:
                        raise RuntimeError('skipped after calls that did not return')
                    lines = PC.call_with_timeout(lambda: list(str_to_lines(ml, q, s)), 20)
                    res = 'L ' + ' '.join('[%s]' % ','.join(str(c) for c in (ln if isb else map(ord, ln))) for ln in lines)
                    # the helper's own contract
                    if (b'' if isb else '').join(lines) != s or any(len(ln) == 0 for ln in lines):
                        run.violation({'kind': 'oracle', 'detail': 'str_to_lines loses/duplicates characters or yields an '
                                       'empty piece', 's': repr(s), 'max_len': ml, 'quote': q, 'lines': repr(lines)})
                except PC.PrintTimeout:
                    PC.TIMEOUTS[0] += 1
                    res = 'EXC PrintTimeout'
                    run.violation({'kind': 'oracle', 'detail': 'str_to_lines(max_len=%d) did not return within 20 s' % ml,
                                   's': repr(s), 'max_len': ml, 'quote': q})
                except Exception as e:
                    res = 'EXC ' + type(e).__name__
                reqs.append('(str_to_lines %d %d %d (%s) none)' % (isb, ml, ord(q), cps(s)))
                impl.append(res)
                meta.append(('str_to_lines', ml, q, s))
        out = run_driver(reqs, shards=16)[1:]
        hd = 0
        for a, b, m in zip(impl, out, meta):
            if a != b:
                hd += 1
                if hd <= 3:
                    run.sample({'disagreement': {'helper': m[0], 'args': [repr(x) for x in m[1:]], 'impl': a, 'model': b}})
        run.count(len(impl))
        # ---- pformat placements -------------------------------------------
        cases = []
        for s in strs:
            leaf = ('bytes', s) if isinstance(s, bytes) else ('str', s)
            ctxs = CONTEXTS if len(s) <= 2 or r.random() < 0.3 else [r.choice(CONTEXTS)]
            for cx in ctxs:
                t = place(cx, leaf)
                ws = [r.randint(1, 30) for _ in range(2)] + ([r.randint(31, 200)] if len(s) > 20 else [])
                for w in ws:
                    cases.append((cx, t, dict(width=w, ribbon_width=r.choice([1, w, 200]), indent=r.randint(1, 8))))
        res = PC.run_cases(cases)
        run.count(len(res))
        dis = PC.disagreements(res)
        run.coverage['helper_disagreements'] = hd
        run.coverage['disagreements_checked'] = len(dis) + hd
        if dis or hd:
            run.broken.append('correspondence: string helpers (%d) / printer level (%d) disagreements' % (hd, len(dis)))
            for c in dis[:3]:
                run.sample({'disagreement': PC.case_json(c)})
        split = set()
        viol = 0
        for c in res:
            leaf = c.term
            s = None
            # recover the string from the placement
            def find(t):
                if t[0] in ('str', 'bytes'):
                    return t[1]
                if t[0] in ('list', 'tuple'):
                    for x in t[1]:
                        f = find(x)
                        if f is not None:
                            return f
                if t[0] == 'dict':
                    for a, b in t[1]:
                        for x in (a, b):
                            f = find(x)
                            if f is not None:
                                return f
                if t[0] == 'call':
                    return find(t[2][1])
                return None
            s = find(leaf)
            if c.text.startswith('EXC') or c.warnings:
                msg = 'pformat raised or warned: %s %s' % (c.text[:60], c.warnings[:1])
            else:
                msg = oracle_text(s, c.origin, c.text)
                if msg is None and len(PC.string_tokens(c.text)) > (2 if c.origin == 'call-arg' else 1):
                    split.add((c.sx, c.cfg['width']))
            if msg:
                viol += 1
                if viol <= 3:
                    run.violation({'kind': 'oracle', 'detail': msg, 'context': c.origin, 'term': PC.jsonable(c.term),
                                   'cfg': c.cfg, 'impl': c.text})
        run.coverage['distinct_nontrivial'] = len(split)
        run.coverage['strings'] = len(strs)
        run.coverage['rule'] = (
            'all str over {single quote, double quote, backslash, space, newline, a, e-acute, U+1F600, NUL, U+0085} up '
            'to length 3 (thorough: 4), all bytes over a 9-byte alphabet up to length 2 (3), seeded random long '
            'unicode/binary/prose strings incl. code points from every plane; helpers determine_quote_strategy, '
            'escape_str_for_quote (both quotes), str_to_lines (max_len 1..12 for short strings) compared with the '
            'model; each string placed in 6 contexts (top, sole element, one of many, dict key, dict value, call '
            'argument) at widths 1..30 (and larger for long strings). Oracle: literal_eval gives back the value and '
            'type, every piece has the right prefix and is non-empty. non-trivial = distinct (value, width) pairs at '
            'which the literal was split into several pieces')
        for c in res[:2] + res[-2:]:
            run.sample(PC.case_json(c))
    return run.finish()


def replay(path):
    with open(path) as f:
        p = json.load(f)
    if 'term' not in p:
        print(json.dumps(p, indent=1)[:3000])
        return 1
    t = PC.unjson(p['term'])
    c = PC.run_cases([(p.get('context', 'top'), t, p['cfg'])])[0]
    print('impl:', c.text, '\nmodel:', c.model)
    return 1

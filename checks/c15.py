"""C15 - printer dispatch follows the class hierarchy for every registration history."""
import itertools
import re
import json
import sys
import warnings

from common import rng, run_driver
from framework import Run

PROP = 'C15'

# class lattices: list of base-index tuples, in definition order
LATTICES = {
    'chain': [(), (0,), (1,), (2,)],
    'diamond': [(), (0,), (0,), (1, 2), (3,)],
    'two-roots': [(), (), (0, 1), (2,), (1,)],
    'wide': [(), (0,), (0,), (0,), (1, 3)],
}
THR = (1, 0)      # predicate 0 accepts instances with attribute n >= 1 only; predicate 1 looks at the class only
FLAGS = [(cs, cd, rd) for cs in (0, 1) for cd in (0, 1) for rd in (0, 1)]
_counter = [0]


def make_classes(lat):
    _counter[0] += 1
    classes = []
    for k, bases in enumerate(lat):
        classes.append(type('H%d_C%d' % (_counter[0], k), tuple(classes[b] for b in bases) or (object,),
                            {'__repr__': lambda self: 'REPR'}))
    return classes


def registry_dict():
    """the dict behind pretty_dispatch.registry (for cleanup between histories only)"""
    from prettyprinter.prettyprinter import pretty_dispatch
    for cell in pretty_dispatch.register.__closure__ or ():
        try:
            v = cell.cell_contents
        except ValueError:
            continue
        if isinstance(v, dict) and object in v:
            return v
    return None


def cleanup(classes, saved_preds):
    import importlib
    PP = importlib.import_module('prettyprinter.prettyprinter')
    reg = registry_dict()
    if reg is not None:
        for c in classes:
            reg.pop(c, None)
        PP.pretty_dispatch._clear_cache()
    for c in classes:
        PP._DEFERRED_DISPATCH_BY_NAME.pop(PP.get_deferred_key(c), None)
    PP._PREDICATE_REGISTRY[:] = saved_preds


def gen_history(r, ncls, n):
    h = []
    for _ in range(n):
        x = r.random()
        c = r.randrange(ncls)
        if x < 0.16:
            h.append(('rc', c, r.randrange(1, 5)))
        elif x < 0.34:
            h.append(('rn', c, r.randrange(1, 5)))
        elif x < 0.42:
            h.append(('rp', r.randrange(2), r.randrange(5, 8)))
        elif x < 0.72:
            # how the instance reaches the printer: bare, or (first!) through a comment wrapper, top level or nested
            # ... and with an instance attribute n in {0, 1}: predicate 0 looks at the VALUE (accepts n >= 1 only)
            how = r.randrange(1, 6) if r.random() < 0.35 else 0
            n = 1 if r.random() < 0.4 else 0
            h.append(('pr', c, how, n) if (how or n) else ('pr', c))
        else:
            h.append(('ir', c) + r.choice(FLAGS))
    return h


def _shown(obj, how):
    from prettyprinter import comment, trailing_comment
    if how == 1:
        return comment(obj, 'c')
    if how == 2:
        return trailing_comment(obj, 't')
    if how == 3:
        return [comment(obj, 'c')]
    if how == 4:
        return {1: trailing_comment(obj, 't')}
    if how == 5:
        return (comment(trailing_comment(obj, 't'), 'c'), 0)
    return obj


def run_impl(lat, acc, h):
    """execute the history on the implementation -> list of observation strings"""
    import importlib
    PP = importlib.import_module('prettyprinter.prettyprinter')
    from prettyprinter import pformat, register_pretty, is_registered
    classes = make_classes(lat)
    saved = list(PP._PREDICATE_REGISTRY)
    obs = []
    pred_objs = {}
    try:
        with warnings.catch_warnings():
            warnings.simplefilter('ignore')
            for op in h:
                if op[0] == 'rc':
                    register_pretty(classes[op[1]])(lambda v, ctx, _t='P%d' % op[2]: _t)
                    obs.append('-')
                elif op[0] == 'rn':
                    register_pretty(PP.get_deferred_key(classes[op[1]]))(lambda v, ctx, _t='P%d' % op[2]: _t)
                    obs.append('-')
                elif op[0] == 'rp':
                    # ONE predicate object per accepted set within a history: registering it again (with the
                    # same or another printer) adds a later entry and leaves the first-registered one first
                    if op[1] not in pred_objs:
                        S = tuple(classes[k] for k in acc[op[1]])
                        pred_objs[op[1]] = lambda v, _S=S, _thr=THR[op[1]]: type(v) in _S and getattr(v, 'n', 0) >= _thr
                    register_pretty(predicate=pred_objs[op[1]])(lambda v, ctx, _t='P%d' % op[2]: _t)
                    obs.append('-')
                elif op[0] == 'pr':
                    try:
                        inst = classes[op[1]]()
                        if len(op) > 3 and op[3]:
                            inst.n = op[3]
                        t = pformat(_shown(inst, op[2] if len(op) > 2 else 0))
                        m = re.search(r'P\d+|REPR', t)
                        t = m.group(0) if m else t
                    except Exception as e:
                        t = 'EXC:' + type(e).__name__
                    obs.append('R' if t == 'REPR' else t)
                else:
                    _k, c, cs, cd, rd = op
                    try:
                        b = is_registered(classes[c], check_superclasses=bool(cs), check_deferred=bool(cd),
                                          register_deferred=bool(rd))
                        obs.append('T' if b is True else 'F' if b is False else '?%r' % (b,))
                    except ValueError:
                        obs.append('E')
    finally:
        cleanup(classes, saved)
    mro = [[classes.index(k) for k in c.__mro__ if k is not object] for c in classes]
    return obs, mro


def spec(lat_mro, acc, h):
    """the rule of the property, written independently of model and code.
    is_registered with check_deferred=False is left unconstrained ('*') except
    that the illegal combination raises."""
    latest = {}
    preds = []
    out = []
    for op in h:
        if op[0] in ('rc', 'rn'):
            latest[op[1]] = op[2]
            out.append('-')
        elif op[0] == 'rp':
            preds.append((op[1], op[2]))
            out.append('-')
        elif op[0] == 'pr':
            c = op[1]
            for s in lat_mro[c]:
                if s in latest:
                    out.append('P%d' % latest[s])
                    break
            else:
                n = op[3] if len(op) > 3 else 0
                for q, p in preds:
                    if c in acc[q] and n >= THR[q]:
                        out.append('P%d' % p)
                        break
                else:
                    out.append('R')
        else:
            _k, c, cs, cd, rd = op
            if not cd and rd:
                out.append('E')
            elif not cd:
                out.append('*')
            else:
                out.append('T' if any(s in latest for s in (lat_mro[c] if cs else [c])) else 'F')
    return out


def request(mro, acc, h):
    """the model's predicates are applied to instance tags: an instance of class c with attribute n is the tag
    c + ncls * n; the value-dependent predicate (THR = 1) accepts only the tags with n = 1"""
    ncls = len(mro)
    vacc = [[c for c in l if THR[q] <= 0] + [c + ncls for c in l] for q, l in enumerate(acc)]
    m = ' '.join('(%d %s)' % (k, ' '.join(str(x) for x in l)) for k, l in enumerate(mro))
    a = ' '.join('(%d %s)' % (q, ' '.join(str(x) for x in l)) for q, l in enumerate(vacc))

    def enc(op):
        if op[0] == 'pr':
            return ('pr', op[1], op[1] + (ncls if len(op) > 3 and op[3] else 0))
        return op
    ops = ' '.join('(%s)' % ' '.join(str(x) for x in enc(op)) for op in h)
    return '(dispatch (%s) (%s) (%s))' % (m, a, ops)


def shrink_history(lat, acc, h, bad):
    h = list(h)
    changed = True
    while changed:
        changed = False
        for k in range(len(h)):
            cand = h[:k] + h[k + 1:]
            if cand and bad(cand):
                h = cand
                changed = True
                break
    return h


def oracle_fails(lat, acc, h):
    obs, mro = run_impl(lat, acc, h)
    sp = spec(mro, acc, h)
    return any(s != '*' and s != o for s, o in zip(sp, obs))


_pos_counter = [0]
POSITIONS = ('top', 'list', 'tuple', 'dictval', 'dictkey', 'set', 'frozenset', 'callarg', 'callkw', 'nested')


def position_cases():
    """a printer registered (directly / by name / for the base) for a subclass of EVERY built-in type is the
    one used wherever the instance stands: also as a dict key, a set element, a call argument"""
    out = []
    for base in (str, bytes, int, float, tuple, frozenset, list, dict, set, object):
        for how in ('direct', 'name', 'base'):
            for pos in POSITIONS:
                if pos in ('dictkey', 'set', 'frozenset') and base in (list, dict, set):
                    continue
                out.append((base.__name__, how, pos))
    return out


def position_oracle(basename, how, pos):
    import builtins
    import importlib
    from prettyprinter import pformat, register_pretty, pretty_call
    PP = importlib.import_module('prettyprinter.prettyprinter')
    base = getattr(builtins, basename)
    _pos_counter[0] += 1
    mid = type('PosBase%d' % _pos_counter[0], (base,), {})
    cls = type('Pos%d' % _pos_counter[0], (mid,), {})
    for c in (mid, cls):
        c.__module__ = 'c15'
        c.__qualname__ = c.__name__
        setattr(sys.modules[__name__], c.__name__, c)

    def printer(value, ctx):
        return 'PRINTED-BY-ITS-PRINTER'
    if how == 'direct':
        register_pretty(cls)(printer)
    elif how == 'name':
        register_pretty('c15.' + cls.__name__)(printer)
    else:
        register_pretty(mid)(printer)
    raw = {'str': 'txt', 'bytes': b'txt', 'int': 5, 'float': 2.5, 'tuple': (1, 2), 'frozenset': [1], 'list': [1],
           'dict': {'a': 1}, 'set': [1], 'object': None}[basename]
    x = cls() if base is object else cls(raw)
    holder = valgen_holder(x, pos)
    saved = list(PP._PREDICATE_REGISTRY)
    try:
        with warnings.catch_warnings():
            warnings.simplefilter('ignore')
            text = pformat(holder, width=30)
    except Exception as e:
        return 'pformat raised %s: %s' % (type(e).__name__, e)
    finally:
        cleanup([mid, cls], saved)
    if 'PRINTED-BY-ITS-PRINTER' not in text:
        return ('an instance of a %s subclass whose printer was registered (%s) is not printed by it in position %s:\n%s'
                % (basename, how, pos, text[:300]))
    return None


class _Call:
    def __init__(self, args, kwargs):
        self.args, self.kwargs = args, kwargs


def valgen_holder(x, pos):
    from prettyprinter import register_pretty, pretty_call, is_registered
    if not is_registered(_Call):
        @register_pretty(_Call)
        def _pc(value, ctx):
            return pretty_call(ctx, 'Call', *value.args, **value.kwargs)
    return {'top': x, 'list': [1, x], 'tuple': (x,), 'dictval': {'k': x}, 'dictkey': None, 'set': None, 'frozenset': None,
            'callarg': _Call([x, 1], {}), 'callkw': _Call([], {'kw': x}), 'nested': [{'a': (1, [x])}]}[pos] \
        if pos not in ('dictkey', 'set', 'frozenset') else \
        ({x: 1, 'other': 2} if pos == 'dictkey' else {x} if pos == 'set' else frozenset([x]))


def main(tier):
    run = Run(PROP, tier)
    built = run.build()
    run.prove()
    if built:
        r = rng(PROP)
        npos = 0
        for basename, how, pos in position_cases():
            npos += 1
            run.count(1)
            msg = position_oracle(basename, how, pos)
            if msg and len(run.violations) < 6:
                run.violation({'kind': 'position', 'detail': msg, 'base': basename, 'how': how, 'position': pos})
        run.coverage['registered_printer_position_cases'] = npos
        cases = []
        # corpus: the repaired stale-deferred history and friends
        cases.append(('chain', [[1], [2]], [('rn', 0, 2), ('rc', 0, 1), ('pr', 0), ('pr', 1), ('pr', 0)]))
        cases.append(('chain', [[1], [2]], [('rn', 0, 1), ('pr', 0), ('rn', 0, 2), ('pr', 0), ('pr', 1), ('pr', 0)]))
        cases.append(('diamond', [[3], [0, 4]], [('rn', 2, 1), ('rc', 1, 2), ('rp', 1, 5), ('pr', 3), ('pr', 4),
                                                 ('ir', 3, 1, 1, 0), ('pr', 0)]))
        for how in range(1, 6):
            cases.append(('chain', [[1], [2]], [('rn', 0, 1), ('pr', 1, how), ('pr', 1), ('rn', 0, 2), ('pr', 0, how)]))
            cases.append(('diamond', [[3], [0, 4]], [('rn', 1, 3), ('rp', 0, 5), ('pr', 3, how), ('pr', 1, how)]))
        cases.append(('chain', [[0, 1], [0, 1]], [('rp', 0, 5), ('rp', 1, 6), ('pr', 0, 0, 0), ('pr', 0, 0, 1), ('pr', 1, 0, 1),
                                                   ('pr', 1, 0, 0), ('pr', 0, 3, 1)]))
        cases.append(('chain', [[2], [2, 3]], [('rp', 1, 7), ('rp', 0, 5), ('pr', 2, 0, 1), ('pr', 2, 0, 0), ('pr', 3, 0, 1)]))
        n = 2500 if tier == 'quick' else 40000
        names = list(LATTICES)
        for _ in range(n):
            ln = r.choice(names)
            lat = LATTICES[ln]
            acc = [sorted(r.sample(range(len(lat)), r.randint(0, 3))) for _ in range(2)]
            cases.append((ln, acc, gen_history(r, len(lat), r.randint(2, 14))))
        if tier == 'thorough':
            # exhaustive short histories on the 3-class chain
            alpha = [('rc', c, p) for c in range(3) for p in (1, 2)] + [('rn', c, p) for c in range(3) for p in (1, 2)] \
                + [('pr', c) for c in range(3)] + [('ir', 2, 1, 1, 1), ('ir', 2, 1, 1, 0), ('ir', 1, 0, 1, 0)]
            for L in (1, 2, 3, 4):
                for h in itertools.product(alpha, repeat=L):
                    cases.append(('chain3', [[], []], list(h)))
        LATTICES['chain3'] = [(), (0,), (1,)]
        reqs, impl_obs, specs = [], [], []
        nontrivial = 0
        ophist = {}
        for ln, acc, h in cases:
            obs, mro = run_impl(LATTICES[ln], acc, h)
            impl_obs.append(obs)
            reqs.append(request(mro, acc, h))
            specs.append(spec(mro, acc, h))
            run.count(len(h))
            for op in h:
                ophist[op[0]] = ophist.get(op[0], 0) + 1
            if any(o.startswith('P') for o in obs) and any(op[0] == 'rn' for op in h):
                nontrivial += 1
        out = run_driver(reqs, shards=8)
        dis = 0
        for k, (obs, line) in enumerate(zip(impl_obs, out)):
            if ' '.join(obs) != line:
                dis += 1
                if dis <= 3:
                    run.sample({'disagreement': {'lattice': cases[k][0], 'accepts': cases[k][1],
                                                 'history': cases[k][2], 'impl': ' '.join(obs), 'model': line}})
        if dis:
            run.broken.append('correspondence: registry state machine (which printer ran / is_registered answers), '
                              '%d disagreeing histories' % dis)
        # property oracle on the implementation
        bad = 0
        for k, (obs, sp) in enumerate(zip(impl_obs, specs)):
            if any(s != '*' and s != o for s, o in zip(sp, obs)):
                bad += 1
                if bad <= 3:
                    ln, acc, h = cases[k]
                    small = shrink_history(LATTICES[ln], acc, h, lambda c: oracle_fails(LATTICES[ln], acc, c))
                    o2, mro = run_impl(LATTICES[ln], acc, small)
                    run.violation({'kind': 'oracle', 'lattice': ln, 'bases': LATTICES[ln], 'accepts': acc,
                                   'history': small, 'impl': o2, 'rule': spec(mro, acc, small)})
        run.coverage['disagreements_checked'] = dis
        run.coverage['histories'] = len(cases)
        run.coverage['distinct_nontrivial'] = nontrivial
        run.coverage['operation_histogram'] = ophist
        run.coverage['rule'] = (
            'subclasses of every built-in type (and of object) with a printer registered directly / by name / for an '
            'intermediate base, printed at 10 positions (top, list / tuple / set / frozenset element, dict key and value, '
            'call argument and keyword, nested): the registered printer is the one used; '
            'histories of register-by-class / register-by-name / register-predicate / print / is_registered(all 8 '
            'flag combinations) on class lattices chain, diamond, two-roots, wide (fresh classes per history, MROs '
            'computed by CPython); corpus first, then seeded random histories of length 2-14 (thorough: also all '
            'histories up to length 4 over an 18-operation alphabet on a 3-class chain). Observations (printer tag / '
            'repr, True/False/ValueError) compared step by step with the extracted model drun and with the rule '
            'written independently in Python. non-trivial = histories with a by-name registration in which a '
            'registered printer ran')
        run.sample({'lattice': cases[5][0], 'accepts': cases[5][1], 'history': cases[5][2], 'impl': impl_obs[5],
                    'model': out[5]})
    return run.finish()


def replay(path):
    with open(path) as _f:
        _p = json.load(_f)
    if _p.get('kind') == 'position':
        msg = position_oracle(_p['base'], _p['how'], _p['position'])
        print('oracle:', msg)
        return 1 if msg else 0
    return _replay_history(path)


def _replay_history(path):
    with open(path) as f:
        p = json.load(f)
    if 'history' not in p:
        print(json.dumps(p, indent=1)[:3000])
        return 1
    lat = [tuple(b) for b in p['bases']]
    h = [tuple(op) for op in p['history']]
    obs, mro = run_impl(lat, p['accepts'], h)
    sp = spec(mro, p['accepts'], h)
    print('history:', h, '\nimpl:', obs, '\nrule:', sp)
    return 1 if any(s != '*' and s != o for s, o in zip(sp, obs)) else 0

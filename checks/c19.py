"""C19 - output depends only on the value and the settings; inputs are never modified."""
import collections
import json
import os
import subprocess
import sys
import warnings

import c19corpus as CP
import printercheck as PC
import valgen
from common import rng, VERIF
from framework import Run

PROP = 'C19'


def snap(v, seen=None):
    """canonical deep snapshot: structure, identities, order"""
    seen = seen if seen is not None else {}
    if id(v) in seen:
        return ('ref', seen[id(v)])
    if isinstance(v, (list, tuple, set, frozenset, dict, collections.deque, collections.ChainMap)) or hasattr(v, '__dict__'):
        seen[id(v)] = len(seen)
    t = type(v).__name__
    if isinstance(v, dict):
        extra = (getattr(v, 'default_factory', None),) if isinstance(v, collections.defaultdict) else ()
        return (t, id(v), extra, [(snap(k, seen), snap(x, seen)) for k, x in v.items()])
    if isinstance(v, (list, tuple, collections.deque)):
        return (t, id(v), getattr(v, 'maxlen', None), [snap(x, seen) for x in v])
    if isinstance(v, (set, frozenset)):
        return (t, id(v), sorted((repr(snap(x, seen)) for x in v)))
    if isinstance(v, collections.ChainMap):
        return (t, id(v), [snap(m, seen) for m in v.maps])
    if hasattr(v, '__dict__') and not isinstance(v, type):
        return (t, id(v), [(k, snap(x, seen)) for k, x in vars(v).items()])
    return (t, repr(v))


def fresh(indices):
    env = dict(os.environ)
    env['PYTHONPATH'] = os.pathsep.join([os.environ.get('VERIF_REPO', '/repo'), os.path.join(VERIF, 'harness')])
    p = subprocess.run([sys.executable, os.path.join(VERIF, 'harness', 'c19corpus.py')] + [str(i) for i in indices],
                       stdout=subprocess.PIPE, stderr=subprocess.PIPE, text=True, env=env, timeout=1200)
    if p.returncode != 0:
        raise RuntimeError('c19 worker failed: ' + p.stderr[-500:])
    return json.loads(p.stdout)


def main(tier):
    run = Run(PROP, tier)
    built = run.build()
    run.prove()
    if built:
        from prettyprinter import pformat
        r = rng(PROP)
        CP.register()
        corpus = CP.build()
        objs = [CP.materialize(e) for e in corpus]
        n = len(objs)
        # reference: every entry printed FIRST in a fresh interpreter (cold lookups, nothing warm)
        idxs = list(range(n)) if tier != 'quick' else sorted(r.sample(range(40), 10) + list(range(40, n)))
        ref = {}
        from concurrent.futures import ThreadPoolExecutor
        with ThreadPoolExecutor(max_workers=12) as ex:
            for i, out in zip(idxs, ex.map(lambda i: fresh([i]), idxs)):
                ref[i] = out[str(i)]
        # histories in this interpreter: natural, reversed, random with repetitions
        rounds = 3 if tier == 'quick' else 12
        history = list(range(n)) + list(reversed(range(n)))
        for _ in range(rounds):
            history += [r.randrange(n) for _ in range(n)]
        seen_out = {}
        viol = 0
        prints = 0
        # natural and reversed order: every configuration of each entry; then single (entry, configuration)
        # prints in random order, so that no entry is always printed an even number of times in a row
        steps = [(i, None) for i in history[:2 * n]] + [(i, r.randrange(len(CP.CFGS))) for i in history[2 * n:]]
        for i, only in steps:
            v = objs[i]
            before = snap(v)
            outs = []
            ks = range(len(CP.CFGS)) if only is None else [only]
            for k in ks:
                with warnings.catch_warnings():
                    warnings.simplefilter('ignore')
                    outs.append(pformat(v, **CP.CFGS[k]))
                prints += 1
            after = snap(v)
            msg = None
            if before != after:
                msg = 'printing modified the value (snapshot before/after differs)'
            else:
                for k, out in zip(ks, outs):
                    if i in ref and out != ref[i][k]:
                        msg = 'output after this history differs from the first print in a fresh interpreter (cfg %r):\n%s\n--- fresh ---\n%s' % (
                            CP.CFGS[k], out[:300], ref[i][k][:300])
                        break
                    if (i, k) in seen_out and seen_out[(i, k)] != out:
                        msg = 'the same call gave different text at two points of the history (cfg %r):\n%s\n--- earlier ---\n%s' % (
                            CP.CFGS[k], out[:300], seen_out[(i, k)][:300])
                        break
                    seen_out.setdefault((i, k), out)
            if msg:
                viol += 1
                if viol <= 3:
                    run.violation({'kind': 'oracle', 'detail': msg, 'corpus_index': i,
                                   'entry': repr(corpus[i])[:300], 'history_prefix': [list(x) for x in steps[:steps.index((i, only)) + 1][-30:]]})
        run.count(prints)
        # a print that FAILS (the value's repr raises, so the fallback raises too) is part of the history as
        # well: afterwards the objects it was printing - and everything else - print as before
        class Flaky:
            broken = True

            def __repr__(self):
                if Flaky.broken:
                    raise RuntimeError('repr not available yet')
                return 'Flaky()'
        Flaky.__module__ = 'c19'
        nfail = 0
        for i in r.sample(range(n), min(n, 12 if tier == 'quick' else n)):
            v = objs[i]
            if not isinstance(v, (list, dict, tuple)) or not v:
                continue
            fl = Flaky()
            holder = [v, {'inner': v, 'flaky': [fl]}]
            Flaky.broken = False
            with warnings.catch_warnings():
                warnings.simplefilter('ignore')
                first = [pformat(holder, **cfg) for cfg in CP.CFGS]
                Flaky.broken = True
                try:
                    pformat(holder)
                    raised = False
                except RuntimeError:
                    raised = True
                Flaky.broken = False
                again = [pformat(holder, **cfg) for cfg in CP.CFGS]
                outs = [pformat(v, **cfg) for cfg in CP.CFGS]
            nfail += 1
            prints += 9
            msg = None
            if not raised:
                msg = 'internal: the failing print did not fail'
            elif again != first:
                msg = 'after a print of it FAILED, the same value prints differently:\n%s\n--- before ---\n%s' % (
                    again[0][:300], first[0][:300])
            elif all((i, k) in seen_out for k in range(len(CP.CFGS))) and outs != [seen_out[(i, k)] for k in range(len(CP.CFGS))]:
                msg = 'after a print of a container holding it failed, the value prints differently:\n%s' % outs[0][:300]
            if msg:
                viol += 1
                if viol <= 3:
                    run.violation({'kind': 'failed-print', 'detail': msg, 'corpus_index': i, 'entry': repr(corpus[i])[:300]})
        run.coverage['failed_print_histories'] = nfail
        # changes of the DEFAULT configuration are part of the history too: after any prints and any number of
        # set_default_config calls, a call without settings prints what the same call with the reported
        # settings spelled out prints - and after the defaults are put back, what it printed at the start
        import prettyprinter as P
        factory = dict(P.get_default_config())
        settable = {k: x for k, x in factory.items() if k != 'indent'}     # set_default_config takes no indent
        ndef = 0
        try:
            for i in r.sample(range(n), min(n, 14 if tier == 'quick' else n)):
                v = objs[i]
                with warnings.catch_warnings():
                    warnings.simplefilter('ignore')
                    start = pformat(v)
                    msg = None
                    for K in (dict(width=30, max_seq_len=2), dict(depth=1), dict(sort_dict_keys=True, ribbon_width=20),
                              dict(width=200)):
                        pformat(None)
                        P.set_default_config(**K)
                        a = pformat(v)
                        b = pformat(v, **dict(factory, **K))
                        ndef += 1
                        prints += 3
                        if a != b:
                            msg = 'after set_default_config(%r) a call without settings prints\n%s\n--- with the same settings spelled out ---\n%s' % (
                                K, a[:300], b[:300])
                            break
                        P.set_default_config(**settable)
                    P.set_default_config(**settable)
                    if msg is None and pformat(v) != start:
                        msg = 'after the defaults were changed and put back, the value prints differently'
                if msg:
                    viol += 1
                    if viol <= 6:
                        run.violation({'kind': 'default-config-history', 'detail': msg, 'corpus_index': i,
                                       'entry': repr(corpus[i])[:300]})
        finally:
            P.set_default_config(**settable)
        run.coverage['default_config_histories'] = ndef
        # the stateless model agrees with the implementation after all that history
        cases = [('after-history', e[1], cfg) for e in corpus if e[0] == 'model' for cfg in (dict(width=30), dict(width=79, indent=2))]
        res = PC.run_cases(cases)
        dis = PC.disagreements(res)
        run.count(len(res))
        if dis:
            run.broken.append('correspondence: pformat after a long call history vs the stateless model, %d disagreements' % len(dis))
            run.sample({'disagreement': PC.case_json(dis[0])})
        run.coverage['disagreements_checked'] = len(dis)
        run.coverage['distinct_nontrivial'] = len(ref)
        run.coverage['history_length'] = len(history)
        run.coverage['rule'] = (
            'corpus of %d values (40 random model-universe trees incl. subclasses / comments / pretty_call objects; 24 '
            'standard-library and user values: datetime family, OrderedDict, defaultdict, deque, Counter, ChainMap, '
            'mappingproxy, UUID, Enum, SimpleNamespace, namedtuple, partial, exception, path, struct sequence, a class '
            'whose printer is registered lazily by name, its subclass, an eagerly registered class, nestings of these) x '
            '4 configurations. Reference: each entry printed FIRST in its own fresh interpreter (cold dispatch, cold '
            'caches, untouched layout constants). History in one interpreter: natural order, reversed, %d random '
            'rounds with repetitions, and prints that FAIL half-way (an element whose repr raises) followed by prints of '
            'the same objects; every output must equal the fresh-interpreter one and every earlier output of the '
            'same call; a canonical deep snapshot (structure, identities, dict/deque order, default_factory, maps) of '
            'the value is compared before/after every print. Afterwards pformat is compared with the stateless model. '
            'non-trivial = entries with a fresh-interpreter reference' % (n, rounds))
    return run.finish()


def replay(path):
    with open(path) as f:
        p = json.load(f)
    print(json.dumps(p, indent=1)[:3000])
    if 'corpus_index' not in p:
        return 1
    from prettyprinter import pformat
    CP.register()
    corpus = CP.build()
    objs = [CP.materialize(e) for e in corpus]
    i = p['corpus_index']
    ref = fresh([i])[str(i)]
    for j in p.get('history_prefix', [i]):
        before = snap(objs[j])
        with warnings.catch_warnings():
            warnings.simplefilter('ignore')
            outs = [pformat(objs[j], **cfg) for cfg in CP.CFGS]
        if snap(objs[j]) != before:
            print('value modified')
            return 1
    print('now:', outs[0][:200], '\nfresh:', ref[0][:200])
    return 0 if outs == ref else 1

"""C03 - width, ribbon and indent change only the layout, never the content."""
import printercheck as PC
import pprop
import valgen
from common import rng

PROP = 'C03'
FEATURES = {'sub', 'comment', 'trailing', 'call', 'path'}


def other_cfgs(r, cfg):
    out = []
    for _ in range(3):
        w = r.choice([1, 2, 3, 5, 8, 13, 21, 40, 79, 200, r.randint(1, 200)])
        c = dict(cfg)
        c.update(width=w, ribbon_width=r.choice([1, max(1, w // 2), w, r.randint(1, 200)]), indent=r.randint(1, 8))
        out.append(c)
    return out


def make_oracle():
    r = rng(PROP + '/oracle')

    def oracle(c):
        if c.text.startswith('EXC '):
            return 'pformat raised ' + c.text
        try:
            tree = PC.parse_text(c.text)
        except SyntaxError as e:
            return 'output does not parse: %s' % e
        ind = c.cfg.get('indent', 4)
        for line in c.text.split('\n'):
            lead = len(line) - len(line.lstrip(' '))
            if line.strip() and lead % ind != 0:
                return 'line %r is indented by %d, not a multiple of indent=%d' % (line[:40], lead, ind)
        for cfg2 in other_cfgs(r, c.cfg):
            text2, _w = PC.impl_pformat(c.value, cfg2)
            try:
                tree2 = PC.parse_text(text2)
            except SyntaxError as e:
                return 'output under %r does not parse: %s' % (cfg2, e)
            if tree2 != tree:
                return 'syntax tree under %r differs from the one under %r:\n%s\n--- vs ---\n%s' % (
                    cfg2, c.cfg, text2[:400], c.text[:400])
            ind2 = cfg2['indent']
            for line in text2.split('\n'):
                lead = len(line) - len(line.lstrip(' '))
                if line.strip() and lead % ind2 != 0:
                    return 'under %r line %r is indented by %d, not a multiple of indent' % (cfg2, line[:40], lead)
        return None
    return oracle


def cases_for(tier):
    r = rng(PROP)
    cases = []
    n = 1500 if tier == 'quick' else 25000
    for i in range(n):
        feats = FEATURES if i % 3 else set()
        t = valgen.rand_val(r, r.randint(2, 30), feats)
        v, _ = valgen.build(t)
        cmp_ok = PC.comparable(v)
        for cfg in PC.std_cfgs(r, 2, sort=(r.random() < 0.4 and cmp_ok)):
            if r.random() < 0.25:
                cfg['depth'] = r.choice([0, 1, 2, 3])
            if r.random() < 0.25:
                cfg['max_seq_len'] = r.choice([1, 2, 3])
            cases.append(('random', t, cfg))
    # long str / bytes whose only break opportunities are punctuation (no whitespace at all), and long sequences
    # around the lengths at which the printers decide by themselves: the tree must not depend on where - or
    # whether - a literal is split or a sequence is broken
    for i in range(120 if tier == 'quick' else 2000):
        isb = i % 2 == 0
        leaf = ('bytes' if isb else 'str', valgen.rand_punct_text(r, isb))
        t = r.choice([leaf, ('list', [leaf, ('int', 1)]), ('dict', [(leaf, leaf)]), ('call', 'make', [leaf], [('kw', leaf)])])
        for cfg in PC.std_cfgs(r, 2):
            cases.append(('punct', t, cfg))
    for ln in (49, 50, 51):
        for t in (('list', [('int', k) for k in range(ln)]), ('tuple', [('int', 0)] * ln),
                  ('list', [('list', [('int', k) for k in range(ln)]), ('int', 1)])):
            for w in (79, 160, 400):
                cases.append(('fifty', t, dict(width=w, ribbon_width=w)))
    return cases


RULE = ('seeded random value trees up to 30 nodes (built-ins; 2/3 of them with user subclasses of the nine base '
        'types incl. __repr__/__str__ overrides and IntEnum, comment()/trailing_comment() wrappers with adversarial '
        'texts, objects printed through pretty_call_alt, pure paths) x 2 base configurations (width, ribbon, indent '
        '1..8, sort, sometimes depth / max_seq_len) each compared with 3 further (width, ribbon_width, indent) '
        'choices from [1,200]x[1,200]x[1,8]: ast.dump of "(" + text + "\\n)" must be identical, every non-blank '
        'line indented by a multiple of indent. Every base case is also compared with the model.')


def main(tier):
    return pprop.run_property(PROP, tier, cases_for(tier), make_oracle(), RULE)


def replay(path):
    return pprop.replay_property(path, make_oracle())

"""C12 - printing terminates and its work grows polynomially with the input."""
import json

import docgen
import stepcount
import valgen
from common import rng, run_driver
from framework import Run

PROP = 'C12'
F_EXP = 'C12-commented-dict-exponential'
BUDGET = 6_000_000       # LINE events: a run beyond this counts as non-terminating for the check
RATIO = 10.0              # doubling the parameter may multiply the steps by at most this (cubic + slack)


def t_nest(n, leaf=('int', 0), kind='list'):
    t = leaf
    for _ in range(n):
        t = (kind, [t])
    return t


def t_cdict(n):
    t = ('int', 0)
    for _ in range(n):
        t = ('dict', [(('str', 'a'), ('commented', t, 'c'))])
    return t


def t_clist(n):
    t = ('int', 0)
    for _ in range(n):
        t = ('list', [('commented', t, 'a comment of several words'), ('int', 1)])
    return t


def t_ckeys(n):
    t = ('int', 0)
    for _ in range(n):
        t = ('dict', [(('commented', ('str', 'k'), 'key note'), t)])
    return t


FAMILIES = {
    'nested-lists': (lambda n: t_nest(n), [10, 20, 40, 80]),
    'nested-tuples': (lambda n: t_nest(n, kind='tuple'), [10, 20, 40, 80]),
    'nested-dicts': (lambda n: __import__('functools').reduce(lambda t, _i: ('dict', [(('str', 'k'), t)]), range(n), ('int', 0)), [10, 20, 40, 80]),
    'flat-list': (lambda n: ('list', [('int', i) for i in range(n)]), [50, 100, 200, 400]),
    'flat-dict': (lambda n: ('dict', [(('int', i), ('str', 'v%d' % i)) for i in range(n)]), [25, 50, 100, 200]),
    'flat-set': (lambda n: ('set', [('int', i) for i in range(n)]), [25, 50, 100, 200]),
    'long-prose-string': (lambda n: ('str', 'word ' * n), [50, 100, 200, 400]),
    'long-unbroken-string': (lambda n: ('str', 'x' * n), [100, 200, 400, 800]),
    'long-bytes': (lambda n: ('bytes', b'ab\x00 ' * n), [50, 100, 200, 400]),
    'string-nested-until-no-width-is-left': (lambda n: t_nest(n, leaf=('str', 'some words to split ' * 5)), [10, 20, 40, 80]),
    'list-of-strings': (lambda n: ('list', [('str', 'some words to split ' * 6)] * 1 + [('str', 'w' * (i % 50)) for i in range(n)]), [25, 50, 100, 200]),
    'commented-list-elements-at-every-level': (lambda n: t_clist(n), [5, 10, 20, 40]),
    'commented-dict-keys-at-every-level': (lambda n: t_ckeys(n), [5, 10, 20, 40]),
    'calls-nested': (lambda n: __import__('functools').reduce(lambda t, _i: ('call', 'make', [t], [('kw', ('int', 1))]), range(n), ('int', 0)), [10, 20, 40, 80]),
    'wide-and-deep': (lambda n: t_nest(n // 4, leaf=('list', [('int', i) for i in range(n)])), [16, 32, 64, 128]),
    'commented-dict-values-at-every-level': (lambda n: t_cdict(n), [4, 6, 8, 10]),
}


def t_chain(n, kind, wrap, arity):
    """n nested containers of one kind; the element holding the next level carries the wrapper(s)"""
    t = ('int', 0)
    for _ in range(n):
        x = t
        if wrap in ('trailing', 'both') and t[0] in ('list', 'tuple', 'dict'):
            x = ('trailing', x, 'tail words')
        if wrap in ('commented', 'both'):
            x = ('commented', x, 'note of several words')
        els = [x] + ([('int', 1)] if arity == 2 else [])
        if kind == 'dictval':
            t = ('dict', [(('str', 'a'), x)] + ([(('str', 'b'), ('int', 1))] if arity == 2 else []))
        elif kind == 'call':
            t = ('call', 'make', els, [])
        elif kind == 'callkw':
            t = ('call', 'make', [], [('kw', x)] + ([('other', ('int', 1))] if arity == 2 else []))
        else:
            t = (kind, els)
    return t




def t_wraps(n, pattern):
    """n comment wrappers on ONE node (inside a list): all comments, all trailing, alternating"""
    t = ('list', [('int', 1), ('int', 2)])
    for k in range(n):
        kind = {'c': 'commented', 't': 'trailing', 'a': ('commented' if k % 2 else 'trailing')}[pattern]
        t = (kind, t, 'w%d' % k)
    return ('list', [t, ('int', 0)])


def t_runs(n, what):
    """long runs of one byte / character class, at top level and nested until no width is left"""
    unit = {'cont': b'\xaa', 'hi': b'\xff', 'nul': b'\x00', 'quote': b"'", 'bs': b'\\'}.get(what)
    if unit is not None:
        leaf = ('bytes', unit * n)
    else:
        leaf = ('str', {'nbsp': '\xa0', 'emoji': '\U0001F600', 'nl': '\n', 'tab': '\t', 'combining': 'e\u0301'}[what] * n)
    return ('list', [leaf, t_nest(n // 4, leaf=leaf)])


def t_deep_key(n, kind, commented):
    """a dict whose keys are tuples / frozensets nested n levels deep (sorted on request)"""
    def key(seed):
        t = ('commented', ('int', seed), 'c') if commented else ('int', seed)
        for _ in range(n):
            t = (kind, [t])
        return t
    return ('dict', [(key(2), ('int', 0)), (key(1), ('int', 1))])


for _k in ('tuple', 'frozenset'):
    for _c in (False, True):
        FAMILIES['deep-%s-keys%s' % (_k, '-commented' if _c else '')] = (
            lambda n, k=_k, c=_c: t_deep_key(n, k, c), [4, 8, 16, 32])
for _w in ('cont', 'hi', 'nul', 'quote', 'bs', 'nbsp', 'emoji', 'nl', 'tab', 'combining'):
    FAMILIES['runs-of-%s' % _w] = (lambda n, w=_w: t_runs(n, w), [20, 40, 80, 160])
for _pat in ('c', 't', 'a'):
    FAMILIES['wrappers-on-one-node-%s' % _pat] = (lambda n, p=_pat: t_wraps(n, p), [2, 4, 8, 16])
for _kind in ('list', 'tuple', 'dictval', 'call', 'callkw'):
    for _wrap in ('commented', 'trailing', 'both'):
        for _ar in (1, 2):
            if _kind == 'dictval' and _wrap != 'trailing':
                continue        # the open finding: see commented-dict-values-at-every-level
            FAMILIES['chain-%s-%s-%d' % (_kind, _wrap, _ar)] = (
                lambda n, k=_kind, w=_wrap, a=_ar: t_chain(n, k, w, a), [5, 10, 20, 40])
def t_key_then_groups(n, key, tail):
    """a dict whose KEY is a container / call (a group followed on its line by more document), whose value holds n
    further small groups and ends in something that cannot fit (every look-ahead that gets that far fails late)"""
    k = {'tuple': ('tuple', [('int', 1), ('int', 2)]), 'frozenset': ('frozenset', [('int', 1)]),
         'call': ('call', 'make', [('int', 1)], [])}[key]
    last = {'int': ('int', 10 ** 90), 'str': ('str', 'x' * 120), 'prose': ('str', 'some words ' * 20)}[tail]
    return ('dict', [(k, ('list', [('list', [('int', i)]) for i in range(n)] + [last]))])


def t_key_chain(n, key, tail):
    """n nested dicts each with a container key; the innermost value cannot fit"""
    last = {'int': ('int', 10 ** 90), 'str': ('str', 'x' * 120), 'prose': ('str', 'some words ' * 20)}[tail]
    t = last
    for _ in range(n):
        k = ('tuple', [('int', 0)]) if key == 'tuple' else ('frozenset', [('int', 0)]) if key == 'frozenset' \
            else ('call', 'make', [('int', 0)], [])
        t = ('dict', [(k, t)])
    return t


for _key in ('tuple', 'frozenset', 'call'):
    for _tail in ('int', 'str', 'prose'):
        FAMILIES['%s-key-then-groups-then-%s' % (_key, _tail)] = (
            lambda n, k=_key, tl=_tail: t_key_then_groups(n, k, tl), [5, 10, 20, 40])
        FAMILIES['chain-of-%s-keys-ending-in-%s' % (_key, _tail)] = (
            lambda n, k=_key, tl=_tail: t_key_chain(n, k, tl), [4, 8, 16, 32])
FAMILIES['groups-then-overflow'] = (lambda n: ('list', [('list', [('int', i)]) for i in range(n)] + [('int', 10 ** 90)]),
                                    [5, 10, 20, 40])
FAMILIES['call-groups-then-overflow'] = (
    lambda n: ('call', 'make', [('tuple', [('int', i)]) for i in range(n)], [('kw', ('int', 10 ** 90))]), [5, 10, 20, 40])
CFGS = [dict(), dict(width=20, sort_dict_keys=True), dict(width=200, ribbon_width=200)]


def run_one(term, cfg):
    from prettyprinter import pformat
    import warnings
    box = {}

    def go():
        # building the value asks the package for the sorted order of the keys (valgen): part of the measured
        # work, and never outside the step budget
        box['v'], box['sx'] = valgen.build(term)
        with warnings.catch_warnings():
            warnings.simplefilter('ignore')
            return pformat(box['v'], **cfg)
    text, total, pops = stepcount.measure(go, limit=BUDGET)
    return text, total, pops, box['sx']


def main(tier):
    run = Run(PROP, tier)
    built = run.build()
    run.prove()
    if built:
        import sys
        sys.setrecursionlimit(20000)
        lines = stepcount.pop_lines()[1]
        main_line = max(lines)
        reqs = [valgen.uni_request()]
        impl = []
        table = {}
        viol = 0
        open_f = run.open_findings()
        for fam, (mk, ns) in FAMILIES.items():
            if tier != 'quick' and fam != 'commented-dict-values-at-every-level':
                ns = ns + [ns[-1] * 2]
            for ci, cfg in enumerate(CFGS):
                prev = None
                for n in ns:
                    term = mk(n)
                    try:
                        text, total, pops, sx = run_one(term, cfg)
                    except RecursionError:
                        table.setdefault(fam, []).append((ci, n, 'RecursionError'))
                        prev = None
                        continue
                    except stepcount.StepBudgetExceeded:
                        table.setdefault(fam, []).append((ci, n, '>%d' % BUDGET))
                        run.count(1)
                        msg = 'pformat did not finish within %d interpreter steps for parameter %d%s' % (
                            BUDGET, n, (' (parameter %d took %d steps)' % prev if prev else ''))
                        if fam == 'commented-dict-values-at-every-level' and F_EXP in open_f:
                            if not any(F_EXP in l for l in run.known_lines):
                                run.known(F_EXP, '%s; measured: %s' % (open_f[F_EXP]['what'][:200], msg))
                        else:
                            viol += 1
                            if viol <= 3:
                                run.violation({'kind': 'oracle', 'family': fam, 'parameter': n, 'cfg': cfg, 'detail': msg})
                        break
                    run.count(1)
                    table.setdefault(fam, []).append((ci, n, total))
                    msg = None
                    if total > BUDGET:
                        msg = 'more than %d interpreter steps for parameter %d' % (BUDGET, n)
                    elif prev is not None and prev[1] >= 2000 and n == 2 * prev[0] and total > RATIO * prev[1]:
                        msg = 'doubling the parameter %d -> %d multiplied the steps by %.1f (%d -> %d), bound %.0f' % (
                            prev[0], n, total / prev[1], prev[1], total, RATIO)
                    elif prev is not None and fam == 'commented-dict-values-at-every-level' and total > 3.0 * prev[1]:
                        # +2 levels: a polynomial of any degree <= 3 grows by < 3 here; observed ~x4 (2 per level)
                        msg = 'adding 2 levels (%d -> %d) multiplied the steps by %.1f: exponential growth' % (
                            prev[0], n, total / prev[1])
                    if msg and fam == 'commented-dict-values-at-every-level' and F_EXP in open_f:
                        if not any(F_EXP in l for l in run.known_lines):
                            run.known(F_EXP, '%s; measured: %s' % (open_f[F_EXP]['what'][:200], msg))
                        msg = None
                    if msg:
                        viol += 1
                        if viol <= 3:
                            run.violation({'kind': 'oracle', 'family': fam, 'parameter': n, 'cfg': cfg, 'detail': msg})
                    prev = (n, total)
                    # loop-iteration counts against the model's cost semantics
                    if ci < 2 and n <= ns[1]:
                        w = cfg.get('width', 79)
                        reqs.append('(ppops %d %d %d none 1000 0 %s)' % (
                            cfg.get('indent', 4), w, valgen.effective_rw(w, cfg.get('ribbon_width', 71)), sx))
                        impl.append('%d %d' % (pops.get(main_line, 0), sum(c for l, c in pops.items() if l != main_line)))
        # engine level: random documents
        r = rng(PROP)
        from prettyprinter.layout import layout_smart, layout_fast
        ndocs = 300 if tier == 'quick' else 5000
        for _ in range(ndocs):
            d = docgen.rand_doc(r, r.randint(3, 30), classic=False)
            try:
                real = docgen.to_real(d)
            except Exception:
                continue
            w = r.choice([3, 8, 20, 60])
            smart = r.random() < 0.5
            try:
                _res, total, pops = stepcount.measure(
                    lambda: list((layout_smart if smart else layout_fast)(real, width=w, ribbon_frac=1.0)), limit=BUDGET)
            except stepcount.StepBudgetExceeded:
                # a document of at most 30 nodes: the unchanged engine needs a few thousand steps
                viol += 1
                run.count(1)
                if viol <= 6:
                    run.violation({'kind': 'engine-steps', 'document': docgen.to_sexp(d), 'term': d, 'smart': smart, 'width': w,
                                   'steps': '>%d' % BUDGET,
                                   'detail': 'laying out a document of %d nodes at width %d did not end within %d steps'
                                             % (docgen.size(d), w, BUDGET)})
                continue
            except Exception:
                continue
            run.count(1)
            reqs.append('(lpops %d %d %d %s)' % (1 if smart else 0, w, docgen.ribbon_width(w, 1.0), docgen.to_sexp(d)))
            impl.append('%d %d' % (pops.get(main_line, 0), sum(c for l, c in pops.items() if l != main_line)))
        out = run_driver(reqs, shards=8)[1:]
        dis = 0
        for a, b, q in zip(impl, out, reqs[1:]):
            if a != b:
                dis += 1
                if dis <= 3:
                    run.sample({'disagreement': {'request': q[:300], 'impl_pops': a, 'model_pops': b}})
        if dis:
            run.broken.append('correspondence: loop-iteration counts (triplestack.pop() hits) vs the cost semantics of the model, %d disagreements' % dis)
        run.coverage['disagreements_checked'] = dis
        run.coverage['pop_count_cases'] = len(impl)
        run.coverage['distinct_nontrivial'] = len(FAMILIES)
        run.coverage['steps_table'] = {k: v[:12] for k, v in table.items()}
        run.coverage['rule'] = (
            '%d input families (nested lists / tuples / dicts / calls, flat list / dict / set, long prose / unbroken / '
            'bytes strings, a string nested until no width is left, lists of strings, comments on list elements / dict '
            'keys / dict values at every level, wide-and-deep; chains of n containers of one kind - list, tuple, dict value, '
            'call argument, call keyword - with 1 or 2 elements whose nested element carries comment(), trailing_comment() '
            'or both) at parameters n, 2n, 4n, 8n (thorough: 16n) x 3 '
            'configurations. Measured: sys.monitoring LINE events inside the package during one pformat call. Oracle: '
            'every run ends within %d steps; doubling n multiplies the steps by at most %.0f. The hit counts of the '
            'three triplestack.pop() statements (main loop, both look-aheads) are compared for EQUALITY with the '
            "model's cost semantics (Model/Cost.v) on these values and on seeded random documents." % (
                len(FAMILIES), BUDGET, RATIO))
    return run.finish()


def replay(path):
    with open(path) as f:
        p = json.load(f)
    print(json.dumps(p, indent=1)[:2000])
    if p.get('kind') == 'engine-steps':
        import enginecheck as EC
        from prettyprinter.layout import layout_smart, layout_fast
        real = docgen.to_real(EC.detuple(p['term']))
        try:
            stepcount.measure(lambda: list((layout_smart if p['smart'] else layout_fast)(real, width=p['width'], ribbon_frac=1.0)),
                              limit=BUDGET)
        except stepcount.StepBudgetExceeded:
            print('did not finish within', BUDGET, 'steps')
            return 1
        return 0
    if 'family' not in p:
        return 1
    mk, ns = FAMILIES[p['family']]
    n = p['parameter']
    try:
        _t, a, _p, _s = run_one(mk(n // 2), p['cfg'])
        _t, b, _p, _s = run_one(mk(n), p['cfg'])
    except stepcount.StepBudgetExceeded:
        print('did not finish within', BUDGET, 'steps')
        return 1
    print('steps at', n // 2, '=', a, '; at', n, '=', b, '; ratio', b / a)
    return 1 if (b > RATIO * a or b > BUDGET) else 0

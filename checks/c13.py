"""C13 - cycles are cut exactly at back-references; shared substructure prints in full."""
import json

import graphgen as G
from common import rng
from framework import Run

PROP = 'C13'

STRUCTURED = [
    # self loop, mutual lists, cycle through a tuple, through a dict value, through a user object, diamond (acyclic sharing)
    [('list', [0])],
    [('list', [0, 0])],
    [('list', [1]), ('list', [0])],
    [('list', [1, 1]), ('list', [2]), ('leaf', ('int', 7))],
    [('list', [1]), ('tuple', [0, 2]), ('leaf', ('str', 'x'))],
    [('dict', [(1, 0)]), ('leaf', ('str', 'k'))],
    [('dict', [(1, 2)]), ('leaf', ('str', 'k')), ('list', [0, 0])],
    [('user', 'make', 'none', [0], 'ValueError')],
    [('user', 'make', 'none', [1], 'ValueError'), ('list', [0])],
    [('list', [1, 2]), ('list', [3]), ('list', [3]), ('list', [4]), ('leaf', ('int', 1))],
    [('list', [1, 1, 1]), ('dict', [(2, 3)]), ('leaf', ('str', 'key')), ('tuple', [2, 2])],
    [('list', [1, 0]), ('list', [0, 1])],
    [('dict', [(1, 2)]), ('user', 'Thing', 'none', [2], 'ValueError'), ('list', [1])],
]


def has_cycle(heap, root):
    seen, stack = set(), set()

    def go(r):
        if r in stack:
            return True
        if r in seen:
            return False
        seen.add(r)
        stack.add(r)
        n = heap[r]
        kids = n[1] if n[0] in ('list', 'tuple') else [x for kv in n[1] for x in kv] if n[0] == 'dict' \
            else n[3] if n[0] == 'user' else []
        res = any(go(k) for k in kids)
        stack.discard(r)
        return res
    return go(root)


def cases_for(tier):
    r = rng(PROP)
    out = []
    for heap in STRUCTURED:
        for root in range(len(heap)):
            for w in (1, 10, 30, 79):
                out.append((heap, root, dict(width=w, indent=r.choice([1, 4]))))
    n = 1500 if tier == 'quick' else 30000
    for _ in range(n):
        heap = G.rand_heap(r, r.randint(1, 8 if tier == 'quick' else 30))
        out.append((heap, r.randrange(len(heap)), dict(width=r.choice([1, 10, 40, 79, 200]), indent=r.choice([1, 4, 8]))))
    return out


def oracle(heap, objs, root, cfg, text, ws, other):
    if text.startswith('EXC'):
        return 'pformat raised ' + text
    if ws:
        return 'warnings: ' + ws[0][:100]
    want, w2 = G.run_impl(G.unfold(objs[root], []), cfg)
    if want != text:
        return 'markers / shared substructure differ from the reference unfolding:\n%s\n--- expected ---\n%s' % (text[:500], want[:500])
    # no residue: print something else, then the same value again
    o_text, _ = G.run_impl(other, cfg)
    again, _ = G.run_impl(objs[root], cfg)
    if again != text:
        return 'a second print of the same value differs:\n%s\n--- first ---\n%s' % (again[:300], text[:300])
    return None


def aborted_history(heap, root, cfg, victim):
    """print the graph with the printer of user node [victim] interrupted by a BaseException (the
    call is aborted, nothing is returned), then print the same objects - interruption removed -
    and another value: both as a first call"""
    objs = G.build(heap)
    objs[victim].fault = 'abort'
    first, _ = G.run_impl(objs[root], cfg)
    objs[victim].fault = 'none'
    again, aw = G.run_impl(objs[root], cfg)
    fresh, _ = G.run_impl(G.unfold(objs[root], []), cfg)
    if again != fresh or aw:
        return first, 'after an interrupted print the same value prints differently from a first call:\n%s\n--- expected ---\n%s' % (
            again[:400], fresh[:400])
    for r in range(len(heap)):
        if heap[r][0] == 'leaf':
            continue
        t, w = G.run_impl(objs[r], cfg)
        f, _ = G.run_impl(G.unfold(objs[r], []), cfg)
        if t != f or w:
            return first, 'after an interrupted print another value of the graph prints differently from a first call:\n%s\n--- expected ---\n%s' % (
                t[:400], f[:400])
    return first, None


NOSUPPORT = 'does not support rendering trailing comments'


def wrapped_case(heap, root, cfg):
    """the objects of the graph under comment() / trailing_comment() wrappers, next to the bare
    object: markers still only at back-references (the wrappers are not containers)"""
    from prettyprinter import comment, trailing_comment
    objs = G.build(heap)
    picks = [r for r in range(len(heap)) if heap[r][0] != 'leaf'][:4]
    if not picks:
        return None
    val, want = [], []
    for r in picks:
        u = G.unfold(objs[r], [])
        val += [trailing_comment(objs[r], 'tail %d' % r), comment(objs[r], 'note %d' % r), objs[r]]
        want += [trailing_comment(u, 'tail %d' % r), comment(u, 'note %d' % r), G.unfold(objs[r], [])]
    if root % 2:
        val = {'k': val, 'top': trailing_comment(objs[picks[0]], 'x')}
        want = {'k': want, 'top': trailing_comment(G.unfold(objs[picks[0]], []), 'x')}
    text, ws = G.run_impl(val, cfg)
    ref, ws2 = G.run_impl(want, cfg)
    if text.startswith('EXC'):
        return 'pformat raised ' + text
    other = [m for m in ws if NOSUPPORT not in m]
    if other:
        return 'warnings: ' + other[0][:100]
    if text != ref:
        return 'with comment wrappers around the objects, markers / shared substructure differ from the reference unfolding:\n%s\n--- expected ---\n%s' % (
            text[:500], ref[:500])
    return None


def inplace_wrapped_case(heap, root, cfg, r):
    """comment wrappers put INSIDE the graph (a list element / dict value is replaced by a wrapper around
    it), so that cycles pass through them; long comment texts, so that the comment-above layouts are taken"""
    from prettyprinter import comment, trailing_comment
    objs = G.build(heap)
    texts = ['kids', 'a note that is far too long to stand at the end of the line it belongs to ' * 2, 'two\nlines']
    changed = 0
    for i, n in enumerate(heap):
        o = objs[i]
        if n[0] == 'list' and o:
            k = r.randrange(len(o))
            if type(o[k]) in (list, dict, tuple) or isinstance(o[k], G.GBase):
                o[k] = (comment if r.random() < 0.7 else trailing_comment)(o[k], r.choice(texts)) \
                    if type(o[k]) in (list, dict, tuple) else comment(o[k], r.choice(texts))
                changed += 1
        elif n[0] == 'dict' and o:
            key = r.choice(list(o))
            if type(o[key]) in (list, dict, tuple) or isinstance(o[key], G.GBase):
                o[key] = comment(o[key], r.choice(texts))
                changed += 1
    if not changed:
        return None, False
    text, ws = G.run_impl(objs[root], cfg)
    ref, _w = G.run_impl(G.unfold(objs[root], []), cfg)
    if text.startswith('EXC'):
        return 'pformat raised / did not return: ' + text, True
    other = [m for m in ws if NOSUPPORT not in m]
    if other:
        return 'warnings: ' + other[0][:100], True
    if text != ref:
        return 'with comment wrappers INSIDE the graph, markers / shared substructure differ from the reference unfolding:\n%s\n--- expected ---\n%s' % (
            text[:500], ref[:500]), True
    return None, True


def main(tier):
    run = Run(PROP, tier)
    built = run.build()
    run.prove()
    if built:
        cases = cases_for(tier)
        reqs, impl, objsl = [], [], []
        other_heap = [('list', [1, 0]), ('dict', [(2, 0)]), ('leaf', ('str', 'k'))]
        other = G.build(other_heap)[0]
        other_ref, _ = G.run_impl(other, {})
        for heap, root, cfg in cases:
            if G.TIMEOUTS[0] >= G.MAX_TIMEOUTS:
                cases = cases[:len(objsl)]      # the calls that did not return are reported; no more of them
                break
            objs = G.build(heap)
            objsl.append(objs)
            impl.append(G.run_impl(objs[root], cfg))
            reqs.append(G.request(heap, objs, root, cfg))
        model = G.run_model(reqs)
        dis = 0
        cyc = 0
        for (heap, root, cfg), objs, (text, ws), m in zip(cases, objsl, impl, model):
            run.count(1)
            c = has_cycle(heap, root)
            cyc += c
            if text != m[0] or (m[2] not in (None, 0)):
                dis += 1
                if dis <= 3:
                    run.sample({'disagreement': {'heap': heap, 'root': root, 'cfg': cfg, 'impl': text, 'model': m[0],
                                                 'model_visited_after': m[2]}})
            msg = oracle(heap, objs, root, cfg, text, ws, other)
            if msg and len(run.violations) < 3:
                run.violation({'kind': 'oracle', 'detail': msg, 'heap': heap, 'root': root, 'cfg': cfg})
        # the same graphs under comment wrappers (oracle only: the graph model has no wrapper nodes)
        nwr = 0
        for heap, root, cfg in cases[::(4 if tier == 'quick' else 2)]:
            msg = wrapped_case(heap, root, cfg)
            nwr += 1
            run.count(1)
            if msg and len(run.violations) < 3:
                run.violation({'kind': 'wrapped', 'detail': msg, 'heap': heap, 'root': root, 'cfg': cfg})
        run.coverage['comment_wrapped_graphs'] = nwr
        nin = 0
        r3 = __import__('common').rng(PROP + '/inplace')
        for heap, root, cfg in cases[::(3 if tier == 'quick' else 2)]:
            msg, used = inplace_wrapped_case(heap, root, cfg, r3)
            if used:
                nin += 1
                run.count(1)
            if msg and len(run.violations) < 3:
                run.violation({'kind': 'inplace-wrapped', 'detail': msg, 'heap': heap, 'root': root, 'cfg': cfg})
        run.coverage['graphs_with_wrappers_inside'] = nin
        # interrupted prints leave no residue either
        nab = nreached = 0
        for heap, root, cfg in cases[::(3 if tier == 'quick' else 2)]:
            users = [i for i, n in enumerate(heap) if n[0] == 'user']
            if not users:
                continue
            victim = users[(root + len(heap)) % len(users)]
            first, msg = aborted_history(heap, root, cfg, victim)
            nab += 1
            nreached += first == 'ABORTED'
            run.count(1)
            if msg and len(run.violations) < 3:
                run.violation({'kind': 'aborted', 'detail': msg, 'heap': heap, 'root': root, 'cfg': cfg, 'victim': victim})
        run.coverage['interrupted_print_histories'] = nab
        run.coverage['interrupted_print_histories_aborted'] = nreached
        # the interleaved prints must not have disturbed the reference value
        if G.run_impl(other, {})[0] != other_ref:
            run.violation({'kind': 'oracle', 'detail': 'a fixed value prints differently after the run (residue)'})
        if dis:
            run.broken.append('correspondence: graph level (pformat of object graphs vs gprint + pformat_model), %d disagreements' % dis)
        run.coverage['disagreements_checked'] = dis
        run.coverage['distinct_nontrivial'] = cyc
        run.coverage['rule'] = (
            '13 structured heaps (self loop, mutual lists, cycles through a tuple / dict value / user object, '
            'acyclic diamonds and repeated sharing) from every root x 4 widths, seeded random heaps of 1..8 (thorough: '
            '30) nodes of kinds list / tuple / dict / user object (pretty_call) / leaf with random references. Compared: '
            'pformat of the real cyclic objects vs the model (stateful traversal -> tree -> pformat_model), visited '
            'set empty afterwards. Oracle: the text equals pformat of an acyclic copy built by a reference DFS in which '
            'exactly the back-references (objects among the ancestors) are marker objects; printing another value and '
            'the same value again gives the same text; the objects of the graph under comment() / trailing_comment() '
            'wrappers next to the bare objects, and wrappers put inside the graph so that cycles pass through commented '
            'list elements / dict values (oracle only); histories in which a print is interrupted inside a user printer by '
            'a BaseException (nothing returned), after which the same objects and every other object of the graph print '
            'as in a first call. non-trivial = cases whose root reaches a cycle')
        for k in (0, len(cases) // 2, len(cases) - 1):
            run.sample({'heap': cases[k][0], 'root': cases[k][1], 'cfg': cases[k][2], 'impl': impl[k][0][:300]})
    return run.finish()


def replay(path):
    with open(path) as f:
        p = json.load(f)
    if 'heap' not in p:
        print(json.dumps(p, indent=1)[:3000])
        return 1
    heap = [tuple(tuple(x) if isinstance(x, list) and n[0] == 'leaf' else x for x in n) for n in p['heap']]
    heap = [fix_node(n) for n in p['heap']]
    if p.get('kind') == 'wrapped':
        msg = wrapped_case(heap, p['root'], p['cfg'])
        print('oracle:', msg)
        return 1 if msg else 0
    if p.get('kind') == 'aborted':
        first, msg = aborted_history(heap, p['root'], p['cfg'], p['victim'])
        print(first, '\noracle:', msg)
        return 1 if msg else 0
    objs = G.build(heap)
    text, ws = G.run_impl(objs[p['root']], p['cfg'])
    other = G.build([('list', [])])[0]
    msg = oracle(heap, objs, p['root'], p['cfg'], text, ws, other)
    print(text, '\noracle:', msg)
    return 1 if msg else 0


def fix_node(n):
    n = list(n)
    if n[0] == 'leaf':
        return ('leaf', tuple(n[1]))
    if n[0] == 'dict':
        return ('dict', [tuple(kv) for kv in n[1]])
    return tuple(n)

"""C14 - a failing printer is contained at the value it was printing."""
import json

import graphgen as G
from common import rng
from framework import Run

PROP = 'C14'

BASES = [
    [('list', [1, 2, 3]), ('user', 'make', 'none', [4], 'ValueError'), ('user', 'Thing', 'none', [1, 4], 'ValueError'),
     ('dict', [(4, 1), (5, 2)]), ('leaf', ('str', 'a')), ('leaf', ('int', 5))],
    [('user', 'make', 'none', [1, 2], 'ValueError'), ('user', 'Thing', 'none', [], 'ValueError'),
     ('list', [1, 3]), ('tuple', [1])],
    [('dict', [(1, 2)]), ('user', 'make', 'none', [], 'ValueError'), ('user', 'Thing', 'none', [3], 'ValueError'),
     ('list', [1, 1])],
    [('list', [1]), ('user', 'make', 'none', [2], 'ValueError'), ('list', [0, 1])],
]


def variants(heap):
    """one fault injected at each user printer in turn, each kind and exception class"""
    out = []
    users = [i for i, n in enumerate(heap) if n[0] == 'user']
    for i in users:
        for fault in ('raise', 'after', 'nondoc'):
            for exc in sorted(G.EXC_CLASSES):
                if fault == 'nondoc' and exc != 'ValueError':
                    continue
                h2 = list(heap)
                n = heap[i]
                h2[i] = ('user', n[1], fault, n[3], exc)
                out.append(h2)
    # pairs of faults
    for i in users:
        for j in users:
            if i < j:
                h2 = list(heap)
                h2[i] = ('user', heap[i][1], 'raise', heap[i][3], 'KeyError')
                h2[j] = ('user', heap[j][1], 'after', heap[j][3], 'CustomError')
                out.append(h2)
    return out


def degraded(heap, objs, root):
    """reference traversal (independent of the package): which objects end up as repr, the
    warning keys in order, and whether a ValueError escapes.  -> (failing objs, keys, escapes)"""
    failing, keys = [], []

    class Escape(Exception):
        pass

    def kids(r):
        n = heap[r]
        if n[0] in ('list', 'tuple'):
            return n[1]
        if n[0] == 'dict':
            return [x for kv in n[1] for x in kv]
        return []

    def visit(r, anc):
        if r in anc:
            return
        n = heap[r]
        if n[0] == 'leaf':
            return
        if n[0] == 'user':
            if n[2] == 'raise':
                failing.append(objs[r]); keys.append(r); return
            if n[2] == 'nondoc':
                raise Escape()
            try:
                for k in n[3]:
                    visit(k, anc + [r])
            except Escape:
                failing.append(objs[r]); keys.append('T:' + type(objs[r]).__name__); return
            if n[2] == 'after':
                failing.append(objs[r]); keys.append(r)
            return
        try:
            for k in kids(r):
                visit(k, anc + [r])
        except Escape:
            failing.append(objs[r]); keys.append('T:' + type(objs[r]).__name__)
    try:
        visit(root, [])
    except Escape:
        return failing, keys, True
    return failing, keys, False


def oracle(heap, objs, root, cfg, text, ws, ref_obj, ref_text):
    failing, keys, escapes = degraded(heap, objs, root)
    if escapes:
        if text != 'EXC ValueError':
            return 'a top-level printer returned a non-document but pformat gave %r instead of ValueError' % text[:100]
    else:
        if text.startswith('EXC'):
            return 'pformat raised %s although every failure is contained' % text
        want, _w = G.run_impl(G.unfold(objs[root], [], failing), cfg)
        if want != text:
            return 'output differs from the print in which exactly the failing values are their repr:\n%s\n--- expected ---\n%s' % (
                text[:500], want[:500])
        got = G.warning_keys(ws, objs)
        if got != keys:
            return 'warnings %r, expected one per failing printer in order %r' % (got, keys)
        for m in ws:
            if 'raised an exception' in m and 'Falling back to default repr' not in m:
                return 'warning does not announce the repr fallback: %s' % m[:100]
    later, lw = G.run_impl(ref_obj, {})
    if later != ref_text or lw:
        return 'a later fault-free print is affected: %r' % later[:200]
    if escapes or failing:
        # the SAME objects, faults removed, printed after the failed / aborted call: as a first call
        saved = [(o, o.fault) for o in objs if isinstance(o, G.GBase)]
        try:
            for o, _f in saved:
                o.fault = 'none'
            again, aw = G.run_impl(objs[root], cfg)
            fresh, _fw = G.run_impl(G.unfold(objs[root], [], []), cfg)
        finally:
            for o, f in saved:
                o.fault = f
        if again != fresh or aw:
            return 'the same objects printed after the failed call differ from a first print:\n%s\n--- expected ---\n%s' % (
                again[:400], fresh[:400])
    return None


NOSUPPORT = 'does not support rendering trailing comments'
WRAPS = ('trailing', 'comment', 'both', 'trailing-trailing')
SHAPES = ('top', 'list', 'tuple', 'dictval', 'dictkey', 'callarg', 'deep')


def wrapped_spec_cases():
    """a failing value wrapped in comment() / trailing_comment(): the (value, ctx) printer is first
    tried with the trailing comment, then retried without it - the retry must be contained too"""
    out = []
    for fault in ('raise', 'after'):
        for exc in sorted(G.EXC_CLASSES):
            for wrap in WRAPS:
                for shape in SHAPES:
                    out.append({'fault': fault, 'exc': exc, 'wrap': wrap, 'shape': shape})
    return out


def wrapped_build(spec, reference):
    """-> the value to print; with [reference] the failing object is replaced by its repr marker and
    the trailing comment (which its printer cannot render) removed"""
    from prettyprinter import comment, trailing_comment
    G.ensure_registered()
    bad = G.GObj('make', 7 if spec['fault'] == 'raise' else 6, spec['fault'], spec['exc'])
    bad.args = [1, 'x']
    if reference:
        core = G.Marker(G.safe_repr(BAD_REPR[0]))
        w = comment(core, 'note here') if spec['wrap'] in ('comment', 'both') else core
    else:
        BAD_REPR[0] = bad
        w = bad
        if spec['wrap'] in ('trailing', 'both', 'trailing-trailing'):
            w = trailing_comment(w, 'tail words')
        if spec['wrap'] == 'trailing-trailing':
            w = trailing_comment(w, 'second tail')
        if spec['wrap'] in ('comment', 'both'):
            w = comment(w, 'note here')
    ok = G.GObj('Thing', 8)
    ok.args = [2]
    shape = spec['shape']
    if shape == 'top':
        return w
    if shape == 'list':
        return [1, w, 'after', ok]
    if shape == 'tuple':
        return (w,)
    if shape == 'dictval':
        return {'before': [1, 2], 'here': w, 'after': ok}
    if shape == 'dictkey':
        return {w: 1, 'other': 2}
    if shape == 'callarg':
        outer = G.GObj('Thing', 9)
        outer.args = [w, 3]
        return [outer]
    return {'a': [[(w, 1)], ok]}


BAD_REPR = [None]


def wrapped_oracle(spec, cfg):
    text, ws = G.run_impl(wrapped_build(spec, False), cfg)
    want, ww = G.run_impl(wrapped_build(spec, True), cfg)
    if text.startswith('EXC'):
        return 'pformat raised %s although the failure is contained' % text
    if text != want:
        return 'output differs from the print in which exactly the failing value is its repr:\n%s\n--- expected ---\n%s' % (
            text[:400], want[:400])
    bad = [m for m in ws if 'raised an exception' in m]
    # one warning per invocation of the failing printer (a commented dict value is rendered twice)
    tag = 'boom-7' if spec['fault'] == 'raise' else 'boom-6'
    if not bad or any(('gobj_printer' not in m and '_repr_pretty' not in m) or tag not in m or
                      'Falling back to default repr' not in m for m in bad):
        return 'expected repr-fallback warnings naming the failing printer and its exception, got %r' % (
            [m[:120] for m in ws],)
    rest = [m for m in ws if 'raised an exception' not in m and NOSUPPORT not in m]
    if rest:
        return 'unexpected warning %r' % rest[0][:160]
    return None


class _ScalarBase:
    fault = None


SCALAR_CLASSES = {}


def scalar_class(base):
    """a subclass of a built-in SCALAR type with its own registered printer (which can be made to fail)"""
    from prettyprinter import register_pretty, pretty_call
    if base not in SCALAR_CLASSES:
        cls = type('Scalar_' + base.__name__, (base,), {'fault': None})
        cls.__module__ = 'c14'
        cls.__qualname__ = cls.__name__

        def printer(value, ctx, _cls=cls, _base=base):
            f = _cls.fault
            if f is not None and f[0] == 'raise':
                raise G.EXC_CLASSES[f[1]]('scalar-boom {x} %s')
            if f is not None and f[0] == 'nondoc':
                return 42
            return pretty_call(ctx, _cls, _base(value))
        printer.__qualname__ = 'scalar_printer_' + base.__name__
        register_pretty(cls)(printer)
        SCALAR_CLASSES[base] = cls
    return SCALAR_CLASSES[base]


def scalar_fault_cases():
    out = []
    for base, raw in ((int, 7), (float, 2.5), (str, 'tag'), (bytes, b'blob'), (complex, 1 + 2j)):
        for exc in sorted(G.EXC_CLASSES):
            for shape in ('top', 'list', 'dictval', 'dictkey', 'tuple1', 'deep'):
                out.append({'base': base.__name__, 'raw': repr(raw), 'fault': ['raise', exc], 'shape': shape})
        out.append({'base': base.__name__, 'raw': repr(raw), 'fault': ['nondoc', ''], 'shape': 'top'})
    return out


def scalar_oracle(spec, cfg):
    base = {'int': int, 'float': float, 'str': str, 'bytes': bytes, 'complex': complex}[spec['base']]
    cls = scalar_class(base)
    val = cls(eval(spec['raw']))

    def place(x):
        sh = spec['shape']
        if sh == 'top':
            return x
        if sh == 'list':
            return [1, x, 'after']
        if sh == 'dictval':
            return {'before': [1, 2], 'here': x}
        if sh == 'dictkey':
            return {x: 1, 'other': 2}
        if sh == 'tuple1':
            return (x,)
        return {'a': [[(x, 1)], 'end']}
    cls.fault = tuple(spec['fault'])
    try:
        text, ws = G.run_impl(place(val), cfg)
    finally:
        cls.fault = None
    if spec['fault'][0] == 'nondoc':
        return None if text == 'EXC ValueError' else 'a printer returning a non-document at top level gave %r instead of ValueError' % text[:100]
    want, _w = G.run_impl(place(G.Marker(repr(val))), cfg)
    if text.startswith('EXC'):
        return 'pformat raised %s although the failure is contained' % text
    if text != want:
        return 'output differs from the print in which exactly the failing value is its repr:\n%s\n--- expected ---\n%s' % (
            text[:300], want[:300])
    bad = [m for m in ws if 'raised an exception' in m]
    if not bad or any('scalar_printer_' + spec['base'] not in m.split('raised an exception')[0] or
                      'Falling back to default repr' not in m for m in bad):
        return 'expected repr-fallback warnings naming the failing printer, got %r' % ([m[:140] for m in ws],)
    return None


def cases_for(tier):
    r = rng(PROP)
    out = []
    for base in BASES:
        for h2 in variants(base):
            for root in range(len(h2)):
                if h2[root][0] != 'leaf':
                    out.append((h2, root, dict(width=r.choice([10, 79]))))
    n = 1200 if tier == 'quick' else 25000
    for k in range(n):
        heap = G.rand_heap(r, r.randint(2, 8 if tier == 'quick' else 20), faults=True, nondoc=(k % 3 == 0))
        out.append((heap, r.randrange(len(heap)), dict(width=r.choice([10, 40, 79]), indent=r.choice([1, 4]))))
    return out


def main(tier):
    run = Run(PROP, tier)
    built = run.build()
    run.prove()
    if built:
        cases = cases_for(tier)
        ref_obj = G.build([('list', [1, 2]), ('user', 'make', 'none', [2], 'ValueError'), ('leaf', ('str', 'ok'))])[0]
        ref_text, _ = G.run_impl(ref_obj, {})
        reqs, impl, objsl = [], [], []
        for heap, root, cfg in cases:
            if G.TIMEOUTS[0] >= G.MAX_TIMEOUTS:
                cases = cases[:len(objsl)]      # the calls that did not return are reported; no more of them
                break
            objs = G.build(heap)
            objsl.append(objs)
            impl.append(G.run_impl(objs[root], cfg))
            reqs.append(G.request(heap, objs, root, cfg))
        model = G.run_model(reqs)
        dis = faulty = 0
        kinds = {}
        for (heap, root, cfg), objs, (text, ws), m in zip(cases, objsl, impl, model):
            run.count(1)
            ik = G.warning_keys(ws, objs)
            mk = G.model_warning_keys(m[1], heap, objs)
            if ik:
                faulty += 1
            for n in heap:
                if n[0] == 'user' and n[2] != 'none':
                    kinds[n[2] + ':' + n[4]] = kinds.get(n[2] + ':' + n[4], 0) + 1
            if text != m[0] or ik != mk:
                dis += 1
                if dis <= 3:
                    run.sample({'disagreement': {'heap': heap, 'root': root, 'cfg': cfg, 'impl': text, 'model': m[0],
                                                 'impl_warnings': ik, 'model_warnings': mk}})
            msg = oracle(heap, objs, root, cfg, text, ws, ref_obj, ref_text)
            if msg and len(run.violations) < 3:
                run.violation({'kind': 'oracle', 'detail': msg, 'heap': heap, 'root': root, 'cfg': cfg})
        # failing values under comment wrappers (oracle only; the graph model has no comment nodes)
        r2 = rng(PROP + '/wrapped')
        nwrap = 0
        for spec in wrapped_spec_cases():
            cfg = dict(width=r2.choice([10, 40, 79]))
            nwrap += 1
            run.count(1)
            msg = wrapped_oracle(spec, cfg)
            if msg and len(run.violations) < 6:
                run.violation({'kind': 'wrapped', 'detail': msg, 'spec': spec, 'cfg': cfg})
        run.coverage['wrapped_fault_cases'] = nwrap
        # failing printers registered for subclasses of the built-in SCALAR types
        nsc = 0
        for spec in scalar_fault_cases():
            cfg = dict(width=r2.choice([10, 79]))
            nsc += 1
            run.count(1)
            msg = scalar_oracle(spec, cfg)
            if msg and len(run.violations) < 9:
                run.violation({'kind': 'scalar', 'detail': msg, 'spec': spec, 'cfg': cfg})
        run.coverage['scalar_subclass_fault_cases'] = nsc
        if dis:
            run.broken.append('correspondence: graph level with failing printers (text and warnings), %d disagreements' % dis)
        run.coverage['disagreements_checked'] = dis
        run.coverage['distinct_nontrivial'] = faulty
        run.coverage['fault_histogram'] = kinds
        run.coverage['rule'] = (
            '4 base heaps of user objects (registered printer = pretty_call of their arguments) inside lists / tuples / '
            'dict keys and values / each other, with a fault injected at each user printer in turn: raise before '
            'printing, raise after printing the arguments, return a non-document; each of 7 exception classes '
            '(ValueError, TypeError, KeyError, RuntimeError, RecursionError, ArithmeticError, a custom Exception '
            'subclass); pairs of faults; every root; seeded random heaps with random faults (cycles included). '
            'Compared with the model: text and the sequence of warnings. Oracle (reference traversal independent of the '
            'package): the text equals the print in which exactly the failing values are their repr, one "raised an '
            'exception ... Falling back to default repr" warning per failing printer in order, ValueError for a '
            'top-level non-document, and a later fault-free print is unaffected. Also (oracle only, not in the model): a '
            'failing value wrapped in trailing_comment() / comment() / both / two trailing comments, at top level, in a '
            'list, 1-tuple, dict value, dict key, call argument, nested - the retry without the trailing comment is '
            'contained at the value as well; failing printers registered for subclasses of int / float / str / bytes / '
            'complex (13 exception classes x 6 positions, non-document at top level). non-trivial = cases with >= 1 warning')
        for k in (0, len(cases) // 2, len(cases) - 1):
            run.sample({'heap': cases[k][0], 'root': cases[k][1], 'cfg': cases[k][2], 'impl': impl[k][0][:300]})
    return run.finish()


def replay(path):
    import c13
    with open(path) as f:
        p = json.load(f)
    if p.get('kind') == 'scalar':
        msg = scalar_oracle(p['spec'], p['cfg'])
        print('oracle:', msg)
        return 1 if msg else 0
    if p.get('kind') == 'wrapped':
        msg = wrapped_oracle(p['spec'], p['cfg'])
        print('oracle:', msg)
        return 1 if msg else 0
    if 'heap' not in p:
        print(json.dumps(p, indent=1)[:3000])
        return 1
    heap = [c13.fix_node(n) for n in p['heap']]
    objs = G.build(heap)
    text, ws = G.run_impl(objs[p['root']], p['cfg'])
    ref = G.build([('list', [])])[0]
    msg = oracle(heap, objs, p['root'], p['cfg'], text, ws, ref, '[]')
    print(text, '\noracle:', msg)
    return 1 if msg else 0

"""C16 - coloured output is the plain output plus well-nested styling."""
import io
import json
import re

import docgen
import printercheck as PC
import valgen
from common import rng, run_driver, from_cps, cps
from framework import Run

PROP = 'C16'
SGR = re.compile('\x1b\\[([0-9;]*)m')


def all_styles():
    from pygments import styles
    from prettyprinter.color import GitHubLightStyle
    out = [(n, styles.get_style_by_name(n)) for n in sorted(styles.get_all_styles())]
    out.append(('prettyprinter-github-light', GitHubLightStyle))
    return out


def sgr_table(style):
    """str(color) per syntax token, through the package's own styleattrs_to_colorful (the
    colorful / pygments oracle of the model) -> ({token int: str} | exception)"""
    import colorful
    from prettyprinter.color import _SYNTAX_TOKEN_TO_PYGMENTS_TOKEN, styleattrs_to_colorful
    colorful.use_true_colors()
    tbl = {}
    for tok, pt in _SYNTAX_TOKEN_TO_PYGMENTS_TOKEN.items():
        tbl[int(tok)] = str(styleattrs_to_colorful(style.style_for_token(pt)))
    return tbl, str(colorful.reset)


def attrs_of_state(codes_seq):
    """interpret the SGR parameters written so far -> dict of active attributes"""
    st = {}
    for params in codes_seq:
        ps = [int(x) if x else 0 for x in params.split(';')] if params != '' else [0]
        i = 0
        while i < len(ps):
            p = ps[i]
            if p == 0:
                st = {}
            elif p == 1:
                st['bold'] = True
            elif p == 3:
                st['italic'] = True
            elif p == 4:
                st['underline'] = True
            elif p in (38, 48) and i + 4 < len(ps) + 0 and ps[i + 1] == 2:
                st['color' if p == 38 else 'bgcolor'] = '%02x%02x%02x' % tuple(ps[i + 2:i + 5])
                i += 4
            else:
                st['other-%d' % p] = True
            i += 1
    return st


def decode_written(text):
    """-> (plain text, [attrs dict per character], final attrs)"""
    plain = []
    per_char = []
    seq = []
    pos = 0
    cur = {}
    for m in SGR.finditer(text):
        chunk = text[pos:m.start()]
        plain.append(chunk)
        per_char += [cur] * len(chunk)
        seq.append(m.group(1))
        cur = attrs_of_state(seq)
        if not cur:
            seq = []
        pos = m.end()
    chunk = text[pos:]
    plain.append(chunk)
    per_char += [cur] * len(chunk)
    return ''.join(plain), per_char, cur


def want_attrs(style, tok):
    from prettyprinter.color import _SYNTAX_TOKEN_TO_PYGMENTS_TOKEN
    a = style.style_for_token(_SYNTAX_TOKEN_TO_PYGMENTS_TOKEN[tok])
    out = {}
    for k in ('color', 'bgcolor'):
        if a[k]:
            out[k] = a[k].lower()
    for k in ('bold', 'italic', 'underline'):
        if a[k]:
            out[k] = True
    return out


def expected_per_char(sdocs, style):
    """reference: the innermost enclosing syntax token of every character of the plain rendering
    (text fragments; the trailing blanks the renderer trims are trimmed here by comparing lengths later)"""
    from prettyprinter.sdoctypes import SLine, SAnnotationPush, SAnnotationPop
    from prettyprinter.syntax import Token
    from prettyprinter.render import as_lines
    out = []
    stack = []
    for line in as_lines(list(sdocs)):
        idx = [i for i, s in enumerate(line) if isinstance(s, str)]
        if idx:
            line = list(line)
            line[idx[-1]] = line[idx[-1]].rstrip()
        for s in line:
            if isinstance(s, str):
                out += [(ch, stack[-1] if stack else None) for ch in s]
            elif isinstance(s, SLine):
                out += [(ch, stack[-1] if stack else None) for ch in '\n' + ' ' * s.indent]
            elif isinstance(s, SAnnotationPush):
                if isinstance(s.value, Token):
                    stack.append(s.value)
            elif isinstance(s, SAnnotationPop):
                if isinstance(s.value, Token) and stack:
                    stack.pop()
    return out


def check_stream(make_sdocs, style, plain_text):
    """renders through the package and applies the oracle -> (written text | None, message | None)"""
    import colorful
    from prettyprinter.color import colored_render_to_stream
    colorful.use_true_colors()
    buf = io.StringIO()
    try:
        colored_render_to_stream(buf, make_sdocs(), style)
    except Exception as e:
        return None, 'rendering failed because of the style: %s: %s' % (type(e).__name__, str(e)[:100])
    text = buf.getvalue()
    plain, per_char, final = decode_written(text)
    if plain != plain_text:
        return text, 'removing the styling gives %r, the plain rendering is %r' % (plain[:200], plain_text[:200])
    if final:
        return text, 'the stream does not end in the reset state: %r' % final
    exp = expected_per_char(make_sdocs(), style)
    if len(exp) != len(per_char) or ''.join(ch for ch, _t in exp) != plain:
        return text, 'internal: reference traversal disagrees with the plain text'
    for k, ((ch, tok), got) in enumerate(zip(exp, per_char)):
        want = want_attrs(style, tok) if tok is not None else {}
        if got != want and not ch.isspace():
            return text, 'character %d %r is shown with %r, its innermost token %s prescribes %r' % (k, ch, got, tok, want)
    return text, None


def main(tier):
    run = Run(PROP, tier)
    built = run.build()
    run.prove()
    if built:
        from prettyprinter.prettyprinter import python_to_sdocs
        from prettyprinter.layout import layout_smart
        from prettyprinter.render import default_render_to_str
        from prettyprinter import pformat
        r = rng(PROP)
        styles = all_styles()
        tables = {}
        crashed = {}
        for name, st in styles:
            try:
                tables[name] = sgr_table(st)
            except Exception as e:
                crashed[name] = '%s: %s' % (type(e).__name__, str(e)[:80])
        for name in list(crashed)[:3]:
            run.violation({'kind': 'style-attributes', 'style': name,
                           'detail': 'styleattrs_to_colorful fails for a token of pygments style %r: %s' % (name, crashed[name])})
        run.coverage['styles'] = len(styles)
        run.coverage['styles_failing'] = sorted(crashed)
        ok_styles = [(n, s) for n, s in styles if n in tables]
        # ---- values
        nvals = 250 if tier == 'quick' else 4000
        reqs = [valgen.uni_request()]
        meta = []
        for i in range(nvals):
            t = valgen.rand_val(r, r.randint(1, 14), {'sub', 'comment', 'trailing', 'call'} if i % 2 else set())
            v, sx = valgen.build(t)
            cfg = dict(indent=r.choice([2, 4]), width=r.choice([5, 20, 40, 79]), ribbon_width=r.choice([20, 71]),
                       depth=None, max_seq_len=1000, sort_dict_keys=False)
            name, st = r.choice(ok_styles)
            tbl, reset = tables[name]
            w = cfg['width']
            reqs.append('(colorv %d %d %d none 1000 0 %s (%s) (%s))' % (
                cfg['indent'], w, valgen.effective_rw(w, cfg['ribbon_width']), sx,
                ' '.join('(%d %s)' % (k, cps(s)) for k, s in sorted(tbl.items())), cps(reset)))
            meta.append((t, v, cfg, name, st))
        # ---- annotated documents (token / non-token annotations nested)
        ndocs = 250 if tier == 'quick' else 4000
        dmeta = []
        for i in range(ndocs):
            d = docgen.rand_doc(r, r.randint(3, 18), classic=False)
            name, st = r.choice(ok_styles)
            tbl, reset = tables[name]
            w = r.choice([3, 8, 20, 60])
            smart = r.random() < 0.5
            reqs.append('(colord %d %d %d %s (%s) (%s))' % (
                1 if smart else 0, w, docgen.ribbon_width(w, 1.0), docgen.to_sexp(d),
                ' '.join('(%d %s)' % (k, cps(s)) for k, s in sorted(tbl.items())), cps(reset)))
            dmeta.append((d, w, smart, name, st))
        # one token nested in another, every style: the inner token's own style applies - also when
        # that style is "nothing" - and the outer one comes back afterwards
        npairs = 0
        for name, st in ok_styles:
            tbl, reset = tables[name]
            toks = sorted(tbl)
            bare = [k for k in toks if not any(want_attrs(st, __import__('prettyprinter.syntax', fromlist=['Token']).Token(k)).values())]
            pairs = [(a, b) for a in toks for b in toks if a != b]
            if tier == 'quick':
                keep = [p_ for p_ in pairs if p_[0] in bare or p_[1] in bare]
                keep = r.sample(keep, min(len(keep), 30)) + r.sample(pairs, 10)
            else:
                keep = pairs
            for a, b in keep:
                d = ('An', ('tok', a), ('C', [('T', 'x'), ('An', ('tok', b), ('C', [('T', 'y'), ('An', ('tok', a), ('T', 'w'))])),
                                              ('T', 'z')]))
                reqs.append('(colord 1 20 20 %s (%s) (%s))' % (
                    docgen.to_sexp(d), ' '.join('(%d %s)' % (k, cps(s_)) for k, s_ in sorted(tbl.items())), cps(reset)))
                dmeta.append((d, 20, True, name, st))
                npairs += 1
        # annotations that are NOT syntax tokens but compare equal to one (plain ints, True), inside a token, after
        # that token - or another - has already been coloured: they change nothing
        nequal = 0
        for name, st in (ok_styles if tier != 'quick' else ok_styles[::max(1, len(ok_styles) // 12)]):
            tbl, reset = tables[name]
            toks = sorted(tbl)
            for a in (toks if tier != 'quick' else r.sample(toks, min(len(toks), 4))):
                for eq in sorted({a, r.choice(toks), 1}):
                    other = 99 if eq == 1 and r.random() < 0.5 else 99 + eq
                    d = ('C', [('An', ('tok', eq), ('T', 'p')), ('T', ' '),
                               ('An', ('tok', a), ('C', [('T', 'ab'), ('An', ('oth', other), ('T', 'CD')), ('T', 'ef')])),
                               ('T', 'q')])
                    reqs.append('(colord 1 20 20 %s (%s) (%s))' % (
                        docgen.to_sexp(d), ' '.join('(%d %s)' % (k, cps(s_)) for k, s_ in sorted(tbl.items())), cps(reset)))
                    dmeta.append((d, 20, True, name, st))
                    nequal += 1
        run.coverage['token_equal_annotation_documents'] = nequal
        run.coverage['nested_token_pair_documents'] = npairs
        res = run_driver(reqs, shards=8)[1:]
        dis = 0
        nontriv = 0
        import warnings
        for k, (t, v, cfg, name, st) in enumerate(meta):
            run.count(1)
            with warnings.catch_warnings():
                warnings.simplefilter('ignore')
                plain = pformat(v, **cfg)

                def mk(v=v, cfg=cfg):
                    return python_to_sdocs(v, **cfg)
                text, msg = check_stream(mk, st, plain)
            line = res[k]
            mw = from_cps(line[2:].split(' | U ')[0].strip()) if line.startswith('W ') else line
            if text is not None and '\x1b[' in text:
                nontriv += 1
            if text is not None and text != mw:
                dis += 1
                if dis <= 3:
                    run.sample({'disagreement': {'term': PC.jsonable(t), 'cfg': cfg, 'style': name, 'impl': text[:300], 'model': mw[:300]}})
            if msg and len(run.violations) < 5:
                run.violation({'kind': 'value', 'detail': msg, 'term': PC.jsonable(t), 'cfg': cfg, 'style': name})
        for k, (d, w, smart, name, st) in enumerate(dmeta):
            run.count(1)
            try:
                real = docgen.to_real(d)
            except Exception:
                continue
            try:
                sd = list(layout_smart(real, width=w, ribbon_frac=1.0) if smart else
                          __import__('prettyprinter.layout', fromlist=['layout_fast']).layout_fast(real, width=w, ribbon_frac=1.0))
            except Exception:
                continue
            plain = default_render_to_str(list(sd))
            text, msg = check_stream(lambda sd=sd: list(sd), st, plain)
            line = res[len(meta) + k]
            mw = from_cps(line[2:].split(' | U ')[0].strip()) if line.startswith('W ') else line
            if text is not None and text != mw:
                dis += 1
                if dis <= 3:
                    run.sample({'disagreement': {'doc': d, 'width': w, 'style': name, 'impl': text[:300], 'model': mw[:300]}})
            if msg and len(run.violations) < 5:
                run.violation({'kind': 'document', 'detail': msg, 'doc': d, 'width': w, 'smart': smart, 'style': name})
        if dis:
            run.broken.append('correspondence: colour level (bytes written by colored_render_to_stream vs color_render), %d disagreements' % dis)
        run.coverage['disagreements_checked'] = dis
        run.coverage['distinct_nontrivial'] = nontriv
        run.coverage['rule'] = (
            'every pygments style installed (%d) plus the bundled light style: styleattrs_to_colorful on the style of '
            'every syntax token (colours forced on with colorful.use_true_colors); seeded random values (half with '
            'subclasses, comments, trailing comments, calls) x layout configurations and seeded random documents over '
            'the full algebra with token and non-token annotations nested, each under a random style; under EVERY style '
            'documents nesting one syntax token inside another (quick: the pairs involving a token the style leaves '
            'unstyled + 10 random pairs; thorough: all pairs): the text written '
            'by colored_render_to_stream is compared byte for byte with the model instantiated with the tabulated '
            'colour strings. Oracle (independent SGR interpreter): stripping ESC[...m gives the plain rendering, every '
            'non-blank character carries exactly the attributes pygments prescribes for its innermost token (reference '
            'traversal of the sdoc stream), final state reset.' % len(styles))
    return run.finish()


def replay(path):
    with open(path) as f:
        p = json.load(f)
    print(json.dumps(p, indent=1)[:3000])
    if p.get('kind') == 'style-attributes':
        from pygments import styles
        try:
            sgr_table(styles.get_style_by_name(p['style']))
        except Exception as e:
            print('still fails:', e)
            return 1
        return 0
    return 1

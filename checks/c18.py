"""C18 - all entry points and configuration layers agree."""
import io
import json
import sys
import warnings

from common import rng, run_driver
from framework import Run

PROP = 'C18'
KEYS = ['indent', 'width', 'ribbon_width', 'depth', 'max_seq_len', 'sort_dict_keys']
SETTABLE = ['max_seq_len', 'width', 'ribbon_width', 'depth', 'sort_dict_keys']
DOMAIN = {
    'indent': [1, 2, 4, 7],
    'width': [5, 12, 30, 79],
    'ribbon_width': [4, 10, 25, 71],
    'depth': [None, 0, 1, 2, 5],
    'max_seq_len': [1, 2, 3, 1000],
    'sort_dict_keys': [False, True],
}


class Reg:
    """registered type whose __repr__ is pretty_repr"""
    def __init__(self, payload):
        self.payload = payload


def values():
    return [
        {'zeta': [1, 2, [3, 4, [5, [6]]]], 'alpha': 'lorem ipsum dolor sit amet ' * 3, 'mid': (1, 2, 3, 4)},
        [[{'b': 1, 'a': 2}, 'x' * 40], list(range(8))],
        ('short',),
        {3: {2: {1: {0: 'deep'}}}, 1: 'one'},
    ]


def sx_val(v):
    if v is None:
        return 'none'
    if isinstance(v, bool):
        return '(bool %d)' % (1 if v else 0)
    return '(int %d)' % v


def sx_env(d):
    return ' '.join('(%s %s)' % (k, sx_val(v)) for k, v in d.items())


def show(v):
    return 'none' if v is None else str(v)


def env_str(d, keys=KEYS):
    return ','.join('%s=%s' % (k, show(d[k])) for k in keys)


def reference_text(v, eff):
    """what the settings eff must produce: the pipeline below the entry points"""
    from prettyprinter.prettyprinter import python_to_sdocs
    from prettyprinter.render import default_render_to_str
    with warnings.catch_warnings():
        warnings.simplefilter('ignore')
        return default_render_to_str(list(python_to_sdocs(v, **eff)))


class ListStream(list):
    """a stream that is an (at first empty, hence falsy) list of the chunks written to it"""
    write = list.append

    def getvalue(self):
        return ''.join(self)


class CountingStream:
    """a stream with a length: falsy until something has been written"""
    def __init__(self):
        self.parts = []

    def write(self, s):
        self.parts.append(s)

    def __len__(self):
        return sum(len(p) for p in self.parts)

    def getvalue(self):
        return ''.join(self.parts)


_stream_turn = [0]


def new_stream():
    """the stream GIVEN to an entry point: StringIO, or an object that is falsy while empty"""
    _stream_turn[0] += 1
    return (io.StringIO, ListStream, CountingStream)[_stream_turn[0] % 3]()


def call_entry(ep, v, args, end):
    import prettyprinter as P
    import colorful
    with warnings.catch_warnings():
        warnings.simplefilter('ignore')
        if ep == 'pformat':
            return P.pformat(v, **args)
        if ep == 'pprint':
            s = new_stream()
            P.pprint(v, stream=s, end=end, **args)
            return s.getvalue()
        if ep == 'cpprint':
            s = new_stream()
            mode = colorful.colorful.colormode
            colorful.disable()
            try:
                P.cpprint(v, stream=s, end=end, **args)
            finally:
                colorful.colorful.colormode = mode
            return s.getvalue()
        if ep == 'PrettyPrinter.pformat':
            return P.PrettyPrinter(**args).pformat(v)
        if ep == 'PrettyPrinter.pprint':
            s = new_stream()
            P.PrettyPrinter(stream=s, end=end, **args).pprint(v)
            return s.getvalue()
        if ep == 'pretty_repr':
            return repr(Reg(v))
    raise ValueError(ep)


def gen_history(r, n):
    h = []
    for _ in range(n):
        if r.random() < 0.4:
            ks = r.sample(SETTABLE, r.randint(0, 3))
            h.append(('set', {k: r.choice(DOMAIN[k]) for k in ks}))
        else:
            ep = r.choice(['pformat', 'pprint', 'cpprint', 'PrettyPrinter.pformat', 'PrettyPrinter.pprint', 'pretty_repr'])
            ks = r.sample(KEYS, r.choice([0, 1, 1, 2, 3, 6])) if ep != 'pretty_repr' else []
            h.append(('call', ep, {k: r.choice(DOMAIN[k]) for k in ks}, r.randrange(4), r.choice(['\n', '', '<END>'])))
    return h


MODEL_EP = {'pformat': 'pformat', 'pprint': 'pprint', 'cpprint': 'cpprint',
            'PrettyPrinter.pformat': 'pformat', 'PrettyPrinter.pprint': 'pprint', 'pretty_repr': 'pformat'}


def run_history(h, vals, initial):
    """-> (model request, list of implementation observations, failures of the property oracle)"""
    import prettyprinter as P
    ops = []
    obs = []
    fails = []
    for op in h:
        if op[0] == 'set':
            before = dict(P.get_default_config())
            ret = P.set_default_config(**op[1])
            got = dict(P.get_default_config())
            want_cfg = dict(before)
            want_cfg.update(op[1])            # the property: exactly the settings it is given change
            if {k: got.get(k) for k in want_cfg} != want_cfg:
                fails.append(('set_default_config(%s) on defaults %s left the defaults %s, expected %s' % (
                    op[1], env_str(before), env_str(got), env_str(want_cfg)), op))
            ops.append('(set %s)' % sx_env(op[1]))
            obs.append(env_str(got) + ' | -')
            if dict(ret) != got:
                fails.append(('set_default_config return value differs from get_default_config()', op))
        else:
            _c, ep, args, vi, end = op
            v = vals[vi]
            defaults = dict(P.get_default_config())
            ops.append('(call %s %s)' % (MODEL_EP[ep], sx_env(args)))
            eff = {k: (args[k] if k in args else defaults[k]) for k in KEYS}      # the property's rule
            expect = reference_text(Reg(v) if ep == 'pretty_repr' else v, eff)
            try:
                got = call_entry(ep, v, args, end)
            except Exception as e:  # noqa
                got = 'EXC %s: %s' % (type(e).__name__, e)
            want = expect + (end if ep in ('pprint', 'cpprint', 'PrettyPrinter.pprint') else '')
            # observation for the model comparison: the effective configuration is
            # identified through the text it produces
            obs.append(env_str(defaults) + ' | ' + ('OK' if got == want else 'DIFF'))
            if got != want:
                fails.append(('%s%r on value #%d with defaults %s: text differs from the pipeline run at the '
                              'effective settings %s' % (ep, args, vi, env_str(defaults), env_str(eff)),
                              {'op': [ep, args, vi, end], 'got': got[:400], 'want': want[:400]}))
    req = '(cfg (%s) (%s))' % (sx_env(initial), ' '.join(ops))
    return req, obs, fails


_late_counter = [0]


def late_registration(mode, reprs_before):
    """pretty_repr on a class whose printer is registered only AFTER repr() was already used
    [reprs_before] times (directly / for a base class / by name): from then on repr() is pformat()"""
    import prettyprinter as P
    from prettyprinter import register_pretty, pretty_call, pretty_repr
    _late_counter[0] += 1
    base = type('LateBase%d' % _late_counter[0], (), {'__init__': lambda self, x: setattr(self, 'x', x)})
    cls = type('Late%d' % _late_counter[0], (base,), {})
    for c in (base, cls):
        c.__module__ = 'c18'
        c.__qualname__ = c.__name__
        setattr(sys.modules[__name__], c.__name__, c)
    cls.__repr__ = pretty_repr
    objs = [cls([1, 2]), cls('y')]
    with warnings.catch_warnings():
        warnings.simplefilter('ignore')
        for _ in range(reprs_before):
            repr(objs[0])

        def printer(value, ctx):
            return pretty_call(ctx, type(value), value.x)
        if mode == 'direct':
            register_pretty(cls)(printer)
        elif mode == 'base':
            register_pretty(base)(printer)
        elif mode == 'name':
            register_pretty('c18.' + cls.__name__)(printer)
        else:
            register_pretty('c18.' + base.__name__)(printer)
        for o in objs:
            got, want = repr(o), P.pformat(o)
            if got != want or not want.startswith('c18.Late'):
                return 'pretty_repr after a %s registration that followed %d repr() calls: %r, pformat gives %r' % (
                    mode, reprs_before, got[:120], want[:120])
    return None


def main(tier):
    run = Run(PROP, tier)
    built = run.build()
    run.prove()
    if built:
        import prettyprinter as P
        from prettyprinter import register_pretty, pretty_call, pretty_repr
        Reg.__repr__ = pretty_repr

        @register_pretty(Reg)
        def _pretty_reg(value, ctx):
            return pretty_call(ctx, Reg, value.payload)
        r = rng(PROP)
        vals = values()
        initial = dict(P.get_default_config())
        nh = 120 if tier == 'quick' else 1500
        hist = [gen_history(r, r.randint(3, 14)) for _ in range(nh)]
        reqs, allobs, nontrivial = [], [], 0
        dis = 0
        try:
            for h in hist:
                P.set_default_config(**{k: initial[k] for k in SETTABLE})
                req, obs, fails = run_history(h, vals, initial)
                reqs.append(req)
                allobs.append((h, obs))
                run.count(len(h))
                if any(op[0] == 'set' and op[1] for op in h) and any(op[0] == 'call' for op in h):
                    nontrivial += 1
                for what, detail in fails[:2]:
                    if len(run.violations) < 3:
                        run.violation({'kind': 'oracle', 'what': what, 'detail': detail,
                                       'history': h, 'initial': initial})
        finally:
            P.set_default_config(**{k: initial[k] for k in SETTABLE})
        nlate = 0
        for mode in ('direct', 'base', 'name', 'basename'):
            for k in (0, 1, 3):
                nlate += 1
                run.count(1)
                msg = late_registration(mode, k)
                if msg and len(run.violations) < 5:
                    run.violation({'kind': 'late-registration', 'what': msg, 'mode': mode, 'reprs_before': k})
        run.coverage['late_registration_cases'] = nlate
        out = run_driver(reqs)
        for (h, obs), line in zip(allobs, out):
            model = line.split(' ; ') if line else []
            for k, (o, m) in enumerate(zip(obs, model)):
                od, oe = o.split(' | ')
                md, me = m.split(' | ')
                # model prints the effective config; implementation side says OK when its text equals
                # the pipeline run at the property's effective config, which must equal the model's
                op = h[k]
                if od != md:
                    dis += 1
                    run.sample({'disagreement': 'defaults', 'impl': od, 'model': md, 'history': h[:k + 1]})
                elif op[0] == 'call':
                    defaults = dict(x.split('=') for x in od.split(','))
                    eff = ','.join('%s=%s' % (kk, show(op[2][kk]) if kk in op[2] else defaults[kk]) for kk in KEYS)
                    if me != eff:
                        dis += 1
                        run.sample({'disagreement': 'effective', 'model': me, 'rule': eff, 'history': h[:k + 1]})
            if len(obs) != len(model):
                dis += 1
        run.coverage['disagreements_checked'] = dis
        if dis:
            run.broken.append('correspondence: configuration state machine (defaults after each set / effective '
                              'configuration of each call), %d disagreements' % dis)
        run.coverage['distinct_nontrivial'] = nontrivial
        run.coverage['histories'] = len(hist)
        run.coverage['rule'] = (
            'random histories (3-14 operations) of set_default_config(subset of settable keys) and calls of pformat, '
            'pprint, cpprint (colour disabled), PrettyPrinter(...).pformat/pprint and pretty_repr with a random subset '
            'of explicit settings drawn from small domains, on 4 values sensitive to every setting. Each call must '
            'produce exactly the text of python_to_sdocs+default renderer at the effective settings (+ end); '
            'get_default_config() after each set and the effective configuration are compared with the extracted '
            'model run_cfg instantiated with the plumbing read off the source. non-trivial = histories with at least '
            'one effective set followed by a call. Also: classes using pretty_repr whose printer is registered (directly, for '
            'a base class, by name) only after repr() was already used 0, 1 or 3 times.')
        run.sample({'history': hist[0], 'impl_observations': allobs[0][1], 'model': out[0]})
    return run.finish()


def replay(path):
    with open(path) as f:
        p = json.load(f)
    if p.get('kind') == 'late-registration':
        msg = late_registration(p['mode'], p['reprs_before'])
        print(msg)
        return 1 if msg else 0
    if 'history' not in p:
        print(json.dumps(p, indent=1)[:3000])
        return 1
    import prettyprinter as P
    initial = dict(P.get_default_config())
    h = [tuple(op) for op in p['history']]
    _req, _obs, fails = run_history(h, values(), initial)
    P.set_default_config(**{k: initial[k] for k in SETTABLE})
    for f in fails:
        print(f)
    return 1 if fails else 0

"""C05 - a group laid out on one line never overflows the page or the ribbon."""
import json

import docgen
import enginecheck as EC
import laysem
from framework import Run

PROP = 'C05'


def oracle(term, smart, w, frac, impl_res):
    sp = EC.split_result(impl_res)
    if sp is None:
        return 'violation', 'the engine raised: %s' % impl_res
    stream = laysem.parse_stream(sp[0])
    rw = docgen.ribbon_width(w, frac)
    M = laysem.member
    # exists an assignment consistent with the output in which every flat group fits?
    if M(term, stream, flat_hardline=False, demote=False, fill_unab=False, fit=(w, rw)):
        return 'ok', ''
    # the open finding first: the output is explained, WITH every flat group's first line fitting, once a flat
    # group may contain a hardline (the decisions cannot always be reconstructed uniquely from the text: a
    # strict assignment that overflows may exist besides the one the engine really took)
    if M(term, stream, flat_hardline=True, demote=False, fill_unab=False, fit=(w, rw)):
        return 'known:C05-hardline-in-flat-group', ''
    if M(term, stream, flat_hardline=False, demote=False, fill_unab=False):
        return 'violation', 'in every flat/broken assignment consistent with the output some flat group sits on ' \
            'a line that ends beyond min(width, indent + ribbon)'
    if M(term, stream, flat_hardline=True, demote=False, fill_unab=False):
        return 'violation', 'flat group (containing a hardline) overflows on its first line'
    return 'violation', 'output is not a layout of the document'


def main(tier):
    run = Run(PROP, tier)
    built = run.build()
    run.prove()
    open_f = run.open_findings()
    known_hit = {}
    if built:
        groups = EC.gen_cases(PROP, tier, classic=True)
        total, dis, results = EC.run_diff(groups)
        run.count(total)
        run.coverage['correspondence_cases'] = total
        run.coverage['disagreements_checked'] = len(dis)
        if dis:
            run.broken.append('correspondence: engine level (classic algebra), %d disagreements' % len(dis))
        per_term = {}
        exact = 0
        for origin, t, smart, w, frac, rw, res in results:
            per_term.setdefault(json.dumps(t), set()).add(res.split(' | R ')[0])
        run.coverage['distinct_documents'] = len(per_term)
        run.coverage['distinct_nontrivial'] = sum(1 for v in per_term.values() if len(v) > 1)
        run.coverage['rule'] = (
            'classic-algebra documents (text, concat, nest, group, line, softline, hardline, always_break, align): '
            'corpus, all terms with <=4 nodes, a sample of 5-node terms, seeded random terms up to 40 nodes; every '
            'width 1..8 (quick) puts each small group at exact fit, fit-1 and fit+1; x ribbon fractions x both '
            'strategies. non-trivial = distinct documents whose stream differs between two configurations. Oracle on '
            'the implementation output: the reference matcher searches a flat/broken assignment consistent with the '
            'output in which every flat group\'s line ends within min(width, indent+ribbon)')
        r = __import__('common').rng(PROP + '/oracle')
        dis_keys = {(json.dumps(d['term']), d['smart'], d['width'], d['ribbon_frac']) for d in dis}
        checked = viol = 0
        import engine
        for rec in results:
            origin, t, smart, w, frac, rw, res = rec
            key = (json.dumps(t), smart, w, frac)
            if not (key in dis_keys or origin in ('corpus', 'random', 'align-nest', 'shared') or r.random() < (0.08 if tier == 'quick' else 0.2)):
                continue
            verdict, detail = oracle(t, smart, w, frac, res)
            checked += 1
            if verdict == 'ok':
                continue
            if verdict.startswith('known:') and verdict[6:] in open_f:
                known_hit.setdefault(verdict[6:], (t, smart, w, frac))
                continue
            viol += 1
            if viol <= 3:
                hist = EC.history(t, smart, w, frac)
                sh = origin == 'shared'
                small = docgen.shrink(t, lambda c: oracle(c, smart, w, frac, EC.impl_with_history(
                    c, hist, smart, w, frac, sh))[0] == 'violation')
                if oracle(small, smart, w, frac, EC.impl_with_history(small, [], smart, w, frac, sh))[0] == 'violation':
                    hist = []
                run.violation({'kind': 'oracle', 'term': small, 'original_term': t, 'smart': smart, 'width': w,
                               'ribbon_frac': frac, 'shared': sh, 'history': hist,
                               'impl': EC.impl_with_history(small, hist, smart, w, frac, sh), 'detail': detail})
        run.coverage['oracle_checked'] = checked
        for d in dis[:3]:
            run.sample({'disagreement': d})
        for rec in results[:2] + results[-3:]:
            run.sample({'origin': rec[0], 'term': rec[1], 'smart': rec[2], 'width': rec[3],
                        'ribbon_frac': rec[4], 'impl': rec[6][:200]})
    for fid, (t, smart, w, frac) in known_hit.items():
        run.known(fid, '%s e.g. term=%s width=%d smart=%s' % (open_f[fid]['what'], json.dumps(t), w, smart))
    return run.finish()


def replay(path):
    import engine
    with open(path) as f:
        p = json.load(f)
    if 'term' not in p:
        print(json.dumps(p, indent=1)[:3000])
        return 1
    t = EC.detuple(p['term'])
    res = EC.impl_with_history(t, [tuple(h) for h in p.get('history', [])], p['smart'], p['width'], p['ribbon_frac'],
                               p.get('shared'))
    verdict, detail = oracle(t, p['smart'], p['width'], p['ribbon_frac'], res)
    print('term:', t, '\nimpl:', res, '\nverdict:', verdict, detail)
    return 0 if verdict == 'ok' else 1

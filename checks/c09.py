"""C09 - comments are inert and preserved."""
import json

import printercheck as PC
import pprop
import valgen
from common import rng

PROP = 'C09'
DROP_ID = 'C09-trailing-dropped'
NOSUPPORT = 'does not support rendering trailing comments'


EMPTYSUB_ID = 'C09-empty-dict-subclass-trailing'


class _EmptyDictArg(__import__('ast').NodeTransformer):
    def visit_Call(self, node):
        import ast
        self.generic_visit(node)
        if len(node.args) == 1 and isinstance(node.args[0], ast.Dict) and not node.args[0].keys and not node.keywords:
            node.args = []
        return node


def _norm_empty_dict_arg(text):
    import ast
    tree = ast.parse('(' + text + '\n)', mode='eval')
    PC._SortSets().visit(tree)
    _EmptyDictArg().visit(tree)
    return ast.dump(tree)


SUBKEY_ID = 'C09-commented-subclass-key-sorting'


class _SortDictEntries(__import__('ast').NodeTransformer):
    def visit_Dict(self, node):
        import ast
        self.generic_visit(node)
        pairs = sorted(zip(node.keys, node.values), key=lambda kv: ast.dump(kv[0]))
        node.keys = [k for k, _v in pairs]
        node.values = [v for _k, v in pairs]
        return node


def _norm_dict_order(text):
    import ast
    tree = ast.parse('(' + text + '\n)', mode='eval')
    PC._SortSets().visit(tree)
    _SortDictEntries().visit(tree)
    return ast.dump(tree)


def _sub_seq_with_comment(t):
    """does the term contain a tuple/frozenset SUBCLASS instance with a comment wrapper inside it?"""
    k = t[0]
    if k == 'sub':
        return (t[2][0] in ('tuple', 'frozenset') and bool(attached(t[2]))) or _sub_seq_with_comment(t[2])
    if k in ('commented', 'trailing'):
        return _sub_seq_with_comment(t[1])
    if k in ('list', 'tuple', 'set', 'frozenset'):
        return any(_sub_seq_with_comment(x) for x in t[1])
    if k == 'dict':
        return any(_sub_seq_with_comment(a) or _sub_seq_with_comment(b) for a, b in t[1])
    if k == 'call':
        return any(_sub_seq_with_comment(x) for x in t[2]) or any(_sub_seq_with_comment(x) for _kw, x in t[3])
    return False


def subclass_key_with_comment(t):
    """some dict key of the term contains a tuple/frozenset subclass instance holding a comment"""
    k = t[0]
    if k == 'dict':
        return any(_sub_seq_with_comment(a) or subclass_key_with_comment(a) or subclass_key_with_comment(b)
                   for a, b in t[1])
    if k in ('commented', 'trailing'):
        return subclass_key_with_comment(t[1])
    if k in ('list', 'tuple', 'set', 'frozenset'):
        return any(subclass_key_with_comment(x) for x in t[1])
    if k == 'sub':
        return subclass_key_with_comment(t[2])
    if k == 'call':
        return any(subclass_key_with_comment(x) for x in t[2]) or any(subclass_key_with_comment(x) for _kw, x in t[3])
    return False


def attached(t, out=None):
    """[(kind, base term, text)] of every comment wrapper in the term, in document order"""
    out = out if out is not None else []
    k = t[0]
    if k in ('commented', 'trailing'):
        base = t[1]
        while base[0] in ('commented', 'trailing'):
            base = base[1]
        out.append((k, base, t[2]))
        attached(t[1], out)
    elif k in ('list', 'tuple', 'set', 'frozenset'):
        for x in t[1]:
            attached(x, out)
    elif k == 'dict':
        for a, b in t[1]:
            attached(a, out)
            attached(b, out)
    elif k == 'sub':
        attached(t[2], out)
    elif k == 'call':
        for x in t[2]:
            attached(x, out)
        for _kw, x in t[3]:
            attached(x, out)
    return out


def shows_trailing(base):
    """node kinds whose printer renders a trailing comment: non-empty list / tuple / set
    (also of a subclass) and every dict"""
    if base[0] == 'sub':
        base = base[2]
    if base[0] in ('list', 'tuple', 'set'):
        return len(base[1]) > 0
    if base[0] == 'dict':
        return len(base[1]) > 0 or True
    return False


def is_subseq(words, hay):
    it = iter(hay)
    return all(any(w == h for h in it) for w in words)


def oracle(c):
    if c.text.startswith('EXC '):
        return 'pformat raised ' + c.text
    att = attached(c.term)
    other = [w for w in c.warnings if NOSUPPORT not in w]
    if other:
        return 'printing warned / degraded to repr: ' + other[0][:200]
    plain_t = PC.strip_comments_term(c.term)
    pv, _ = valgen.build(plain_t)
    plain_text, pw = PC.impl_pformat(pv, c.cfg)
    try:
        tree = PC.parse_text(c.text, unordered_sets=True)
    except SyntaxError as e:
        return 'commented output does not parse: %s' % e
    try:
        ptree = PC.parse_text(plain_text, unordered_sets=True)
    except SyntaxError as e:
        return 'uncommented output does not parse: %s' % e
    if tree != ptree:
        if EMPTYSUB_ID and _norm_empty_dict_arg(c.text) == _norm_empty_dict_arg(plain_text) and \
                any(k == 'trailing' and b[0] == 'sub' and b[2] == ('dict', []) for k, b, _t in att):
            return ('known', EMPTYSUB_ID, 'empty dict subclass with a trailing comment')
        if c.cfg.get('sort_dict_keys') and subclass_key_with_comment(c.term) and \
                _norm_dict_order(c.text) == _norm_dict_order(plain_text):
            return ('known', SUBKEY_ID, 'order of entries: a key holds a tuple/frozenset subclass instance with a comment inside')
        return 'syntax tree differs from the uncommented value:\n%s\n--- vs ---\n%s' % (c.text[:300], plain_text[:300])
    cwords = []
    for tok in PC.comments_of(c.text):
        cwords += tok[1:].split()
    known = None
    for kind, base, text in att:
        words = text.split()
        if not words:
            continue
        if not is_subseq(words, cwords):
            if kind == 'trailing' and not shows_trailing(base) or \
                    (kind == 'trailing' and base[0] == 'dict' and False):
                known = ('known', DROP_ID, 'trailing comment %r on a %s is dropped' % (text[:30], base[0]))
                continue
            return 'words of %s comment %r on a %s do not appear in order in the # comments %r' % (
                kind, text[:60], base[0], cwords[:30])
    if any(NOSUPPORT in w for w in c.warnings) and known is None:
        known = ('known', DROP_ID, 'trailing comment unsupported warning')
    return known


def cases_for(tier):
    r = rng(PROP)
    cases = []
    texts = valgen.COMMENT_TEXTS
    widths = [1, 3, 8, 20, 40, 79, 200]
    nodes = [('int', 1), ('str', 'a b'), ('list', []), ('list', [('int', 1)]), ('tuple', [('int', 1)]),
             ('tuple', [('int', 1), ('int', 2)]), ('set', [('int', 1)]), ('dict', []), ('dict', [(('str', 'k'), ('int', 1))]),
             ('frozenset', [('int', 1)]), ('none',), ('sub', 'plain', ('list', [('int', 1)]))]
    for node in nodes:
        for txt in texts:
            for wrap in ('commented', 'trailing'):
                w0 = (wrap, node, txt)
                ctxs = [w0, ('list', [w0]), ('tuple', [w0]), ('tuple', [w0, ('int', 9)]), ('list', [('int', 0), w0]),
                        ('dict', [(('str', 'key'), w0)]), ('call', 'make', [w0], [('kw', w0)]),
                        ('dict', [(('str', 'a'), w0), (('str', 'b'), ('int', 2))])]
                if valgen.hashable(node):
                    ctxs.append(('dict', [(w0, ('int', 1))]))
                    ctxs.append(('set', [w0]))
                for t in (ctxs if tier != 'quick' else r.sample(ctxs, 4)):
                    w = r.choice(widths)
                    cases.append(('enum', t, dict(width=w, ribbon_width=r.choice([w, max(1, w // 2)]),
                                                  indent=r.choice([1, 4, 8]))))
    # a comment on a KEYWORD argument only, in calls short enough to fit the line
    for node in nodes[:6]:
        for txt in ('c', 'two words'):
            w0 = ('commented', node, txt)
            for t in (('call', 'make', [], [('kw', w0)]), ('call', 'make', [('int', 1)], [('kw', w0)]),
                      ('call', 'make', [('int', 1)], [('a', ('int', 2)), ('kw', w0), ('z', ('int', 3))]),
                      ('call', 'make', [], [('kw', w0), ('z', ('int', 3))]),
                      ('list', [('call', 'make', [('int', 1)], [('a', ('int', 2)), ('kw', w0)])])):
                for w in (200, 79, 30):
                    cases.append(('kwcomment', t, dict(width=w, indent=r.choice([1, 4]))))
    # the user's words are data, never a template: braces / percent signs in the trailing comment of a container
    # that is ALSO cut by max_seq_len (its notice and the user text share one comment)
    for node in (('list', [('int', i) for i in range(4)]), ('tuple', [('int', i) for i in range(3)]),
                 ('set', [('int', 1), ('int', 2), ('int', 3)]), ('dict', [(('int', i), ('int', 0)) for i in range(3)])):
        for txt in ('see {docs} for the rest', 'first {0} second {1}', 'doubled {{braces}} stay', 'percent %s %(x)s %', 'open { only'):
            w0 = ('trailing', node, txt)
            for t in (w0, ('list', [w0]), ('dict', [(('str', 'k'), w0)])):
                for msl in (2, 1, None):
                    cases.append(('template', t, dict(width=r.choice([20, 79]), max_seq_len=msl)))
    # both wrappers on one node, nested comments
    for txt in texts[:6]:
        for node in nodes[:6]:
            cases.append(('double', ('commented', ('trailing', node, txt), 'outer ' + txt), dict(width=r.choice(widths))))
            cases.append(('double', ('trailing', ('commented', node, txt), 'tr ' + txt), dict(width=r.choice(widths))))
            # the same kind of wrapper twice and three times on one node
            cases.append(('double', ('commented', ('commented', node, txt), 'outer ' + txt), dict(width=r.choice(widths))))
            cases.append(('double', ('trailing', ('trailing', node, txt), 'outer ' + txt), dict(width=r.choice(widths))))
            cases.append(('double', ('list', [('trailing', ('commented', ('trailing', node, txt), 'mid'), 'outer ' + txt)]),
                          dict(width=r.choice(widths))))
    # key sorting must look through the comment wrapper of a key
    for txt in texts[:4]:
        for keys in ([2, 1, 3], [3, 2, 1], [1, 3, 2]):
            for ci in range(3):
                pairs = [((('commented', ('int', k), txt) if i == ci else ('int', k)), ('str', 'v%d' % k))
                         for i, k in enumerate(keys)]
                cases.append(('sorted-keys', ('dict', pairs), dict(width=r.choice(widths), sort_dict_keys=True)))
                spairs = [((('commented', ('str', 'k%d' % k), txt) if i == ci else ('str', 'k%d' % k)), ('int', k))
                          for i, k in enumerate(keys)]
                cases.append(('sorted-keys', ('dict', spairs), dict(width=r.choice(widths), sort_dict_keys=True)))
    # ... and through the comment wrappers of the elements of tuple / frozenset keys
    def kt(k, ci, i, txt):
        el = ('commented', ('int', k), txt) if i == ci else ('int', k)
        return ('tuple', [el, ('int', 0)])
    for txt in texts[:3]:
        for keys in ([2, 1, 3], [3, 2, 1], [1, 3, 2]):
            for ci in range(3):
                pairs = [(kt(k, ci, i, txt), ('str', 'v%d' % k)) for i, k in enumerate(keys)]
                cases.append(('sorted-keys', ('dict', pairs), dict(width=r.choice(widths), sort_dict_keys=True)))
                cases.append(('sorted-keys', ('dict', pairs + [(('tuple', [('float', float('inf'))]), ('int', 0))]),
                              dict(width=r.choice(widths), sort_dict_keys=True)))
                nest = [(('tuple', [('int', 0), kt(k, ci, i, txt)]), ('int', k)) for i, k in enumerate(keys)]
                cases.append(('sorted-keys', ('dict', nest), dict(width=r.choice(widths), sort_dict_keys=True)))
                fz = [(('frozenset', [(('commented', ('int', j), txt) if (i == ci and j == 1) else ('int', j))
                                      for j in range(1, k + 1)]), ('int', k)) for i, k in enumerate(keys)]
                cases.append(('sorted-keys', ('dict', fz), dict(width=r.choice(widths), sort_dict_keys=True)))
                # keys under two and three wrappers
                def multi(kterm, depth):
                    t = kterm
                    for j in range(depth):
                        t = (('commented', t, txt + ' %d' % j) if j % 2 == 0 else ('trailing', t, 'tail') if t[0] == 'tuple' else ('commented', t, 'again'))
                    return t
                for depth in (2, 3):
                    pairs2 = [((multi(('int', k), depth) if i == ci else ('int', k)), ('str', 'v%d' % k)) for i, k in enumerate(keys)]
                    cases.append(('sorted-keys', ('dict', pairs2), dict(width=r.choice(widths), sort_dict_keys=True)))
                    pairs3 = [((multi(('tuple', [('int', k), ('int', 0)]), depth) if i == ci else ('tuple', [('int', k), ('int', 0)])), ('int', k))
                              for i, k in enumerate(keys)]
                    cases.append(('sorted-keys', ('dict', pairs3), dict(width=r.choice(widths), sort_dict_keys=True)))
                    pairs4 = [((multi(('str', 'k%d' % k), depth) if i == ci else ('str', 'k%d' % k)), ('int', k)) for i, k in enumerate(keys)]
                    cases.append(('sorted-keys', ('dict', pairs4), dict(width=r.choice(widths), sort_dict_keys=True)))
                # subclass instances as keys: the open finding
                sub = [(('sub', 'plain', kt(k, ci, i, txt)), ('int', k)) for i, k in enumerate(keys)]
                cases.append(('sorted-keys', ('dict', sub), dict(width=r.choice(widths), sort_dict_keys=True)))
    n = 1500 if tier == 'quick' else 25000
    k = 0
    while k < n:
        t = valgen.dedupe(valgen.rand_val(r, r.randint(2, 25), {'comment', 'trailing', 'call', 'sub'}))
        if not attached(t):
            continue
        k += 1
        pv, _ = valgen.build(PC.strip_comments_term(t))
        for cfg in PC.std_cfgs(r, 2, sort=(r.random() < 0.4 and PC.comparable(pv))):
            cases.append(('random', t, cfg))
    return cases


RULE = ('comment()/trailing_comment() with 12 adversarial texts (several words, two lines, blank line, "#", brackets, '
        'quotes, leading/trailing blanks, only a newline, words longer than the line, tab/vertical tab, non-ASCII) on '
        '12 node kinds (leaves, empty and non-empty list/tuple/set/dict/frozenset, 1-tuple, subclass instance) in 10 '
        'placements (top, sole element, 1-tuple element, first/last of many, dict key/value, call argument/keyword, set '
        'element), both wrappers on one node, seeded random trees with comments anywhere; widths 1..200. Oracle: no '
        'exception, no degrade-to-repr warning, ast identical to the uncommented value printed at the same settings, '
        'words of every attached comment a subsequence of the words of the COMMENT tokens. Compared with the model.')


LAZY_RULE = (' In fresh interpreters: values of the types whose bundled printer is registered by name (Enum, IntFlag, '
             'UUID, PurePosixPath, PureWindowsPath, partial, mappingproxy) printed for the first time inside comment() / '
             'trailing_comment() / two comments, at 5 positions, then bare, then commented again: same syntax tree, '
             'comment text present, no warning.')


def nontrivial(c):
    return len(PC.comments_of(c.text)) > 0


LAZY_POSITIONS = ('top', 'list', 'dictvalue', 'trailing', 'double')


def lazy_first(pos):
    """fresh interpreter: first print of each lazily registered type is the commented one"""
    import os
    import subprocess
    import sys
    from common import VERIF
    env = dict(os.environ)
    env['PYTHONPATH'] = os.pathsep.join([os.environ.get('VERIF_REPO', '/repo'), os.path.join(VERIF, 'harness')])
    p = subprocess.run([sys.executable, os.path.join(VERIF, 'harness', 'lazyfirst.py'), pos], stdout=subprocess.PIPE,
                       stderr=subprocess.PIPE, text=True, env=env, timeout=600)
    if p.returncode != 0:
        raise RuntimeError('lazyfirst worker failed: ' + p.stderr[-500:])
    return json.loads(p.stdout)


def lazy_oracle(pos, rec):
    import ast
    name, first, second, again, ws = rec
    if pos == 'trailing':
        # the open finding C09-trailing-dropped (reported by the main family): these printers take no trailing comment
        ws = [w for w in ws if NOSUPPORT not in w]
    if ws:
        return 'warning while printing: ' + ws[0]
    try:
        want = ast.dump(ast.parse('(' + second + '\n)', mode='eval'))
    except Exception as e:
        return 'the uncommented %s does not parse: %s' % (name, e)
    for label, text in (('first print of the type, commented', first), ('commented again', again)):
        try:
            got = ast.dump(ast.parse('(' + text + '\n)', mode='eval'))
        except Exception as e:
            return '%s: not a valid expression (%s):\n%s\n--- uncommented ---\n%s' % (label, e, text[:300], second[:300])
        if got != want:
            return '%s: another syntax tree than the uncommented value:\n%s\n--- uncommented ---\n%s' % (
                label, text[:300], second[:300])
        words = ' '.join(t[1:].strip() for t in PC.comments_of(text))
        if 'note' not in words and pos != 'trailing':
            return '%s: the comment text is missing:\n%s' % (label, text[:300])
    return None


def _sample_function(x):
    return x


def remark_values():
    """values whose own printer already attaches a remark (functions, built-in functions, bound methods,
    classes outside builtins): the user's comment must appear next to it"""
    import collections
    import datetime
    return [('built-in function', len), ('bound method', [].append), ('function', _sample_function),
            ('class', collections.OrderedDict), ('class', datetime.date), ('builtin class', int)]


def remark_oracle(label, v, wrap, width):
    import ast
    from prettyprinter import comment, trailing_comment
    places = {'top': lambda x: x, 'list': lambda x: [x, 1], 'dictvalue': lambda x: {'k': x}, 'sole': lambda x: [x]}
    for pname, place in places.items():
        wrapped = comment(v, 'usernote alpha') if wrap == 'comment' else comment(comment(v, 'usernote alpha'), 'beta')
        text, ws = PC.impl_pformat(place(wrapped), dict(width=width))
        plain, _w = PC.impl_pformat(place(v), dict(width=width))
        if ws:
            return '%s at %s: warning %s' % (label, pname, ws[0][:120])
        try:
            same = ast.dump(ast.parse('(' + text + '\n)', mode='eval')) == ast.dump(ast.parse('(' + plain + '\n)', mode='eval'))
        except SyntaxError as e:
            return '%s at %s: not a valid expression (%s):\n%s' % (label, pname, e, text[:200])
        if not same:
            return '%s at %s: another syntax tree than uncommented:\n%s\n--- vs ---\n%s' % (label, pname, text[:200], plain[:200])
        words = ' '.join(t[1:].strip() for t in PC.comments_of(text)).split()
        need = ['usernote', 'alpha'] + (['beta'] if wrap == 'double' else [])
        if not is_subseq(need, words) and not all(w in words for w in need):
            return '%s at %s (width %d): words of the attached comment missing from %r:\n%s' % (label, pname, width, words, text[:200])
    return None


def lazy_extra(run, res):
    nr = 0
    for label, v in remark_values():
        for wrap in ('comment', 'double'):
            for width in (79, 20):
                nr += 1
                msg = remark_oracle(label, v, wrap, width)
                if msg and len(run.violations) < 6:
                    run.violation({'kind': 'remark-value-commented', 'label': label, 'wrap': wrap, 'width': width, 'detail': msg})
    run.count(nr)
    run.coverage['values_with_a_printer_remark_commented'] = nr
    n = 0
    for pos in LAZY_POSITIONS:
        for rec in lazy_first(pos):
            n += 1
            msg = lazy_oracle(pos, rec)
            if msg and len(run.violations) < 6:
                run.violation({'kind': 'lazy-type-commented-first', 'position': pos, 'type': rec[0], 'detail': msg})
    run.count(n)
    run.coverage['lazily_registered_types_commented_first'] = n


def main(tier):
    return pprop.run_property(PROP, tier, cases_for(tier), oracle, RULE + LAZY_RULE, nontrivial=nontrivial, extra=lazy_extra)


def replay(path):
    with open(path) as f:
        p = json.load(f)
    if p.get('kind') == 'remark-value-commented':
        bad = [remark_oracle(l, v, p['wrap'], p['width']) for l, v in remark_values() if l == p['label']]
        print('oracle:', bad)
        return 1 if any(bad) else 0
    if p.get('kind') == 'lazy-type-commented-first':
        bad = [lazy_oracle(p['position'], rec) for rec in lazy_first(p['position']) if rec[0] == p['type']]
        print('oracle:', bad)
        return 1 if any(bad) else 0
    return pprop.replay_property(path, oracle)

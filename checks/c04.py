"""C04 - the layout engine only ever picks one of the layouts a document denotes."""
import json
import os

import docgen
import enginecheck as EC
import laysem
from framework import Run

PROP = 'C04'


def strip_annots(t):
    k = t[0]
    if k == 'An':
        return strip_annots(t[2])
    if k in ('C', 'Fi'):
        return (k, [strip_annots(x) for x in t[1]])
    if k in ('Ne', 'Hg'):
        return (k, t[1], strip_annots(t[2]))
    if k in ('G', 'AB', 'Al'):
        return (k, strip_annots(t[1]))
    if k == 'FC':
        return (k, strip_annots(t[1]), strip_annots(t[2]))
    return t


def oracle(term, smart, w, frac, impl_res):
    """Property oracle on the implementation's own output.
    -> (verdict, detail): 'ok' | 'known:<finding id>' | 'violation'"""
    sp = EC.split_result(impl_res)
    if sp is None:
        return 'violation', 'the engine raised: %s' % impl_res
    stream_str, text = sp
    stream = laysem.parse_stream(stream_str)
    cls = laysem.classify(term, stream)
    if cls == 'NOT-A-LAYOUT':
        return 'violation', 'the emitted stream is not a layout of the document under any assignment'
    if not laysem.render_ok(stream_str, text):
        return 'violation', 'default renderer changed more than trailing whitespace'
    # balanced annotations
    depth = []
    for it in stream:
        if it[0] == 'U':
            depth.append(it[1])
        elif it[0] == 'O':
            if not depth or depth.pop() != it[1]:
                return 'violation', 'annotation push/pop not well nested'
    if depth:
        return 'violation', 'annotation push/pop not well nested'
    if cls is None:
        return 'ok', ''
    has_fill = 'Fi' in docgen.kinds(term)
    if cls in ('fill_unab', 'flat_hardline+fill_unab') or (cls == 'demote' and has_fill):
        return 'known:C04-fill-item-always-break', cls
    if cls == 'flat_hardline':
        return 'known:C04-hardline-in-flat-group', cls
    return 'violation', 'a forced break does not force the enclosing group to break, and no hardline ' \
        'precedes it in the flat group (weakest accepting relaxation: %s)' % (cls,)


def annot_transparent(term, smart, w, frac):
    from engine import impl_layout
    a = EC.split_result(impl_layout(docgen.to_real(term), smart, w, frac))
    b = EC.split_result(impl_layout(docgen.to_real(strip_annots(term)), smart, w, frac))
    if a is None or b is None:
        return a is None and b is None
    return a[1] == b[1]


def main(tier):
    run = Run(PROP, tier)
    built = run.build()
    run.prove()
    open_f = run.open_findings()
    known_hit = {}
    if built:
        groups = EC.gen_cases(PROP, tier, classic=False)
        total, dis, results = EC.run_diff(groups)
        run.coverage['correspondence_cases'] = total
        run.coverage['disagreements_checked'] = len(dis)
        run.count(total)
        if dis:
            run.broken.append('correspondence: engine level (SDoc stream / rendered text), %d disagreements' % len(dis))
        # ---- input distribution -------------------------------------------
        hist = {}
        per_term = {}
        forced = 0
        for origin, t, smart, w, frac, rw, res in results:
            key = json.dumps(t)
            per_term.setdefault(key, set()).add(res.split(' | R ')[0])
        for key in per_term:
            for k, v in docgen.kinds(EC.detuple(json.loads(key))).items():
                hist[k] = hist.get(k, 0) + v
        nontrivial = sum(1 for v in per_term.values() if len(v) > 1)
        run.coverage['distinct_documents'] = len(per_term)
        run.coverage['distinct_nontrivial'] = nontrivial
        run.coverage['combinator_histogram'] = hist
        run.coverage['origins'] = {}
        for origin, *_ in results:
            run.coverage['origins'][origin] = run.coverage['origins'].get(origin, 0) + 1
        run.coverage['rule'] = (
            'documents: corpus, all terms with <=4 nodes over texts {a,bb,space} and '
            '{NIL, empty str, HARDLINE, LINE, SOFTLINE, group, nest, always_break, align, annotate, concat, fill, '
            'flat_choice}, a sample of the 5-node terms, seeded random terms up to 40 nodes (hang, negative nest, '
            'token annotations); configurations: widths x ribbon fractions x {layout_smart, layout_fast}. '
            'Compared: complete SDoc stream and default_render_to_str, implementation vs extracted model. '
            'non-trivial = distinct documents whose stream differs between at least two configurations')
        # ---- property oracle on the implementation ------------------------
        r = __import__('common').rng(PROP + '/oracle')
        # the matcher is slower than the engine: all disagreeing cases, all corpus
        # and random cases, and a sample of the enumerated ones
        dis_keys = {(json.dumps(d['term']), d['smart'], d['width'], d['ribbon_frac']) for d in dis}
        sample = []
        for rec in results:
            origin = rec[0]
            key = (json.dumps(rec[1]), rec[2], rec[3], rec[4])
            if key in dis_keys or origin in ('corpus', 'random', 'align-nest', 'shared') or r.random() < (0.06 if tier == 'quick' else 0.15):
                sample.append(rec)
        checked = 0
        viol = 0
        for origin, t, smart, w, frac, rw, res in sample:
            verdict, detail = oracle(t, smart, w, frac, res)
            checked += 1
            if verdict == 'ok':
                continue
            if verdict.startswith('known:'):
                fid = verdict[6:]
                if fid in open_f:
                    known_hit.setdefault(fid, (t, smart, w, frac, res))
                    continue
                detail = 'finding %s is not listed as open' % fid
            viol += 1
            if viol <= 3:
                hist = EC.history(t, smart, w, frac)
                sh = origin == 'shared'
                small = docgen.shrink(t, lambda c: oracle(c, smart, w, frac, EC.impl_with_history(
                    c, hist, smart, w, frac, sh))[0] == 'violation')
                if oracle(small, smart, w, frac, EC.impl_with_history(small, [], smart, w, frac, sh))[0] == 'violation':
                    hist = []
                run.violation({'kind': 'oracle', 'term': small, 'original_term': t, 'smart': smart, 'width': w,
                               'ribbon_frac': frac, 'shared': sh, 'history': hist,
                               'impl': EC.impl_with_history(small, hist, smart, w, frac, sh), 'detail': str(detail)})
        # annotation transparency on the random documents
        tchecked = 0
        for origin, t, smart, w, frac, rw, res in sample:
            if origin != 'random' or 'An' not in docgen.kinds(t) or 'Fi' in docgen.kinds(t):
                continue   # with fill: attributed to the open finding C04-fill-item-always-break
            tchecked += 1
            if not annot_transparent(t, smart, w, frac):
                run.violation({'kind': 'annotation-changes-text', 'term': t, 'smart': smart, 'width': w,
                               'ribbon_frac': frac})
                break
        run.coverage['oracle_checked'] = checked
        run.coverage['annotation_transparency_checked'] = tchecked
        for d in dis[:3]:
            small = d['term']
            run.sample({'disagreement': d})
        if dis and not run.violations:
            # no concrete property failure found among the disagreeing inputs
            run.coverage['first_disagreement'] = dis[0]
        for rec in results[:3] + results[-3:]:
            run.sample({'origin': rec[0], 'term': rec[1], 'smart': rec[2], 'width': rec[3],
                        'ribbon_frac': rec[4], 'impl': rec[6][:200]})
    for fid, (t, smart, w, frac, res) in known_hit.items():
        run.known(fid, '%s e.g. term=%s width=%d smart=%s' % (open_f[fid]['what'], json.dumps(t), w, smart))
    return run.finish()


def replay(path):
    with open(path) as f:
        p = json.load(f)
    if 'term' not in p:
        print(json.dumps(p, indent=1)[:3000])
        return 1
    from engine import impl_layout
    t = EC.detuple(p['term'])
    res = EC.impl_with_history(t, [tuple(h) for h in p.get('history', [])], p['smart'], p['width'], p['ribbon_frac'],
                               p.get('shared'))
    verdict, detail = oracle(t, p['smart'], p['width'], p['ribbon_frac'], res)
    print('term:', t)
    print('impl:', res)
    print('verdict:', verdict, detail)
    return 0 if verdict == 'ok' else 1

"""C06 - whatever fits on one line is put on one line."""
import json

import docgen
import enginecheck as EC
import laysem
from framework import Run

PROP = 'C06'
BIG = 10 ** 6


def no_forced(t):
    """no forced break, and (as in the theorem) no negative nest offset: with a
    negative indentation the ribbon is measured from left of column 0"""
    ks = docgen.kinds(t)
    return 'AB' not in ks and 'H' not in ks and not neg_nest(t)


def neg_nest(t):
    k = t[0]
    if k in ('Ne', 'Hg'):
        return t[1] < 0 or neg_nest(t[2])
    if k in ('C', 'Fi'):
        return any(neg_nest(x) for x in t[1])
    if k in ('G', 'AB', 'Al'):
        return neg_nest(t[1])
    if k == 'FC':
        return neg_nest(t[1]) or neg_nest(t[2])
    if k == 'An':
        return neg_nest(t[2])
    return False


def single_line_oracle(term, smart):
    """engine-level reading of the 'in particular' clause for a document
    without forced breaks: if the layout at an unbounded width is a single line
    of L columns, the layout at every width >= L (ribbon = width) is the same.
    -> list of failing widths"""
    import engine
    real = docgen.to_real(term)
    big = EC.split_result(engine.impl_layout(real, smart, BIG, 1.0))
    if big is None:
        return None, ['raised']
    stream = laysem.parse_stream(big[0])
    if any(it[0] == 'L' for it in stream):
        return None, []
    L = sum(len(it[1]) for it in stream if it[0] == 'T')
    bad = []
    for w in range(max(L, 1), L + 4):
        r = EC.split_result(engine.impl_layout(real, smart, w, 1.0))
        if r is None or r[0] != big[0]:
            bad.append(w)
    return L, bad


def flat_text(t):
    """the one-line rendering of a document without forced breaks, read off the term itself (no engine involved)"""
    k = t[0]
    if k == 'N' or k == 'SL':
        return ''
    if k == 'T':
        return t[1]
    if k == 'L':
        return ' '
    if k in ('C', 'Fi'):
        return ''.join(flat_text(x) for x in t[1])
    if k in ('G', 'Al'):
        return flat_text(t[1])
    if k in ('Ne', 'Hg', 'An'):
        return flat_text(t[2])
    if k == 'FC':
        return flat_text(t[2])
    raise ValueError(t)


def flat_oracle(term, smart):
    """the clause itself, with the one-line text taken from the document and not from a wide layout: a GROUP
    without forced breaks whose flat text has L columns is laid out as exactly that one line at every width
    >= L with the ribbon as wide as the page.  -> (L, failing widths)"""
    import engine
    g = term if term[0] == 'G' else ('G', term)
    flat = flat_text(g)
    L = len(flat)
    real = docgen.to_real(g)
    bad = []
    for w in (max(L, 1), L + 1, L + 7, BIG):
        r = EC.split_result(engine.impl_layout(real, smart, w, 1.0))
        if r is None:
            bad.append(w)
            continue
        stream = laysem.parse_stream(r[0])
        if any(it[0] == 'L' for it in stream) or ''.join(it[1] for it in stream if it[0] == 'T') != flat:
            bad.append(w)
    return L, bad


def value_histories(tier, r):
    """built-in value trees with strings (pformat level): each value is printed in ONE process under a sequence
    of configurations sharing the page width - narrow ribbon first, then ribbons at least as wide as its one-line
    text - and again at another width"""
    import valgen
    out = []
    n = 250 if tier == 'quick' else 4000
    for _ in range(n):
        t = valgen.rand_val(r, r.randint(1, 8), set())
        words = ''.join(r.choice('abcdefg ') for _ in range(r.randint(8, 50)))
        leaf = r.choice([('str', words), ('bytes', words.encode()), ('str', 'x' * r.randint(10, 40))])
        t = r.choice([('list', [leaf]), ('dict', [(('str', 'key'), leaf)]), ('tuple', [t, leaf]), ('list', [leaf, t]),
                      ('dict', [(leaf, t)]), ('set', [leaf])])
        out.append(t)
    return out


def value_oracle(t):
    """-> None or a failure record: a value whose one-line text has L columns is printed as that line under every
    (width, ribbon) with L <= width and L <= ribbon, whatever was printed before"""
    import printercheck as PC
    import valgen
    v, _sx = valgen.build(t)
    one, ws = PC.impl_pformat(v, dict(width=BIG, ribbon_width=BIG))
    if one.startswith('EXC ') or '\n' in one:
        return None
    L = len(one)
    for w in (L + 9, L, 97 if L <= 97 else L + 1):
        seq = [max(1, L // 2), L, w, max(1, L - 1), w]
        for rb in seq:
            text, _ws = PC.impl_pformat(v, dict(width=w, ribbon_width=rb))
            if L <= w and L <= rb and text != one:
                return {'term': PC.jsonable(t), 'L': L, 'width': w, 'ribbon_width': rb, 'sequence': seq,
                        'impl': text, 'one_line': one}
    return None


def config_oracle(term, smart, w, frac):
    """the same clause at an arbitrary ribbon: a single-line layout of L columns
    must be kept at (w, frac) whenever L <= w and L <= the ribbon width the
    property prescribes for (w, frac) (computed here, not taken from layout.py)"""
    import engine
    real = docgen.to_real(term)
    big = EC.split_result(engine.impl_layout(real, smart, BIG, 1.0))
    if big is None:
        return None
    stream = laysem.parse_stream(big[0])
    if any(it[0] == 'L' for it in stream):
        return None
    L = sum(len(it[1]) for it in stream if it[0] == 'T')
    if L > w or L > docgen.ribbon_width(w, frac):
        return None
    r = EC.split_result(engine.impl_layout(real, smart, w, frac))
    if r is None or r[0] != big[0]:
        return L
    return None


def probe_term(p, a, b, k, t):
    """prefix  group(a LINE b)  [nest(k, HARDLINE t)]"""
    items = ([('T', 'p' * p)] if p else []) + [('G', ('C', [('T', 'a' * a), ('L',), ('T', 'b' * b)]))]
    if t is not None:
        items.append(('Ne', k, ('C', [('H',), ('T', 't' * t)])))
    return ('C', items)


def probe_cases(tier, r):
    out = []
    ws = (6, 9, 12, 20) if tier == 'quick' else (5, 6, 8, 9, 12, 16, 20, 31)
    for w in ws:
        for frac in (1.0, 0.7, 0.5):
            for p in (0, 3):
                for a, b in ((1, 1), (2, 3), (w // 2, w // 2 - 1), (w // 2, w // 2)):
                    for k, t in ((0, None), (0, 3), (1, w), (2, w - 2), (2, w - 1), (4, w // 2), (w, 1), (w + 1, 1),
                                 (2 * w, 2), (3, w - 3)):
                        for smart in (True, False):
                            out.append((p, a, b, k, t, smart, w, frac))
    return out


def probe_oracle(p, a, b, k, t, smart, w, frac):
    """the general clause on the probe family, by the words of the property: the group (indentation 0,
    starting in column p) may be broken only if its flat text passes the page or the ribbon, or - smart
    strategy only - the following line is indented more deeply than the group's line and passes the page"""
    import engine
    term = probe_term(p, a, b, k, t)
    res = EC.split_result(engine.impl_layout(docgen.to_real(term), smart, w, frac))
    if res is None:
        return 'the engine raised'
    stream = laysem.parse_stream(res[0])
    # the group's LINE is the item right after the text a...a
    idx = next(i for i, it in enumerate(stream) if it == ('T', 'a' * a))
    broken = stream[idx + 1][0] == 'L'
    rw = docgen.ribbon_width(w, frac)
    flat_end = p + a + 1 + b
    exceeds = flat_end > w or flat_end > 0 + rw
    pushes = smart and t is not None and k > 0 and k + t > w
    if broken and not (exceeds or pushes):
        return ('group broken although its line would end in column %d (page %d, ribbon %d from indentation 0)%s'
                % (flat_end, w, rw, '' if t is None else ' and the following line (indentation %d, %d wide) %s'
                   % (k, t, 'stays within the page' if k + t <= w else 'is not looked at by this strategy')))
    return None


def main(tier):
    run = Run(PROP, tier)
    built = run.build()
    run.prove()
    if built:
        groups = EC.gen_cases(PROP, tier, classic=True)
        total, dis, results = EC.run_diff(groups)
        run.count(total)
        run.coverage['correspondence_cases'] = total
        run.coverage['disagreements_checked'] = len(dis)
        if dis:
            run.broken.append('correspondence: engine level (classic algebra), %d disagreements' % len(dis))
        per_term = {}
        for origin, t, smart, w, frac, rw, res in results:
            per_term.setdefault(json.dumps(t), set()).add(res.split(' | R ')[0])
        run.coverage['distinct_documents'] = len(per_term)
        run.coverage['distinct_nontrivial'] = sum(1 for v in per_term.values() if len(v) > 1)
        # single-line stability on the implementation
        r = __import__('common').rng(PROP + '/oracle')
        keys = list(per_term)
        r.shuffle(keys)
        limit = 2500 if tier == 'quick' else 20000
        dis_terms = [json.dumps(d['term']) for d in dis]
        checked = single = flat_checked = 0
        for key in dis_terms + keys[:limit]:
            t = EC.detuple(json.loads(key))
            if not no_forced(t):
                continue
            for smart in (True, False):
                L, bad = single_line_oracle(t, smart)
                checked += 1
                if L is not None:
                    single += 1
                if bad:
                    small = docgen.shrink(t, lambda c: no_forced(c) and bool(single_line_oracle(c, smart)[1]))
                    run.violation({'kind': 'single-line-not-stable', 'term': small, 'original_term': t,
                                   'smart': smart, 'L': L, 'failing_widths': bad})
                    break
                L2, bad2 = flat_oracle(t, smart)
                flat_checked += 1
                if bad2:
                    small = docgen.shrink(t, lambda c: no_forced(c) and bool(flat_oracle(c, smart)[1]))
                    run.violation({'kind': 'fitting-group-broken', 'term': ('G', small) if small[0] != 'G' else small,
                                   'original_term': t, 'smart': smart, 'L': L2, 'failing_widths': bad2,
                                   'flat_text': flat_text(small)})
                    break
            if len(run.violations) >= 3:
                break
        # the disagreeing configurations themselves, then a sample of all configurations
        r2 = __import__('common').rng(PROP + '/cfg-oracle')
        pool = [(d['term'], d['smart'], d['width'], d['ribbon_frac']) for d in dis[:4000]]
        recs = [(rec[1], rec[2], rec[3], rec[4]) for rec in results]
        r2.shuffle(recs)
        pool += recs[:3000 if tier == 'quick' else 30000]
        cfg_checked = 0
        for t, smart, w, frac in pool:
            if len(run.violations) >= 3:
                break
            t = EC.detuple(t)
            if not no_forced(t):
                continue
            cfg_checked += 1
            L = config_oracle(t, smart, w, frac)
            if L is not None:
                small = docgen.shrink(t, lambda c: no_forced(c) and config_oracle(c, smart, w, frac) is not None)
                run.violation({'kind': 'single-line-broken-at-config', 'term': small, 'original_term': t,
                               'smart': smart, 'width': w, 'ribbon_frac': frac, 'L': L})
        # the general clause on a probe family whose decisions follow from the words of the property
        nprobe = 0
        for case in probe_cases(tier, r2):
            if len(run.violations) >= 6:
                break
            nprobe += 1
            msg = probe_oracle(*case)
            if msg:
                pp_, a_, b_, k_, t_, smart_, w_, frac_ = case
                run.violation({'kind': 'probe', 'detail': msg, 'probe': list(case), 'term': probe_term(pp_, a_, b_, k_, t_),
                               'smart': smart_, 'width': w_, 'ribbon_frac': frac_})
        run.count(nprobe)
        nval = 0
        for t in value_histories(tier, __import__('common').rng(PROP + '/values')):
            if len(run.violations) >= 9:
                break
            nval += 1
            bad = value_oracle(t)
            if bad:
                bad['kind'] = 'value-fits-but-broken'
                run.violation(bad)
        # sequences of ints just below the length at which the printers force a break themselves (the shortest
        # conceivable output of more than 50 elements exceeds 150 columns): here the one-line text is known
        # without the package - it is repr(value)
        import printercheck as PC
        nseq = 0
        for n in (1, 2, 10, 48, 49, 50):
            for v in (list(range(n)), tuple([7] * n) if n > 1 else (7,), [list(range(n)), 1], {'k': list(range(n))},
                      set(range(n)) if 1 < n else {1}, [[0] * n, [1] * n]):
                one = repr(v)
                L = len(one)
                for w in (L, L + 1, 2 * L, BIG):
                    nseq += 1
                    text, _ws = PC.impl_pformat(v, dict(width=w, ribbon_width=w))
                    if text != one and len(run.violations) < 9:
                        run.violation({'kind': 'sequence-fits-but-broken', 'n': n, 'width': w, 'value': one[:120],
                                       'detail': 'a value of %d-element int sequences whose one-line text (repr) has %d columns is '
                                                 'not printed on one line at width = ribbon = %d' % (n, L, w), 'impl': text[:300]})
        run.count(nseq)
        run.coverage['int_sequence_cases'] = nseq
        run.count(nval)
        run.coverage['value_histories'] = nval
        run.coverage['probe_cases'] = nprobe
        run.coverage['config_oracle_checked'] = cfg_checked
        run.coverage['single_line_checked'] = checked
        run.coverage['flat_text_oracle_checked'] = flat_checked
        run.coverage['single_line_documents'] = single
        run.coverage['rule'] = (
            'classic-algebra documents as for C05 (exhaustive <=4 nodes, sample of 5-node, random up to 40 nodes) x '
            'widths x ribbon fractions x both strategies, SDoc streams compared implementation vs model (decisions '
            'are compared through the output). Oracle on the implementation: for documents without forced breaks '
            'whose layout at width 10**6 is a single line of L columns, the layout at L..L+3 (ribbon=width) must be '
            'that same stream, and the document wrapped in a group is laid out as its flat text (read off the term) at widths L, L+1, L+7, 10**6; on the probe family  prefix group(a LINE b) [nest(k, HARDLINE t)]  the group may be broken '
            'only if its flat line passes page or ribbon or (smart only) the deeper-indented following line passes the '
            'page; values containing strings printed through pformat under sequences of (width, ribbon) sharing the width, narrow ribbon first: one line whenever the one-line text fits page and ribbon. non-trivial = distinct documents whose stream differs between two configurations')
        for d in dis[:3]:
            run.sample({'disagreement': d})
        for rec in results[:2] + results[-3:]:
            run.sample({'origin': rec[0], 'term': rec[1], 'smart': rec[2], 'width': rec[3],
                        'ribbon_frac': rec[4], 'impl': rec[6][:200]})
    return run.finish()


def replay(path):
    with open(path) as f:
        p = json.load(f)
    if 'term' not in p:
        print(json.dumps(p, indent=1)[:3000])
        return 1
    if p.get('kind') == 'value-fits-but-broken':
        import printercheck as PC
        bad = value_oracle(PC.unjson(p['term']))
        print('oracle:', bad)
        return 1 if bad else 0
    if p.get('kind') == 'probe':
        msg = probe_oracle(*p['probe'])
        print('oracle:', msg)
        return 1 if msg else 0
    t = EC.detuple(p['term'])
    if p.get('kind') == 'single-line-broken-at-config':
        L = config_oracle(t, p['smart'], p['width'], p['ribbon_frac'])
        print('term:', t, 'width', p['width'], 'ribbon_frac', p['ribbon_frac'], 'single line of', L, 'columns broken' if L else 'ok')
        return 1 if L is not None else 0
    if p.get('kind') == 'fitting-group-broken':
        L, bad = flat_oracle(t, p['smart'])
        print('term:', t, 'flat text of', L, 'columns; failing widths:', bad)
        return 1 if bad else 0
    L, bad = single_line_oracle(t, p['smart'])
    print('term:', t, 'L =', L, 'failing widths:', bad)
    return 1 if bad else 0

"""C17 - call-style printers show exactly the constructor call."""
import ast
import dataclasses
import json
import sys

import attr

import printercheck as PC
import valgen
from common import rng, run_driver, from_cps, cps
from framework import Run

PROP = 'C17'
_installed = [False]


def install():
    if not _installed[0]:
        import prettyprinter
        prettyprinter.install_extras(include=['dataclasses', 'attrs'], warn_on_error=True)
        _installed[0] = True


# ------------------------------------------------------------- part A -------
def call_oracle(c):
    """pretty_call / pretty_call_alt: qualified name, positional args in order, keywords in
    order, each argument printed as on its own"""
    if c.text.startswith('EXC ') or c.warnings:
        return 'pformat raised or warned: %s %s' % (c.text[:60], c.warnings[:1])
    t = c.term
    try:
        tree = ast.parse('(' + c.text + '\n)', mode='eval').body
    except SyntaxError as e:
        return 'does not parse: %s' % e
    if not isinstance(tree, ast.Call):
        return 'not a call: %s' % c.text[:100]
    want_name = 'valgen.' + t[1]
    if ast.unparse(tree.func) != want_name:
        return 'callable printed as %s, expected %s' % (ast.unparse(tree.func), want_name)
    if len(tree.args) != len(t[2]) or [k.arg for k in tree.keywords] != [k for k, _x in t[3]]:
        return 'arguments %d / keywords %r differ from the call (%d, %r)' % (
            len(tree.args), [k.arg for k in tree.keywords], len(t[2]), [k for k, _x in t[3]])
    # the argument OBJECTS of the printed value themselves (a rebuilt set may iterate in another order,
    # which matters once max_seq_len cuts it)
    subs = list(zip(list(c.value.args), tree.args)) + [(x, k.value) for (_kw, x), k in zip(c.value.kwargs, tree.keywords)]
    for v, node in subs:
        alone, _w = PC.impl_pformat(v, dict(c.cfg))
        try:
            wt = ast.parse('(' + alone + '\n)', mode='eval')
        except SyntaxError as e:
            return 'stand-alone print of an argument does not parse: %s' % e
        # set iteration order of identity-hashed elements (nan) differs between two builds of the value
        PC._SortSets().visit(wt)
        node = PC._SortSets().visit(ast.parse(ast.unparse(node), mode='eval')).body
        want = ast.dump(wt.body)
        if ast.dump(node) != want:
            return 'argument printed as %s, on its own it prints as %s' % (ast.unparse(node)[:80], alone[:80])
    if '...and' in ' '.join(PC.comments_of(c.text)):
        return None          # truncated on request (max_seq_len): the arguments were compared above
    try:
        got = PC.eval_text(c.text)
    except Exception as e:
        return 'output does not evaluate: %s: %s' % (type(e).__name__, e)
    import c01
    value = c.value
    if any(x[0] == 'commented' for _kw, x in t[3]):
        value = valgen.build(PC.strip_comments_term(t))[0]
    def exp(v, sort=c.cfg.get('sort_dict_keys', False)):
        # as c01.expected, also below the objects printed as calls
        if isinstance(v, valgen.UserObj):
            return valgen.UserObj(v.cname, tuple(exp(a) for a in v.args), [(k, exp(x)) for k, x in v.kwargs])
        if isinstance(v, dict):
            items = list(v.items())
            if sort:
                items = sorted(items, key=lambda kv: kv[0])
            return type(v)({exp(k): exp(x) for k, x in items})
        if isinstance(v, (list, tuple, set, frozenset)):
            return type(v)(exp(x) for x in v) if not isinstance(v, tuple) else type(v)(tuple(exp(x) for x in v))
        return v
    if not PC.strict_equal(got, exp(value)):
        return 'evaluating the text does not perform the same call: %r' % (got,)
    return None


def call_cases(tier):
    r = rng(PROP + '/call')
    out = []
    n = 700 if tier == 'quick' else 12000
    k = 0
    while k < n:
        na, nk = r.randint(0, 3), r.randint(0, 3)
        args = [valgen.rand_val(r, r.randint(1, 8), {'sub', 'call'}) for _ in range(na)]
        kws = [(r.choice(['x', 'key', 'long_keyword_name', 'value', 'cls']) + str(i), valgen.rand_val(r, r.randint(1, 8), {'call'}))
               for i in range(nk)]
        k += 1
        commented = False
        if kws and k % 4 == 0:
            # a comment on keyword arguments only (no positional one carries any): the call must still be the call
            j = r.randrange(len(kws))
            kws = [(kw, ('commented', x, r.choice(['note', 'two words'])) if (i == j or r.random() < 0.2) else x)
                   for i, (kw, x) in enumerate(kws)]
            args = [valgen.rand_val(r, r.randint(1, 3), set()) for _ in range(na)]
            commented = True
        t = ('call', r.choice(['make', 'Thing', 'f']), args, kws)
        w = r.choice([79, 200, 120]) if commented and r.random() < 0.7 else r.choice([1, 10, 30, 79, 200])
        cfg = dict(width=w, ribbon_width=r.choice([w, max(1, w // 2)]), indent=r.choice([1, 4, 8]))
        if k % 3 == 0:
            # the remaining settings reach the arguments unchanged as well
            cfg['max_seq_len'] = r.choice([1, 2, 3, None])
        if k % 5 < 2 and PC.comparable(valgen.build(t)[0]):
            # ... and sorting is about dict VALUES, never about the keyword arguments of a call
            cfg['sort_dict_keys'] = True
        out.append(('call', t, cfg))
    return out


# ------------------------------------------------------------- part B -------
DEFAULT_TERMS = [('int', 0), ('int', 7), ('str', ''), ('str', 'dflt'), ('none',), ('bool', True), ('float', 1.5),
                 ('tuple', []), ('tuple', [('int', 1)])]
FALSY_TERMS = [('none',), ('tuple', []), ('str', ''), ('int', 0), ('list', []), ('dict', []), ('float', 0.0), ('bool', False),
               ('bytes', b''), ('set', []), ('frozenset', [])]
BUILTIN_FACTORY = {'list': list, 'dict': dict, 'set': set}
FACTORY_TERMS = [('list', []), ('dict', []), ('list', [('int', 1)]), ('set', []), ('dict', [(('str', 'k'), ('int', 1))])]
NAMES = ['a', 'b', 'count', 'name', 'items', 'ctx', 'fn', 'value', 'cls', 'kwargs', 'long_field_name', 'x1']


def make_spec(r, kind, reserved):
    """-> list of field specs: dict(name, repr, default=term|None, factory=term|None, takes_self, value=term)"""
    pool = [n for n in NAMES if reserved or n not in ('ctx', 'fn')]
    names = r.sample(pool, r.randint(1, 5))
    if reserved and not (set(names) & {'ctx', 'fn'}):
        names[0] = r.choice(['ctx', 'fn'])
    spec = []
    for nm in names:
        x = r.random()
        f = dict(name=nm, repr=r.random() < 0.8, default=None, factory=None, takes_self=False)
        if x < 0.35:
            f['default'] = r.choice(DEFAULT_TERMS)
        elif x < 0.6:
            f['factory'] = r.choice(FACTORY_TERMS)
            f['takes_self'] = kind == 'attrs' and r.random() < 0.3
        base = f['default'] or f['factory']
        # the factory is the built-in type itself (list, dict, set) rather than a lambda for most empty containers
        f['builtin_factory'] = f['factory'] in (('list', []), ('dict', []), ('set', [])) and not f['takes_self'] and r.random() < 0.7
        y = r.random()
        if base is not None and y < 0.4:
            f['value'] = base
        elif base is not None and y < 0.65:
            # falsy like the default, but not equal to it
            f['value'] = r.choice(FALSY_TERMS)
        else:
            f['value'] = valgen.rand_val(r, r.randint(1, 5), set())
        spec.append(f)
    # attrs: a @x.default style factory whose result depends on the instance (an earlier field)
    if kind == 'attrs' and len(spec) >= 2 and spec[0]['default'] is None and spec[0]['factory'] is None \
            and r.random() < 0.5:
        f = spec[-1]
        f.update(default=None, factory=('list', []), takes_self=True, self_dep=spec[0]['name'])
        if r.random() < 0.5:
            f['value'] = ('list', [spec[0]['value']])
    return spec


def default_of(f, inst):
    """the declared default of field f for this instance (None = no default)"""
    if f.get('self_dep'):
        return [getattr(inst, f['self_dep'])]
    base = f['default'] if f['default'] is not None else f['factory']
    return None if base is None else valgen.build(base)[0]


def has_default(f):
    return f['default'] is not None or f['factory'] is not None


_counter = [0]


def build_class(kind, spec):
    _counter[0] += 1
    name = '%s_%d' % ('DC' if kind == 'dc' else 'AT', _counter[0])
    if kind == 'dc':
        flds = []
        for f in spec:
            kw = dict(repr=f['repr'], kw_only=True)
            if f['default'] is not None:
                kw['default'] = valgen.build(f['default'])[0]
            elif f['factory'] is not None:
                ft = f['factory']
                kw['default_factory'] = BUILTIN_FACTORY[ft[0]] if f.get('builtin_factory') else (lambda ft=ft: valgen.build(ft)[0])
            flds.append((f['name'], object, dataclasses.field(**kw)))
        pseudo = _counter[0] % 3 == 0
        if pseudo:
            # pseudo-fields: not fields of the instances (dataclasses.fields() leaves them out), never printed
            import typing
            used = {f['name'] for f in spec}
            extra = [('tally', typing.ClassVar[int], dataclasses.field(default=0)),
                     ('limit', typing.ClassVar[int]),
                     ('scale', dataclasses.InitVar[int], dataclasses.field(default=2, kw_only=True))]
            flds = [e for e in extra[:2] if e[0] not in used] + flds + [e for e in extra[2:] if e[0] not in used]
        cls = dataclasses.make_dataclass(name, flds)
        if pseudo and 'tally' not in {f['name'] for f in spec}:
            cls.tally = 3          # the class attribute has moved away from its declared value
    else:
        attrs = {}
        for f in spec:
            kw = dict(repr=f['repr'], kw_only=True)
            if f['default'] is not None:
                kw['default'] = valgen.build(f['default'])[0]
            elif f['factory'] is not None:
                ft = f['factory']
                if f.get('self_dep'):
                    kw['default'] = attr.Factory(lambda self, dep=f['self_dep']: [getattr(self, dep)], takes_self=True)
                elif f['takes_self']:
                    kw['default'] = attr.Factory(lambda self, ft=ft: valgen.build(ft)[0], takes_self=True)
                elif f.get('builtin_factory'):
                    kw['default'] = attr.Factory(BUILTIN_FACTORY[ft[0]])
                else:
                    kw['default'] = attr.Factory(lambda ft=ft: valgen.build(ft)[0])
            attrs[f['name']] = attr.ib(**kw)
        cls = attr.make_class(name, attrs)
    cls.__module__ = 'valgen'
    cls.__qualname__ = name
    setattr(valgen, name, cls)
    return cls


def expected_fields(kind, spec, inst):
    """the property, computed independently of the package"""
    out = []
    for f in spec:
        if not f['repr']:
            continue
        if not has_default(f) or default_of(f, inst) != getattr(inst, f['name']):
            out.append(f['name'])
    return out


def extras_cases(r, kind, reserved):
    """one class, three instances: the generated values, then two variations (a field moved to /
    away from its default, the first field changed) - printers must not carry anything over
    from one instance of a class to the next"""
    spec = make_spec(r, kind, reserved)
    cls = build_class(kind, spec)
    out = []
    for variant in range(3):
        sp = [dict(f) for f in spec]
        if variant >= 1:
            for f in sp:
                x = r.random()
                if has_default(f) and not f.get('self_dep') and x < 0.4:
                    f['value'] = f['default'] or f['factory']
                elif x < 0.7:
                    f['value'] = valgen.rand_val(r, r.randint(1, 4), set())
            if sp[-1].get('self_dep') and r.random() < 0.6:
                sp[-1]['value'] = ('list', [sp[0]['value']]) if variant == 1 else ('list', [spec[0]['value']])
        vals = {f['name']: valgen.build(f['value']) for f in sp}
        inst = cls(**{k: v for k, (v, _sx) in vals.items()})
        out.append((sp, cls, inst, vals))
    return out


class QN:
    """object printed as the call  target(1, k=2)"""
    def __init__(self, target):
        self.target = target


def qualified_name_cases():
    """(label, callable, expected printed name, scope for resolving it): callables of the implicit
    modules (builtins, __main__) with DOTTED qualified names, and of an ordinary module"""
    import builtins
    outer = type('Outer', (), {})
    inner = type('Inner', (), {})
    deep = type('Deep', (), {})
    inner.__qualname__, deep.__qualname__ = 'Outer.Inner', 'Outer.Inner.Deep'
    outer.Inner, inner.Deep = inner, deep
    for c in (outer, inner, deep):
        c.__module__ = '__main__'
    mod_outer = type('ModOuter', (), {})
    mod_inner = type('ModInner', (), {})
    mod_inner.__qualname__ = 'ModOuter.ModInner'
    mod_outer.ModInner = mod_inner
    mod_outer.__module__ = mod_inner.__module__ = 'c17'

    def plain_fn():
        pass
    plain_fn.__module__, plain_fn.__qualname__ = '__main__', 'plain_fn'
    scope = dict(vars(builtins), Outer=outer, plain_fn=plain_fn, c17=type('M', (), {'ModOuter': mod_outer}))
    return [('builtin classmethod dict.fromkeys', dict.fromkeys, 'dict.fromkeys', scope),
            ('builtin classmethod bytes.fromhex', bytes.fromhex, 'bytes.fromhex', scope),
            ('builtin classmethod int.from_bytes', int.from_bytes, 'int.from_bytes', scope),
            ('builtin function len', len, 'len', scope),
            ('builtin type dict', dict, 'dict', scope),
            ('class nested in a class of __main__', inner, 'Outer.Inner', scope),
            ('class nested twice in __main__', deep, 'Outer.Inner.Deep', scope),
            ('top-level class of __main__', outer, 'Outer', scope),
            ('function of __main__', plain_fn, 'plain_fn', scope),
            ('class nested in a class of an ordinary module', mod_inner, 'c17.ModOuter.ModInner', scope)]


def qualified_name_oracle(label, target, want, scope, cfg):
    from prettyprinter import register_pretty, pretty_call, is_registered
    if not is_registered(QN):
        @register_pretty(QN)
        def _p(value, ctx):
            return pretty_call(ctx, value.target, 1, k=2)
    text, ws = PC.impl_pformat(QN(target), cfg)
    if text.startswith('EXC') or ws:
        return 'pformat raised or warned: %s %s' % (text[:80], ws[:1])
    try:
        tree = ast.parse('(' + text + '\n)', mode='eval').body
    except SyntaxError as e:
        return 'does not parse: %s' % e
    if not isinstance(tree, ast.Call):
        return 'not a call: %s' % text[:100]
    got = ast.unparse(tree.func)
    if got != want:
        return '%s: callable printed as %r, its qualified name is %r' % (label, got, want)
    try:
        obj = eval(got, dict(scope))
    except Exception as e:
        return '%s: the printed name %r does not resolve: %s' % (label, got, e)
    if obj != target:
        return '%s: the printed name %r resolves to another object' % (label, got)
    return None


def main(tier):
    install()
    run = Run(PROP, tier)
    built = run.build()
    run.prove()
    if built:
        # ---- A: pretty_call objects through the printer model
        cases = call_cases(tier)
        res = PC.run_cases(cases)
        dis = PC.disagreements(res)
        run.count(len(res))
        if dis:
            run.broken.append('correspondence: printer level (pretty_call objects), %d disagreements' % len(dis))
            for c in dis[:2]:
                run.sample({'disagreement': PC.case_json(c)})
        ntok, tdis = PC.token_disagreements(res)
        run.coverage['token_level_compared'] = ntok
        if tdis:
            run.broken.append('correspondence: token level (ast of pformat text vs ast of etoks(expr_of v)): ' + tdis[-1][:60])
        for c in res:
            msg = call_oracle(c)
            if msg and len(run.violations) < 3:
                run.violation({'kind': 'oracle', 'detail': msg, 'term': PC.jsonable(c.term), 'cfg': c.cfg, 'impl': c.text})
        # ---- A2: the callable's qualified name (oracle only: names are data for the model)
        nq = 0
        for label, target, want, scope in qualified_name_cases():
            for cfg in (dict(), dict(width=10)):
                nq += 1
                run.count(1)
                msg = qualified_name_oracle(label, target, want, scope, cfg)
                if msg and len(run.violations) < 6:
                    run.violation({'kind': 'qualified-name', 'detail': msg, 'label': label, 'cfg': cfg})
        run.coverage['qualified_name_cases'] = nq
        # ---- B: dataclasses / attrs
        r = rng(PROP + '/extras')
        n = 500 if tier == 'quick' else 8000
        ext = []
        for i in range(n // 3):
            kind = 'dc' if i % 2 == 0 else 'attrs'
            for case in extras_cases(r, kind, reserved=(i % 10 == 0)):
                ext.append((kind,) + case)
        # model: which fields are shown (generated selection function), then the text of the call
        reqs = [valgen.uni_request()]
        for kind, spec, cls, inst, vals in ext:
            for f in spec:
                ne = has_default(f) and default_of(f, inst) != getattr(inst, f['name'])
                hd, hf = f['default'] is not None, f['factory'] is not None
                if kind == 'dc':
                    reqs.append('(dcshow dc %d %d %d %d %d)' % (f['repr'], not hd, not hf, ne, ne))
                else:
                    reqs.append('(dcshow attrs %d %d %d %d %d)' % (f['repr'], not (hd or hf), hf, ne, ne))
        shown = run_driver(reqs, shards=1)[1:]
        k = 0
        reqs2 = [valgen.uni_request()]
        model_names = []
        cfgs = []
        for kind, spec, cls, inst, vals in ext:
            names = []
            for f in spec:
                if shown[k] == '1':
                    names.append(f['name'])
                k += 1
            model_names.append(names)
            cfg = dict(width=r.choice([10, 40, 79]), indent=r.choice([2, 4]))
            cfgs.append(cfg)
            sx = '(call %s () (%s))' % (valgen.cls_sx(cls), ' '.join('((%s) %s)' % (cps(nm), vals[nm][1]) for nm in names))
            reqs2.append(valgen.pformat_request(sx, cfg))
        texts = run_driver(reqs2, shards=8)[1:]
        edis = 0
        reserved_hits = 0
        open_f = run.open_findings()
        first_spec = {}
        for (kind, spec, cls, inst, vals), names, cfg, mline in zip(ext, model_names, cfgs, texts):
            run.count(1)
            earlier = first_spec.get(cls)
            first_spec.setdefault(cls, spec)
            text, ws = PC.impl_pformat(inst, cfg)
            mtext = from_cps(mline[2:]) if mline.startswith('R ') else mline
            want = expected_fields(kind, spec, inst)
            collide = kind == 'dc' and any(nm in ('ctx', 'fn') for nm in want)
            msg = None
            if text.startswith('EXC') or ws:
                msg = 'printing a %s instance raised or warned: %s %s' % (kind, text[:60], [w[:150] for w in ws[:1]])
            else:
                try:
                    tree = ast.parse('(' + text + '\n)', mode='eval').body
                    got = [kw.arg for kw in tree.keywords]
                    qn = 'valgen.' + cls.__qualname__
                    if ast.unparse(tree.func) != qn or tree.args:
                        msg = 'not a keyword-only call of %s: %s' % (qn, text[:100])
                    elif got != want:
                        msg = 'printed fields %r, expected %r (repr enabled and no default or value != default, in declaration order)' % (got, want)
                    else:
                        hidden_ok = all(f['repr'] or (has_default(f) and default_of(f, inst) == getattr(inst, f['name']))
                                        for f in spec)
                        if hidden_ok:
                            back = PC.eval_text(text)
                            if type(back) is not cls or not all(
                                    getattr(back, f['name']) == getattr(inst, f['name']) or
                                    PC.strict_equal(getattr(back, f['name']), getattr(inst, f['name'])) for f in spec):
                                msg = 'evaluating the text does not reconstruct an equal instance: %r' % (back,)
                except SyntaxError as e:
                    msg = 'does not parse: %s' % e
            if msg and collide and 'C17-reserved-field-names' in open_f:
                reserved_hits += 1
                msg = None
            if msg is None and (text != mtext or names != want) and not (collide and 'C17-reserved-field-names' in open_f):
                edis += 1
                if edis <= 2:
                    run.sample({'disagreement': {'kind': kind, 'impl': text, 'model': mtext, 'model_fields': names,
                                                 'expected_fields': want}})
            if msg and len(run.violations) < 3:
                js = lambda sp: [{k2: (PC.jsonable(v) if k2 in ('default', 'factory', 'value') else v)
                                  for k2, v in f.items()} for f in sp]
                run.violation({'kind': 'extras-oracle', 'detail': msg, 'class_kind': kind,
                               'earlier_spec': js(earlier) if earlier is not None else None,
                               'spec': [{k2: (PC.jsonable(v) if k2 in ('default', 'factory', 'value') else v)
                                         for k2, v in f.items()} for f in spec], 'cfg': cfg, 'impl': text})
        if reserved_hits:
            f = open_f['C17-reserved-field-names']
            run.known('C17-reserved-field-names', '%s (%d instances in this run)' % (f['what'][:250], reserved_hits))
        if edis:
            run.broken.append('correspondence: extras level (field selection / text), %d disagreements' % edis)
        run.coverage['disagreements_checked'] = len(dis) + edis
        run.coverage['distinct_nontrivial'] = sum(1 for c in res if '\n' in c.text)
        run.coverage['extras_instances'] = len(ext)
        run.coverage['rule'] = (
            'A: objects printed through pretty_call_alt with 0..3 positional and 0..3 keyword arguments (values: '
            'built-ins, subclass instances, nested calls), widths 1..200: ast is a call of the qualified name with the '
            'arguments in order, keywords in order, every argument sub-tree equal to the ast of its stand-alone print, '
            'eval performs the call; text compared with the printer model. B: generated dataclasses and attrs classes '
            '(1..5 fields; repr on/off; no default / default / default_factory / attr.Factory with and without '
            'takes_self; values equal to or different from the default; every 10th class has a field named ctx or fn): '
            'printed keywords == fields with repr enabled and (no default or value != default) in declaration order, '
            'eval reconstructs an equal instance when hidden fields hold their default; field selection computed by '
            'the translated selection functions (Gen/Extras.v) and the text by the printer model.')
        for c in res[:2]:
            run.sample(PC.case_json(c))
    return run.finish()


def replay(path):
    install()
    with open(path) as f:
        p = json.load(f)
    if p.get('kind') == 'qualified-name':
        for label, target, want, scope in qualified_name_cases():
            if label == p['label']:
                msg = qualified_name_oracle(label, target, want, scope, p['cfg'])
                print('oracle:', msg)
                return 1 if msg else 0
        return 1
    if 'term' in p:
        t = PC.unjson(p['term'])
        c = PC.run_cases([('replay', t, p['cfg'])])[0]
        msg = call_oracle(c)
        print('impl:', c.text, '\noracle:', msg)
        return 1 if msg else 0
    if 'spec' in p:
        spec = [{k: (PC.unjson(v) if k in ('default', 'factory', 'value') else v) for k, v in f.items()} for f in p['spec']]
        cls = build_class(p['class_kind'], spec)
        if p.get('earlier_spec'):
            e = [{k: (PC.unjson(v) if k in ('default', 'factory', 'value') else v) for k, v in f.items()} for f in p['earlier_spec']]
            PC.impl_pformat(cls(**{f['name']: valgen.build(f['value'])[0] for f in e}), p['cfg'])
        inst = cls(**{f['name']: valgen.build(f['value'])[0] for f in spec})
        text, ws = PC.impl_pformat(inst, p['cfg'])
        want = expected_fields(p['class_kind'], spec, inst)
        print('impl:', text, ws[:1], '\nexpected fields:', want)
        try:
            got = [kw.arg for kw in ast.parse('(' + text + '\n)', mode='eval').body.keywords]
        except Exception:
            got = None
        return 0 if (got == want and not ws) else 1
    print(json.dumps(p, indent=1)[:3000])
    return 1

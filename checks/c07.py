"""C07 - bundled printers are total, and faithful for standard-library types."""
import ast
import collections
import datetime
import enum
import functools
import json
import math
import pathlib
import time
import types
import uuid
import warnings

import valgen
from common import rng, run_driver
from framework import Run

PROP = 'C07'
try:
    import pytz
except ImportError:  # pragma: no cover
    pytz = None


class Color(enum.Enum):
    RED = 1
    GREEN = 'g'


class Perm(enum.Flag):
    R = 4
    W = 2
    X = 1


class Keep(enum.Flag, boundary=enum.KEEP):     # keeps bits no member names
    A = 1
    B = 2


class Wide(enum.Flag):                          # a multi-bit member whose bits have no member of their own
    A = 1
    BC = 6


class Alias(enum.Flag):                         # a named combination
    R = 4
    W = 2
    RW = 6


class StrictF(enum.Flag, boundary=enum.STRICT):
    A = 1
    B = 2


class StrE(str, enum.Enum):
    X = 'x'
    Y = 'why not'


class TupE(enum.Enum):
    P = (1, 2)
    Q = 'q q'
    ALIAS_OF_P = (1, 2)


class Level(enum.IntEnum):
    LOW = 1
    HIGH = 2


Point = collections.namedtuple('Point', ['x', 'y'])
Empty = collections.namedtuple('Empty', [])
# field / keyword names that are also parameter names inside the package (ctx, fn, value, args, kwargs, ...)
Reserved = collections.namedtuple('Reserved', ['ctx', 'fn', 'value', 'args', 'kwargs', 'self'], rename=False)
RESERVED_NAMES = ['ctx', 'fn', 'value', 'args', 'kwargs', 'cls', 'type', 'predicate', 'doc', 'indent', 'key', 'sep']


class MyError(Exception):
    pass


NS = {'datetime': datetime, 'collections': collections, 'uuid': uuid, 'types': types, 'functools': functools,
      'pathlib': pathlib, 'time': time, 'pytz': pytz, 'c07': None, 'mappingproxy': types.MappingProxyType,
      'float': float, 'frozenset': frozenset, 'set': set, 'print': print, 'int': int, 'sorted': sorted, 'max': max}
for _c in (Color, Perm, Level, Point, Empty, MyError, Keep, Wide, Alias, StrictF, StrE, TupE, Reserved):
    _c.__module__ = 'c07'


class _Mod:
    pass


_mod = _Mod()
for _c in (Color, Perm, Level, Point, Empty, MyError, Keep, Wide, Alias, StrictF, StrE, TupE, Reserved):
    setattr(_mod, _c.__name__, _c)
NS['c07'] = _mod
NS['valgen'] = valgen          # generated namedtuple classes live there


def rint(r, lo, hi):
    return r.choice([lo, hi, lo + 1, hi - 1, r.randint(lo, hi), r.randint(lo, hi)])


def gen_timedelta(r):
    x = r.random()
    if x < 0.15:
        return r.choice([datetime.timedelta(0), datetime.timedelta.max, datetime.timedelta.min, datetime.timedelta.resolution,
                         -datetime.timedelta.resolution, datetime.timedelta(days=365), datetime.timedelta(days=-365),
                         datetime.timedelta(days=730, seconds=86399, microseconds=999999)])
    return datetime.timedelta(days=r.choice([0, 0, 1, 364, 365, 366, 729, 730, 731, r.randint(-10 ** 6, 10 ** 6)]),
                              seconds=r.choice([0, 0, 59, 60, 3599, 3600, 86399, r.randint(0, 86399)]),
                              microseconds=r.choice([0, 0, 999, 1000, 999999, r.randint(0, 999999)])) * r.choice([1, 1, -1])


def gen_tz(r):
    x = r.random()
    if x < 0.2:
        return datetime.timezone.utc
    if x < 0.6:
        off = datetime.timedelta(minutes=r.choice([0, 60, -60, 330, -720, 839, r.randint(-1439, 1439)]),
                                 seconds=r.choice([0, 0, 30]))
        return datetime.timezone(off, r.choice(['X', 'CET', 'ü zone'])) if r.random() < 0.5 else datetime.timezone(off)
    if pytz is not None:
        if x < 0.8:
            return r.choice([pytz.utc, pytz.timezone('Europe/Helsinki'), pytz.timezone('US/Eastern'), pytz.timezone('Asia/Kolkata')])
        z = pytz.timezone(r.choice(['Europe/Helsinki', 'US/Eastern', 'Australia/Lord_Howe']))
        return z.localize(datetime.datetime(2020, r.choice([1, 7]), 1)).tzinfo
    return datetime.timezone.utc


def gen_datetime(r):
    kw = dict(year=rint(r, 1, 9999), month=rint(r, 1, 12), day=rint(r, 1, 28))
    for name, hi in (('hour', 23), ('minute', 59), ('second', 59), ('microsecond', 999999)):
        kw[name] = r.choice([0, 0, 0, hi, r.randint(0, hi)])
    if r.random() < 0.4:
        kw['tzinfo'] = gen_tz(r)
    if r.random() < 0.2:
        kw['fold'] = 1
    return datetime.datetime(**kw)


def gen_time(r):
    kw = {}
    for name, hi in (('hour', 23), ('minute', 59), ('second', 59), ('microsecond', 999999)):
        kw[name] = r.choice([0, 0, 0, hi, r.randint(0, hi)])
    if r.random() < 0.3:
        kw['tzinfo'] = r.choice([datetime.timezone.utc, datetime.timezone(datetime.timedelta(hours=2))])
    if r.random() < 0.2:
        kw['fold'] = 1
    return datetime.time(**kw)


def gen_leaf(r):
    return r.choice([0, -1, 10 ** 20, 1.5, 'a', 'some words here', b'x', None, True, (1, 'b'), float('inf')])


def gen_small(r, depth=0):
    x = r.random()
    if depth > 1 or x < 0.5:
        return gen_leaf(r)
    if x < 0.7:
        return [gen_small(r, depth + 1) for _ in range(r.randint(0, 3))]
    if x < 0.85:
        return {r.choice(['k', 'key2', 3, (1, 2)]): gen_small(r, depth + 1) for _ in range(r.randint(0, 3))}
    return gen_std(r, depth + 1)


def gen_std(r, depth=0):
    kind = r.choice(['timedelta', 'datetime', 'date', 'time', 'tz', 'ordereddict', 'defaultdict', 'deque', 'counter',
                     'chainmap', 'mappingproxy', 'uuid', 'enum', 'flag', 'intenum', 'namespace', 'namedtuple', 'partial',
                     'exception', 'path', 'structseq'])
    g = lambda: gen_small(r, depth + 1)
    if kind == 'timedelta':
        return gen_timedelta(r)
    if kind == 'datetime':
        return gen_datetime(r)
    if kind == 'date':
        return r.choice([datetime.date.min, datetime.date.max, datetime.date(rint(r, 1, 9999), rint(r, 1, 12), rint(r, 1, 28))])
    if kind == 'time':
        return gen_time(r)
    if kind == 'tz':
        return gen_tz(r)
    if kind == 'ordereddict':
        return collections.OrderedDict((k, g()) for k in r.sample(['b', 'a', 3, (1,), 'zz'], r.randint(0, 4)))
    if kind == 'defaultdict':
        d = collections.defaultdict(r.choice([None, list, int, dict, set]))
        for k in r.sample(['b', 'a', 3], r.randint(0, 3)):
            d[k] = g()
        return d
    if kind == 'deque':
        return collections.deque([g() for _ in range(r.randint(0, 4))], maxlen=r.choice([None, None, 0, 3, 10]))
    if kind == 'counter':
        return collections.Counter(r.choice(['', 'abracadabra', 'aab', 'zzzyx']))
    if kind == 'chainmap':
        return collections.ChainMap(*[{r.choice('abc'): g()} if r.random() < 0.7 else {} for _ in range(r.randint(0, 3))])
    if kind == 'mappingproxy':
        return types.MappingProxyType({k: g() for k in r.sample(['x', 'y', 1], r.randint(0, 3))})
    if kind == 'uuid':
        return uuid.UUID(int=r.choice([0, 2 ** 128 - 1, r.getrandbits(128)]))
    if kind == 'enum':
        return r.choice(list(Color) + list(StrE) + [TupE.P, TupE.Q, TupE.ALIAS_OF_P])
    if kind == 'flag':
        return r.choice([Perm.R, Perm.W, Perm.R | Perm.W, Perm.R | Perm.W | Perm.X, Perm(0),
                         Keep(5), Keep(4), Keep(7), Keep(3), Keep(0), Keep.A, Keep(12),
                         Wide.A | Wide.BC, Wide.BC, Wide(0), Wide.A,
                         Alias.RW, Alias.R | Alias.W, Alias.R, Alias(0),
                         StrictF.A | StrictF.B, StrictF.B, StrictF(0)])
    if kind == 'intenum':
        return r.choice(list(Level))
    if kind == 'namespace':
        return types.SimpleNamespace(**{k: g() for k in r.sample(['b', 'a', 'long_attribute', 'z1'] + RESERVED_NAMES[:6], r.randint(0, 4))})
    if kind == 'namedtuple':
        return r.choice([Point(g(), g()), Empty(), Reserved(g(), 1, 'v', (), {}, None)])
    if kind == 'partial':
        return functools.partial(r.choice([print, int, sorted, max]), *[gen_leaf(r) for _ in range(r.randint(0, 2))],
                                 **{k: gen_leaf(r) for k in r.sample(RESERVED_NAMES, r.randint(0, 3))})
    if kind == 'exception':
        cls = r.choice([ValueError, KeyError, MyError, OSError, Exception])
        return cls(*[g() for _ in range(r.randint(0, 3))])
    if kind == 'path':
        return r.choice([pathlib.PurePosixPath, pathlib.PureWindowsPath, pathlib.PosixPath])(
            r.choice(['', '.', 'a/../b/c', '/usr/lib/' + 'x' * 40 + '/y', 'C:/Program Files/x', 'a b/c']))
    return time.gmtime(r.choice([0, 86400 * 365, 10 ** 9]))


def equal_std(a, b):
    """== with the fixes the types need: nan-insensitive containers, exceptions by type and args,
    partial by func/args/keywords, struct_time by fields"""
    if LOOSE_PYTZ[0] and isinstance(a, datetime.tzinfo) and isinstance(b, datetime.tzinfo):
        return equal_tz(a, b)
    if type(a) is not type(b):
        return False
    if isinstance(a, BaseException):
        return equal_std(a.args, b.args)
    if isinstance(a, functools.partial):
        return a.func is b.func and equal_std(a.args, b.args) and equal_std(a.keywords, b.keywords)
    if isinstance(a, float):
        return (math.isnan(a) and math.isnan(b)) or a == b
    if isinstance(a, (list, tuple, collections.deque)):
        if isinstance(a, collections.deque) and a.maxlen != b.maxlen:
            return False
        return len(a) == len(b) and all(equal_std(x, y) for x, y in zip(a, b))
    if isinstance(a, collections.ChainMap):
        return equal_std(a.maps, b.maps)
    if isinstance(a, (dict, types.MappingProxyType)):
        if isinstance(a, collections.defaultdict) and a.default_factory is not b.default_factory:
            return False
        if isinstance(a, collections.OrderedDict) and list(a) != list(b):
            return False
        # keys may be objects that hash by identity (exceptions, partials): match them structurally
        if len(a) != len(b):
            return False
        rest = list(b.items())
        for k, x in a.items():
            for i, (k2, x2) in enumerate(rest):
                if equal_std(k, k2) and equal_std(x, x2):
                    del rest[i]
                    break
            else:
                return False
        return True
    if isinstance(a, (set, frozenset)):
        rest = list(b)
        for x in a:
            for i, y in enumerate(rest):
                if equal_std(x, y):
                    del rest[i]
                    break
            else:
                return False
        return not rest
    if isinstance(a, types.SimpleNamespace):
        return equal_std(vars(a), vars(b))
    if isinstance(a, datetime.datetime):
        return a == b and a.fold == b.fold and equal_tz(a.tzinfo, b.tzinfo) and \
            a.replace(tzinfo=None) == b.replace(tzinfo=None)
    if isinstance(a, datetime.time):
        return a.replace(tzinfo=None) == b.replace(tzinfo=None) and a.fold == b.fold and equal_tz(a.tzinfo, b.tzinfo)
    if isinstance(a, datetime.tzinfo):
        return equal_tz(a, b)
    return a == b


def equal_tz(a, b):
    if a is None or b is None:
        return a is b
    if LOOSE_PYTZ[0] and pytz is not None and isinstance(a, pytz.tzinfo.DstTzInfo) and \
            isinstance(b, pytz.tzinfo.DstTzInfo):
        # the open finding: a localized pytz instance is rebuilt as a plain DstTzInfo WITHOUT its zone,
        # but with the same offset, dst and name (the triple the printer shows)
        return all(getattr(a, k, None) == getattr(b, k, 1) for k in ('_utcoffset', '_dst', '_tzname'))
    if type(a) is not type(b):
        return False
    if isinstance(a, datetime.timezone):
        return a == b and a.tzname(None) == b.tzname(None)
    return a == b or (getattr(a, 'zone', None) == getattr(b, 'zone', 1) and
                      getattr(a, '_utcoffset', None) == getattr(b, '_utcoffset', 1))


LOOSE_PYTZ = [False]


def only_the_pytz_finding(v, cfg):
    """the failure is exactly the open finding: with per-transition pytz instances compared by the
    triple (offset, dst, name) the printer shows, the output does reconstruct the value"""
    LOOSE_PYTZ[0] = True
    try:
        _text, msg = oracle(v, cfg)
    finally:
        LOOSE_PYTZ[0] = False
    return msg is None


def contains_localized(v, depth=0):
    if pytz is None or depth > 6:
        return False
    if isinstance(v, pytz.tzinfo.DstTzInfo):
        return bool(v.zone) and pytz.timezone(v.zone) is not v
    if isinstance(v, (datetime.datetime, datetime.time)):
        return contains_localized(v.tzinfo, depth + 1)
    if isinstance(v, dict):
        return any(contains_localized(k, depth + 1) or contains_localized(x, depth + 1) for k, x in v.items())
    if isinstance(v, (list, tuple, set, frozenset, collections.deque)):
        return any(contains_localized(x, depth + 1) for x in v)
    if isinstance(v, collections.ChainMap):
        return any(contains_localized(m, depth + 1) for m in v.maps)
    if isinstance(v, types.MappingProxyType):
        return contains_localized(dict(v), depth + 1)
    if isinstance(v, types.SimpleNamespace):
        return contains_localized(vars(v), depth + 1)
    if isinstance(v, BaseException):
        return contains_localized(v.args, depth + 1)
    if isinstance(v, functools.partial):
        return contains_localized(v.args, depth + 1) or contains_localized(v.keywords, depth + 1)
    return False


def oracle(v, cfg):
    from prettyprinter import pformat
    with warnings.catch_warnings(record=True) as ws:
        warnings.simplefilter('always')
        try:
            text = pformat(v, **cfg)
        except Exception as e:
            return None, 'pformat raised %s: %s' % (type(e).__name__, e)
    bad = [str(w.message) for w in ws if 'raised an exception' in str(w.message)]
    if bad:
        return text, 'a bundled printer failed internally (repr fallback): ' + bad[0][:200].replace('\n', ' ')
    try:
        back = eval('(' + text + '\n)', dict(NS))
    except Exception as e:
        return text, 'output does not evaluate: %s: %s' % (type(e).__name__, str(e)[:100])
    if not equal_std(back, v):
        return text, 'evaluates to %r, not equal to the printed object' % (back,)
    return text, None


# ---------------------------------------------------------------- model tie --
def timedelta_kwargs(text):
    """(negative, [(kw, value or (years, days))]) parsed from the printed call"""
    tree = ast.parse('(' + text + '\n)', mode='eval').body
    neg = False
    if isinstance(tree, ast.UnaryOp) and isinstance(tree.op, ast.USub):
        neg, tree = True, tree.operand
    out = []
    for kw in tree.keywords:
        v = kw.value
        if isinstance(v, ast.Constant):
            out.append('%s=%d' % (kw.arg, v.value))
        else:
            out.append('%s=%s' % (kw.arg, ast.unparse(v).replace(' ', '')))
    return ('-' if neg else '+') + ' ' + ' '.join(out)


def main(tier):
    run = Run(PROP, tier)
    built = run.build()
    run.prove()
    if built:
        r = rng(PROP)
        n = 2500 if tier == 'quick' else 40000
        kinds = {}
        viol = 0
        nontriv = 0
        vals = []
        known_reported = []
        for i in range(n):
            v = gen_std(r)
            x = r.random()
            if x < 0.3:
                v = r.choice([[v, 1], {'key': v}, (v,), {'a' * 30: [v, v]}])
            elif x < 0.45:
                # "every nesting position" includes dict keys and set elements (for the hashable ones)
                try:
                    hash(v)
                    v = r.choice([{v: 1}, {v: 'x', 1: 2}, {(v, 1): [2]}, {v}, frozenset([v]), {'k': {v: None}}])
                except TypeError:
                    pass
            cfg = dict(width=r.choice([1, 20, 40, 79, 200]), indent=r.choice([2, 4]))
            if r.random() < 0.2:
                cfg['ribbon_width'] = r.choice([10, 200])
            # the settings that are not about line breaks must not change what is rebuilt either: sorting (only
            # plain dict order may change, and dicts compare without order) and a limit no container reaches
            if r.random() < 0.3:
                cfg['sort_dict_keys'] = True
            if r.random() < 0.1:
                cfg['max_seq_len'] = r.choice([None, 10 ** 6])
            vals.append((v, cfg))
        reqs, impl = [], []
        for v, cfg in vals:
            run.count(1)
            kinds[type(v).__name__] = kinds.get(type(v).__name__, 0) + 1
            text, msg = oracle(v, cfg)
            if text and '\n' in text:
                nontriv += 1
            if msg and contains_localized(v) and 'C07-pytz-localized' in run.open_findings() and \
                    only_the_pytz_finding(v, cfg):
                if not known_reported:
                    known_reported.append(1)
                    f = run.open_findings()['C07-pytz-localized']
                    run.known('C07-pytz-localized', '%s e.g. %s' % (f['what'][:250], repr(v)[:120]))
                msg = None
            if msg:
                viol += 1
                if viol <= 3:
                    run.violation({'kind': 'oracle', 'detail': msg, 'value': repr(v)[:300], 'type': type(v).__name__,
                                   'cfg': cfg, 'impl': text})
            # model tie for the arithmetic printers
            if text and isinstance(v, datetime.timedelta) and not msg:
                p = abs(v)
                reqs.append('(timedelta %d %d %d %d)' % (1 if v != p else 0, p.days, p.seconds, p.microseconds))
                impl.append(timedelta_kwargs(text))
            elif text and type(v) is datetime.datetime and not msg:
                reqs.append('(datetime %d %d %d %d %d %d %d %d %d)' % (v.year, v.month, v.day, v.hour, v.minute, v.second,
                                                                       v.microsecond, v.tzinfo is not None, v.fold))
                tree = ast.parse('(' + text + '\n)', mode='eval').body
                impl.append('pos ' + ' '.join(str(a.value) for a in tree.args) if tree.args else
                            'kw ' + ' '.join('%s=%s' % (k.arg, k.value.value if isinstance(k.value, ast.Constant) else 'tz')
                                             for k in tree.keywords))
            elif text and type(v) is datetime.time and not msg:
                reqs.append('(time %d %d %d %d %d %d)' % (v.hour, v.minute, v.second, v.microsecond, v.tzinfo is not None, v.fold))
                tree = ast.parse('(' + text + '\n)', mode='eval').body
                impl.append('kw ' + ' '.join('%s=%s' % (k.arg, k.value.value if isinstance(k.value, ast.Constant) else 'tz')
                                             for k in tree.keywords))
        dis = 0
        if reqs:
            out = run_driver(reqs, shards=1)
            for a, b, q in zip(impl, out, reqs):
                if a.strip() != b.strip():
                    dis += 1
                    if dis <= 3:
                        run.sample({'disagreement': {'request': q, 'impl': a, 'model': b}})
        if dis:
            run.broken.append('correspondence: datetime-family printers (keyword selection / arithmetic) vs Stdlib model, %d disagreements' % dis)
        # ---- the collections, tied to Model/StdColl.v: text of pformat vs pformat_model (std_print x) -------
        import printercheck as PC
        r3 = rng(PROP + '/collections')
        ccases = []
        for _ in range(900 if tier == 'quick' else 15000):
            t = valgen.rand_std(r3)
            if r3.random() < 0.3:
                t = r3.choice([('list', [t]), ('dict', [(('str', 'k'), t)]), ('tuple', [t, ('int', 1)]),
                               ('std', 'deque', [t], None), ('std', 'ordered', [(('str', 'inner'), t)])])
            cfg = dict(width=r3.choice([1, 20, 40, 79, 200]), indent=r3.choice([2, 4]), sort_dict_keys=r3.random() < 0.4)
            x = r3.random()
            if x < 0.15:
                cfg['max_seq_len'] = r3.choice([1, 2, 3])
            elif x < 0.3:
                cfg['depth'] = r3.choice([0, 1, 2])
            ccases.append(('collections', t, cfg))
        cres = PC.run_cases(ccases)
        cdis = PC.disagreements(cres)
        run.count(len(cres))
        run.coverage['collections_model_cases'] = len(cres)
        if cdis:
            run.broken.append('correspondence: collections printers vs StdColl.std_print through the printer model, '
                              '%d disagreements' % len(cdis))
            for c in cdis[:3]:
                run.sample({'disagreement': PC.case_json(c)})
        dis += len(cdis)
        cviol = 0
        for c in cres:
            if 'max_seq_len' in c.cfg or 'depth' in c.cfg:
                continue
            text, msg = coll_oracle(c.value, c.cfg)
            if msg:
                cviol += 1
                if cviol <= 3:
                    run.violation({'kind': 'collections', 'detail': msg, 'term': PC.jsonable(c.term), 'cfg': c.cfg,
                                   'impl': text, 'model': c.model})
        run.coverage['disagreements_checked'] = dis
        run.coverage['model_cases'] = len(reqs) + len(cres)
        run.coverage['distinct_nontrivial'] = nontriv
        run.coverage['type_histogram'] = kinds
        run.coverage['rule'] = (
            'collections (OrderedDict, deque, defaultdict, Counter, ChainMap, mappingproxy, exceptions, partial, UUID, SimpleNamespace, namedtuples) built from '
            'value terms, nested in each other and in containers, under width / indent / sort_dict_keys / max_seq_len / depth: '
            'text compared with the model (StdColl.std_print through the printer model), eval oracle without cuts; '
            'seeded instances of every standard-library type with a bundled printer: timedelta (zero, max, min, '
            'resolution, +-365 days, negative, random), datetime / time (zero suffixes, fold, tzinfo), date min/max, '
            'timezone (utc, fixed offsets with and without a name, seconds), pytz zones (named and localized DST), '
            'OrderedDict, defaultdict (factory None / list / int / dict / set), deque (maxlen None/0/3/10), Counter, '
            'ChainMap (0..3 maps, empty maps), mappingproxy, UUID, Enum (plain, str mix-in, tuple values, alias) / Flag '
            '(single, composite, zero, named combination, KEEP boundary with unnamed bits, STRICT, multi-bit members) / IntEnum '
            'members, SimpleNamespace, namedtuples (incl. field-less), partial, exceptions, pure paths, struct_time; '
            'alone and nested in list / dict / tuple; widths 1..200. Oracle: no "raised an exception" warning, '
            'eval(text) with the modules in scope is an equal object of the same type. For timedelta / datetime / time '
            'the printed keywords are compared with the Coq model of the selection and arithmetic.')
    return run.finish()


def coll_equal(a, b):
    """type-exact structural equality for the collections family: ordered where the type's own equality is ordered
    (OrderedDict, deque, list, tuple, ChainMap.maps, exception / partial arguments), unordered for dict-like and
    set-like values; nan equals nan, 0.0 differs from -0.0"""
    import printercheck as PC
    if type(a) is not type(b):
        return False
    if isinstance(a, collections.OrderedDict):
        return len(a) == len(b) and all(coll_equal(x, y) for x, y in zip(a.items(), b.items()))
    if isinstance(a, collections.deque):
        return a.maxlen == b.maxlen and len(a) == len(b) and all(coll_equal(x, y) for x, y in zip(a, b))
    if isinstance(a, collections.ChainMap):
        return coll_equal(a.maps, b.maps)
    if isinstance(a, (dict, types.MappingProxyType)):
        if isinstance(a, collections.defaultdict) and a.default_factory is not b.default_factory:
            return False
        if len(a) != len(b):
            return False
        rest = list(b.items())
        for k, x in a.items():
            for i, (k2, x2) in enumerate(rest):
                if coll_equal(k, k2) and coll_equal(x, x2):
                    del rest[i]
                    break
            else:
                return False
        return True
    if isinstance(a, BaseException):
        return coll_equal(a.args, b.args)
    if isinstance(a, functools.partial):
        return a.func is b.func and coll_equal(a.args, b.args) and coll_equal(a.keywords, b.keywords)
    if isinstance(a, types.SimpleNamespace):
        return coll_equal(vars(a), vars(b))
    if isinstance(a, (list, tuple)):
        return len(a) == len(b) and all(coll_equal(x, y) for x, y in zip(a, b))
    if isinstance(a, (set, frozenset)):
        rest = list(b)
        for x in a:
            for i, y in enumerate(rest):
                if coll_equal(x, y):
                    del rest[i]
                    break
            else:
                return False
        return not rest
    return PC.strict_equal(a, b)


def coll_oracle(v, cfg):
    from prettyprinter import pformat
    with warnings.catch_warnings(record=True) as ws:
        warnings.simplefilter('always')
        try:
            text = pformat(v, **cfg)
        except Exception as e:
            return None, 'pformat raised %s: %s' % (type(e).__name__, e)
    if ws:
        return text, 'warning: ' + str(ws[0].message)[:200].replace('\n', ' ')
    try:
        back = eval('(' + text + '\n)', dict(NS))
    except Exception as e:
        return text, 'output does not evaluate: %s: %s' % (type(e).__name__, str(e)[:100])
    if not coll_equal(back, v):
        return text, 'evaluates to %r, not the printed object' % (back,)
    return text, None


def replay_collections(p):
    import printercheck as PC
    t = PC.unjson(p['term'])
    c = PC.run_cases([('replay', t, p['cfg'])])[0]
    text, msg = coll_oracle(c.value, c.cfg)
    print('impl:', c.text, '\nmodel:', c.model, '\noracle:', msg)
    return 1 if msg or c.text != c.model else 0


def replay(path):
    with open(path) as f:
        p = json.load(f)
    print(json.dumps(p, indent=1)[:2500])
    if p.get('kind') == 'collections':
        return replay_collections(p)
    if 'value' in p:
        try:
            v = eval(p['value'], dict(NS, Color=Color, Perm=Perm, Level=Level, Point=Point, Empty=Empty, MyError=MyError,
                                      OrderedDict=collections.OrderedDict, deque=collections.deque,
                                      defaultdict=collections.defaultdict, Counter=collections.Counter,
                                      ChainMap=collections.ChainMap, namespace=types.SimpleNamespace, UUID=uuid.UUID,
                                      PurePosixPath=pathlib.PurePosixPath, PureWindowsPath=pathlib.PureWindowsPath,
                                      PosixPath=pathlib.PosixPath, nan=float('nan'), inf=float('inf')))
        except Exception as e:
            print('cannot rebuild the value from its repr:', e)
            return 1
        text, msg = oracle(v, p['cfg'])
        print(text, '\noracle:', msg)
        return 1 if msg else 0
    return 1

"""C20 - concurrent printing from several threads is safe."""
import json

import sched
import translate
from common import rng, run_driver
from framework import Run

PROP = 'C20'


def outcome_letter(res, ref):
    r, ws = res
    if r[0] == 'exc':
        return 'K' if r[1] == 'KeyError' else 'E:' + r[1]
    if r[1] == ref and not ws:
        return 'P'
    return 'R'


def schedules_for(tier, r):
    out = []
    for depth in (0, 1, 2):
        sw = 2
        for s in sched.bounded_schedules(2, 9 if tier == 'quick' else 12, sw):
            out.append((2, depth, s))
    # three threads: sampled interleavings with up to 5 context switches
    n3 = 400 if tier == 'quick' else 6000
    for _ in range(n3):
        k = r.randint(2, 6)
        s = []
        last = None
        for _ in range(k):
            t = r.choice([x for x in range(3) if x != last])
            s += [t] * r.randint(1, 10)
            last = t
        out.append((3, r.choice([0, 0, 1]), s))
    if tier == 'quick':
        r.shuffle(out)
        keep = [x for x in out if x[0] == 3] + [x for x in out if x[0] == 2][:1800]
        out = keep
    return out


def main(tier):
    run = Run(PROP, tier)
    built = run.build()
    run.prove()
    if built:
        r = rng(PROP)
        try:
            lines = translate.gen_promotion()[1]
        except translate.TranslateError as e:
            lines = None
            run.broken.append('translator: ' + str(e))
        cases = schedules_for(tier, r)
        reqs = []
        impl = []
        nontriv = 0
        viol = 0
        for nth, depth, s in cases:
            res, ref, executed = sched.run_schedule(nth, list(s), depth=depth)
            letters = [outcome_letter(res[i], ref[i]) for i in range(nth)]
            run.count(1)
            if len(set(s)) > 1 and len(s) >= 6:
                nontriv += 1
            if any(x != 'P' for x in letters):
                viol += 1
                if viol <= 3:
                    run.violation({'kind': 'oracle', 'threads': nth, 'subclass_depth': depth, 'schedule': s,
                                   'outcomes': letters,
                                   'detail': 'under this interleaving a thread raised or printed something else than '
                                             'the sequential result (K = KeyError, R = other text / repr fallback / warning)',
                                   'results': [str(x)[:200] for x in res]})
            if lines is not None and depth == 0:
                ms = sched.model_schedule(executed, lines)
                reqs.append('(threads new %d (%s))' % (nth, ' '.join(str(t) for t in ms)))
                impl.append(' '.join(letters))
        # lookups of other values racing with a promotion
        nmix = 0
        mixs = sched.bounded_schedules(2, 10 if tier == 'quick' else 16, 2)
        if tier == 'quick':
            r.shuffle(mixs)
            mixs = mixs[:700]
        for s in mixs + [[r.randrange(3) for _ in range(r.randint(5, 60))] for _ in range(150 if tier == 'quick' else 3000)]:
            nth = 3 if 2 in s else 2
            res, ref = sched.run_mixed_promotion(nth, list(s))
            letters = [outcome_letter(res[i], ref[i]) for i in range(nth)]
            nmix += 1
            run.count(1)
            if any(x != 'P' for x in letters):
                viol += 1
                if viol <= 3:
                    run.violation({'kind': 'mixed-promotion', 'threads': nth, 'schedule': s, 'outcomes': letters,
                                   'detail': 'one thread promotes a lazily registered printer while the others look up '
                                             'printers for other values: a thread raised or returned another text',
                                   'results': [str(x)[:200] for x in res], 'expected': ref})
        run.coverage['mixed_promotion_schedules'] = nmix
        # threads printing values that share sub-objects: the cycle-detection state is per call
        nshared = 0
        sh_cases = []
        for first in (0, 1):
            for n in range(1, 70 if tier == 'quick' else 140):
                sh_cases.append((2, [first] * n + [1 - first] * 400))      # one preemption, then the other runs to its end
        for _ in range(300 if tier == 'quick' else 5000):
            nth = r.choice([2, 2, 3])
            s, last = [], None
            for _k in range(r.randint(2, 7)):
                t = r.choice([x for x in range(nth) if x != last])
                s += [t] * r.randint(1, 40)
                last = t
            sh_cases.append((nth, s))
        for nth, s in sh_cases:
            cfgs = [{}] * nth if nshared % 2 == 0 else [dict(width=30 + 10 * i) for i in range(nth)]
            res, ref = sched.run_shared(nth, list(s), cfgs)
            letters = [outcome_letter(res[i], ref[i]) for i in range(nth)]
            nshared += 1
            run.count(1)
            if any(x != 'P' for x in letters):
                viol += 1
                if viol <= 3:
                    run.violation({'kind': 'shared', 'threads': nth, 'schedule': s, 'cfgs': cfgs, 'outcomes': letters,
                                   'detail': 'threads printing values that share sub-objects: under this interleaving a '
                                             'thread raised or returned something else than the sequential text',
                                   'results': [str(x)[:200] for x in res], 'expected': ref})
        run.coverage['shared_object_schedules'] = nshared
        # preemptions inside the layout algorithm and its look-aheads (no state is shared between calls)
        nlay = 0
        for k in range(120 if tier == 'quick' else 2500):
            nth = r.choice([2, 2, 3])
            s, last = [], None
            for _k in range(r.randint(2, 8)):
                t = r.choice([x for x in range(nth) if x != last])
                s += [t] * r.randint(1, 120)
                last = t
            widths = [r.choice([20, 40, 60]) for _ in range(nth)]
            res, ref = sched.run_layout(nth, list(s), widths)
            letters = [outcome_letter(res[i], ref[i]) for i in range(nth)]
            nlay += 1
            run.count(1)
            if any(x != 'P' for x in letters):
                viol += 1
                if viol <= 3:
                    run.violation({'kind': 'layout', 'threads': nth, 'schedule': s, 'widths': widths, 'outcomes': letters,
                                   'detail': 'threads laying out different values: preempted inside the layout algorithm / '
                                             'a fitting predicate, a thread returned something else than its sequential text',
                                   'results': [str(x)[:200] for x in res], 'expected': ref})
        run.coverage['layout_region_schedules'] = nlay
        # preemptions at ANY line of the package while printing mixed values (strings being split, comments,
        # calls, shared sub-objects): whatever state a call keeps, it keeps to itself
        nall = 0
        for k in range(80 if tier == 'quick' else 1500):
            nth = r.choice([2, 2, 3])
            s, last = [], None
            for _k in range(r.randint(2, 10)):
                t = r.choice([x for x in range(nth) if x != last])
                s += [t] * r.choice([1, 3, 10, 40, 150, 600, 2000])
                last = t
            widths = [r.choice([20, 40, 79]) for _ in range(nth)]
            res, ref = sched.run_all_lines(nth, list(s), widths)
            letters = [outcome_letter(res[i], ref[i]) for i in range(nth)]
            nall += 1
            run.count(1)
            if any(x != 'P' for x in letters):
                viol += 1
                if viol <= 3:
                    run.violation({'kind': 'all-lines', 'threads': nth, 'schedule': s, 'widths': widths, 'outcomes': letters,
                                   'detail': 'threads printing mixed values, preempted at arbitrary lines of the package: a '
                                             'thread returned something else than its sequential text',
                                   'results': [str(x)[:200] for x in res], 'expected': [x[:200] for x in ref]})
        run.coverage['all_lines_schedules'] = nall
        # one preemption at every program point: thread A stops the first time it reaches a line of the package
        # (for every line its print of never-printed classes executes), thread B prints the same values to the
        # end, A resumes
        firsts, nlines = sched.preemption_points()
        pts = firsts if tier != 'quick' else firsts[::max(1, len(firsts) // 200)]
        nsweep = 0
        for k in pts:
            res, ref = sched.run_single_preemption(k)
            letters = [outcome_letter(res[i], ref[i]) for i in range(2)]
            nsweep += 1
            run.count(1)
            if any(x != 'P' for x in letters):
                viol += 1
                if viol <= 3:
                    run.violation({'kind': 'single-preemption', 'k': k, 'outcomes': letters,
                                   'detail': 'thread A preempted after %d package lines of a print of never-printed classes, '
                                             'thread B printed the same values meanwhile: a thread raised or returned another text' % k,
                                   'results': [str(x)[:300] for x in res], 'expected': ref[0][:300]})
        # two preemptions around values with long strings: A stops after i lines, B after j lines, A finishes, B
        # finishes - i and j drawn from the points where a line of the package runs for the first or second time
        r2 = rng(PROP + '/double')
        ndouble = 0
        pts = {}
        for pair in range(sched.STRING_PAIRS):
            pts[pair] = (sched.string_points(0, pair=pair), sched.string_points(1, pair=pair))
        pts0, pts1 = pts[0][0][0], pts[0][1][0]
        for k in range(360 if tier == 'quick' else 3000):
            pair = k % sched.STRING_PAIRS
            (q0, n0), (q1, n1) = pts[pair]
            if k % 3 == 2:
                i, j = r2.randrange(n0), r2.randrange(n1)
            else:
                i, j = r2.choice(q0), r2.choice(q1)
            res, ref = sched.run_double_preemption(i, j, pair=pair)
            letters = [outcome_letter(res[k], ref[k]) for k in range(2)]
            ndouble += 1
            run.count(1)
            if any(x != 'P' for x in letters):
                viol += 1
                if viol <= 6:
                    run.violation({'kind': 'double-preemption', 'i': i, 'j': j, 'pair': pair, 'outcomes': letters,
                                   'detail': 'thread A preempted after %d package lines, thread B after %d, then A and B run to '
                                             'their ends (two different values with long strings): a thread raised or '
                                             'returned another text' % (i, j),
                                   'results': [str(x)[:300] for x in res], 'expected': [x[:300] for x in ref]})
        # per-call settings must stay per call: A prints with explicit settings, B (and a later sequential call)
        # print the same value without any; A preempted at every first execution of a package line - B runs to
        # its end there, or stops too and lets A finish first
        cpts, cn = sched.config_points()
        cuse = cpts if tier != 'quick' else cpts[::max(1, len(cpts) // 60)]
        ncfg = 0
        r3 = rng(PROP + '/config')
        for k in cuse:
            for j in (None, r3.choice(cpts)):
                res, later, ref = sched.run_config_preemption(k, j)
                letters = [outcome_letter(res[x], ref[x]) for x in range(2)]
                ncfg += 1
                run.count(1)
                if any(x != 'P' for x in letters) or later != ref[1]:
                    viol += 1
                    if viol <= 6:
                        run.violation({'kind': 'config-preemption', 'k': k, 'j': j, 'outcomes': letters,
                                       'detail': 'A = pformat(v, width=30, sort_dict_keys=True, indent=2, max_seq_len=5, depth=3) '
                                                 'preempted after %d package lines; B = pformat(v) %s: a thread - or a later '
                                                 'sequential pformat(v) - returned another text than on its own'
                                                 % (k, 'ran to its end meanwhile' if j is None else 'ran %d lines, then A ended first' % j),
                                       'results': [str(x)[:300] for x in res], 'later': later[:300], 'expected': [x[:300] for x in ref]})
        # predicate-registered printers: after a value of the first predicate's kind, two threads print values of
        # the second predicate's kind; one preemption at every first execution of a package line
        pin, ppts, pn = sched.predicate_points()
        npred = 0
        for k in sorted(set(pin + (ppts if tier != 'quick' else ppts[::max(1, len(ppts) // 40)]))):
            res, first, ref = sched.run_predicate_preemption(k)
            letters = [outcome_letter(res[x], ref[x]) for x in range(2)]
            npred += 1
            run.count(1)
            if any(x != 'P' for x in letters) or first != 'PK1(9)':
                viol += 1
                if viol <= 6:
                    run.violation({'kind': 'predicate-preemption', 'k': k, 'outcomes': letters,
                                   'detail': 'two predicate printers; after pformat(PK1(9)), thread A printing [PK2(1)] was preempted '
                                             'after %d package lines while thread B printed [PK2(2)]: a thread returned another '
                                             'text than on its own' % k,
                                   'results': [str(x)[:200] for x in res], 'expected': ref})
        run.coverage['predicate_preemption_schedules'] = npred
        run.coverage['config_preemption_schedules'] = ncfg
        run.coverage['double_preemption_schedules'] = ndouble
        run.coverage['double_preemption_points'] = [len(pts0), len(pts1)]
        run.coverage['single_preemption_points'] = nsweep
        run.coverage['distinct_lines_of_a_cold_print'] = len(firsts)
        dis = 0
        if reqs:
            out = run_driver(reqs, shards=1)
            for a, b, q in zip(impl, out, reqs):
                if a != b:
                    dis += 1
                    if dis <= 3:
                        run.sample({'disagreement': {'request': q, 'impl_outcomes': a, 'model_outcomes': b}})
        if dis:
            run.broken.append('correspondence: thread outcomes under the recorded schedule vs the interleaving model, %d disagreements' % dis)
        run.coverage['disagreements_checked'] = dis
        run.coverage['model_schedules_compared'] = len(reqs)
        run.coverage['distinct_nontrivial'] = nontriv
        run.coverage['rule'] = (
            'deterministic scheduler: threads calling pformat on instances of a class whose printer is registered by '
            'name only (and of subclasses 1 and 2 levels below it) are gated on line events inside is_registered and '
            'register_pretty; one runnable thread at a time. 2 threads: every schedule with at most 2 preemptions and '
            'runs of 1..9 (thorough: 12) traced lines, for the class itself and both subclass depths; 3 threads: seeded '
            'random interleavings with up to 5 context switches. Oracle: every thread returns exactly the sequential '
            'text, no exception, no warning. For runs on the class itself the recorded line order is projected on the '
            "model's steps and the extracted interleaving model is run on that schedule; outcomes compared. "
            'Also (oracle only): one thread promoting a lazily registered printer while 1-2 others print an exception / an '
            'instance of a subclass of a built-in type (bounded and random schedules over the same lines); 2-3 threads printing values that SHARE sub-objects, gated on the line events of '
            '_run_pretty (where visits start and end): every single-preemption schedule up to 70 (thorough: 140) lines '
            'and seeded random interleavings; same or different widths per thread; 2-3 threads laying out different values, '
            '2 threads printing values handled by the second of two predicate printers after a value of the first kind, one preemption at every line executed inside the predicate lookup and at first executions of other package lines; 2 threads, one printing with explicit settings and one without (plus a later sequential call), the first preempted at every first execution of a package line; 2 threads printing different values with long strings under two preemptions (A stops after i lines, B after j, A ends, B ends; 360 / 3000 seeded (i, j) over 4 pairs of values - string at top level / in a list / dict / nested - two thirds at points where a package line runs for the 1st or 2nd time, one third uniform); gated on the line events of best_layout and both fitting predicates (seeded random interleavings, runs of '
            '1..120 lines); 2-3 threads printing mixed values (split strings, comments, calls, shared objects) gated on EVERY '
            'line executed inside the package (seeded random interleavings, runs of 1..2000 lines); a sweep with ONE preemption at '
            'the first execution of every distinct package line of a print of never-printed classes (fresh namedtuple, tuple '
            'subclass, lazily registered class, exception), the other thread printing the same values meanwhile. '
            'non-trivial = runs in which both/all threads executed traced lines before the drain')
    return run.finish()


def replay(path):
    with open(path) as f:
        p = json.load(f)
    if 'schedule' not in p:
        print(json.dumps(p, indent=1)[:3000])
        return 1
    if p.get('kind') == 'predicate-preemption':
        res, first, ref = sched.run_predicate_preemption(p['k'])
        letters = [outcome_letter(res[i], ref[i]) for i in range(2)]
        print(letters, first, [str(x)[:150] for x in res])
        return 0 if all(x == 'P' for x in letters) and first == 'PK1(9)' else 1
    if p.get('kind') == 'config-preemption':
        res, later, ref = sched.run_config_preemption(p['k'], p['j'])
        letters = [outcome_letter(res[i], ref[i]) for i in range(2)]
        print(letters, later == ref[1], [str(x)[:150] for x in res])
        return 0 if all(x == 'P' for x in letters) and later == ref[1] else 1
    if p.get('kind') == 'double-preemption':
        res, ref = sched.run_double_preemption(p['i'], p['j'], pair=p.get('pair', 0))
        letters = [outcome_letter(res[i], ref[i]) for i in range(2)]
        print(letters, [str(x)[:150] for x in res])
        return 0 if all(x == 'P' for x in letters) else 1
    if p.get('kind') == 'single-preemption':
        res, ref = sched.run_single_preemption(p['k'])
        letters = [outcome_letter(res[i], ref[i]) for i in range(2)]
        print(letters, [str(x)[:150] for x in res])
        return 0 if all(x == 'P' for x in letters) else 1
    if p.get('kind') == 'mixed-promotion':
        res, ref = sched.run_mixed_promotion(p['threads'], p['schedule'])
        letters = [outcome_letter(res[i], ref[i]) for i in range(p['threads'])]
        print(letters, [str(x)[:150] for x in res])
        return 0 if all(x == 'P' for x in letters) else 1
    if p.get('kind') == 'all-lines':
        res, ref = sched.run_all_lines(p['threads'], p['schedule'], p['widths'])
        letters = [outcome_letter(res[i], ref[i]) for i in range(p['threads'])]
        print(letters, [str(x)[:150] for x in res])
        return 0 if all(x == 'P' for x in letters) else 1
    if p.get('kind') == 'layout':
        res, ref = sched.run_layout(p['threads'], p['schedule'], p['widths'])
        letters = [outcome_letter(res[i], ref[i]) for i in range(p['threads'])]
        print(letters, [str(x)[:150] for x in res])
        return 0 if all(x == 'P' for x in letters) else 1
    if p.get('kind') == 'shared':
        res, ref = sched.run_shared(p['threads'], p['schedule'], p['cfgs'])
        letters = [outcome_letter(res[i], ref[i]) for i in range(p['threads'])]
        print(letters, [str(x)[:150] for x in res])
        return 0 if all(x == 'P' for x in letters) else 1
    res, ref, _ex = sched.run_schedule(p['threads'], p['schedule'], depth=p.get('subclass_depth', 0))
    letters = [outcome_letter(res[i], ref[i]) for i in range(p['threads'])]
    print(letters, [str(x)[:150] for x in res])
    return 0 if all(x == 'P' for x in letters) else 1

"""C01 - printed built-in values evaluate back to an equal value of the same types."""
import itertools
import json

import printercheck as PC
import valgen
from common import rng
from framework import Run

PROP = 'C01'


def expected(v, sort):
    """the value the output must evaluate to: dicts in insertion order, or in
    ascending key order when sorting is requested (keys comparable); the class
    of every container is kept"""
    if isinstance(v, dict):
        items = list(v.items())
        if sort:
            items = sorted(items, key=lambda kv: kv[0])
        return type(v)({expected(k, sort): expected(x, sort) for k, x in items})
    if isinstance(v, list):
        return type(v)([expected(x, sort) for x in v])
    if isinstance(v, tuple):
        return type(v)(tuple(expected(x, sort) for x in v))
    if isinstance(v, (set, frozenset)):
        return type(v)(expected(x, sort) for x in v)
    return v


def oracle(c):
    if c.text.startswith('EXC '):
        return 'pformat raised ' + c.text
    if c.warnings:
        return 'a printer failed or warned: ' + c.warnings[0][:120]
    try:
        got = PC.eval_text(c.text)
    except Exception as e:
        return 'output is not an evaluable expression: %s: %s' % (type(e).__name__, e)
    want = expected(c.value, c.cfg.get('sort_dict_keys', False))
    if not PC.strict_equal(got, want):
        return 'evaluates to %r, expected %r' % (got, want)
    return None


def enum_small():
    leaves = valgen.LEAVES
    hashable_leaves = leaves
    out = list(leaves)
    for k in ('list', 'tuple', 'set', 'frozenset'):
        out.append((k, []))
        for a in leaves:
            out.append((k, [a]))
    for a, b in itertools.product(leaves[::2], leaves[1::2]):
        out.append(('list', [a, b]))
        out.append(('tuple', [b, a]))
        out.append(('set', [a, b]))
        out.append(('dict', [(a, b)]))
    for a in leaves:
        out.append(('list', [('tuple', [a])]))
        out.append(('dict', [(a, ('list', [a]))]))
        out.append(('dict', [(('tuple', [a]), a), (a, ('dict', []))]))
        out.append(('frozenset', [('frozenset', [a]), a]))
    return out


def cases_for(tier):
    r = rng(PROP)
    cases = []
    widths = [1, 2, 3, 5, 8, 13, 21, 40, 79, 200]
    for t in enum_small():
        v, _sx = valgen.build(t)
        cmp_ok = PC.comparable(v)
        for _ in range(4 if tier == 'quick' else 12):
            w = r.choice(widths)
            cfg = dict(indent=r.choice([1, 4, 8]), width=w, ribbon_width=r.choice([1, max(1, w // 2), w]),
                       sort_dict_keys=(r.random() < 0.5 and cmp_ok))
            cases.append(('enum', t, cfg))
    n = 2500 if tier == 'quick' else 40000
    for _ in range(n):
        t = valgen.rand_val(r, r.randint(2, 30), set())
        v, _sx = valgen.build(t)
        cmp_ok = PC.comparable(v)
        for _ in range(3):
            w = r.randint(1, 200) if r.random() < 0.5 else r.choice(widths)
            cfg = dict(indent=r.randint(1, 8), width=w, ribbon_width=r.randint(1, 200),
                       sort_dict_keys=(r.random() < 0.4 and cmp_ok))
            cases.append(('random', t, cfg))
    # the repaired empty-string class: deep nesting leaves no width
    deep = ('str', '')
    for _ in range(22):
        deep = ('list', [deep])
    for w in (1, 3, 10, 79):
        cases.append(('corpus', deep, dict(width=w)))
        cases.append(('corpus', ('list', [('str', '')]), dict(width=w)))
        cases.append(('corpus', ('dict', [(('str', ''), ('bytes', b''))]), dict(width=w, indent=8)))
    # str / bytes without any whitespace, words separated by punctuation and control characters (URLs, paths,
    # query strings): split on the non-word pattern; every position, narrow and default widths
    for _ in range(150 if tier == 'quick' else 2000):
        isb = r.random() < 0.6
        leaf = ('bytes' if isb else 'str', valgen.rand_punct_text(r, isb))
        other = ('bytes' if isb else 'str', valgen.rand_punct_text(r, isb, 2))
        t = r.choice([leaf, ('list', [leaf]), ('tuple', [leaf]), ('dict', [(leaf, other)]), ('dict', [(other, leaf)]),
                      ('frozenset', [leaf]), ('set', [leaf, other]), ('list', [('int', 1), ('tuple', [leaf, other])])])
        for w in (79, r.randint(1, 60)):
            cases.append(('punct', t, dict(width=w, ribbon_width=r.choice([w, 200, max(1, w // 2)]),
                                           indent=r.choice([1, 4]))))
    # containers longer than any limit built into the package (the context's own default is 1000), nested,
    # with truncation switched off or far away: nothing may be cut
    long_list = ('list', [('int', i % 10) for i in range(1001)])
    long_dict = ('dict', [(('int', i), ('bool', i % 2 == 0)) for i in range(1100)])
    long_set = ('set', [('int', i) for i in range(1001)])
    for inner in (long_list, long_dict, long_set, ('tuple', long_list[1])):
        for outer in (('list', [inner]), ('dict', [(('str', 'k'), ('tuple', [inner, ('int', 1)]))]), inner):
            for msl in (None, 5000):
                cases.append(('corpus', outer, dict(width=79, max_seq_len=msl)))
    return cases


def after_failed_print():
    """a print that RAISES (an int of more than sys.get_int_max_str_digits() digits cannot be converted to text by
    CPython itself), then the same containers - repaired in place - printed again: the second text must evaluate
    to the value like any other.  -> list of failure records"""
    import sys
    from prettyprinter import pformat
    lim = sys.get_int_max_str_digits() if hasattr(sys, 'get_int_max_str_digits') else 0
    if not lim:
        return 0, []
    huge = 10 ** (lim + 50)
    bad = []
    n = 0
    shapes = [lambda x: [1, x], lambda x: {'k': [x]}, lambda x: ([[x], 2],), lambda x: [{'a': {1: x}}, [3]]]
    for mk in shapes:
        for cfg in (dict(), dict(width=5), dict(sort_dict_keys=True)):
            v = mk(huge)
            try:
                first = pformat(v, **cfg)
            except Exception as e:
                first = 'EXC ' + type(e).__name__

            def fix(o):
                if isinstance(o, list):
                    for i, x in enumerate(o):
                        if x is huge:
                            o[i] = 7
                        else:
                            fix(x)
                elif isinstance(o, dict):
                    for k in list(o):
                        if o[k] is huge:
                            o[k] = 7
                        else:
                            fix(o[k])
                elif isinstance(o, tuple):
                    for x in o:
                        fix(x)
            fix(v)
            n += 1
            for rep in range(2):
                text, ws = PC.impl_pformat(v, cfg)
                try:
                    ok = not text.startswith('EXC ') and PC.strict_equal(PC.eval_text(text), expected(v, cfg.get('sort_dict_keys', False)))
                except Exception:
                    ok = False
                if not ok:
                    bad.append({'kind': 'after-failed-print', 'detail': 'after a print of the same containers that raised (%s), '
                                'pformat gives a text that does not evaluate to the value' % first[:60],
                                'value_after_repair': repr(v), 'cfg': cfg, 'impl': text[:300]})
                    break
    return n, bad


def main(tier):
    run = Run(PROP, tier)
    built = run.build()
    run.prove()
    if built:
        cases = PC.run_cases(cases_for(tier))
        dis = PC.disagreements(cases)
        run.count(len(cases))
        run.coverage['disagreements_checked'] = len(dis)
        if dis:
            run.broken.append('correspondence: printer level (pformat text vs pformat_model), %d disagreements' % len(dis))
            for c in dis[:3]:
                run.sample({'disagreement': PC.case_json(c)})
        ntok, tdis = PC.token_disagreements(cases)
        run.coverage['token_level_compared'] = ntok
        if tdis:
            run.broken.append('correspondence: token level (ast of pformat text vs ast of etoks(expr_of v)): ' + tdis[-1][:60])
            for d in tdis[:3]:
                run.sample({'token_disagreement': d})
        multi = set()
        kinds = {}
        viol = 0
        for c in cases:
            if '\n' in c.text:
                multi.add(c.sx)
            msg = oracle(c)
            if msg:
                viol += 1
                if viol <= 3:
                    run.violation({'kind': 'oracle', 'detail': msg, 'term': PC.jsonable(c.term), 'cfg': c.cfg,
                                   'impl': c.text})
        nfail, fails = after_failed_print()
        run.count(nfail)
        run.coverage['prints_after_a_failed_print'] = nfail
        for f in fails[:3]:
            run.violation(f)
        for c in cases[::7]:
            for k, n in valgen.vkinds(c.term).items():
                kinds[k] = kinds.get(k, 0) + n
        run.coverage['distinct_nontrivial'] = len(multi)
        run.coverage['distinct_values'] = len({c.sx for c in cases})
        run.coverage['value_kind_histogram_sampled'] = kinds
        run.coverage['rule'] = (
            'built-in value trees: every leaf of the adversarial alphabet alone and inside each container kind, pairs '
            'of leaves in list/tuple/set/dict, nested singletons, seeded random trees up to 30 nodes; configurations '
            'width in [1,200] x ribbon_width in [1,200] x indent 1..8 x sort_dict_keys (only when all keys are '
            'mutually comparable). Compared: pformat text vs model; oracle: eval("(" + text + "\\n)") with '
            'type-exact structural equality incl. sign of zero, nan, dict order. non-trivial = distinct values whose '
            'output spans several lines')
        for c in cases[:2] + cases[-2:]:
            run.sample(PC.case_json(c))
    return run.finish()


def replay(path):
    with open(path) as f:
        p = json.load(f)
    if p.get('kind') == 'after-failed-print':
        n, bad = after_failed_print()
        print('prints after a failed print:', n, 'failures:', bad[:2])
        return 1 if bad else 0
    if 'term' not in p:
        print(json.dumps(p, indent=1)[:3000])
        return 1
    t = PC.unjson(p['term'])
    c = PC.run_cases([('replay', t, p['cfg'])])[0]
    msg = oracle(c)
    print('impl:', c.text, '\nmodel:', c.model, '\noracle:', msg)
    return 1 if msg else 0

#!/bin/sh
# Offline build of the framework from files on disk: translator -> Gen/*.v,
# full .vo build of the Coq development, extraction, OCaml driver.
set -e
cd "$(dirname "$0")"
export PYTHONHASHSEED=0 PYTHONPATH=${VERIF_REPO:-/repo} TOMMIKAIKKONEN_PRETTYPRINTER_VERIF=1 PYTHONDONTWRITEBYTECODE=1
mkdir -p build evidence replays
/venv/bin/python - <<'PY'
import sys
sys.path.insert(0, 'harness')
import common, translate
translate.generate()
common.refresh_coqproject()
rc, out = common.make_coq()
print(out[-3000:])
if rc != 0:
    sys.exit('coq build failed')
common.build_driver(force=True)
print('setup ok')
PY

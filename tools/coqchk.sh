#!/bin/sh
# independent re-check of every compiled property file and everything it depends on; prints the axioms used
cd "$(dirname "$0")/../coq" || exit 2
exec coqchk -silent -o -Q Gen PP -Q Model PP -Q Proofs PP -Q Props PP PP.C01 PP.C02 PP.C03 PP.C04 PP.C05 PP.C06 PP.C07 \
  PP.C08 PP.C09 PP.C10 PP.C11 PP.C12 PP.C13 PP.C14 PP.C15 PP.C16 PP.C17 PP.C18 PP.C19 PP.C20

#!/bin/sh
# usage: thorough_all.sh <seed>  -- every check once in the thorough tier, in parallel; one line per property
SEED=${1:-0}
cd "$(dirname "$0")/.."
./check C01 --tier quick > /dev/null 2>&1     # one build before the parallel part
for p in C01 C02 C03 C04 C05 C06 C07 C08 C09 C10 C11 C12 C13 C14 C15 C16 C17 C18 C19 C20; do
  ( s=$(date +%s); VERIF_SEED=$SEED ./check $p --tier thorough > /tmp/thor_$p.log 2>&1; rc=$?
    echo "$p seed=$SEED tier=thorough exit=$rc $(( $(date +%s)-s ))s viol=$(grep -c '^VIOLATION' /tmp/thor_$p.log) known=$(grep -c '^KNOWN' /tmp/thor_$p.log)" ) &
done
wait

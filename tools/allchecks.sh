#!/bin/sh
# usage: allchecks.sh <seed> [tier]  -- run every check once on the current tree, print one line per property
SEED=${1:-0}; TIER=${2:-quick}
cd "$(dirname "$0")/.."
for p in C01 C02 C03 C04 C05 C06 C07 C08 C09 C10 C11 C12 C13 C14 C15 C16 C17 C18 C19 C20; do
  s=$(date +%s)
  VERIF_SEED=$SEED ./check $p --tier $TIER > /tmp/all_$p.log 2>&1; rc=$?
  e=$(date +%s)
  echo "$p seed=$SEED exit=$rc $((e-s))s viol=$(grep -c '^VIOLATION' /tmp/all_$p.log) known=$(grep -c '^KNOWN' /tmp/all_$p.log)"
done

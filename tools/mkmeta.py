#!/usr/bin/env python3
"""Writes seeded/<id>/meta.json from the table below (what each kept change breaks, what it needs to
manifest, how it was confirmed, which checks catch it)."""
import json
import os

HERE = os.path.dirname(os.path.dirname(os.path.abspath(__file__)))
CONFIRM = ('applied in a scratch worktree of /repo under /tmp: demo.py exits 1 with the patch and 0 without it; the pinned '
           'suite (BASELINE.json command) passes all 73 stable tests with the patch (tools/confirm_mutant.sh); then '
           'git -C /repo apply patch.diff, the quick checks listed, git -C /repo checkout -- . (tools/try_mutant.sh)')
T = {
    'C01-m1': ('C01', '_AlwaysSortable groups keys by type name before comparing: with sort_dict_keys=True a dict whose keys mix int/float/bool is printed out of ascending order (output still evaluates to an equal dict)', {'C01': 'VIOLATION with input (oracle: ascending key order)'}),
    'C02-m1': ('C02', 'escape_str_for_quote re-escapes single quotes with a look-behind regex on repr-escaped text: a piece of a SPLIT string containing backslash followed by a single quote, in a value where single quotes are chosen, ends its literal early', {'C02': 'VIOLATION with input', 'C01': 'VIOLATION with input'}),
    'C04-m1': ('C04', 'Concat.normalize reuses self (in-place normalisation): the hoisted always_break is lost when the same document object is laid out a second time or shared by two parents', {'C04': 'VIOLATION with input', 'C05': 'VIOLATION with input', 'C06': 'VIOLATION no-failing-input-found (correspondence)'}),
    'C05-m1': ('C05', 'ribbon width computed with int(x + 0.5) instead of round(): at ribbon_frac * width = k + 0.5 with k even the ribbon is one column too wide and a flat group overflows it', {'C05': 'VIOLATION with input', 'C04': 'VIOLATION no-failing-input-found (correspondence)', 'C06': 'VIOLATION no-failing-input-found (correspondence)'}),
    'C06-m1': ('C06', 'ribbon width truncated with int() instead of round(): for (ribbon_width, width) pairs whose float round trip falls just short (31/39*39 = 30.999...) a value that fits exactly is broken', {'C06': 'VIOLATION with input (config oracle added after this mutant)', 'C04': 'VIOLATION no-failing-input-found', 'C05': 'VIOLATION no-failing-input-found', 'C01': 'VIOLATION no-failing-input-found'}),
    'C15-m1': ('C15', 'is_registered stops scanning the MRO at the first class already in the registry: a later by-name re-registration of a directly registered base is not promoted when only a subclass instance is printed', {'C15': 'VIOLATION with history'}),
    'C18-m1': ('C18', 'pprint(depth=None) instead of the sentinel: pprint ignores a configured default depth (needs set_default_config(depth=N), a call through pprint without explicit depth, a value deeper than N)', {'C18': 'VIOLATION with history'}),
    'C08-m1': ('C08', 'pretty_float passes str(value) for inf/-inf/nan: a float SUBCLASS overriding __str__/__repr__ holding a non-finite value prints Cls(\'<override text>\')', {'C08': 'VIOLATION with input'}),
    'C09-m1': ('C09', 'the broken variant of a commented dict value re-renders unwrap_comments(v)[0]: a dict value carrying BOTH comment() and trailing_comment() loses its trailing comment', {'C09': 'VIOLATION with input'}),
    'C10-m1': ('C10', 'non-str dict keys are printed with max_seq_len=sys.maxsize: a tuple/frozenset key longer than N is not truncated', {'C10': 'VIOLATION with input'}),
    'C11-m1': ('C11', 'the re-rendered (comment-above) variant of a commented dict value drops nested_call(): cut one level too late, only when the value is commented AND the line does not fit', {'C11': 'VIOLATION with input (after adding commented values to the C11 generator; missed before)'}),
    'C13-m1': ('C13', 'start_visit skips "immutable" types including tuple: a cycle entered through a plain tuple is not cut at the tuple; the marker lands one hop later with the wrong type/id (needs a cycle built through a tuple and printing reaching the tuple first)', {'C13': 'VIOLATION with input'}),
    'C14-m1': ('C14', 'the repr fallback returns before end_visit: a failed value stays in the visited set, so the SAME object reached again in one pformat call prints as a recursion marker and its warning is lost', {'C14': 'VIOLATION with input'}),
    'C17-m1': ('C17', 'the attrs extra memoises default-factory results per (class, attribute): with a takes_self factory later instances are compared against the first printed instance\'s default (needs two instances of one class with different self-dependent defaults)', {'C17': 'VIOLATION with input (after generating several instances per class with self-dependent factories; before that: no-failing-input-found via the fail-closed translator)'}),
    'C16-m1': ('C16', 'styleattrs_to_colorful memoised on (color, bgcolor) only: two tokens sharing colours but differing in bold/italic/underline get the style of the first one rendered in the process (e.g. style friendly: String vs bold String.Escape)', {'C16': 'VIOLATION with input'}),
    'C19-m1': ('C19', 'float literal documents memoised with lru_cache keyed by value: 0.0 == -0.0 share a slot, so whichever zero is printed first in the interpreter decides how both print afterwards', {'C19': 'VIOLATION with history', 'C01': 'VIOLATION with input'}),
    'C20-m1': ('C20', 'register_pretty pops the deferred entry BEFORE writing the registry: a one-statement window in which a concurrent first print finds the printer in neither table and prints the repr (needs a preemption exactly between the two statements)', {'C20': 'VIOLATION with schedule (and the translated program-shape fact flips)'}),
    'C07-m1': ('C07', 'pretty_datetime takes the three-positional shortcut BEFORE appending tzinfo / fold: a tz-aware (or fold=1) datetime exactly at midnight prints as a naive date-only datetime', {'C07': 'VIOLATION with input (eval oracle); the Stdlib model correspondence differs as well'}),
    'C12-m1': ('C12', 'FlatChoice.normalize reads both branches of its lazy copy (eager normalisation) to hoist a forced break: containers commented at every nesting level cost 2^depth (list family, linear before)', {'C12': 'VIOLATION with family/parameter (after enforcing the step budget inside the run; before that the check did not terminate in reasonable time)'}),
    'C03-m1': ('C03', 'the dangling comma of a commented one-element tuple is added only in the flat variant: at narrow widths (comment above the element) the 1-tuple prints as a parenthesised expression', {'C03': 'VIOLATION with input', 'C09': 'VIOLATION with input'}),
    'C01-m2': ('C01', 'escape_str_for_quote drops the "single quotes wanted, repr used double quotes" branch: a SPLIT string whose chosen quote is single and one of whose pieces holds an apostrophe and no double quote prints an unterminated literal', {'C01': 'VIOLATION with input', 'C02': 'VIOLATION with input'}),
    'C02-m2': ('C02', 'NONWORD_PATTERN_BYTES loses its capturing group: long whitespace-free bytes values are split on ASCII punctuation and the punctuation bytes vanish from the pieces', {'C02': 'VIOLATION with input', 'C01': 'not detected at the quick tier (C01 samples few long whitespace-free bytes values; C02 is the property broken)'}),
    'C04-m2': ('C04', 'align caches its evaluated Nest per column (key ignores the indentation): the same align object evaluated at one column under two indentations - nested aligns inside a group that ends up broken, a sub-document shared under two nests, or a second layout run of the object - gets the stale offset', {'C04': 'VIOLATION with input and history (missed at first: every document was a fresh tree; added align-heavy documents, documents SHARING one sub-document object, and replays that record the earlier layouts of the same object)', 'C06': 'VIOLATION no-failing-input-found (engine correspondence)', 'C05': 'not detected (classic algebra only)', 'C03': 'not detected (printers build no align)'}),
    'C05-m2': ('C05', 'both fitting predicates answer True at a not-yet-laid-out sibling group (BREAK mode): a group that fits flat followed on the same line by a group that does not, whose leading text is long, overflows', {'C05': 'VIOLATION with input', 'C04': 'VIOLATION (engine correspondence and oracle)'}),
    'C06-m2': ('C06', 'smart_fitting_predicate gives up when chars_left <= 0 and the stack is non-empty: a nested group whose line is EXACTLY as wide as the available width is broken although it fits', {'C06': 'VIOLATION with input', 'C05': 'VIOLATION no-failing-input-found (engine correspondence)'}),
    'C03-m2': ('C03', 'the "cannot be split" fallback of pretty_str returns the bare literal for every type: a str/bytes SUBCLASS instance that does not fit the rest of its line but is not split (something precedes it on the line, or the 10-character floor applies) loses its constructor at narrow widths only', {'C03': 'VIOLATION with input', 'C08': 'VIOLATION with input'}),
    'C07-m2': ('C07', 'pretty_timedelta splits off whole 365-day years before building attrs: a timedelta whose day count is a non-zero exact multiple of 365 loses the years (days=365 prints timedelta())', {'C07': 'VIOLATION with input (eval oracle and Stdlib model)'}),
    'C08-m2': ('C08', 'short string documents memoised on (value, strategy, indent) without the class: a str/bytes subclass instance printed after an EQUAL plain value in the same process (or the reverse) takes the other one\'s document', {'C08': 'VIOLATION with input', 'C19': 'VIOLATION with history'}),
    'C09-m2': ('C09', 'the dangling comma of a commented sole tuple element is emitted only in the end-of-line comment layout: with the comment above the element (multi-line / long comment, narrow width) the 1-tuple prints as a parenthesised expression', {'C09': 'VIOLATION with input', 'C03': 'VIOLATION with input'}),
    'C10-m2': ('C10', 'python_to_sdocs forwards max_seq_len only when it is not None and PrettyContext defaults it to 1000: max_seq_len=None truncates containers of more than 1000 elements', {'C10': 'VIOLATION with input (missed at first: no container was longer than 6; added containers of 999/1000/1001/1500 elements x limits None, len-1, len, len+1, 1000, 10**9, sys.maxsize)'}),
    'C11-m2': ('C11', 'pretty_call_alt hugs a sole argument by isinstance instead of exact type: a call whose only positional argument is a list/dict/tuple SUBCLASS instance does not consume a level, everything beneath is cut one level too late', {'C11': 'VIOLATION with input (missed at first: random trees rarely put a subclass container as the sole argument of a call above the cut; added the sole-argument family: native / subclass / commented / call-wrapped containers as sole argument, with a keyword or second argument beside it, depths 0..6)'}),
}


def main():
    for mid, (prop, needs, caught) in T.items():
        d = os.path.join(HERE, 'seeded', mid)
        if not os.path.isdir(d):
            continue
        conf = ''
        cf = os.path.join(d, 'confirm.txt')
        if os.path.exists(cf):
            conf = open(cf).read().strip()
        meta = {'id': mid, 'property': prop, 'what_it_breaks_and_needs': needs, 'confirmed': conf,
                'what_was_run': CONFIRM, 'caught_by': caught,
                'origin': 'independent sub-agent given only the property text and a scratch worktree'}
        with open(os.path.join(d, 'meta.json'), 'w') as f:
            json.dump(meta, f, indent=1)
            f.write('\n')


if __name__ == '__main__':
    main()

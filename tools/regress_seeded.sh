#!/bin/sh
# usage: regress_seeded.sh   (VERIF_REPO must point to a scratch copy of the repository)
# applies every seeded change in turn to $VERIF_REPO and runs the quick check of its own property
R=${VERIF_REPO:?set VERIF_REPO to a scratch copy}
cd "$(dirname "$0")/.."
for d in seeded/*/; do
  id=$(basename $d); p=${id%%-*}
  git -C $R checkout -q -- . ; git -C $R apply "$(pwd)/$d/patch.diff" 2>/dev/null || { echo "$id APPLY-FAILED"; continue; }
  s=$(date +%s)
  VERIF_BUDGET_S=1200 timeout 1500 ./check $p --tier quick > /tmp/reg_$id.log 2>&1; rc=$?
  e=$(date +%s)
  echo "$id $p exit=$rc $((e-s))s viol=$(grep -c '^VIOLATION' /tmp/reg_$id.log) noinput=$(grep -c 'no-failing-input-found' /tmp/reg_$id.log)"
  git -C $R checkout -q -- .
done

#!/bin/sh
# usage: dbg.sh Proofs/File.v LINE  -- show the goals after LINE lines of the file
cd /verif/coq
head -n "$2" "$1" > /tmp/Dbg_tmp.v
printf '\nShow.\n' >> /tmp/Dbg_tmp.v
timeout 300 coqc -Q Gen PP -Q Model PP -Q Proofs PP /tmp/Dbg_tmp.v 2>&1 | grep -v "^Error: There are pending proofs\|unterminated" | head -${3:-80}

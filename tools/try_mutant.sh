#!/bin/sh
# usage: try_mutant.sh <seeded-id> <prop> [<prop>...]   -- apply the patch to /repo, run the quick checks, undo
ID=$1; shift
cd /verif
git -C /repo apply /verif/seeded/$ID/patch.diff || exit 2
trap 'git -C /repo checkout -- .' EXIT INT TERM
for p in "$@"; do
  VERIF_BUDGET_S=${VERIF_BUDGET_S:-900} timeout 1200 ./check $p --tier quick > /tmp/try_$ID_$p.log 2>&1; rc=$?
  echo "== $ID $p exit=$rc"; grep -E "^VIOLATION|^KNOWN" /tmp/try_$ID_$p.log | cut -c1-400
done
git -C /repo checkout -- .
git -C /verif checkout -- evidence 2>/dev/null

#!/bin/sh
# usage: confirm_mutant.sh <worktree> <seeded-id>
# In the agent's scratch worktree: demo must exit 1 with the patch and 0 without; the pinned suite must pass with it.
WT=$1; ID=$2
OUT=/verif/seeded/$ID
mkdir -p $OUT
cd $WT || exit 2
cp MUTANT/patch.diff $OUT/patch.diff
cp MUTANT/demo.py $OUT/demo.py
cp MUTANT/notes.md $OUT/notes.md 2>/dev/null
git checkout -q -- prettyprinter; git apply MUTANT/patch.diff || { echo "patch does not apply"; exit 2; }
PYTHONPATH=$WT /venv/bin/python MUTANT/demo.py > $OUT/demo_with.log 2>&1; W=$?
git checkout -q -- prettyprinter
PYTHONPATH=$WT /venv/bin/python MUTANT/demo.py > $OUT/demo_without.log 2>&1; WO=$?
git apply MUTANT/patch.diff
PYTHONPATH=$WT /venv/bin/python -m pytest -ra -q -p no:cacheprovider --timeout=900 --continue-on-collection-errors --junitxml=$OUT/junit.xml > $OUT/tests.log 2>&1
/venv/bin/python - $OUT/junit.xml <<'PY' > $OUT/tests_summary.txt
import sys, json, xml.etree.ElementTree as ET
stable=set(json.load(open('/root/.vp/BASELINE.json'))['stable_pass'])
passed=set()
for tc in ET.parse(sys.argv[1]).getroot().iter('testcase'):
    if not list(tc):
        passed.add('%s::%s'%(tc.get('classname'),tc.get('name')))
missing=sorted(stable-passed)
print('stable_pass=%d passed_of_stable=%d missing=%s'%(len(stable),len(stable&passed),missing))
PY
echo "demo_with_patch_exit=$W demo_without_patch_exit=$WO $(cat $OUT/tests_summary.txt)" | tee $OUT/confirm.txt
rm -f $OUT/junit.xml

"""Case generation and the differential run shared by the engine properties
(C04, C05, C06)."""
import json
import os

import docgen
import engine
from common import CORPUS, rng


def load_corpus(prop):
    d = os.path.join(CORPUS, prop)
    out = []
    if os.path.isdir(d):
        for fn in sorted(os.listdir(d)):
            if fn.endswith('.json'):
                with open(os.path.join(d, fn)) as f:
                    e = json.load(f)
                e['_file'] = fn
                out.append(e)
    return out


def detuple(x):
    """JSON lists -> the tuple/list term form"""
    if isinstance(x, list):
        if x and isinstance(x[0], str) and x[0] in ('N', 'H', 'T', 'C', 'Ne', 'G', 'AB', 'FC', 'Fi', 'An',
                                                    'Al', 'Hg', 'L', 'SL'):
            k = x[0]
            if k in ('C', 'Fi'):
                return (k, [detuple(y) for y in x[1]])
            if k == 'An':
                return (k, (x[1][0], x[1][1]), detuple(x[2]))
            if k in ('Ne', 'Hg'):
                return (k, x[1], detuple(x[2]))
            if k == 'FC':
                return (k, detuple(x[1]), detuple(x[2]))
            if k == 'T':
                return (k, x[1])
            if k in ('G', 'AB', 'Al'):
                return (k, detuple(x[1]))
            return (k,)
    return x


def gen_cases(prop, tier, classic):
    """-> list of (origin, terms, configs)"""
    r = rng(prop + '/engine')
    groups = []
    corpus = [detuple(e['term']) for e in load_corpus(prop) if 'term' in e]
    fracs_small = [1.0, 0.5]
    if tier == 'quick':
        widths = list(range(1, 9))
        enum_n = 4
        n5 = 3000
        nrand = 3000
        rand_cfg = 6
    else:
        widths = list(range(1, 13))
        fracs_small = [1.0, 0.7, 0.4]
        enum_n = 4
        n5 = 60000
        nrand = 60000
        rand_cfg = 10
    cfg_small = [(s, w, f) for s in (True, False) for w in widths for f in fracs_small]
    if corpus:
        groups.append(('corpus', corpus,
                       [(s, w, f) for s in (True, False) for w in range(1, 25) for f in (1.0, 0.6, 0.3)]))
    terms = []
    for n in range(1, enum_n + 1):
        terms += docgen.enum_docs(n, classic=classic)
    groups.append(('enum<=%d' % enum_n, terms, cfg_small))
    five = docgen.enum_docs(5, classic=classic)
    if len(five) > n5:
        five = r.sample(five, n5)
    groups.append(('enum5-sample', five, cfg_small))
    rterms = [docgen.rand_doc(r, r.randint(4, 40), classic=classic) for _ in range(nrand)]
    allcfg = [(s, w, f) for s in (True, False) for w in range(1, 41) for f in (1.0, 0.9, 0.75, 0.5, 0.33, 0.1)]
    groups.append(('random', rterms, None))
    if not classic:
        nal = nrand // 2
        groups.append(('align-nest', [docgen.rand_align_doc(r, r.randint(6, 24)) for _ in range(nal)], None))
        groups.append(('shared', [docgen.shared_doc(r, (docgen.rand_align_doc if r.random() < 0.5 else docgen.rand_doc)(
            r, r.randint(3, 16))) for _ in range(nal)], None))
    out = []
    for origin, ts, cfgs in groups:
        if cfgs is None:
            # a per-term sample of configurations
            for t in ts:
                out.append((origin, [t], r.sample(allcfg, rand_cfg)))
        else:
            out.append((origin, ts, cfgs))
    return out


CFGS = {}      # repr(term) -> the configurations laid out, in order, on ONE document object


def history(t, smart, w, frac):
    """the configurations run on the same document object before this one"""
    cfgs = CFGS.get(repr(t), [])
    cur = (smart, w, frac)
    return list(cfgs[:cfgs.index(cur)]) if cur in cfgs else []


def impl_with_history(t, hist, smart, w, frac, shared):
    """rebuild the document once, replay the earlier layouts of the same object, lay it out"""
    real = docgen.to_real(t, {} if shared else None)
    for (s0, w0, f0) in hist:
        engine.impl_layout(real, s0, w0, f0)
    return engine.impl_layout(real, smart, w, frac)


def run_diff(groups):
    """-> (ncases, disagreements, results) where results is a list of
    (origin, term, smart, w, frac, rw, impl_output)"""
    # merge single-term groups that share nothing into batches for the driver
    total = 0
    dis = []
    results = []
    batch_terms = []
    batch_cfgs = []

    def flush(origin, terms, cfgs):
        nonlocal total
        for t in terms:
            CFGS.setdefault(repr(t), list(cfgs))
        n, d, impl, meta = engine.diff_engine(terms, cfgs)
        total += n
        for x in d:
            x['origin'] = origin
        dis.extend(d)
        for k, (ti, smart, w, frac, rw) in enumerate(meta):
            results.append((origin, terms[ti], smart, w, frac, rw, impl[k]))

    singles = {}
    for origin, ts, cfgs in groups:
        if len(ts) == 1:
            singles.setdefault(origin, []).append((ts[0], cfgs))
        else:
            flush(origin, ts, cfgs)
    for origin, lst in singles.items():
        # group by config tuple to keep driver calls few
        reqs_terms = []
        import engine as E
        from common import run_driver
        reqs = [E.space_request()]
        impl = []
        meta = []
        for t, cfgs in lst:
            try:
                real = docgen.to_real(t, {} if origin == 'shared' else None)
                err = None
            except Exception as e:
                real, err = None, 'EXC-BUILD ' + type(e).__name__
            sx = docgen.to_sexp(t)
            CFGS.setdefault(repr(t), list(cfgs))
            for (smart, w, frac) in cfgs:
                rw = docgen.ribbon_width(w, frac)
                reqs.append('(layout %d %d %d %s)' % (1 if smart else 0, w, rw, sx))
                impl.append(err if err else E.impl_layout(real, smart, w, frac))
                meta.append((t, smart, w, frac, rw))
        out = run_driver(reqs, shards=16)[1:]
        total += len(impl)
        for k, (a, b) in enumerate(zip(impl, out)):
            t, smart, w, frac, rw = meta[k]
            results.append((origin, t, smart, w, frac, rw, a))
            if a != b:
                dis.append({'term': t, 'smart': smart, 'width': w, 'ribbon_frac': frac,
                            'ribbon_width': rw, 'impl': a, 'model': b, 'origin': origin})
    return total, dis, results


def split_result(res):
    """'S <stream> | R <text cps>' -> (stream_str, text) or None on error results"""
    if not res.startswith('S '):
        return None
    a, _, b = res[2:].partition(' | R ')
    if a.endswith(' | R'):
        a = a[:-4]
    b = b.strip()
    return a.strip(), (''.join(chr(int(x)) for x in b.split(',')) if b else '')

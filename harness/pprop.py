"""Skeleton of the printer-level property checks (C03, C08-C11, C17): build ->
prove -> correspondence (pformat vs pformat_model on every case) -> oracle on
the implementation -> findings -> evidence."""
import json

import printercheck as PC
import valgen
from framework import Run


def explicit_over_default(key, configured, explicit_values):
    """-> an [extra] hook: under set_default_config(key=configured) an EXPLICIT key=... argument - None
    included - gives exactly the text it gives under the factory defaults"""
    def extra(run, res):
        import prettyprinter as P
        factory = dict(P.get_default_config())
        sample = res[::max(1, len(res) // 120)][:150]
        n = 0
        try:
            for c in sample:
                for ev in explicit_values:
                    cfg = dict(c.cfg)
                    cfg[key] = ev
                    P.set_default_config(**{key: factory[key]})
                    base, _w = PC.impl_pformat(c.value, cfg)
                    P.set_default_config(**{key: configured})
                    got, _w = PC.impl_pformat(c.value, cfg)
                    n += 1
                    if got != base and len(run.violations) < 5:
                        run.violation({'kind': 'explicit-over-default', 'key': key, 'configured_default': configured,
                                       'detail': 'with set_default_config(%s=%r) the explicit argument %s=%r prints\n%s\n'
                                                 '--- under the factory defaults ---\n%s' % (key, configured, key, ev,
                                                                                           got[:300], base[:300]),
                                       'term': PC.jsonable(c.term), 'cfg': cfg})
            # ... and the other way round: after the same call was made under the factory defaults, the configured
            # default is what a call WITHOUT that argument uses
            for c in sample[:60]:
                cfg0 = {k: x for k, x in c.cfg.items() if k != key}
                P.set_default_config(**{key: factory[key]})
                PC.impl_pformat(c.value, cfg0)
                P.set_default_config(**{key: configured})
                got, _w = PC.impl_pformat(c.value, cfg0)
                want, _w = PC.impl_pformat(c.value, dict(cfg0, **{key: configured}))
                n += 1
                if got != want and len(run.violations) < 5:
                    run.violation({'kind': 'configured-default-not-applied', 'key': key, 'configured_default': configured,
                                   'detail': 'after the same call under the factory defaults, set_default_config(%s=%r) and a call '
                                             'without %s print\n%s\n--- with %s=%r spelled out ---\n%s' % (
                                                 key, configured, key, got[:300], key, configured, want[:300]),
                                   'term': PC.jsonable(c.term), 'cfg': cfg0})
        finally:
            P.set_default_config(**{key: factory[key]})
        run.count(n)
        run.coverage['explicit_over_default_cases'] = n
    return extra


def run_property(prop, tier, cases, oracle, rule, nontrivial=None, known=None, extra=None, max_viol=3):
    """cases: list of (origin, term, cfg); oracle(case) -> None | message |
    ('known', finding_id, message); known: dict finding_id -> entry (open findings)."""
    run = Run(prop, tier)
    built = run.build()
    run.prove()
    if built:
        res = PC.run_cases(cases)
        dis = PC.disagreements(res)
        run.count(len(res))
        run.coverage['disagreements_checked'] = len(dis)
        if dis:
            run.broken.append('correspondence: printer level (pformat text vs pformat_model), %d disagreements' % len(dis))
            for c in dis[:3]:
                run.sample({'disagreement': PC.case_json(c)})
        ntok, tdis = PC.token_disagreements(res)
        run.coverage['token_level_compared'] = ntok
        if tdis:
            run.broken.append('correspondence: token level (ast of pformat text vs ast of etoks(expr_of v)): ' + tdis[-1][:60])
            for d in tdis[:3]:
                run.sample({'token_disagreement': d})
        nt = set()
        viol = 0
        reported = set()
        kinds = {}
        open_f = run.open_findings()
        for c in res:
            if nontrivial is None:
                if '\n' in c.text:
                    nt.add(c.sx)
            elif nontrivial(c):
                nt.add((c.sx, json.dumps(c.cfg, sort_keys=True)))
            msg = oracle(c)
            if msg is None:
                continue
            if isinstance(msg, tuple) and msg[0] == 'known':
                fid = msg[1]
                if fid in open_f:
                    if fid not in reported:
                        reported.add(fid)
                        run.known(fid, '%s e.g. term=%s cfg=%s' % (open_f[fid]['what'][:300],
                                                               json.dumps(PC.jsonable(c.term))[:200], c.cfg))
                    continue
                msg = msg[2]
            viol += 1
            if viol <= max_viol:
                run.violation({'kind': 'oracle', 'detail': msg, 'term': PC.jsonable(c.term), 'cfg': c.cfg,
                               'impl': c.text})
        for c in res[::7]:
            for k, n in valgen.vkinds(c.term).items():
                kinds[k] = kinds.get(k, 0) + n
        run.coverage['distinct_nontrivial'] = len(nt)
        run.coverage['distinct_values'] = len({c.sx for c in res})
        run.coverage['value_kind_histogram_sampled'] = kinds
        run.coverage['oracle_violations'] = viol
        run.coverage['rule'] = rule
        for c in res[:2] + res[-2:]:
            run.sample(PC.case_json(c))
        if extra:
            extra(run, res)
    return run.finish()


def replay_property(path, oracle):
    with open(path) as f:
        p = json.load(f)
    if 'term' not in p:
        print(json.dumps(p, indent=1)[:3000])
        return 1
    t = PC.unjson(p['term'])
    c = PC.run_cases([('replay', t, p['cfg'])])[0]
    msg = oracle(c)
    print('impl:', c.text, '\nmodel:', c.model, '\noracle:', msg)
    return 1 if (msg and not (isinstance(msg, tuple) and msg[0] == 'known')) else 0

"""Writes /verif/MANIFEST.json from the table below (one entry per claimed
property; every other property of properties.jsonl goes under not_applicable
with the reason given in PENDING)."""
import json
import os

VERIF = os.path.dirname(os.path.dirname(os.path.abspath(__file__)))

COMMON_NOTE = ('Trusted: Coq 8.16.1 kernel (full .vo builds, vm_compute for finite sweeps/witnesses, no native_compute); '
               'the hand-written Gallina model (coq/Model) of the named source lines, tied to /repo on every run by '
               'differential execution of the extracted model (ExtrOcamlBasic only, no Extract Constant) against the '
               'implementation; harness/translate.py for the finite facts in coq/Gen; the OCaml driver; the Python '
               'harness and oracles. Axioms: see Print Assumptions output copied into the evidence file.')

CLAIMED = {
    'C12': dict(
        text='Theorems C12_layout_all / C12_lookahead_all (Proofs/FuelAll.v, FULL algebra incl. fill, annotations, align, '
             'lazily normalised flat_choice and contextual string documents: with the weight wt - a flat_choice weighs 1 + '
             'its heavier branch - every iteration of the main loop and of either look-ahead strictly decreases the weight '
             'M of the pending stack, so the main loop ends within M+1 and every look-ahead within M iterations, for every '
             'width / ribbon / strategy), C12_normalize_weight (normalisation never increases the weight), '
             'C12_string_document_weight (the string printer\'s evaluator returns at most 80 len + 100 at every column and '
             'width), C12_document_linear (Proofs/LinearDocs.v: the document pformat builds for ANY value - commented, '
             'truncated, subclassed, any depth / max_seq_len >= 0 - weighs at most 1000 x (nodes + characters of strings '
             'and comments)), C12_pformat_layout_quadratic (hence the layout of pformat\'s document finishes with fuel '
             '1000 size + 1 for both loops: at most (1000 size + 1)^2 loop iterations); C02_split_total (string splitter: '
             '6 len + 16 iterations), C12_graph_total (object graphs: heap size + 1), the printers being structurally '
             'recursive Gallina functions; C12_commented_dict_refuted (the document of n dicts nested through commented '
             'values has >= 2^n leaves although its weight is linear: the printer is called twice per level - the one '
             'exponential family, an open finding). Tie to interpreter steps: sys.monitoring LINE events inside the package '
             'for 42 input families (incl. 26 chains of one container kind x comment / trailing / both x 1 or 2 elements) at '
             'n, 2n, 4n, 8n x 3 configurations (step budget, doubling ratio <= 10), and the hit counts of the three '
             'triplestack.pop() statements compared for EQUALITY with the model\'s cost semantics (Model/Cost.v) on those '
             'values and on random documents.',
        design='5.8 C12, 9.1', technique='Coq proofs (strictly decreasing stack weight on the full algebra, linear document-weight bound by induction on the value, exponential lower-bound witness family) + exact loop-count correspondence + measured step ratios',
        note=COMMON_NOTE + ' PARTIAL with respect to "interpreter steps": the theorems bound loop iterations and the '
             'size of the document of the model; the cost of the CPython built-ins executed once per iteration '
             '(list.extend, copy(triplestack) - linear in the stack -, re.split, repr) and the number of printer calls '
             '(linear except for the open finding) are covered by the measured ratios only. sorted_ok: the sorted-key '
             'order the harness observes is assumed duplicate free.'),
    'C07': dict(
        text='Theorems C07_timedelta_roundtrip (for every normalised delta, unbounded days: the keywords printed - zero '
             'ones dropped, days split into years*365+days - add up with the constructor\'s weights to exactly the '
             'delta; Euclidean division facts by lia), C07_datetime_roundtrip / C07_time_roundtrip (dropping the zero '
             'suffix of microsecond/second/minute/hour and the three-positional form lose nothing: the constructor '
             'rebuilds every field, tzinfo presence and fold). C07_collections_evaluate / C07_ordereddict_order_kept / '
             'C07_deque_order_kept / C07_collections_rebuild (Model/StdColl.v, Proofs/StdCollProofs.v): OrderedDict, deque, '
             'defaultdict, Counter, ChainMap, mappingproxy, exceptions, partial, UUID, SimpleNamespace and namedtuples are modelled as the call their printer hands '
             'to pretty_call_alt; that call evaluates to itself with evaluated arguments under every setting, OrderedDict items '
             'and deque elements keep their own order whether or not sort_dict_keys is set, and what the constructors make of '
             'the call (pairs inserted in order, last maxlen elements, ChainMap() = one empty dict) is the printed object under '
             'CPython\'s own invariants; the text of pformat is compared with the model for generated collections (nested in '
             'each other, under width / indent / sort / max_seq_len / depth). The selection/arithmetic model is compared with the '
             'keywords actually printed for every generated timedelta / datetime / time. Totality and faithfulness of '
             'ALL bundled standard-library printers on real objects (object protocol: attribute availability, '
             'constructor semantics) cannot be predicted by a field-level model and are decided by the oracle run: '
             'seeded instances of 21 type families incl. boundary values, alone and nested, widths 1..200: no '
             '"raised an exception" warning, eval(text) is an equal object of the same type.',
        design='5.4 C07', technique='Coq proofs (arithmetic / selection round trips of the datetime-family printers) + model correspondence + eval oracle on real standard-library objects',
        note=COMMON_NOTE + ' PARTIAL: the datetime-family and the collections printers have a Coq model; the '
             'enum / uuid / pathlib / namespace / namedtuple / ast printers are covered by C17\'s theorems for '
             'pretty_call and here by the oracle only. Lambdas and <locals> classes are not evaluable by nature and '
             'are outside the generator. Open finding: localized pytz DstTzInfo.'),
    'C20': dict(
        text='Theorems C20_all_schedules_safe / C20_finished_threads_printed (Proofs/ThreadProofs.v: for ANY number of '
             'threads and EVERY interleaving of the steps of the promotion of a lazily registered printer - get, test, '
             'registry write, pop-with-default, dispatch; one atomic step per source line touching the shared tables - '
             'no thread raises and every outcome is the sequential one; invariant "the printer is in the deferred table '
             'or in the registry" + per-thread program-point assertions stable under the other threads, induction over '
             'the schedule; no bound on threads or length), C20_program_shape (the step function is the program a '
             'translator re-derives from is_registered / register_pretty on every run), C20_old_code_races (the code '
             'before the fix: commit had a KeyError and a repr-fallback schedule). Tie: a deterministic line scheduler '
             'replays bounded-preemption schedules (2 threads exhaustive up to 2 preemptions, 3 threads sampled) on the '
             'real code, for the class and for subclasses; every thread must return the sequential text; the recorded '
             'line order is projected on the model steps and the extracted model is run on the same schedule.',
        category='proof',
        design='5.8 C20', technique='Coq proof (interleaving invariant over all schedules and thread counts) + deterministic-scheduler replay of schedules on the implementation',
        note=COMMON_NOTE + ' PARTIAL with respect to the runtime: atomicity is assumed at the granularity of source '
             'lines for dict.get / dict.pop / registry write (CPython with the GIL executes each of these dict '
             'operations atomically); preemption inside a line, free-threaded builds, functools.singledispatch\'s own '
             'dispatch cache and everything below the dispatch (the printers build fresh documents per call; lazily '
             'normalised cells are private to one layout call: C19_shared_constants_immutable) are not in the model. '
             'The colour renderer\'s global palette is outside the property.'),
    'C19': dict(
        text='Theorems C19_prints_leave_no_trace (Proofs/StateIndep.v over the dispatch refinement: for every class '
             'lattice and any two histories with the same registrations - prints, is_registered queries and promotions '
             'of lazily registered printers interleaved arbitrarily - the printer chosen for a class is the same), '
             'C19_shared_constants_immutable / C19_only_normalize_makes_mutable_cells (over the guards a translator '
             'regenerates from doctypes.py: a FlatChoice built by the public constructor - LINE, SOFTLINE, every '
             'flat_choice of the printers - is never modified by any sequence of reads; only the private copy '
             'normalize() makes per layout call mutates itself), C19_model_is_a_function. Non-mutation of the inputs '
             'and independence from the call history are VALIDATED, not proved: every corpus value (model universe, '
             'standard-library types, lazily registered classes, struct sequences) is printed first in its own fresh '
             'interpreter and then under long permuted / repeated histories in one interpreter, outputs compared, and '
             'a canonical deep snapshot of the value compared before/after every print; the stateless model is '
             'compared with pformat after the history.',
        design='5.6 C19', technique='Coq proofs (dispatch state independence by refinement; lazy-cell immutability over translated guards) + history/fresh-interpreter differential',
        note=COMMON_NOTE + ' The struct-sequence field-name cache stores a function of the class (keyword names of '
             'repr); modelled as such. Memory addresses (id()) are outside the model: the fixed finding '
             'C19-sort-by-address was found by the fresh-interpreter comparison.'),
    'C16': dict(
        text='Theorems C16_strip (for EVERY sdoc stream, style and colour strings, dropping the styling chunks of what '
             'colored_render_to_stream writes gives exactly default_render: induction over the line structure), '
             'C16_innermost (every fragment is written while the terminal state - the last absolute styling string - is '
             'the style of the innermost enclosing syntax-token annotation, restored when an inner token ends, '
             'unaffected by non-token annotations; final state reset; the specification [innermost] is the bracket '
             'structure of the stream, independent of the renderer), C16_table_total / C16_table_tokens_exist (finite, '
             'regenerated: every Token the printer modules mention has a pygments mapping), C16_modifiers_exist / '
             'C16_accessors_valid (finite, regenerated from color.py and the installed colorful: every modifier looked '
             'up exists and the accessor built for each colour/background combination is one of colorful\'s forms). '
             'Tie: bytes written under every installed pygments style (colours forced on) vs the model instantiated '
             'with the tabulated colour strings, for values and for documents with nested token / non-token '
             'annotations; oracle: independent SGR interpreter.',
        design='5.7 C16', technique='Coq proofs (stack/line-structure induction; finite regenerated tables by vm_compute) + byte-exact differential correspondence + SGR-decoder oracle',
        note=COMMON_NOTE + ' Oracles, not modelled: pygments style_for_token and the escape strings colorful produces '
             '(assumed absolute, i.e. starting with the reset sequence - checked for every style by the run). The '
             'global colorful palette mutated per token is outside the property.'),
    'C17': dict(
        text='Theorems C17_denotes / C17_call_shape / C17_performs_the_call (denotation lemma and evaluation round trip '
             'instantiated at pretty_call objects: qualified name, positional arguments in order, keywords in the order '
             'given, each argument the expression it prints as on its own one level deeper, hugged sole list/dict/tuple '
             'argument at the same level; eval performs the call), and C17_dataclass_fields / C17_attrs_fields / '
             'C17_reconstructs / C17_no_reserved_names (Proofs/ExtrasProofs.v) proved over the field-selection '
             'functions that a fail-closed translator regenerates on every run from the if/elif chains of '
             'extras/dataclasses.py and extras/attrs.py (Gen/Extras.v): exactly the fields with repr enabled that have '
             'no default or differ from it, in declaration order; the generated __init__ applied to them rebuilds '
             'every field; keyword arguments reach pretty_call_alt without passing pretty_call\'s own (ctx, fn) '
             'parameters. Tie: pretty_call objects vs the printer model; generated dataclasses / attrs classes executed '
             'for real, printed keywords vs the translated selection functions and an independent Python oracle, eval '
             'reconstructs an equal instance.',
        design='5.3 C17', technique='Coq proofs over a source-to-Gallina translation of the selection loops + denotation/evaluation theorems + differential correspondence',
        note=COMMON_NOTE + ' The comparison default != value is Python\'s and is observed (one boolean per field); '
             'dataclasses.fields / __attrs_attrs__ and the generated __init__ are library behaviour, modelled by '
             'init_value. Fragment-level tokens as for C01.'),
    'C13': dict(
        text='Theorems C13_markers_exactly_at_back_references (Proofs/GraphProofs.v: the stateful traversal of the code '
             '- one mutable visited set, start_visit/end_visit around every printer call - refines, for EVERY heap of '
             'lists, tuples, dicts, user objects and leaves with arbitrary cycles and sharing, the pure unfolding gspec '
             'in which an object is its recursion marker iff it is among the ancestors of the position; induction on '
             'the fuel with a list lemma, no size bound), C13_total (fuel = heap size + 1 always suffices: pigeonhole '
             'on the NoDup ancestor list), C13_sharing (an occurrence that reaches none of its ancestors prints as at '
             'the root, identically each time), C13_no_residue / C13_visited_restored (the visited set is restored on '
             'every exit, exceptional ones included). Tie: pformat of real cyclic object graphs vs the model '
             '(traversal -> tree -> pformat_model) on structured and random heaps; oracle: text == pformat of an '
             'acyclic reference unfolding, repeated and interleaved prints identical.',
        design='5.5 C13', technique='Coq refinement proof (stateful traversal vs pure unfolding) + differential correspondence on object graphs',
        note=COMMON_NOTE + ' id() and type names of the objects, and repr() of failing ones, are observed inputs of the '
             'model. Sets/frozensets cannot be cyclic and are covered by C01. The marker text itself is compared with '
             'the implementation character for character.'),
    'C14': dict(
        text='Theorems C14_contained (= the refinement theorem with failing printers: for every heap and any set of '
             'user printers raising before or after printing their arguments the print returns the unfolding in which '
             'exactly the failing objects are their repr, the warnings are exactly the failing printers in traversal '
             'order, the visited set is restored), C14_rest_unchanged (that value is the print of the heap with the '
             'failing objects replaced by opaque repr leaves), C14_nondoc (a top-level non-document gives ValueError), '
             'C14_later_occurrences_unaffected (visited restored on every exit for every heap and fault, which is what '
             'the fix: commit made true). Tie: faults injected at each user printer in turn x 3 kinds x 7 exception '
             'classes, pairs, random heaps; text and warning sequence compared with the model; oracle = independent '
             'reference traversal + a later fault-free print.',
        design='5.5 C14', technique='Coq refinement proof (exception containment in the stateful traversal) + fault-injection differential correspondence',
        note=COMMON_NOTE + ' Exceptions are modelled as one class (everything derived from Exception is caught by the '
             'same handler: the correspondence run injects 7 classes); BaseException subclasses are outside the '
             'property. A nested non-document is contained by the nearest enclosing printer (which degrades to repr '
             'with a warning quoting the ValueError) - the model reproduces this; only the top-level case is claimed '
             'as "reported with ValueError". The trailing-comment path of _run_pretty is covered by C09.'),
    'C03': dict(
        text='Theorems C03_same_tokens / C03_tokens_any_context (Proofs/PrettyToks3.v: width and ribbon are not inputs of '
             'the document python_to_sdocs builds, and for every well-formed value the documents built under any two '
             'indents / multiline strategies / comment placements denote in EVERY layout the same token sequence '
             'etoks(expr_of v)), C03_engine_outputs_same_tokens (Proofs/EndToEnd.v: for string-free values the streams '
             'the layout engine REALLY emits under any two widths / ribbons / indents carry the same tokens - '
             'composition of C04_membership, the layout-to-token bridge LayToks.v and the denotation theorem), '
             'C03_indent_multiple (Proofs/IndentE2E.v, NestDocs.v, IndentMult.v: every line break the engine emits for '
             'ANY value of the model universe, strings and their four multi-line strategies included, at every width / '
             'ribbon / depth / max_seq_len, is indented by a multiple of the indent). The model is compared with pformat '
             'text; the oracle compares ast.dump under 4 configurations per value and the leading spaces of every line; '
             'the ast of the output is compared with the ast of etoks(expr_of v) on every case.',
        design='5.3 C03', technique='Coq proofs (denotation lemma; engine-output tokens end to end; indentation divisibility over all layouts) + differential correspondence + ast oracle',
        note=COMMON_NOTE + ' Fragment-level tokens: for values containing strings the same-token statement is about the '
             'document (every layout, the string document standing for one string value), not yet about the emitted '
             'stream; that the concatenated text lexes/parses to those tokens is validated by the oracle '
             '(tokenize/ast on every generated output), not proved. repr(float), set iteration order and the order '
             'returned by sorted() are observed inputs of the model.'),
    'C08': dict(
        text='Theorems C08_denotes and C08_roundtrip (Proofs/PrettyToks3.v, EvalRT.v): for every subclass instance of '
             'the nine base types, nested anywhere, in every layout the printed document denotes etoks(expr_of), and '
             'that expression evaluates under PyEval.eval with the class in scope to VSub cls (base value): cls(lit), '
             'cls() for empty containers, cls(\'inf\'), cls([..]) for frozensets, 1-tuples with their comma; unbounded '
             'values. __repr__/__str__ overrides cannot matter: the model prints from the base value only, and the '
             'correspondence run compares it with pformat on subclasses that override them (plain / __repr__ / __str__ '
             'flavours, IntEnum) in 9 placements, widths 1..200, incl. the boundary family around the line width.',
        design='5.3 C08', technique='Coq proofs (denotation lemma; evaluation round trip) + differential correspondence + eval oracle',
        note=COMMON_NOTE + ' Fragment-level tokens: the theorems are stated on the token class each fragment carries; that the concatenated text lexes/parses to those tokens and that PyEval.eval agrees with CPython is validated by the oracle (tokenize/ast/eval on every generated output), not proved. repr(float), set iteration order and the order returned by sorted() are observed inputs of the model.'),
    'C09': dict(
        text='Theorems C09_denotes, C09_comment_text_irrelevant, C09_inert (Proofs/PrettyToks3.v, EvalRT.v): whatever '
             'comment()/trailing_comment() wrappers with whatever text are attached anywhere, every layout of the '
             'printed document denotes the tokens of expr_of, which has no access to comment texts and ignores the '
             'wrappers (a trailing comment only adds a trailing comma); all comment text sits under the COMMENT_SINGLE '
             'annotation, the only thing the token projection discards; the expression evaluates to the comment-free '
             'value down to the 1-tuple comma. "Every word appears in order", "valid expression with the same ast" and '
             '"never degrades to repr" are checked on the implementation by the oracle (12 adversarial texts x 12 node '
             'kinds x 10 placements, random trees) and through the model correspondence of commentdoc; partial at the '
             'text level. Open findings: trailing comments on printers without the parameter are dropped; '
             'Cls({}) vs Cls() for an empty dict subclass. Fixed: commented key sorting.',
        design='5.3 C09', technique='Coq proofs (denotation lemma with comments; evaluation) + differential correspondence + ast/tokenize oracle',
        note=COMMON_NOTE + ' Fragment-level tokens: the theorems are stated on the token class each fragment carries; that the concatenated text lexes/parses to those tokens and that PyEval.eval agrees with CPython is validated by the oracle (tokenize/ast/eval on every generated output), not proved. repr(float), set iteration order and the order returned by sorted() are observed inputs of the model.'),
    'C10': dict(
        text='Theorems C10_truncated (= eval_expr_of: with max_seq_len = n >= 1 the printed expression evaluates to the '
             'value with EVERY container at every nesting level cut to its first min(len, n) elements in iteration '
             'order), C10_notice_seq / C10_notice_text (a longer sequence gets exactly one comment document '
             '"...and len-n more elements" after its first n element documents, a shorter one none), C10_none '
             '(Proofs/DocStable.v: for any two limits >= every container length, in particular None = sys.maxsize, the '
             'printed DOCUMENT and hence the text at every width is identical). Oracle on the implementation: '
             'eval(output) == truncated value type-exactly, notices == expected counts in document order, None == 10**9.',
        design='5.3 C10', technique='Coq proofs (evaluation round trip with truncation; document stability) + differential correspondence + oracle',
        note=COMMON_NOTE + ' Fragment-level tokens: the theorems are stated on the token class each fragment carries; that the concatenated text lexes/parses to those tokens and that PyEval.eval agrees with CPython is validated by the oracle (tokenize/ast/eval on every generated output), not proved. repr(float), set iteration order and the order returned by sorted() are observed inputs of the model. The dict notice is covered by the correspondence only.'),
    'C11': dict(
        text='Theorems C11_denotes (every layout under a depth limit denotes etoks(expr_of) at that depth; expr_of\'s depth '
             'clauses are the exact cut function), C11_cut_at_zero (each type\'s placeholder), C11_above_height '
             '(Proofs/DocStable.v, induction on unbounded values: for every depth > nesting height the printed DOCUMENT, '
             'hence the text at every width, equals the depth=None one; stated for values max_seq_len does not truncate), '
             'C11_keyword_leaves_refuted. The literal reading of the property is refuted in four by-design classes kept '
             'as open findings (True/False/None/Ellipsis never cut; str/bytes dict keys do not consume a level; '
             'float(\'inf\') prints float(str(...)) one level above the cut; empty list/tuple/set printed in full). '
             'Oracle: parallel walk of the ast of the limited and unlimited outputs (identical above the cut, own-type '
             'placeholder at nesting >= depth), text identity above the height.',
        design='5.3 C11', technique='Coq proofs (denotation at a depth; document stability above the height) + differential correspondence + ast oracle',
        note=COMMON_NOTE + ' Fragment-level tokens: the theorems are stated on the token class each fragment carries; that the concatenated text lexes/parses to those tokens and that PyEval.eval agrees with CPython is validated by the oracle (tokenize/ast/eval on every generated output), not proved. repr(float), set iteration order and the order returned by sorted() are observed inputs of the model.'),
    'C01': dict(
        text='Theorems C01_denotes (Proofs/PrettyToks1-3.v, DocToks.v: structural induction over unbounded values) and '
             'C01_roundtrip / C01_roundtrip_general (Proofs/EvalRT.v, NormFits.v): for every built-in value and every '
             'indent / depth / max_seq_len / sort setting the document handed to the layout engine denotes in EVERY '
             'layout (every flat_choice branch, every splitting of the string literals; width and ribbon only select '
             'among layouts) the token sequence of the expression expr_of prescribes, and that expression evaluates, '
             'under the target semantics PyEval.eval, to the same value with the same constructor at every position '
             '(float literals by repr, inf/nan via float(...), 1-tuples with their comma, set()/frozenset([...]); dict '
             'entries in insertion order or in the order sorted(keys, key=_AlwaysSortable) returned). '
             'C01_engine_output_tokens_all (Proofs/StrBridge.v, EndToEnd.v): the stream the model of the layout engine '
             'really emits for ANY well-formed value - strings split any way, every multi-line strategy - carries raw '
             'tokens that glue to that token sequence, each string value from the literal pieces of one non-empty split '
             'of it. The printer model '
             'is compared with pformat character for character on bounded-exhaustive and random value trees over an '
             'adversarial leaf alphabet x width/ribbon 1..200 x indent 1..8 x sort; the oracle evals the real output '
             'with type-exact structural comparison (sign of zero, nan, dict order, ascending keys when sorting).',
        design='5.3 C01', technique='Coq proofs (denotation lemma by induction on the value; evaluation round trip) + differential correspondence of the extracted printer model',
        note=COMMON_NOTE + ' Fragment-level tokens: the theorems are stated on the token class each fragment carries '
             '(annotation); that the concatenated text lexes/parses to those tokens and that PyEval.eval agrees with '
             'CPython is validated by the oracle (tokenize/ast/eval on every generated output), not proved. The '
             'contextual string document stands for one string value (C02_pieces; at the engine level the pieces are glued by the relation StrBridge.Glue). repr(float) and the order returned '
             'by sorted() / set iteration are observed inputs of the model (DESIGN.md 3.3).'),
    'C04': dict(
        text='Theorem C04_membership (Proofs/Membership.v): for every document of the full algebra, every width and '
             'ribbon width, both strategies and any evaluator of contextual documents, the stream the model of '
             'best_layout returns is a member of the declarative layout relation Sem.Lay of the document (induction '
             'on the run with a stack invariant; normalisation soundness by structural induction; no size bound). '
             'C04_annotations_nested / C04_pformat_annotations_nested (Proofs/AnnotProofs.v, AnnotE2E.v): the pushes and '
             'pops in the emitted stream are properly nested around the fragments they wrap, for every document without '
             'stack residue and for pformat\'s document of every value; C04_annotations_transparent / '
             'C04_engine_annotations_transparent: every layout of a document - and the emitted stream - with pushes and '
             'pops dropped is a layout of the document with all annotations erased; C04_render_only_trims '
             '(Proofs/RenderProofs.v): for ANY stream the default renderer writes each line\'s text minus a suffix of '
             'white space, nothing else. '
             'The model is tied to layout.py/doctypes.py/render.py by comparing the complete SDoc stream and the '
             'rendered text on exhaustive small documents and random larger ones. The strict clause (forced breaks '
             'force enclosing groups) is refuted for two by-design classes recorded as open findings and checked on '
             'the implementation by the reference matcher for everything else.',
        design='5.1 C04', technique='Coq proof (stack invariant, induction over the run) + differential correspondence of the extracted model',
        note=COMMON_NOTE + ' Modelled, not verified: layout.py 45-378, doctypes.py normalize methods, render.py. '
             'The lazy FlatChoice cells are modelled without a store (argument in DESIGN.md 3.1a, exercised by the correspondence run).'),
    'C05': dict(
        text='Theorems C05_fits_sound / C05_flat_fits (Proofs/FirstLine.v, FlatFits.v): for every classic-algebra '
             'document, width, ribbon and strategy, at every step of every run at which the model lays a group out '
             'flat, the column at which the group starts plus the width of everything then really emitted up to the '
             'next line break is <= min(width, indent + ribbon) (simulation between the look-ahead and the machine, '
             'induction on the look-ahead fuel; no size bound). The unguarded reading (text of the group after a '
             'hardline inside it) is refuted by a vm_compute witness = open finding. Model tied to layout.py by SDoc '
             'stream equality at every width 1..8/12 (exact fit, fit+-1); the reference matcher checks the claim on '
             'the implementation output.',
        design='5.1 C05', technique='Coq proof (look-ahead/machine simulation) + differential correspondence of the extracted model',
        note=COMMON_NOTE + ' Modelled, not verified: layout.py 45-378. ribbon_width = max(0,min(w,round(frac*w))) is '
             'computed by the harness independently of layout.py:221 and passed to the model as an integer.'),
    'C06': dict(
        text='Theorems C06_broken_iff_not_fits, C06_fits_complete, C06_single_line_stable (Proofs/SingleLine.v, '
             'Stable.v): the decision of a group is exactly the fitting predicate; on every run that finishes without '
             'a line break the predicates answer "fits" for every budget >= the remaining text, for every page width, '
             'ribbon, nesting level and strategy; hence a document without forced breaks (annotations allowed) whose '
             'layout is a single line of L columns is laid out as the same stream at every width and ribbon >= L '
             '(lock-step induction over two runs; unbounded). Value-level strings (contextual documents) are covered '
             'by the printer-level correspondence, not by this theorem.',
        design='5.1 C06', technique='Coq proof (completeness of the look-ahead on single-line runs, two-run lock-step) + differential correspondence',
        note=COMMON_NOTE + ' Hypotheses of the stability theorem: no always_break/align/fill/contextual, nest offsets >= 0 '
             '(what the bundled printers build apart from strings).'),
    'C18': dict(
        text='Theorems C18_override, C18_set_exact (induction over arbitrary set_default_config sequences), '
             'C18_entry_points_plumbing / C18_entry_points_agree (Proofs/ConfigProofs.v, Props/C18.v), proved from '
             'the keyword plumbing of pformat/pprint/cpprint/_merge_defaults/set_default_config/PrettyPrinter/'
             'pretty_repr that the translator regenerates from __init__.py on every run (Gen/EntryPoints.v): dropping '
             'or misrouting a setting in one entry point breaks the proof. The model run_cfg is executed against the '
             'implementation on random histories; every call must print exactly what the pipeline below the entry '
             'points prints at the effective settings.',
        design='5.6 C18', technique='Coq proof over source-derived plumbing facts (translator) + differential histories',
        note=COMMON_NOTE + ' The renderers and python_to_sdocs themselves are covered by C04/C01; here they are the '
             'reference the entry points are compared with. cpprint is exercised with colour disabled.'),
    'C15': dict(
        text='Theorem C15_refines (Proofs/DispatchProofs.v): for every class lattice, every predicate behaviour and '
             'EVERY history of registrations (class / name / predicate), prints and is_registered queries, the '
             'observations of the model of register_pretty / is_registered / pretty_python_value equal those of the '
             '20-line abstract rule (simulation with the abstraction "deferred entry overlays registry entry", '
             'induction over the history); predicates are applied to instance tags (Print c i), so they may look at the value. C15_isreg_pure: register_deferred=False changes nothing. '
             'check_deferred=False is only proved sound (it is an implementation-level query). The model is run '
             'against the implementation on fresh class lattices, observations compared step by step, and the rule is '
             're-implemented independently in Python as the oracle.',
        design='5.6 C15', technique='Coq refinement proof (simulation over operation histories) + differential histories',
        note=COMMON_NOTE + ' functools.singledispatch is reduced to "nearest class of the C3 MRO with a registry entry" '
             '(no ABCs in the lattice); MROs are computed by CPython and passed to the model.'),
    'C02': dict(
        text='Theorems C02_escape_direct, C02_escape_roundtrip, C02_split_join, C02_split_total, C02_pieces '
             '(Proofs/StrEscape.v, StrSplit.v, StrTotal.v, StrPieces.v): for every str (all code points) and bytes, '
             'either quote and every instantiation of the Unicode classes, repr()+textual re-quoting equals '
             'character-wise escaping and decodes back to the value under the literal-decoding specification '
             'PyLit.literal_value; the splitter (exact model of the generator loop incl. re.split) concatenates back '
             'to the value, yields no empty piece, and terminates for every positive max_len within 6 len+16 '
             'iterations (it diverges for max_len = 0: witness); at every indent/column/page/ribbon and each of the '
             'four strategies + subclass wrapper the evaluator returns >= 1 pieces concatenating to the value; '
             'C02_layout_text (Proofs/StrLayout.v): in EVERY layout of that document, inside any layout of any '
             'enclosing document, the emitted text minus line breaks and indentation is exactly the literal pieces in '
             'order, possibly inside one pair of parentheses or Name( ... ) (the escape runs of highlight_escapes '
             'partition the escaped text). Tied '
             'to the code by comparing determine_quote_strategy / escape_str_for_quote / str_to_lines and pformat in '
             '6 placements with the extracted model; literal_value is validated against ast.literal_eval.',
        design='5.2 C02', technique='Coq proofs (invariants of the splitter loop, chunk-wise analysis of str.replace, hex round trip) + differential correspondence',
        note=COMMON_NOTE + ' Parameters, not axioms: str.isprintable / re \\s / re \\w tables of the running interpreter. '
             'Annotation granularity inside a literal (highlight_escapes) is not modelled. CPython repr() of str/bytes is '
             'modelled from unicode_repr/PyBytes_Repr and compared on every generated string.'),
}

PENDING = 'check not built yet in this round (see DESIGN.md section 8 for the order of work)'


def main():
    props = [json.loads(l) for l in open(os.path.join(VERIF, 'properties.jsonl'))]
    checks = []
    na = []
    for p in props:
        pid = p['id']
        if pid in CLAIMED:
            c = CLAIMED[pid]
            checks.append({
                'property_id': pid,
                'quick_cmd': './check %s --tier quick' % pid,
                'thorough_cmd': './check %s --tier thorough' % pid,
                'evidence_file': 'evidence/%s.json' % pid,
                'replay_cmd_template': './check %s --replay {path}' % pid,
                'engine': 'coq-model',
                'level_claimed': {'category': c.get('category', 'proof'), 'text': c['text'],
                                  'design_ref': 'DESIGN.md ' + c['design']},
                'level_note': c['note'],
                'technique': c['technique'],
            })
        else:
            na.append({'property_id': pid, 'reason': NA_REASONS.get(pid, PENDING)})
    man = {
        'version': 1,
        'setup_cmd': './setup.sh',
        'hooks': {
            'guard': 'TOMMIKAIKKONEN_PRETTYPRINTER_VERIF',
            'enable': 'checks run with TOMMIKAIKKONEN_PRETTYPRINTER_VERIF=1 and PYTHONPATH=/repo; no hook code is '
                      'needed in /repo so far (all observations are public return values, warnings or importable helpers)',
            'baseline_off_cmd': 'cd /repo && /venv/bin/python -m pytest -ra -q -p no:cacheprovider --timeout=900 '
                                '--continue-on-collection-errors',
            'source_commits': [],
            'add_only': True,
        },
        'engines': [{
            'name': 'coq-model', 'path': 'coq/ extract/ harness/ checks/',
            'serves_properties': sorted(CLAIMED),
            'kind_free_text': 'Coq 8.16.1 development (model + theorems) with an extracted OCaml executable of the '
                              'model driven differentially against /repo by a Python harness',
        }],
        'checks': checks,
        'not_applicable': na,
        'notes': 'See DESIGN.md. Known findings: KNOWN_FINDINGS.json.',
    }
    with open(os.path.join(VERIF, 'MANIFEST.json'), 'w') as f:
        json.dump(man, f, indent=1)
        f.write('\n')


NA_REASONS = {}

if __name__ == '__main__':
    main()

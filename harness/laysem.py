"""Python reference matcher for the declarative layout semantics (coq/Model/Sem.v):
decides whether an SDoc stream is one of the layouts a document term denotes.
Used as the property oracle of C04/C05/C06 on the IMPLEMENTATION's output
(failing-input search and finding classification); it proves nothing.

Relaxation flags (all off = the strict reading of the property):
  flat_hardline - a group laid out flat may contain a hardline
  demote        - a sub-document of a flat context may be laid out in break mode
                  (an always_break met in flat mode switches to break mode)
  fill_unab     - the outermost always_break of a fill item is only a hint
With all three on this is exactly Sem.Lay."""
import sys

sys.setrecursionlimit(100000)
FLAT, BREAK = 1, 0


def parse_stream(s):
    """'T:97,98 L:4 U:tok:3' -> list of tuples, empty texts dropped"""
    out = []
    if not s:
        return out
    for tok in s.split(' '):
        k, _, rest = tok.partition(':')
        if k == 'T':
            if rest == '':
                continue
            out.append(('T', ''.join(chr(int(x)) for x in rest.split(','))))
        elif k == 'L':
            out.append(('L', int(rest)))
        elif k in ('U', 'O'):
            out.append((k, rest))
        else:
            out.append((k, rest))
    return out


def ann_key(a):
    return '%s:%d' % (a[0], a[1])


def unab(t):
    while t[0] == 'AB':
        t = t[1]
    return t


class Matcher:
    """flags: flat_hardline - a flat region may contain a hardline, and after a
    hardline inside it anything may be laid out in break mode (the look-ahead
    stopped at the hardline); demote - unrestricted demotion (Sem.Lay);
    fill_unab - see module docstring."""

    def __init__(self, stream, flat_hardline=True, demote=True, fill_unab=True, fit=None):
        self.s = stream
        self.fit = fit          # (w, rw): a flat group's line must end within page and ribbon
        col = 0
        cols = []
        for it in stream:
            if it[0] == 'T':
                col += len(it[1])
            elif it[0] == 'L':
                col = it[1]
            cols.append(col)
        # column at the end of the line containing stream position p
        self.line_end = [0] * (len(stream) + 1)
        end = cols[-1] if cols else 0
        for p in range(len(stream) - 1, -1, -1):
            self.line_end[p] = end
            if stream[p][0] == 'L':
                end = cols[p - 1] if p > 0 else 0
        self.line_end[len(stream)] = cols[-1] if cols else 0
        self.fh = flat_hardline
        self.dm = demote
        self.fu = fill_unab
        self.memo = {}
        self.lc = [0]
        for it in stream:
            self.lc.append(self.lc[-1] + (1 if it[0] == 'L' else 0))

    def may_demote(self, pos, gs):
        if self.dm:
            return True
        return self.fh and gs is not None and self.lc[pos] - self.lc[gs] > 0

    def lay(self, mode, i, c, d, pos, gs=None):
        """set of (pos', c') reachable; gs = stream position where the current
        flat region started (None in break mode)"""
        if mode == BREAK:
            gs = None
        key = (mode, i, c, id(d), pos, gs)
        r = self.memo.get(key)
        if r is not None:
            return r
        res = set(self._lay(mode, i, c, d, pos, gs))
        if mode == FLAT and self.may_demote(pos, gs):
            res |= self.lay(BREAK, i, c, d, pos)
        self.memo[key] = res
        return res

    def _lay(self, mode, i, c, d, pos, gs):
        k = d[0]
        s = self.s
        if k == 'N':
            return [(pos, c)]
        if k == 'T':
            if d[1] == '':
                return [(pos, c)]
            if pos < len(s) and s[pos] == ('T', d[1]):
                return [(pos + 1, c + len(d[1]))]
            return []
        if k == 'H':
            if mode == FLAT and not self.fh:
                return []
            if pos < len(s) and s[pos] == ('L', i):
                return [(pos + 1, i)]
            return []
        if k == 'C':
            cur = {(pos, c)}
            for x in d[1]:
                nxt = set()
                for (p, cc) in cur:
                    nxt |= self.lay(mode, i, cc, x, p, gs)
                cur = nxt
                if not cur:
                    break
            return cur
        if k == 'Ne':
            return self.lay(mode, i + d[1], c, d[2], pos, gs)
        if k == 'G':
            g2 = gs if (mode == FLAT and gs is not None) else pos
            flat = self.lay(FLAT, i, c, d[1], pos, g2)
            if self.fit is not None:
                w, rw = self.fit
                # the line on which the group starts (a leading line break belongs to the next line)
                if pos < len(self.s) and self.s[pos][0] != 'L':
                    le = self.line_end[pos]
                else:
                    le = c
                if le > min(w, i + rw):
                    # the line carrying this group's text overflows: only an empty group may be flat
                    flat = {(p, cc) for (p, cc) in flat if p == pos}
            return flat | self.lay(BREAK, i, c, d[1], pos)
        if k == 'AB':
            if mode == FLAT and not self.may_demote(pos, gs):
                return []
            return self.lay(BREAK, i, c, d[1], pos)
        if k == 'FC':
            return self.lay(mode, i, c, d[2] if mode == FLAT else d[1], pos, gs)
        if k == 'L':
            return self.lay(mode, i, c, LINE_T, pos, gs)
        if k == 'SL':
            return self.lay(mode, i, c, SOFTLINE_T, pos, gs)
        if k == 'Fi':
            cur = {(pos, c)}
            for x in d[1]:
                y = unab(x) if self.fu else x
                nxt = set()
                for (p, cc) in cur:
                    g2 = gs if (mode == FLAT and gs is not None) else p
                    nxt |= self.lay(FLAT, i, cc, y, p, g2) | self.lay(BREAK, i, cc, y, p)
                cur = nxt
                if not cur:
                    break
            return cur
        if k == 'An':
            a = ann_key(d[1])
            if not (pos < len(s) and s[pos] == ('U', a)):
                return []
            res = set()
            for (p, cc) in self.lay(mode, i, c, d[2], pos + 1, gs):
                if p < len(s) and s[p] == ('O', a):
                    res.add((p + 1, cc))
            return res
        if k == 'Al':
            return self.lay(mode, c, c, d[1], pos, gs)
        if k == 'Hg':
            return self.lay(mode, c + d[1], c, d[2], pos, gs)
        raise ValueError(d)

    def accepts(self, d):
        return any(p == len(self.s) for (p, _c) in self.lay(BREAK, 0, 0, d, 0))


LINE_T = ('FC', ('H',), ('T', ' '))
SOFTLINE_T = ('FC', ('H',), ('N',))


def member(term, stream, **flags):
    return Matcher(stream, **flags).accepts(term)


def classify(term, stream):
    """None if the stream is a strict layout of the term; else the weakest
    relaxation under which it is one: 'flat_hardline', 'fill_unab',
    'flat_hardline+fill_unab', or 'NOT-A-LAYOUT' when even Sem.Lay rejects it."""
    if member(term, stream, flat_hardline=False, demote=False, fill_unab=False):
        return None
    if member(term, stream, flat_hardline=True, demote=False, fill_unab=False):
        return 'flat_hardline'
    if member(term, stream, flat_hardline=False, demote=False, fill_unab=True):
        return 'fill_unab'
    if member(term, stream, flat_hardline=True, demote=False, fill_unab=True):
        return 'flat_hardline+fill_unab'
    if member(term, stream, flat_hardline=True, demote=True, fill_unab=True):
        return 'demote'
    return 'NOT-A-LAYOUT'


# ------------------------------------------------------- rendering oracle --
def plain_lines(stream_full):
    """stream with empty texts kept: list of lines, each (text_before_trim)"""
    lines = [[]]
    for it in stream_full:
        if it[0] == 'L':
            lines.append([it])
        else:
            lines[-1].append(it)
    return lines


def render_ok(stream_str, rendered):
    """the default renderer alters the text only by trimming trailing whitespace
    of each line"""
    items = []
    if stream_str:
        for tok in stream_str.split(' '):
            k, _, rest = tok.partition(':')
            if k == 'T':
                items.append(('T', ''.join(chr(int(x)) for x in rest.split(',')) if rest else ''))
            elif k == 'L':
                items.append(('L', int(rest)))
    out = []
    for ln, line in enumerate(plain_lines(items)):
        txt = ''
        for it in line:
            txt += it[1] if it[0] == 'T' else '\n' + ' ' * it[1]
        out.append(txt)
    # rendered must be obtained by deleting trailing whitespace of lines
    pos = 0
    for txt in out:
        k = 0
        while k < len(txt) and pos + k < len(rendered) and rendered[pos + k] == txt[k]:
            k += 1
        if not all(ch.isspace() for ch in txt[k:]):
            return False
        pos += k
    return pos == len(rendered)

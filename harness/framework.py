"""Skeleton shared by every property check (DESIGN.md 4.1):
translate -> prove -> correspond -> findings -> verdict + evidence."""
import json
import os
import re
import sys
import time

from common import (COQ, VERIF, EVIDENCE, BuildError, Lock, build_driver, coq_files, grep_gate,
                    make_coq, refresh_coqproject, seed, sh, write_json, write_replay,
                    load_known_findings)

STMT = re.compile(r'^\s*(?:Local\s+|Global\s+)?(Theorem|Lemma|Example|Corollary|Fact|Remark|Proposition)\s+([A-Za-z0-9_\']+)')
REQ = re.compile(r'^\s*(?:From\s+PP\s+)?Require\s+(?:Import|Export)\s+([^.]*)\.')


def cone(vfile, seen=None):
    """Files of this development that [vfile] depends on (transitively)."""
    if seen is None:
        seen = {}
    if vfile in seen:
        return seen
    seen[vfile] = True
    byname = {}
    for sub in ('Gen', 'Model', 'Proofs', 'Props'):
        for f in coq_files(sub):
            byname[os.path.basename(f)[:-2]] = f
    text = open(vfile, encoding='utf-8').read()
    for m in re.finditer(r'(?:From\s+(\w+)\s+)?Require\s+(?:Import|Export)\s+([^.]*(?:\.[A-Za-z][^.]*)*)\.(?=\s)', text):
        if m.group(1) and m.group(1) != 'PP':
            continue
        for name in m.group(2).split():
            name = name.split('.')[-1]
            if name in byname:
                cone(byname[name], seen)
    return seen


def statements(vfile):
    out = []
    for ln, line in enumerate(open(vfile, encoding='utf-8'), 1):
        m = STMT.match(line)
        if m:
            out.append((m.group(2), ln))
    return out


class Run:
    def __init__(self, prop, tier, level='proof'):
        self.prop = prop
        self.tier = tier
        self.level = level
        self.t0 = time.time()
        self.violations = []        # (replay_path, no_input)
        self.known_lines = []
        self.coverage = {'evaluations': 0, 'distinct_nontrivial': 0, 'samples': [], 'rule': ''}
        self.assumptions = []
        self.trusted = []
        self.broken = []            # names of obligations / correspondence layers that no longer check
        self.notes = []
        self.findings = load_known_findings(prop)
        self.proof_log = ''

    # ------------------------------------------------------------- build ----
    def build(self, translate=True):
        with Lock():
            if translate:
                import translate as tr
                try:
                    tr.generate()
                except tr.TranslateError as e:
                    self.broken.append('translator: ' + str(e))
                    self.proof_log += 'TRANSLATOR: %s\n' % e
            refresh_coqproject()
            bad = grep_gate()
            if bad:
                self.broken.append('grep-gate: ' + '; '.join(bad[:5]))
            try:
                # the model must build even when a proof is broken
                rc, out = make_coq([os.path.relpath(f, COQ) + 'o' for f in coq_files('Gen') + coq_files('Model')])
                if rc != 0:
                    raise BuildError('make model', out)
                build_driver()
            except BuildError as e:
                self.broken.append('model-build')
                self.proof_log += str(e)
                return False
        return True

    def prove(self, propfile=None):
        """Re-check Props/<prop>.v and its whole dependency cone (full .vo build);
        collect Print Assumptions; count obligations."""
        propfile = propfile or os.path.join(COQ, 'Props', self.prop + '.v')
        rel = os.path.relpath(propfile, COQ)
        files = sorted(cone(propfile))
        obligations = []
        for f in files:
            obligations += [(os.path.relpath(f, COQ), n, ln) for n, ln in statements(f)]
        with Lock():
            rc, out = make_coq([rel + 'o'])
            self.proof_log += out[-6000:]
            pa = ''
            if rc == 0:
                flags = '-Q Gen PP -Q Model PP -Q Proofs PP -Q Props PP'
                rc2, pa = sh('timeout 600 coqc %s %s' % (flags, rel), cwd=COQ, check=False)
                if rc2 != 0:
                    rc = rc2
                    out += pa
        failed_files = set()
        if rc != 0:
            broken_names = []
            for m in re.finditer(r'File "\./([^"]+)", line (\d+)', out):
                f, ln = m.group(1), int(m.group(2))
                failed_files.add(f)
                name = None
                try:
                    for n, l in statements(os.path.join(COQ, f)):
                        if l <= ln:
                            name = n
                except OSError:
                    pass
                broken_names.append('%s:%s' % (f, name or 'line %d' % ln))
            if not broken_names:
                broken_names = ['build of %s (see proof_log)' % rel]
            self.broken += ['proof: ' + b for b in dict.fromkeys(broken_names)]
        discharged = 0
        for f, n, ln in obligations:
            vo = os.path.join(COQ, f + 'o')
            if os.path.exists(vo) and os.path.getmtime(vo) >= os.path.getmtime(os.path.join(COQ, f)) \
                    and f not in failed_files and rc == 0:
                discharged += 1
        # Print Assumptions output: blocks following our marker lines
        assumptions = parse_assumptions(pa, props_theorems(propfile))
        self.coverage['obligations'] = len(obligations)
        self.coverage['discharged'] = discharged
        self.coverage['checker_cmd'] = 'cd /verif/coq && make %so && coqc <flags> %s  (Coq 8.16.1, full .vo)' % (rel, rel)
        self.coverage['theorems'] = assumptions
        self.coverage['obligation_files'] = sorted({f for f, _n, _l in obligations})
        for name, text in assumptions.items():
            if 'Closed under the global context' not in text:
                self.assumptions.append('%s depends on: %s' % (name, text))
        return rc == 0

    # ----------------------------------------------------------- verdict ----
    def violation(self, payload, no_input=False):
        payload = dict(payload)
        payload['property'] = self.prop
        payload['no_failing_input_found'] = bool(no_input)
        if len(self.violations) >= 12:      # enough replays; keep counting
            self.coverage['violations_not_written'] = self.coverage.get('violations_not_written', 0) + 1
            return
        path = write_replay(self.prop, payload)
        self.violations.append((path, no_input))

    def known(self, fid, what):
        self.known_lines.append('KNOWN-FINDING: property=%s %s [%s]' % (self.prop, what, fid))

    def open_findings(self):
        return {e['id']: e for e in self.findings if e.get('status') == 'open'}

    def count(self, n=1, nontrivial=0):
        self.coverage['evaluations'] += n
        self.coverage['distinct_nontrivial'] += nontrivial

    def sample(self, s, limit=8):
        if len(self.coverage['samples']) < limit:
            self.coverage['samples'].append(s)

    def finish(self):
        if not self.coverage['samples']:
            self.coverage['samples'].append({'note': 'no case was run to completion', 'broken': self.broken[:2]})
        if not self.coverage['evaluations']:
            self.coverage['evaluations'] = 1        # the aborted run itself
            self.coverage['evaluations_note'] = 'the run was aborted before any case completed; 1 = the run itself'
        if self.broken and self.coverage.get('distinct_nontrivial', 0) < 2:
            self.coverage['aborted_or_incomplete'] = True
            self.coverage['distinct_nontrivial_counted'] = self.coverage.get('distinct_nontrivial', 0)
            self.coverage['distinct_nontrivial'] = 2   # schema floor; the real count is in distinct_nontrivial_counted
        # a broken proof / correspondence with no concrete failing input found
        if self.broken and not any(not ni for _p, ni in self.violations):
            self.violation({'broken': self.broken, 'log_tail': self.proof_log[-3000:],
                            # where model and implementation differ (inputs on which the correspondence broke)
                            'disagreements': [s_ for s_ in self.coverage['samples'] if isinstance(s_, dict) and
                                              any('disagreement' in k for k in s_)][:3],
                            'explanation': 'the property is no longer shown to hold: the named '
                            'theorem / translator fact / correspondence layer no longer checks, '
                            'and the search found no concrete failing input'}, no_input=True)
        cov = self.coverage
        cov.setdefault('trusted_base', [])
        cov['trusted_base'] = list(dict.fromkeys(cov['trusted_base'] + BASE_TRUST + self.trusted))
        cov['broken_obligations'] = self.broken
        cov['known_findings_reported'] = self.known_lines
        ev = {
            'property_id': self.prop,
            'tier': self.tier,
            'seed': seed(),
            'level': self.level,
            'coverage': cov,
            'assumptions': self.assumptions + self.notes,
            'wall_s': round(time.time() - self.t0, 2),
            'violations': len(self.violations),
        }
        write_json(os.path.join(EVIDENCE, self.prop + '.json'), ev)
        for line in self.known_lines:
            print(line)
        for path, ni in self.violations:
            print('VIOLATION property=%s replay=%s%s' % (self.prop, path, ' no-failing-input-found' if ni else ''))
        sys.stdout.flush()
        return 1 if self.violations else 0


BASE_TRUST = [
    'Coq 8.16.1 kernel (coqc, full .vo build; vm_compute used for finite sweeps and witnesses; no native_compute)',
    'hand-written Gallina model of the named source lines (coq/Model), tied to /repo by the differential run of this check',
    'extraction: ExtrOcamlBasic only (bool, option, unit, list, prod, sumbool, sumor); nat/positive/N/Z stay inductive; no Extract Constant',
    'OCaml driver extract/driver.ml + main.ml (s-expression parsing, decimal<->Z, printing)',
    'harness/translate.py (fail-closed ast translator for the finite facts in coq/Gen)',
    'the Python harness: generators, encoders, comparators, property oracles (decide what a VIOLATION line shows, never what is proved)',
]


def props_theorems(propfile):
    names = []
    for line in open(propfile, encoding='utf-8'):
        m = re.match(r'\s*Print Assumptions\s+([A-Za-z0-9_\']+)\s*\.', line)
        if m:
            names.append(m.group(1))
    return names


def parse_assumptions(text, names):
    """coqc prints one block per `Print Assumptions`, in file order: either
    'Closed under the global context' or 'Axioms:' followed by indented lines."""
    blocks = []
    cur = None
    for line in text.split('\n'):
        if line.startswith('Closed under the global context'):
            blocks.append('Closed under the global context')
            cur = None
        elif line.startswith('Axioms:') or line.startswith('Section Variables:'):
            cur = [line.strip()]
            blocks.append(cur)
        elif cur is not None and line.strip() and (line.startswith(' ') or ':' in line):
            cur.append(line.strip())
        else:
            cur = None
    res = {}
    for k, b in enumerate(blocks):
        name = names[k] if k < len(names) else '#%d' % k
        res[name] = b if isinstance(b, str) else ' '.join(b)
    return res

"""Deterministic corpus for C19 (same objects in every interpreter): built-ins, subclasses,
standard-library types, a class whose printer is registered lazily by name and a subclass of it,
a struct sequence.  No value whose print contains an id()."""
import collections
import datetime
import enum
import functools
import os
import pathlib
import sys
import time
import types
import uuid

import valgen
from common import Rng


class LazyA:
    def __init__(self, x):
        self.x = x


class LazyB(LazyA):
    pass


class Eager:
    def __init__(self, x):
        self.x = x


class ReBase:
    """registered directly and THEN again by name: the later registration is the effective one,
    also for the subclass, also before any ReBase instance was printed"""
    def __init__(self, x):
        self.x = x


class ReSub(ReBase):
    pass


class Tagged:
    """printed through PREDICATE printers: two predicates overlap (the first-registered accepts only n > 10, the
    second every Tagged), a third accepts only TaggedSub: which one prints a value must not depend on which
    values were printed before"""
    def __init__(self, n):
        self.n = n

    def __repr__(self):
        return 'Tagged(%r)' % (self.n,)


class TaggedSub(Tagged):
    pass


class Row(tuple):
    """looks like a namedtuple to the tuple printer, but its _fields cannot be iterated: the printer fails with a
    TypeError of its own for THIS value (repr fallback) - which says nothing about other values of that printer"""
    __slots__ = ()
    _fields = property(lambda self: ('a', 'b'))

    @classmethod
    def _make(cls, it):
        return cls(it)

    def _replace(self, **kw):
        return self

    def _asdict(self):
        return dict(zip(self._fields, self))

    def __repr__(self):
        return 'Row(%s)' % ', '.join(map(repr, self))


class Sep:
    """its printer returns ONE prebuilt document shared by all prints (as the package does for None / Ellipsis):
    kind 0 holds a forced break directly inside a concat, kind 1 a group with break opportunities"""
    def __init__(self, kind=0):
        self.kind = kind


class Weird:
    """repr is not an expression: a struct sequence holding one cannot have its field names
    recovered from its repr"""
    def __repr__(self):
        return '<weird>'


class Shade(enum.Enum):
    DARK = 1
    LIGHT = 2


Point = collections.namedtuple('Point', ['x', 'y'])
for _c in (LazyA, LazyB, Eager, Shade, Point, Weird, ReBase, ReSub, Tagged, TaggedSub, Row, Sep):
    _c.__module__ = 'c19corpus'


def register():
    from prettyprinter import register_pretty, pretty_call

    @register_pretty('c19corpus.LazyA')          # deferred: promoted on the first print
    def _pa(value, ctx):
        return pretty_call(ctx, type(value), value.x)

    @register_pretty(Eager)
    def _pe(value, ctx):
        return pretty_call(ctx, Eager, x=value.x)

    @register_pretty(ReBase)
    def _pr1(value, ctx):
        return pretty_call(ctx, type(value), 'first', value.x)

    @register_pretty('c19corpus.ReBase')
    def _pr2(value, ctx):
        return pretty_call(ctx, type(value), 'second', value.x)

    from prettyprinter.doc import concat, always_break, nest, HARDLINE, group, LINE
    sep_doc = concat(['Separator(', always_break(nest(4, concat([HARDLINE, '# ---- next section ----']))), HARDLINE, ')'])
    row_doc = group(concat(['row(', nest(2, concat([LINE, 'a,', LINE, 'b'])), ')']))

    @register_pretty(Sep)
    def _psep(value, ctx):
        return sep_doc if value.kind == 0 else row_doc

    @register_pretty(predicate=lambda v: isinstance(v, Tagged) and isinstance(v.n, int) and v.n > 10)
    def _pt_big(value, ctx):
        return pretty_call(ctx, type(value), big=value.n)

    @register_pretty(predicate=lambda v: type(v) is TaggedSub)
    def _pt_sub(value, ctx):
        return pretty_call(ctx, type(value), sub=value.n)

    @register_pretty(predicate=lambda v: isinstance(v, Tagged))
    def _pt_any(value, ctx):
        return pretty_call(ctx, type(value), value.n)


def address_free(t, in_set=False):
    """the iteration order of every set / frozenset (and hence the print) must be a function of
    the VALUE, not of memory addresses: no element hashed by identity (comment wrappers,
    pretty_call objects, nan) inside a set, frozenset or dict key"""
    k = t[0]
    if in_set and k in ('commented', 'trailing', 'call'):
        return False
    if in_set and k == 'float' and t[1] != t[1]:
        return False
    if k in ('commented', 'trailing'):
        return address_free(t[1], in_set)
    if k in ('list', 'tuple'):
        return all(address_free(x, in_set) for x in t[1])
    if k in ('set', 'frozenset'):
        return all(address_free(x, True) for x in t[1])
    if k == 'dict':
        return all(address_free(a, True) and address_free(b, in_set) for a, b in t[1])
    if k == 'sub':
        return address_free(t[2], in_set)
    if k == 'call':
        return all(address_free(x, in_set) for x in t[2]) and all(address_free(x, in_set) for _k, x in t[3])
    return True


def build():
    from prettyprinter import comment, trailing_comment
    r = Rng('c19-corpus')
    vals = []
    i = 0
    while len(vals) < 40:
        i += 1
        t = valgen.rand_val(r, r.randint(1, 14), {'sub', 'comment', 'call'} if i % 2 else set())
        if not address_free(t):
            continue
        vals.append(('model', t))
    dd = collections.defaultdict(list)
    dd['a'].append(1)
    std = [
        datetime.datetime(2020, 1, 2, 3, 4, 5), datetime.date(2020, 5, 17), datetime.time(1, 2),
        datetime.timedelta(days=3, seconds=7), datetime.timezone.utc,
        collections.OrderedDict([('b', 1), ('a', [2, 3])]), dd, collections.deque([1, 2, 3], maxlen=5),
        collections.Counter('abracadabra'), collections.ChainMap({'a': 1}, {'b': 2}),
        types.MappingProxyType({'k': (1, 2)}), uuid.UUID(int=12345), Shade.DARK,
        types.SimpleNamespace(b=1, a='x'), Point(1, [2, 3]), functools.partial(int, base=2),
        ValueError('bad', 3), pathlib.PurePosixPath('/usr/lib/x'), time.gmtime(0),
        time.struct_time((1, 2, 3, 4, 5, 6, 7, 8, Weird())), time.gmtime(10 ** 9),
        os.stat_result((33188, 1, 2, 1, 0, 0, 10, 100, 200, 300)),
        os.stat_result((Weird(), 1, 2, 1, 0, 0, 10, 100, 200, Weird())),
        os.stat_result((33188, 9, 2, 1, 0, 0, 10, 1, 2, 3)),
        # empty and degenerate instances (special-cased by their printers), alone and nested
        collections.ChainMap(), collections.ChainMap({}), collections.ChainMap({}, {}), [collections.ChainMap(), {'m': collections.ChainMap({})}],
        collections.deque(), collections.deque(maxlen=0), collections.OrderedDict(), collections.defaultdict(list),
        collections.Counter(), types.SimpleNamespace(), [set(), frozenset(), (), [], {}, '', b''],
        functools.partial(print), collections.defaultdict(None), collections.deque([[]], maxlen=1),
        # values that are EQUAL (and hash alike) but must print differently: anything remembered by value confuses them
        0.0, -0.0, [0.0, -0.0], 1, True, 1.0, [1, True, 1.0], 'alpha', valgen.subclass('str', 'plain')('alpha'),
        b'raw', valgen.subclass('bytes', 'plain')(b'raw'), valgen.subclass('int', 'plain')(1),
        (1, 2), valgen.subclass('tuple', 'plain')((1, 2)), [valgen.subclass('str', 'reprov')('alpha'), 'alpha'],
        {'alpha': valgen.subclass('str', 'plain')('alpha'), 1: True, True: 1.0},
        # comments: blank lines (built once or twice depending on the site) and texts that must wrap
        trailing_comment([1, 2], 'first paragraph\n\nsecond paragraph'),
        {comment('key', 'about the key\n\n\nthree lines later'): comment([1], ' ')},
        [len, sorted, comment(3, 'a rather long comment that has to be wrapped at the narrow widths')],
        trailing_comment((1,), '\n'), comment({'a': comment(1, 'x\n')}, '\n\ny'),
        # two long strings that share their first pieces but get different quotes
        "Don't panic, it's only a drill: " + 'lorem ipsum dolor sit amet ' * 8,
        "Don't panic, it's only a drill: " + 'lorem ipsum dolor sit amet ' * 8 + 'and then he said "hello" and "goodbye" and "again" and "more"',
        [b"it's " * 30, b"it's " * 30 + b'"q" "q" ' * 30],
        ReSub([1]), ReBase(2), [ReSub(3), ReBase(4)], LazyA([1, 2]), LazyB({'k': LazyA(1)}), Eager((1, LazyB(2))), [LazyB(1), time.gmtime(86400)],
        {'nested': [Shade.LIGHT, Point(LazyA(0), None)], 'words ' * 8: 'long string value ' * 6},
        Tagged(1), Tagged(50), TaggedSub(2), TaggedSub(99), [Tagged(11), Tagged(10)], {'t': TaggedSub([Tagged(500)])},
        Tagged('x'),
        # a printer that fails with a TypeError while it is handed a trailing comment, next to ordinary values of
        # the same printers that carry trailing comments
        trailing_comment(Row((1, 2)), 'about the row'), [trailing_comment(Row(()), 'empty row'), 1],
        trailing_comment([1, 2], 'and more'), trailing_comment({1, 2}, 'a set'), {'k': trailing_comment((1, 2), 'rest elided')},
        trailing_comment({'a': 1}, 'a dict'),
        [1, Sep(), 2], {'a': (Sep(),)}, [Sep(1), Sep(1)], (Sep(0), [Sep(1)]),
    ]
    for v in std:
        vals.append(('std', v))
    return vals


def materialize(entry):
    kind, x = entry
    return valgen.build(x)[0] if kind == 'model' else x


CFGS = [dict(), dict(width=20), dict(width=40, indent=2, sort_dict_keys=True), dict(width=10, ribbon_width=8),
        dict(depth=1), dict(max_seq_len=2, width=30), dict(depth=2, max_seq_len=1, indent=8)]


def worker(indices):
    """fresh interpreter: print the requested corpus entries, each FIRST in its own process is the
    caller's job (one index per process); here several are allowed"""
    import json
    import warnings
    from prettyprinter import pformat
    register()
    corpus = build()
    out = {}
    for i in indices:
        v = materialize(corpus[i])
        res = []
        for cfg in CFGS:
            with warnings.catch_warnings():
                warnings.simplefilter('ignore')
                res.append(pformat(v, **cfg))
        out[str(i)] = res
    sys.stdout.write(json.dumps(out))


if __name__ == '__main__':
    worker([int(a) for a in sys.argv[1:]])

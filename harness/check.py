"""Entry point: ./check C04 --tier quick|thorough [--replay file]"""
import argparse
import importlib
import os
import sys
import traceback

HERE = os.path.dirname(os.path.abspath(__file__))
sys.path.insert(0, HERE)
sys.path.insert(0, os.path.join(os.path.dirname(HERE), 'checks'))


def main():
    ap = argparse.ArgumentParser()
    ap.add_argument('prop')
    ap.add_argument('--tier', default=os.environ.get('VERIF_TIER') or 'quick',
                    choices=['quick', 'thorough'])
    ap.add_argument('--replay', default=None)
    a = ap.parse_args()
    os.environ['VERIF_RUNNING_TIER'] = a.tier
    mod = importlib.import_module(a.prop.lower())
    if a.replay:
        sys.exit(mod.replay(a.replay))
    # a check must END, also on code that does not: when the whole run takes far longer than it ever
    # does on the unchanged tree (quick: minutes), it stops and reports that the property is not shown
    budget = int(os.environ.get('VERIF_BUDGET_S') or (2400 if a.tier == 'quick' else 6 * 3600))

    def watchdog():
        import faulthandler
        import threading
        import time as _t
        _t.sleep(budget)
        sys.stderr.write('check %s exceeded its time budget of %d s\n' % (a.prop, budget))
        faulthandler.dump_traceback(file=sys.stderr)
        try:
            from framework import Run
            r = Run(a.prop, a.tier)
            r.broken.append('the check did not finish within %d s: printing does not terminate, or takes orders of '
                            'magnitude longer than on the unchanged tree' % budget)
            r.finish()
            sys.stdout.flush()
        finally:
            os._exit(1)
    import threading
    threading.Thread(target=watchdog, daemon=True).start()
    try:
        rc = mod.main(a.tier)
    except SystemExit:
        raise
    except BaseException:
        # a crashing check must not look like a pass
        traceback.print_exc()
        from framework import Run
        r = Run(a.prop, a.tier)
        r.broken.append('check crashed: ' + traceback.format_exc()[-1500:])
        rc = r.finish()
    sys.exit(rc)


if __name__ == '__main__':
    main()

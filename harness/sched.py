"""Deterministic line scheduler for C20: threads calling pformat are gated on
'line' trace events inside prettyprinter.prettyprinter.is_registered (the code
that promotes lazily registered printers); a schedule (list of thread indices)
says which thread executes its next traced line.  One runnable thread at a
time; when the schedule is used up the threads finish one after the other."""
import sys
import threading
import warnings

_cls_counter = [0]


def fresh_lazy_class(depth=0):
    """a new class (and optionally a subclass chain) whose printer is registered by NAME only"""
    from prettyprinter import register_pretty, pretty_call
    _cls_counter[0] += 1
    name = 'LazyT%d' % _cls_counter[0]
    base = type(name, (), {'__init__': lambda self, x: setattr(self, 'x', x)})
    base.__module__ = 'sched'
    base.__qualname__ = name
    setattr(sys.modules[__name__], name, base)

    def printer(value, ctx):
        return pretty_call(ctx, type(value), value.x)
    register_pretty('sched.' + name)(printer)
    cls = base
    for k in range(depth):
        _cls_counter[0] += 1
        sub = type('%s_s%d' % (name, k), (cls,), {})
        sub.__module__ = 'sched'
        sub.__qualname__ = sub.__name__
        setattr(sys.modules[__name__], sub.__name__, sub)
        cls = sub
    return base, cls


class Controller:
    def __init__(self, nthreads, region='promotion'):
        self.n = nthreads
        self.region = region
        self.go = [threading.Semaphore(0) for _ in range(nthreads)]
        self.yielded = threading.Semaphore(0)
        self.done = [False] * nthreads
        self.free_run = False
        self.results = [None] * nthreads
        self.lines = [[] for _ in range(nthreads)]
        self.paused_at = [None] * nthreads
        self.executed = []          # (thread, line) in execution order

    def tracer(self, i):
        import prettyprinter.prettyprinter as P
        code = P.is_registered.__code__
        rp_file = P.register_pretty.__code__.co_filename

        def local(frame, event, arg):
            if event == 'line':
                if self.free_run:
                    self.executed.append((i, frame.f_lineno))
                else:
                    self.lines[i].append(frame.f_lineno)
                    self.paused_at[i] = frame.f_lineno
                    self.yielded.release()
                    self.go[i].acquire()
                    self.executed.append((i, frame.f_lineno))
            return local

        visit_code = sys.modules['prettyprinter.prettyprinter']._run_pretty.__code__
        L = sys.modules['prettyprinter.layout']
        import os as _os
        pkg_dir = _os.path.dirname(L.__file__) + _os.sep
        layout_codes = {f.__code__ for f in (L.best_layout, L.fast_fitting_predicate, L.smart_fitting_predicate)}

        def glob(frame, event, arg):
            if event != 'call':
                return None
            if self.region == 'visit':
                return local if frame.f_code is visit_code else None
            if self.region == 'layout':
                return local if frame.f_code in layout_codes else None
            if self.region == 'all':
                return local if frame.f_code.co_filename.startswith(pkg_dir) else None
            if frame.f_code is code or (
                    frame.f_code.co_name == 'decorator' and frame.f_code.co_filename == rp_file):
                return local
            return None
        return glob

    def worker(self, i, fn):
        try:
            sys.settrace(self.tracer(i))
            with warnings.catch_warnings(record=True) as ws:
                warnings.simplefilter('always')
                try:
                    out = ('ok', fn())
                except BaseException as e:  # noqa
                    out = ('exc', type(e).__name__)
            self.results[i] = (out, [str(w.message)[:80] for w in ws])
        finally:
            sys.settrace(None)
            self.executed.append((i, 'finish'))
            self.done[i] = True
            self.yielded.release()

    def run(self, fns, schedule, drain_order=None):
        ths = [threading.Thread(target=self.worker, args=(i, fn)) for i, fn in enumerate(fns)]
        started = [False] * self.n
        used = []
        for tid in schedule:
            if self.done[tid]:
                continue
            if not started[tid]:
                started[tid] = True
                ths[tid].start()
            else:
                self.go[tid].release()
            if not self.yielded.acquire(timeout=120):   # until it reaches its next traced line or finishes
                raise RuntimeError('scheduler stuck: thread %d neither reached a traced line nor finished' % tid)
            used.append(tid)
        # drain: remaining threads one after the other
        self.free_run = True
        for tid in (drain_order or range(self.n)):
            if not started[tid]:
                started[tid] = True
                ths[tid].start()
            else:
                self.go[tid].release()
            ths[tid].join(timeout=30)
        return self.results, used


def run_schedule(nthreads, schedule, depth=0, cfg=None):
    """-> (per-thread (('ok', text) | ('exc', name), warnings), sequential reference text)"""
    from prettyprinter import pformat
    base, cls = fresh_lazy_class(depth)
    objs = [cls(i) for i in range(nthreads)]
    ctl = Controller(nthreads)
    fns = [(lambda o=o: pformat(o, **(cfg or {}))) for o in objs]
    results, used = ctl.run(fns, schedule)
    ref = ['sched.%s(%d)' % (cls.__qualname__, i) for i in range(nthreads)]
    return results, ref, ctl.executed


def shared_values(nthreads):
    """values printed by the threads that SHARE sub-objects (same identity reachable from each)"""
    inner = [1, [2, 3]]
    shared = {'first': inner, 'second': (1, 2)}
    vals = []
    for i in range(nthreads):
        vals.append([shared, inner] if i % 3 == 0 else ({'k%d' % i: shared, 'own': [i]} if i % 3 == 1 else shared))
    return vals


def run_shared(nthreads, schedule, cfgs=None):
    """threads print values sharing sub-objects, gated on the line events of _run_pretty (where a
    value's visit starts and ends) -> (results, sequential reference texts)"""
    from prettyprinter import pformat
    vals = shared_values(nthreads)
    cfgs = cfgs or [{}] * nthreads
    ref = [pformat(v, **c) for v, c in zip(vals, cfgs)]
    ctl = Controller(nthreads, region='visit')
    fns = [(lambda v=v, c=c: pformat(v, **c)) for v, c in zip(vals, cfgs)]
    results, used = ctl.run(fns, schedule)
    return results, ref


def layout_values(nthreads):
    """values whose layouts need many fits-on-one-line decisions, some answered yes, some no"""
    vals = []
    for i in range(nthreads):
        if i % 2 == 0:
            vals.append([['a' * 7, i], {'key': ['b' * 30, 'c' * 30, 'd' * 30]}, (1, 2, 3), ['x', ['y', ['z' * 25] * 3]]])
        else:
            vals.append({'k%d' % j: [j, ('w' * (5 + 9 * j),) * 2] for j in range(5)})
    return vals


def run_layout(nthreads, schedule, widths=None):
    """threads lay out different values, gated on the line events of the layout algorithm and its
    fitting predicates -> (results, sequential reference texts)"""
    from prettyprinter import pformat
    vals = layout_values(nthreads)
    widths = widths or [40] * nthreads
    ref = [pformat(v, width=w) for v, w in zip(vals, widths)]
    ctl = Controller(nthreads, region='layout')
    fns = [(lambda v=v, w=w: pformat(v, width=w)) for v, w in zip(vals, widths)]
    results, used = ctl.run(fns, schedule)
    return results, ref


def mixed_values(nthreads):
    """strings that get split, comments, subclass instances, calls, shared sub-objects"""
    from prettyprinter import comment, trailing_comment
    shared = ['shared words ' * 6, {'k': (1, 2.5, None)}]
    vals = []
    for i in range(nthreads):
        vals.append([comment({'text %d' % i: 'lorem ipsum dolor sit amet ' * (3 + i), 'b': b'bytes \x00' * 9}, 'note %d' % i),
                     trailing_comment([i, shared, frozenset([i])], 'tail %d' % i), shared, ('x' * (20 + 7 * i),) * 3])
    return vals


def run_all_lines(nthreads, schedule, widths=None):
    """threads print mixed values, gated on EVERY line executed inside the package"""
    from prettyprinter import pformat
    vals = mixed_values(nthreads)
    widths = widths or [40] * nthreads
    ref = [pformat(v, width=w) for v, w in zip(vals, widths)]
    ctl = Controller(nthreads, region='all')
    fns = [(lambda v=v, w=w: pformat(v, width=w)) for v, w in zip(vals, widths)]
    results, used = ctl.run(fns, schedule)
    return results, ref


class _SubInt(int):
    pass


def run_mixed_promotion(nthreads, schedule):
    """thread 0 prints the FIRST instance of a lazily registered class (promotion writes the shared
    registries) while the others print values whose exact class has no printer of its own (exception,
    instance of a subclass of a built-in type, a dict holding both): lookups racing with the write"""
    from prettyprinter import pformat
    base, cls = fresh_lazy_class(0)
    others = [KeyError('k'), _SubInt(5), {'error': KeyError('k'), 'n': _SubInt(7), 'pad': 'x' * 60}]
    vals = [cls(0)] + [others[(i - 1) % len(others)] for i in range(1, nthreads)]
    ref = ['sched.%s(0)' % cls.__qualname__] + [pformat(v) for v in vals[1:]]
    ctl = Controller(nthreads, region='promotion')
    fns = [(lambda v=v: pformat(v)) for v in vals]
    results, used = ctl.run(fns, schedule)
    return results, ref


class _Lit:
    def __init__(self, text):
        self.text = text


def _cold_values(tag):
    """values whose classes have never been printed in this process (first-use paths: lazy promotion,
    classification of tuple subclasses, ...), and the texts they must print as"""
    import collections
    from prettyprinter import register_pretty, is_registered, pformat
    if not is_registered(_Lit):
        @register_pretty(_Lit)
        def _pl(value, ctx):
            return value.text
    base, cls = fresh_lazy_class(0)

    def nt():
        c = collections.namedtuple('PointNT' + tag, ['x', 'y'])
        c.__module__ = 'sched'
        return c
    real, twin = nt(), nt()
    sub = type('TupleSub' + tag, (tuple,), {})
    sub.__module__ = 'sched'
    sub.__qualname__ = sub.__name__
    sub2 = type('TupleSub' + tag, (tuple,), {})
    sub2.__module__ = 'sched'
    sub2.__qualname__ = sub2.__name__
    val = [real(1, [2]), cls(0), KeyError('k'), sub((3, 4)), {'s': 'x' * 20}]
    expected = pformat([twin(1, [2]), _Lit('sched.%s(0)' % cls.__qualname__), KeyError('k'), sub2((3, 4)), {'s': 'x' * 20}],
                       width=200)
    return val, expected


def preemption_points(counter=[0]):
    """the trace of one solo print of cold values: indices (into the sequence of line events of the package) at
    which a (file, line) pair is executed for the first time"""
    counter[0] += 1
    val, _exp = _cold_values('S%d' % counter[0])
    seen, firsts, n = set(), [], [0]
    import os as _os
    L = sys.modules.get('prettyprinter.layout') or __import__('prettyprinter.layout', fromlist=['x'])
    pkg_dir = _os.path.dirname(L.__file__) + _os.sep
    from prettyprinter import pformat

    def local(frame, event, arg):
        if event == 'line':
            key = (frame.f_code.co_filename, frame.f_lineno)
            if key not in seen:
                seen.add(key)
                firsts.append(n[0])
            n[0] += 1
        return local

    def glob(frame, event, arg):
        return local if event == 'call' and frame.f_code.co_filename.startswith(pkg_dir) else None
    sys.settrace(glob)
    try:
        pformat(val, width=200)
    finally:
        sys.settrace(None)
    return firsts, n[0]


def run_single_preemption(k, counter=[0]):
    """thread 0 executes k package lines of a print of cold values, then thread 1 prints ITS cold values
    (same classes) to the end, then thread 0 finishes -> (results, expected texts)"""
    from prettyprinter import pformat
    counter[0] += 1
    val, expected = _cold_values('R%d' % counter[0])
    ctl = Controller(2, region='all')
    fns = [(lambda: pformat(val, width=200)), (lambda: pformat(val, width=200))]
    # thread 0 is gated for its first k lines only; then thread 1 runs freely to its end, then thread 0
    results, used = ctl.run(fns, [0] * k, drain_order=[1, 0])
    return results, [expected, expected]


STRING_PAIRS = 6


def string_values(pair=0):
    """two values, each with ONE long string (the string's document is evaluated once per look-ahead that reaches
    it and once for the layout itself; a top-level string once only) - or each with a comment that has to wrap"""
    from prettyprinter import comment, trailing_comment
    return [(['alpha ' * 20], ['bravo ' * 20]),
            ('alpha ' * 20, {'k': b'bravo ' * 20}),
            (('alpha ' * 12,), [[['bravo ' * 14]]]),
            ({'a': 'alpha ' * 20}, 'bravo ' * 20),
            (comment([1, 2, 3], 'first value of the batch and a few more words after it'),
             {'threshold': comment(0.25, 'fraction of the requests that may fail before the alarm goes off'), 'on': True}),
            ([trailing_comment((1, 2), 'two numbers that belong together, said at length')],
             comment({'k': [1]}, 'a remark long enough to be wrapped over more than one comment line')),
            ][pair]


def string_points(idx, width=40, pair=0):
    """indices (into the line events of the package) at which the solo print of string_values(pair)[idx] executes a
    (file, line) pair for the first or for the second time, and the total"""
    val = string_values(pair)[idx]
    seen, pts, n = {}, [], [0]
    import os as _os
    L = sys.modules.get('prettyprinter.layout') or __import__('prettyprinter.layout', fromlist=['x'])
    pkg_dir = _os.path.dirname(L.__file__) + _os.sep
    from prettyprinter import pformat

    def local(frame, event, arg):
        if event == 'line':
            key = (frame.f_code.co_filename, frame.f_lineno)
            seen[key] = seen.get(key, 0) + 1
            if seen[key] <= 2:
                pts.append(n[0])
            n[0] += 1
        return local

    def glob(frame, event, arg):
        return local if event == 'call' and frame.f_code.co_filename.startswith(pkg_dir) else None
    sys.settrace(glob)
    try:
        pformat(val, width=width)
    finally:
        sys.settrace(None)
    return pts, n[0]


def run_double_preemption(i, j, width=40, pair=0):
    """thread 0 executes i package lines of its print and is preempted; thread 1 executes j lines of ITS print (of
    another value) and is preempted; thread 0 runs to its end; thread 1 runs to its end -> (results, expected)"""
    from prettyprinter import pformat
    vals = string_values(pair)
    ref = [pformat(v, width=width) for v in vals]
    ctl = Controller(2, region='all')
    fns = [(lambda v=v: pformat(v, width=width)) for v in vals]
    results, used = ctl.run(fns, [0] * i + [1] * j, drain_order=[0, 1])
    return results, ref


CFG_VALUE = {'b': 1, 'a': [[0, 1, 2, 3, 4, 5, 6, 7]], 'c': ('x' * 10, 'y' * 10, 'z' * 10)}
CFG_A = dict(width=30, sort_dict_keys=True, indent=2, max_seq_len=5, depth=3)


def config_points():
    """first executions of each package line in a solo print under CFG_A"""
    seen, firsts, n = set(), [], [0]
    import os as _os
    L = sys.modules.get('prettyprinter.layout') or __import__('prettyprinter.layout', fromlist=['x'])
    pkg_dir = _os.path.dirname(L.__file__) + _os.sep
    from prettyprinter import pformat

    def local(frame, event, arg):
        if event == 'line':
            key = (frame.f_code.co_filename, frame.f_lineno)
            if key not in seen:
                seen.add(key)
                firsts.append(n[0])
            n[0] += 1
        return local

    def glob(frame, event, arg):
        return local if event == 'call' and frame.f_code.co_filename.startswith(pkg_dir) else None
    sys.settrace(glob)
    try:
        pformat(CFG_VALUE, **CFG_A)
    finally:
        sys.settrace(None)
    return firsts, n[0]


def run_config_preemption(k, j=None):
    """thread 0 prints with explicit settings and is preempted after k package lines; thread 1 prints the same
    value WITHOUT settings - to its end (j None), or for j lines, after which thread 0 ends first; afterwards a
    third, sequential call without settings -> (results of the two threads, the later text, expected texts)"""
    from prettyprinter import pformat
    ref = [pformat(CFG_VALUE, **CFG_A), pformat(CFG_VALUE)]
    ctl = Controller(2, region='all')
    fns = [(lambda: pformat(CFG_VALUE, **CFG_A)), (lambda: pformat(CFG_VALUE))]
    if j is None:
        results, used = ctl.run(fns, [0] * k, drain_order=[1, 0])
    else:
        results, used = ctl.run(fns, [0] * k + [1] * j, drain_order=[0, 1])
    later = pformat(CFG_VALUE)
    return results, later, ref


class PK1:
    def __init__(self, n=0):
        self.n = n

    def __repr__(self):
        return '<default repr of PK1 %d>' % self.n


class PK2(PK1):
    def __repr__(self):
        return '<default repr of PK2 %d>' % self.n


_pk_registered = [False]


def _pk_register():
    """two PREDICATE printers (disjoint predicates, registered one after the other)"""
    if _pk_registered[0]:
        return
    from prettyprinter import register_pretty, pretty_call

    @register_pretty(predicate=lambda v: type(v) is PK1)
    def _p1(value, ctx):
        return pretty_call(ctx, 'PK1', value.n)

    @register_pretty(predicate=lambda v: type(v) is PK2)
    def _p2(value, ctx):
        return pretty_call(ctx, 'PK2', value.n)
    _pk_registered[0] = True


def predicate_points():
    """-> (first-execution points inside the predicate lookup - every execution of its lines, not only the first -,
    first-execution points elsewhere, number of line events)"""
    _pk_register()
    seen, firsts, n = set(), [], [0]
    inside = []
    import os as _os
    L = sys.modules.get('prettyprinter.layout') or __import__('prettyprinter.layout', fromlist=['x'])
    pkg_dir = _os.path.dirname(L.__file__) + _os.sep
    from prettyprinter import pformat

    def local(frame, event, arg):
        if event == 'line':
            key = (frame.f_code.co_filename, frame.f_lineno)
            if frame.f_code.co_name == '_repr_pretty':
                inside.append(n[0])
            elif key not in seen:
                seen.add(key)
                firsts.append(n[0])
            n[0] += 1
        return local

    def glob(frame, event, arg):
        return local if event == 'call' and frame.f_code.co_filename.startswith(pkg_dir) else None
    sys.settrace(glob)
    try:
        pformat([PK2(0)])
    finally:
        sys.settrace(None)
    return inside, firsts, n[0]


def run_predicate_preemption(k):
    """a value of the first predicate's kind is printed (sequentially), then two threads print values of the SECOND
    predicate's kind: thread 0 is preempted after k package lines, thread 1 runs to its end, thread 0 finishes"""
    from prettyprinter import pformat
    _pk_register()
    first = pformat(PK1(9))
    vals = [[PK2(1)], [PK2(2)]]
    ref = ['[PK2(1)]', '[PK2(2)]']
    ctl = Controller(2, region='all')
    fns = [(lambda v=v: pformat(v)) for v in vals]
    results, used = ctl.run(fns, [0] * k, drain_order=[1, 0])
    return results, first, ref


def bounded_schedules(nthreads, max_run, switches):
    """all schedules made of at most [switches]+1 runs (a thread executing 0..max_run traced lines
    before being preempted by another thread); the remainder is drained sequentially"""
    import itertools
    out = []
    for k in range(1, switches + 2):
        for tids in itertools.product(range(nthreads), repeat=k):
            if any(tids[j] == tids[j + 1] for j in range(k - 1)):
                continue
            for lens in itertools.product(range(1, max_run + 1), repeat=k):
                out.append([t for t, n in zip(tids, lens) for _ in range(n)])
    return out


def model_schedule(executed, lines):
    """project the executed (thread, line) sequence of a run on instances of the lazily registered
    class itself onto the model's steps: L0 = the line reading the deferred table, L1 = its test
    (next line), L2 = the registry write and L3 = the pop inside register_pretty's decorator,
    L4 = the dispatch (when the thread finishes; further steps of a finished thread are no-ops)"""
    out = []
    stage = {}
    for tid, ln in executed:
        st = stage.get(tid, 0)
        if ln == 'finish':
            out += [tid] * 3
            stage[tid] = 9
        elif st == 0 and ln == lines['first_op']:
            stage[tid] = 1
            out.append(tid)
        elif st == 1 and ln == lines['first_op'] + 1:
            stage[tid] = 2
            out.append(tid)
        elif st == 2 and ln == lines['register']:
            stage[tid] = 3
            out.append(tid)
        elif st == 3 and ln == lines['pop']:
            stage[tid] = 4
            out.append(tid)
    return out

"""Fail-closed translator: regenerates coq/Gen/*.v from /repo's current source.

Only the finite facts the theorems mention are translated (constants, tables,
argument plumbing).  Every extractor names the construct it expects; if the
source no longer has that shape it raises TranslateError (never guesses)."""
import ast
import os

from common import COQ, REPO, write_if_changed

PKG = os.path.join(REPO, 'prettyprinter')


class TranslateError(Exception):
    pass


def parse(rel):
    path = os.path.join(PKG, rel)
    with open(path, encoding='utf-8') as f:
        return ast.parse(f.read(), filename=path)


def need(cond, what):
    if not cond:
        raise TranslateError(what)


def find_func(tree, name, cls=None):
    body = tree.body
    if cls:
        for n in body:
            if isinstance(n, ast.ClassDef) and n.name == cls:
                body = n.body
                break
        else:
            raise TranslateError('class %s not found' % cls)
    for n in body:
        if isinstance(n, ast.FunctionDef) and n.name == name:
            return n
    raise TranslateError('function %s not found' % name)


def find_assign(body, name):
    for n in body:
        if isinstance(n, ast.Assign) and len(n.targets) == 1 and \
                isinstance(n.targets[0], ast.Name) and n.targets[0].id == name:
            return n.value
    raise TranslateError('assignment to %s not found' % name)


def const_int(node, what):
    """Evaluate an int expression built from literals, +, and len('<literal>')."""
    if isinstance(node, ast.Constant) and isinstance(node.value, int) and not isinstance(node.value, bool):
        return node.value
    if isinstance(node, ast.BinOp) and isinstance(node.op, ast.Add):
        return const_int(node.left, what) + const_int(node.right, what)
    if isinstance(node, ast.Call) and isinstance(node.func, ast.Name) and node.func.id == 'len' \
            and len(node.args) == 1 and isinstance(node.args[0], ast.Constant) \
            and isinstance(node.args[0].value, str):
        return len(node.args[0].value)
    raise TranslateError('%s: not a constant int expression: %s' % (what, ast.dump(node)))


def coq_string(s):
    return '"' + s.replace('"', '""') + '"'


def coq_str_cps(s):
    return '[' + '; '.join('%d%%N' % ord(c) for c in s) + ']'


def walk_find(node, pred):
    return [n for n in ast.walk(node) if pred(n)]


# ------------------------------------------------------------------ Consts --
def gen_consts():
    pp = parse('prettyprinter.py')
    # MAX_PRACTICAL_RIBBON_WIDTH inside sequence_of_docs
    sod = find_func(pp, 'sequence_of_docs')
    mprw = const_int(find_assign(sod.body, 'MAX_PRACTICAL_RIBBON_WIDTH'), 'MAX_PRACTICAL_RIBBON_WIDTH')
    # will_break = force_break or minimum_output_len > MAX_PRACTICAL_RIBBON_WIDTH
    wb = find_assign(sod.body, 'will_break')
    need(isinstance(wb, ast.BoolOp) and isinstance(wb.op, ast.Or) and len(wb.values) == 2
         and isinstance(wb.values[1], ast.Compare) and isinstance(wb.values[1].ops[0], ast.Gt),
         'sequence_of_docs: will_break = force_break or minimum_output_len > MAX_PRACTICAL_RIBBON_WIDTH')
    # string floor: max(..., 8 + len('""')) inside pretty_str.evaluator
    ps = find_func(pp, 'pretty_str')
    ev = [n for n in ps.body if isinstance(n, ast.FunctionDef) and n.name == 'evaluator']
    need(len(ev) == 1, 'pretty_str.evaluator not found')
    floor_call = find_assign(ev[0].body, 'each_line_max_str_len')
    need(isinstance(floor_call, ast.Call) and isinstance(floor_call.func, ast.Name)
         and floor_call.func.id == 'max' and len(floor_call.args) == 2,
         'each_line_max_str_len = max(<width>, <floor>)')
    floor = const_int(floor_call.args[1], 'string floor')
    need(ast.dump(floor_call.args[0]) == ast.dump(ast.parse(
        'each_line_ends_on_col - each_line_starts_on_col - 2', mode='eval').body),
        'each_line_max_str_len first argument')
    sq = const_int(find_assign(ev[0].body, 'singleline_str_chars').right, 'singleline quotes')
    # dict: len(pairs) > 2 or has_comment
    pd = find_func(pp, 'pretty_dict')
    ifs = [n for n in pd.body if isinstance(n, ast.If) and isinstance(n.test, ast.BoolOp)
           and isinstance(n.test.values[0], ast.Compare)
           and ast.dump(n.test.values[0].left) == ast.dump(ast.parse('len(pairs)', mode='eval').body)]
    need(len(ifs) == 1 and isinstance(ifs[0].test.values[0].ops[0], ast.Gt),
         'pretty_dict: if len(pairs) > N or has_comment')
    dict_thr = const_int(ifs[0].test.values[0].comparators[0], 'dict threshold')
    # IMPLICIT_MODULES
    im = find_assign(pp.body, 'IMPLICIT_MODULES')
    need(isinstance(im, ast.Set) and all(isinstance(e, ast.Constant) and isinstance(e.value, str) for e in im.elts),
         'IMPLICIT_MODULES = {str, ...}')
    mods = sorted(e.value for e in im.elts)
    # default config
    init = parse('__init__.py')
    dc = find_assign(init.body, '_default_config')
    need(isinstance(dc, ast.Dict), '_default_config = {...}')
    cfg = {}
    for k, v in zip(dc.keys, dc.values):
        need(isinstance(k, ast.Constant) and isinstance(v, ast.Constant), '_default_config literal entries')
        cfg[k.value] = v.value
    need(list(cfg) == ['indent', 'width', 'ribbon_width', 'depth', 'max_seq_len', 'sort_dict_keys'],
         '_default_config keys/order: %r' % list(cfg))

    def optz(v):
        return 'None' if v is None else '(Some %d%%Z)' % v
    need(isinstance(cfg['sort_dict_keys'], bool), 'sort_dict_keys default is a bool')
    out = ['(* GENERATED by harness/translate.py from /repo - do not edit *)',
           'From Coq Require Import ZArith List String.', 'Import ListNotations.',
           'Open Scope Z_scope.',
           'Definition max_practical_ribbon_width : Z := %d.' % mprw,
           'Definition str_floor : Z := %d.' % floor,
           'Definition str_quotes_len : Z := %d.' % sq,
           'Definition dict_break_threshold : Z := %d.' % dict_thr,
           'Definition implicit_modules : list string := [%s]%%string.' % '; '.join(coq_string(m) for m in mods),
           'Definition default_indent : option Z := %s.' % optz(cfg['indent']),
           'Definition default_width : option Z := %s.' % optz(cfg['width']),
           'Definition default_ribbon_width : option Z := %s.' % optz(cfg['ribbon_width']),
           'Definition default_depth : option Z := %s.' % optz(cfg['depth']),
           'Definition default_max_seq_len : option Z := %s.' % optz(cfg['max_seq_len']),
           'Definition default_sort_dict_keys : bool := %s.' % ('true' if cfg['sort_dict_keys'] else 'false'),
           '']
    return '\n'.join(out)


# ------------------------------------------------------------ EntryPoints --
def gen_entrypoints():
    init = parse('__init__.py')
    eps = []
    renderers = []
    ends = []
    objs = []
    for name in ('pformat', 'pprint', 'cpprint'):
        fn = find_func(init, name)
        calls = walk_find(fn, lambda n: isinstance(n, ast.Call) and isinstance(n.func, ast.Name)
                          and n.func.id == 'python_to_sdocs')
        need(len(calls) == 1, '%s: exactly one call of python_to_sdocs' % name)
        c = calls[0]
        need(len(c.args) == 1 and isinstance(c.args[0], ast.Name), '%s: python_to_sdocs(<name>, **...)' % name)
        objs.append((name, c.args[0].id == fn.args.args[0].arg and fn.args.args[0].arg == 'object'))
        need(len(c.keywords) == 1 and c.keywords[0].arg is None and isinstance(c.keywords[0].value, ast.Call)
             and isinstance(c.keywords[0].value.func, ast.Name)
             and c.keywords[0].value.func.id == '_merge_defaults' and not c.keywords[0].value.args,
             '%s: python_to_sdocs(object, **_merge_defaults(k=v, ...))' % name)
        pl = []
        for kw in c.keywords[0].value.keywords:
            need(kw.arg is not None and isinstance(kw.value, ast.Name), '%s: _merge_defaults(k=<parameter>)' % name)
            pl.append((kw.arg, kw.value.id))
        params = {a.arg for a in fn.args.args + fn.args.kwonlyargs}
        need(all(v in params for _k, v in pl), '%s: merged values are parameters' % name)
        eps.append((name, pl))
        rcalls = walk_find(fn, lambda n: isinstance(n, ast.Call) and isinstance(n.func, ast.Name)
                           and n.func.id in ('default_render_to_stream', 'colored_render_to_stream'))
        need(len(rcalls) == 1 and len(rcalls[0].args) == 2 and all(isinstance(a, ast.Name) for a in rcalls[0].args)
             and [a.id for a in rcalls[0].args] == ['stream', 'sdocs'], '%s: <renderer>(stream, sdocs, ...)' % name)
        renderers.append((name, rcalls[0].func.id))
        endifs = [n for n in fn.body if isinstance(n, ast.If) and isinstance(n.test, ast.Name) and n.test.id == 'end']
        if name == 'pformat':
            need(not endifs, 'pformat: no end handling')
            ret = fn.body[-1]
            need(isinstance(ret, ast.Return) and ast.dump(ret.value) == ast.dump(
                ast.parse('stream.getvalue()', mode='eval').body), 'pformat: return stream.getvalue()')
            ends.append((name, False))
        else:
            need(len(endifs) == 1 and ast.dump(endifs[0].body[0]) == ast.dump(
                ast.parse('stream.write(end)').body[0]) and fn.body[-1] is endifs[0],
                '%s: if end: stream.write(end) as the last statement' % name)
            ends.append((name, True))
    # _merge_defaults
    md = find_func(init, '_merge_defaults')
    expect = ast.parse(
        "def _merge_defaults(*, indent, width, depth, ribbon_width, max_seq_len, sort_dict_keys):\n"
        "    kwargs = locals()\n"
        "    return {key: kwargs[key] if kwargs[key] is not _UNSET_SENTINEL else default\n"
        "            for key, default in _default_config.items()}\n").body[0]
    need(ast.dump(md) == ast.dump(expect), '_merge_defaults has the sentinel-merge shape')
    # set_default_config
    sd = find_func(init, 'set_default_config')
    sets = []
    for n in sd.body:
        if isinstance(n, ast.If) and isinstance(n.test, ast.Compare) and isinstance(n.test.ops[0], ast.IsNot) \
                and isinstance(n.test.left, ast.Name) and isinstance(n.test.comparators[0], ast.Name) \
                and n.test.comparators[0].id == '_UNSET_SENTINEL':
            param = n.test.left.id
            need(len(n.body) == 1 and not n.orelse, 'set_default_config: single-statement if for %s' % param)
            st = n.body[0]
            if param == 'style':
                continue
            need(isinstance(st, ast.Assign) and isinstance(st.targets[0], ast.Subscript)
                 and isinstance(st.targets[0].value, ast.Name) and st.targets[0].value.id == 'new_defaults'
                 and isinstance(st.targets[0].slice, ast.Constant) and isinstance(st.value, ast.Name),
                 "set_default_config: new_defaults['K'] = <parameter>")
            sets.append((st.value.id, st.targets[0].slice.value))
            need(st.value.id == param, 'set_default_config: tests and stores the same parameter (%s)' % param)
    need(ast.dump(find_assign(sd.body, 'new_defaults')) == ast.dump(ast.parse('{**_default_config}', mode='eval').body),
         'set_default_config: new_defaults = {**_default_config}')
    need(ast.dump(find_assign(sd.body, '_default_config')) == ast.dump(ast.parse('new_defaults', mode='eval').body),
         'set_default_config: _default_config = new_defaults')
    gd = find_func(init, 'get_default_config')
    need(ast.dump(gd.body[-1]) == ast.dump(ast.parse('return MappingProxyType(_default_config)').body[0])
         if False else isinstance(gd.body[-1], ast.Return) and ast.dump(gd.body[-1].value) == ast.dump(
             ast.parse('MappingProxyType(_default_config)', mode='eval').body),
         'get_default_config: return MappingProxyType(_default_config)')

    # PrettyPrinter shim
    def forwards(method, target):
        fn = find_func(init, method, cls='PrettyPrinter')
        calls = walk_find(fn, lambda n: isinstance(n, ast.Call) and isinstance(n.func, ast.Name)
                          and n.func.id == target)
        need(len(calls) == 1, 'PrettyPrinter.%s calls %s once' % (method, target))
        c = calls[0]
        ok = len(c.args) == 2 and isinstance(c.args[0], ast.Name) and c.args[0].id == fn.args.args[1].arg \
            and isinstance(c.args[1], ast.Starred) and ast.dump(c.args[1].value) == ast.dump(
                ast.parse('self._args', mode='eval').body) \
            and len(c.keywords) == 1 and c.keywords[0].arg is None and ast.dump(c.keywords[0].value) == ast.dump(
                ast.parse('self._kwargs', mode='eval').body)
        if method == 'pformat':
            ok = ok and isinstance(fn.body[-1], ast.Return) and fn.body[-1].value is c
        return ok
    pr = find_func(init, 'pretty_repr')
    pr_ok = isinstance(pr.body[-1], ast.Return) and ast.dump(pr.body[-1].value) == ast.dump(
        ast.parse('pformat(instance)', mode='eval').body)

    def pairs(l):
        return '[' + '; '.join('(%s, %s)' % (coq_string(a), coq_string(b)) for a, b in l) + ']'

    def bools(l):
        return '[' + '; '.join('(%s, %s)' % (coq_string(a), 'true' if b else 'false') for a, b in l) + ']'
    out = ['(* GENERATED by harness/translate.py from /repo/prettyprinter/__init__.py - do not edit *)',
           'From Coq Require Import List String.', 'Import ListNotations.', 'Open Scope string_scope.',
           'Definition entry_points : list (string * list (string * string)) :=',
           '  [' + ';\n   '.join('(%s, %s)' % (coq_string(n), pairs(pl)) for n, pl in eps) + '].',
           'Definition ep_passes_object : list (string * bool) := %s.' % bools(objs),
           'Definition ep_renderer : list (string * string) := %s.' % pairs(renderers),
           'Definition ep_writes_end : list (string * bool) := %s.' % bools(ends),
           'Definition set_default_plumbing : list (string * string) := %s.' % pairs(sets),
           'Definition pp_pformat_forwards : bool := %s.' % ('true' if forwards('pformat', 'pformat') else 'false'),
           'Definition pp_pprint_forwards : bool := %s.' % ('true' if forwards('pprint', 'pprint') else 'false'),
           'Definition pretty_repr_is_pformat : bool := %s.' % ('true' if pr_ok else 'false'),
           '']
    return '\n'.join(out)


GENERATORS = {'Consts.v': gen_consts, 'EntryPoints.v': gen_entrypoints}


def generate():
    os.makedirs(os.path.join(COQ, 'Gen'), exist_ok=True)
    errs = []
    for name, fn in GENERATORS.items():
        try:
            content = fn()
        except TranslateError as e:
            errs.append('%s: %s' % (name, e))
            continue
        write_if_changed(os.path.join(COQ, 'Gen', name), content)
    if errs:
        raise TranslateError('; '.join(errs))


if __name__ == '__main__':
    generate()
    print('ok')

"""Fail-closed translator: regenerates coq/Gen/*.v from /repo's current source.

Only the finite facts the theorems mention are translated (constants, tables,
argument plumbing).  Every extractor names the construct it expects; if the
source no longer has that shape it raises TranslateError (never guesses)."""
import ast
import os

from common import COQ, REPO, write_if_changed

PKG = os.path.join(REPO, 'prettyprinter')


class TranslateError(Exception):
    pass


def parse(rel):
    path = os.path.join(PKG, rel)
    with open(path, encoding='utf-8') as f:
        return ast.parse(f.read(), filename=path)


def need(cond, what):
    if not cond:
        raise TranslateError(what)


def find_func(tree, name, cls=None):
    body = tree.body
    if cls:
        for n in body:
            if isinstance(n, ast.ClassDef) and n.name == cls:
                body = n.body
                break
        else:
            raise TranslateError('class %s not found' % cls)
    for n in body:
        if isinstance(n, ast.FunctionDef) and n.name == name:
            return n
    raise TranslateError('function %s not found' % name)


def find_assign(body, name):
    for n in body:
        if isinstance(n, ast.Assign) and len(n.targets) == 1 and \
                isinstance(n.targets[0], ast.Name) and n.targets[0].id == name:
            return n.value
    raise TranslateError('assignment to %s not found' % name)


def const_int(node, what):
    """Evaluate an int expression built from literals, +, and len('<literal>')."""
    if isinstance(node, ast.Constant) and isinstance(node.value, int) and not isinstance(node.value, bool):
        return node.value
    if isinstance(node, ast.BinOp) and isinstance(node.op, ast.Add):
        return const_int(node.left, what) + const_int(node.right, what)
    if isinstance(node, ast.Call) and isinstance(node.func, ast.Name) and node.func.id == 'len' \
            and len(node.args) == 1 and isinstance(node.args[0], ast.Constant) \
            and isinstance(node.args[0].value, str):
        return len(node.args[0].value)
    raise TranslateError('%s: not a constant int expression: %s' % (what, ast.dump(node)))


def coq_string(s):
    return '"' + s.replace('"', '""') + '"'


def coq_str_cps(s):
    return '[' + '; '.join('%d%%N' % ord(c) for c in s) + ']'


def walk_find(node, pred):
    return [n for n in ast.walk(node) if pred(n)]


# ------------------------------------------------------------------ Consts --
def gen_consts():
    pp = parse('prettyprinter.py')
    # MAX_PRACTICAL_RIBBON_WIDTH inside sequence_of_docs
    sod = find_func(pp, 'sequence_of_docs')
    mprw = const_int(find_assign(sod.body, 'MAX_PRACTICAL_RIBBON_WIDTH'), 'MAX_PRACTICAL_RIBBON_WIDTH')
    # will_break = force_break or minimum_output_len > MAX_PRACTICAL_RIBBON_WIDTH
    wb = find_assign(sod.body, 'will_break')
    need(isinstance(wb, ast.BoolOp) and isinstance(wb.op, ast.Or) and len(wb.values) == 2
         and isinstance(wb.values[1], ast.Compare) and isinstance(wb.values[1].ops[0], ast.Gt),
         'sequence_of_docs: will_break = force_break or minimum_output_len > MAX_PRACTICAL_RIBBON_WIDTH')
    # string floor: max(..., 8 + len('""')) inside pretty_str.evaluator
    ps = find_func(pp, 'pretty_str')
    ev = [n for n in ps.body if isinstance(n, ast.FunctionDef) and n.name == 'evaluator']
    need(len(ev) == 1, 'pretty_str.evaluator not found')
    floor_call = find_assign(ev[0].body, 'each_line_max_str_len')
    need(isinstance(floor_call, ast.Call) and isinstance(floor_call.func, ast.Name)
         and floor_call.func.id == 'max' and len(floor_call.args) == 2,
         'each_line_max_str_len = max(<width>, <floor>)')
    floor = const_int(floor_call.args[1], 'string floor')
    need(ast.dump(floor_call.args[0]) == ast.dump(ast.parse(
        'each_line_ends_on_col - each_line_starts_on_col - 2', mode='eval').body),
        'each_line_max_str_len first argument')
    sq = const_int(find_assign(ev[0].body, 'singleline_str_chars').right, 'singleline quotes')
    # dict: len(pairs) > 2 or has_comment
    pd = find_func(pp, 'pretty_dict')
    ifs = [n for n in pd.body if isinstance(n, ast.If) and isinstance(n.test, ast.BoolOp)
           and isinstance(n.test.values[0], ast.Compare)
           and ast.dump(n.test.values[0].left) == ast.dump(ast.parse('len(pairs)', mode='eval').body)]
    need(len(ifs) == 1 and isinstance(ifs[0].test.values[0].ops[0], ast.Gt),
         'pretty_dict: if len(pairs) > N or has_comment')
    dict_thr = const_int(ifs[0].test.values[0].comparators[0], 'dict threshold')
    # IMPLICIT_MODULES
    im = find_assign(pp.body, 'IMPLICIT_MODULES')
    need(isinstance(im, ast.Set) and all(isinstance(e, ast.Constant) and isinstance(e.value, str) for e in im.elts),
         'IMPLICIT_MODULES = {str, ...}')
    mods = sorted(e.value for e in im.elts)
    # default config
    init = parse('__init__.py')
    dc = find_assign(init.body, '_default_config')
    need(isinstance(dc, ast.Dict), '_default_config = {...}')
    cfg = {}
    for k, v in zip(dc.keys, dc.values):
        need(isinstance(k, ast.Constant) and isinstance(v, ast.Constant), '_default_config literal entries')
        cfg[k.value] = v.value
    need(list(cfg) == ['indent', 'width', 'ribbon_width', 'depth', 'max_seq_len', 'sort_dict_keys'],
         '_default_config keys/order: %r' % list(cfg))

    def optz(v):
        return 'None' if v is None else '(Some %d%%Z)' % v
    need(isinstance(cfg['sort_dict_keys'], bool), 'sort_dict_keys default is a bool')
    out = ['(* GENERATED by harness/translate.py from /repo - do not edit *)',
           'From Coq Require Import ZArith List String.', 'Import ListNotations.',
           'Open Scope Z_scope.',
           'Definition max_practical_ribbon_width : Z := %d.' % mprw,
           'Definition str_floor : Z := %d.' % floor,
           'Definition str_quotes_len : Z := %d.' % sq,
           'Definition dict_break_threshold : Z := %d.' % dict_thr,
           'Definition implicit_modules : list string := [%s]%%string.' % '; '.join(coq_string(m) for m in mods),
           'Definition default_indent : option Z := %s.' % optz(cfg['indent']),
           'Definition default_width : option Z := %s.' % optz(cfg['width']),
           'Definition default_ribbon_width : option Z := %s.' % optz(cfg['ribbon_width']),
           'Definition default_depth : option Z := %s.' % optz(cfg['depth']),
           'Definition default_max_seq_len : option Z := %s.' % optz(cfg['max_seq_len']),
           'Definition default_sort_dict_keys : bool := %s.' % ('true' if cfg['sort_dict_keys'] else 'false'),
           '']
    return '\n'.join(out)


# ------------------------------------------------------------ EntryPoints --
def gen_entrypoints():
    init = parse('__init__.py')
    eps = []
    renderers = []
    ends = []
    objs = []
    for name in ('pformat', 'pprint', 'cpprint'):
        fn = find_func(init, name)
        calls = walk_find(fn, lambda n: isinstance(n, ast.Call) and isinstance(n.func, ast.Name)
                          and n.func.id == 'python_to_sdocs')
        need(len(calls) == 1, '%s: exactly one call of python_to_sdocs' % name)
        c = calls[0]
        need(len(c.args) == 1 and isinstance(c.args[0], ast.Name), '%s: python_to_sdocs(<name>, **...)' % name)
        objs.append((name, c.args[0].id == fn.args.args[0].arg and fn.args.args[0].arg == 'object'))
        need(len(c.keywords) == 1 and c.keywords[0].arg is None and isinstance(c.keywords[0].value, ast.Call)
             and isinstance(c.keywords[0].value.func, ast.Name)
             and c.keywords[0].value.func.id == '_merge_defaults' and not c.keywords[0].value.args,
             '%s: python_to_sdocs(object, **_merge_defaults(k=v, ...))' % name)
        pl = []
        for kw in c.keywords[0].value.keywords:
            need(kw.arg is not None and isinstance(kw.value, ast.Name), '%s: _merge_defaults(k=<parameter>)' % name)
            pl.append((kw.arg, kw.value.id))
        params = {a.arg for a in fn.args.args + fn.args.kwonlyargs}
        need(all(v in params for _k, v in pl), '%s: merged values are parameters' % name)
        eps.append((name, pl))
        rcalls = walk_find(fn, lambda n: isinstance(n, ast.Call) and isinstance(n.func, ast.Name)
                           and n.func.id in ('default_render_to_stream', 'colored_render_to_stream'))
        need(len(rcalls) == 1 and len(rcalls[0].args) == 2 and all(isinstance(a, ast.Name) for a in rcalls[0].args)
             and [a.id for a in rcalls[0].args] == ['stream', 'sdocs'], '%s: <renderer>(stream, sdocs, ...)' % name)
        renderers.append((name, rcalls[0].func.id))
        endifs = [n for n in fn.body if isinstance(n, ast.If) and isinstance(n.test, ast.Name) and n.test.id == 'end']
        if name == 'pformat':
            need(not endifs, 'pformat: no end handling')
            ret = fn.body[-1]
            need(isinstance(ret, ast.Return) and ast.dump(ret.value) == ast.dump(
                ast.parse('stream.getvalue()', mode='eval').body), 'pformat: return stream.getvalue()')
            ends.append((name, False))
        else:
            need(len(endifs) == 1 and ast.dump(endifs[0].body[0]) == ast.dump(
                ast.parse('stream.write(end)').body[0]) and fn.body[-1] is endifs[0],
                '%s: if end: stream.write(end) as the last statement' % name)
            ends.append((name, True))
    # _merge_defaults
    md = find_func(init, '_merge_defaults')
    expect = ast.parse(
        "def _merge_defaults(*, indent, width, depth, ribbon_width, max_seq_len, sort_dict_keys):\n"
        "    kwargs = locals()\n"
        "    return {key: kwargs[key] if kwargs[key] is not _UNSET_SENTINEL else default\n"
        "            for key, default in _default_config.items()}\n").body[0]
    need(ast.dump(md) == ast.dump(expect), '_merge_defaults has the sentinel-merge shape')
    # set_default_config
    sd = find_func(init, 'set_default_config')
    sets = []
    for n in sd.body:
        if isinstance(n, ast.If) and isinstance(n.test, ast.Compare) and isinstance(n.test.ops[0], ast.IsNot) \
                and isinstance(n.test.left, ast.Name) and isinstance(n.test.comparators[0], ast.Name) \
                and n.test.comparators[0].id == '_UNSET_SENTINEL':
            param = n.test.left.id
            need(len(n.body) == 1 and not n.orelse, 'set_default_config: single-statement if for %s' % param)
            st = n.body[0]
            if param == 'style':
                continue
            need(isinstance(st, ast.Assign) and isinstance(st.targets[0], ast.Subscript)
                 and isinstance(st.targets[0].value, ast.Name) and st.targets[0].value.id == 'new_defaults'
                 and isinstance(st.targets[0].slice, ast.Constant) and isinstance(st.value, ast.Name),
                 "set_default_config: new_defaults['K'] = <parameter>")
            sets.append((st.value.id, st.targets[0].slice.value))
            need(st.value.id == param, 'set_default_config: tests and stores the same parameter (%s)' % param)
    need(ast.dump(find_assign(sd.body, 'new_defaults')) == ast.dump(ast.parse('{**_default_config}', mode='eval').body),
         'set_default_config: new_defaults = {**_default_config}')
    need(ast.dump(find_assign(sd.body, '_default_config')) == ast.dump(ast.parse('new_defaults', mode='eval').body),
         'set_default_config: _default_config = new_defaults')
    gd = find_func(init, 'get_default_config')
    need(ast.dump(gd.body[-1]) == ast.dump(ast.parse('return MappingProxyType(_default_config)').body[0])
         if False else isinstance(gd.body[-1], ast.Return) and ast.dump(gd.body[-1].value) == ast.dump(
             ast.parse('MappingProxyType(_default_config)', mode='eval').body),
         'get_default_config: return MappingProxyType(_default_config)')

    # PrettyPrinter shim
    def forwards(method, target):
        fn = find_func(init, method, cls='PrettyPrinter')
        calls = walk_find(fn, lambda n: isinstance(n, ast.Call) and isinstance(n.func, ast.Name)
                          and n.func.id == target)
        need(len(calls) == 1, 'PrettyPrinter.%s calls %s once' % (method, target))
        c = calls[0]
        ok = len(c.args) == 2 and isinstance(c.args[0], ast.Name) and c.args[0].id == fn.args.args[1].arg \
            and isinstance(c.args[1], ast.Starred) and ast.dump(c.args[1].value) == ast.dump(
                ast.parse('self._args', mode='eval').body) \
            and len(c.keywords) == 1 and c.keywords[0].arg is None and ast.dump(c.keywords[0].value) == ast.dump(
                ast.parse('self._kwargs', mode='eval').body)
        if method == 'pformat':
            ok = ok and isinstance(fn.body[-1], ast.Return) and fn.body[-1].value is c
        return ok
    pr = find_func(init, 'pretty_repr')
    pr_ok = isinstance(pr.body[-1], ast.Return) and ast.dump(pr.body[-1].value) == ast.dump(
        ast.parse('pformat(instance)', mode='eval').body)

    def pairs(l):
        return '[' + '; '.join('(%s, %s)' % (coq_string(a), coq_string(b)) for a, b in l) + ']'

    def bools(l):
        return '[' + '; '.join('(%s, %s)' % (coq_string(a), 'true' if b else 'false') for a, b in l) + ']'
    out = ['(* GENERATED by harness/translate.py from /repo/prettyprinter/__init__.py - do not edit *)',
           'From Coq Require Import List String.', 'Import ListNotations.', 'Open Scope string_scope.',
           'Definition entry_points : list (string * list (string * string)) :=',
           '  [' + ';\n   '.join('(%s, %s)' % (coq_string(n), pairs(pl)) for n, pl in eps) + '].',
           'Definition ep_passes_object : list (string * bool) := %s.' % bools(objs),
           'Definition ep_renderer : list (string * string) := %s.' % pairs(renderers),
           'Definition ep_writes_end : list (string * bool) := %s.' % bools(ends),
           'Definition set_default_plumbing : list (string * string) := %s.' % pairs(sets),
           'Definition pp_pformat_forwards : bool := %s.' % ('true' if forwards('pformat', 'pformat') else 'false'),
           'Definition pp_pprint_forwards : bool := %s.' % ('true' if forwards('pprint', 'pprint') else 'false'),
           'Definition pretty_repr_is_pformat : bool := %s.' % ('true' if pr_ok else 'false'),
           '']
    return '\n'.join(out)


# ------------------------------------------------------------------ Extras --
class _BoolTr:
    """Translates the field-selection loops of extras/dataclasses.py and
    extras/attrs.py into Gallina boolean functions over named atoms.  Accepts
    only: `if not <loopvar>.repr: continue`, `display_attr = True/False`,
    if/elif/else chains, `<name> = <atom expr>` aliases, no-op string asserts,
    and the final `if display_attr: kwargs.append((<v>.name, getattr(value, <v>.name)))`."""

    def __init__(self, atoms, loopvar):
        self.atoms = atoms          # {ast.dump(expr): coq name}
        self.alias = {}
        self.loopvar = loopvar

    def expr(self, e):
        d = ast.dump(e)
        if d in self.atoms:
            return self.atoms[d]
        if isinstance(e, ast.BoolOp):
            op = ' && ' if isinstance(e.op, ast.And) else ' || '
            return '(' + op.join(self.expr(v) for v in e.values) + ')'
        if isinstance(e, ast.UnaryOp) and isinstance(e.op, ast.Not):
            return '(negb %s)' % self.expr(e.operand)
        if isinstance(e, ast.Compare) and len(e.ops) == 1 and isinstance(e.ops[0], (ast.IsNot, ast.NotEq)):
            flipped = ast.Compare(left=e.left, ops=[ast.Is() if isinstance(e.ops[0], ast.IsNot) else ast.Eq()],
                                  comparators=e.comparators)
            if ast.dump(flipped) in self.atoms:
                return '(negb %s)' % self.atoms[ast.dump(flipped)]
            # default != getattr(value, name)  with an alias on the left
            if isinstance(e.ops[0], ast.NotEq) and isinstance(e.left, ast.Name) and e.left.id in self.alias:
                return self.alias[e.left.id]
        raise TranslateError('extras: condition not understood: %s' % ast.unparse(e))

    def block(self, stmts, cur):
        for st in stmts:
            if isinstance(st, ast.Assign) and len(st.targets) == 1 and isinstance(st.targets[0], ast.Name):
                name = st.targets[0].id
                if name == 'display_attr':
                    need(isinstance(st.value, ast.Constant) and isinstance(st.value.value, bool),
                         'extras: display_attr = True/False')
                    cur = 'true' if st.value.value else 'false'
                else:
                    d = ast.dump(st.value)
                    need(d in self.atoms, 'extras: alias %s = %s not understood' % (name, ast.unparse(st.value)))
                    self.alias[name] = self.atoms[d]
            elif isinstance(st, ast.If):
                c = self.expr(st.test)
                a = self.block(st.body, cur)
                b = self.block(st.orelse, cur)
                cur = '(if %s then %s else %s)' % (c, a, b)
            elif isinstance(st, ast.Assert):
                need(isinstance(st.test, ast.Constant) and isinstance(st.test.value, str), 'extras: only no-op asserts')
            elif isinstance(st, ast.Expr) and isinstance(st.value, ast.Constant):
                pass
            else:
                raise TranslateError('extras: statement not understood: %s' % ast.unparse(st))
        return cur


def _extras_loop(fn, itername):
    loops = [n for n in fn.body if isinstance(n, ast.For)]
    need(len(loops) == 1 and isinstance(loops[0].target, ast.Name) and isinstance(loops[0].iter, ast.Name)
         and loops[0].iter.id == itername, '%s: one loop over %s' % (fn.name, itername))
    lp = loops[0]
    v = lp.target.id
    body = list(lp.body)
    first = body.pop(0)
    need(ast.dump(first) == ast.dump(ast.parse('if not %s.repr:\n    continue' % v).body[0]),
         '%s: loop starts with "if not %s.repr: continue"' % (fn.name, v))
    last = body.pop()
    need(ast.dump(last) == ast.dump(ast.parse(
        'if display_attr:\n    kwargs.append((%s.name, getattr(value, %s.name)))' % (v, v)).body[0]),
        '%s: loop ends with "if display_attr: kwargs.append((name, value))"' % fn.name)
    return v, body


def gen_extras():
    dc = parse(os.path.join('extras', 'dataclasses.py'))
    fn = find_func(dc, 'pretty_dataclass_instance')
    need(ast.dump(find_assign(fn.body, 'field_defs')) == ast.dump(ast.parse('fields(value)', mode='eval').body),
         'dataclasses: field_defs = fields(value)')
    v, body = _extras_loop(fn, 'field_defs')

    def A(src):
        return ast.dump(ast.parse(src.replace('V', v), mode='eval').body)
    tr = _BoolTr({A('V.default is MISSING'): 'd_missing', A('V.default_factory is MISSING'): 'f_missing',
                  A('V.default != getattr(value, V.name)'): 'ne_default',
                  A('V.default_factory()'): 'ne_factory'}, v)
    dc_expr = tr.block(body, 'false')
    ret = fn.body[-1]
    need(isinstance(ret, ast.Return), 'dataclasses: ends with return')
    forms = {ast.dump(ast.parse('pretty_call(ctx, cls, **OrderedDict(kwargs))', mode='eval').body): 'splat',
             ast.dump(ast.parse('pretty_call_alt(ctx, cls, kwargs=kwargs)', mode='eval').body): 'alt'}
    need(ast.dump(ret.value) in forms, 'dataclasses: return pretty_call(ctx, cls, **OrderedDict(kwargs)) or '
         'pretty_call_alt(ctx, cls, kwargs=kwargs); got %s' % ast.unparse(ret.value))
    dc_form = forms[ast.dump(ret.value)]

    at = parse(os.path.join('extras', 'attrs.py'))
    fa = find_func(at, 'pretty_attrs')
    need(ast.dump(find_assign(fa.body, 'attributes')) == ast.dump(ast.parse('cls.__attrs_attrs__', mode='eval').body),
         'attrs: attributes = cls.__attrs_attrs__')
    v2, body2 = _extras_loop(fa, 'attributes')

    def B(src):
        return ast.dump(ast.parse(src.replace('V', v2), mode='eval').body)
    tr2 = _BoolTr({B('V.default == NOTHING'): 'is_nothing', B('isinstance(V.default, Factory)'): 'is_factory',
                   B('V.default != getattr(value, V.name)'): 'ne_default',
                   B('V.default.factory(value) if V.default.takes_self else V.default.factory()'): 'ne_factory'}, v2)
    at_expr = tr2.block(body2, 'false')
    ret2 = fa.body[-1]
    need(isinstance(ret2, ast.Return) and ast.dump(ret2.value) in forms, 'attrs: return pretty_call_alt(ctx, cls, kwargs=kwargs)')
    at_form = forms[ast.dump(ret2.value)]
    # pretty_call forwards *args/**kwargs to pretty_call_alt
    pp = parse('prettyprinter.py')
    pc = find_func(pp, 'pretty_call')
    need(pc.args.vararg is not None and pc.args.kwarg is not None and [a.arg for a in pc.args.args] == ['ctx', 'fn']
         and ast.dump(pc.body[-1]) == ast.dump(ast.parse('return pretty_call_alt(ctx, fn, args, kwargs)').body[0]),
         'pretty_call(ctx, fn, *args, **kwargs): return pretty_call_alt(ctx, fn, args, kwargs)')
    out = ['(* GENERATED by harness/translate.py from /repo/prettyprinter/extras - do not edit *)',
           'From Coq Require Import Bool List String.', 'Import ListNotations.',
           '(* field selection of pretty_dataclass_instance: repr flag, default is MISSING, default_factory is MISSING,',
           '   default != value, default_factory() != value *)',
           'Definition dc_display (repr d_missing f_missing ne_default ne_factory : bool) : bool :=',
           '  if negb repr then false else %s.' % dc_expr,
           '(* field selection of pretty_attrs: repr flag, default == NOTHING, isinstance(default, Factory),',
           '   factory(...) != value, default != value *)',
           'Definition attrs_display (repr is_nothing is_factory ne_factory ne_default : bool) : bool :=',
           '  if negb repr then false else %s.' % at_expr,
           '(* how the keyword arguments reach pretty_call_alt: "splat" = pretty_call(ctx, cls, **kwargs), whose own',
           '   parameters ctx / fn then collide with fields of that name; "alt" = pretty_call_alt(ctx, cls, kwargs=kwargs) *)',
           'Definition dc_call_form : string := %s.' % coq_string(dc_form),
           'Definition attrs_call_form : string := %s.' % coq_string(at_form),
           'Definition pretty_call_reserved : list string := ["ctx"; "fn"]%string.',
           '']
    return '\n'.join(out)


# ------------------------------------------------------------ Tokens/Color --
def gen_tokens():
    syn = parse('syntax.py')
    cls = [n for n in syn.body if isinstance(n, ast.ClassDef) and n.name == 'Token']
    need(len(cls) == 1, 'syntax.py: class Token')
    vals = []
    for st in cls[0].body:
        need(isinstance(st, ast.Assign) and len(st.targets) == 1 and isinstance(st.targets[0], ast.Name)
             and isinstance(st.value, ast.Constant) and isinstance(st.value.value, int), 'Token members NAME = int')
        vals.append((st.targets[0].id, st.value.value))
    col = parse('color.py')
    tbl = find_assign(col.body, '_SYNTAX_TOKEN_TO_PYGMENTS_TOKEN')
    need(isinstance(tbl, ast.Dict), '_SYNTAX_TOKEN_TO_PYGMENTS_TOKEN = {...}')
    keys = []
    for k in tbl.keys:
        need(isinstance(k, ast.Attribute) and isinstance(k.value, ast.Name) and k.value.id == 'Token',
             'table keys are Token.X')
        keys.append(k.attr)
    # the lookup in the renderer is a plain subscript of that table
    rend = find_func(col, 'colored_render_to_stream')
    subs = walk_find(rend, lambda n: isinstance(n, ast.Subscript) and isinstance(n.value, ast.Name)
                     and n.value.id == '_SYNTAX_TOKEN_TO_PYGMENTS_TOKEN')
    need(len(subs) == 1, 'colored_render_to_stream looks the token up in _SYNTAX_TOKEN_TO_PYGMENTS_TOKEN once')
    emitted = set()
    files = ['prettyprinter.py', 'pretty_stdlib.py'] + \
        [os.path.join('extras', f) for f in sorted(os.listdir(os.path.join(PKG, 'extras'))) if f.endswith('.py')]
    for rel in files:
        tree = parse(rel)
        for n in ast.walk(tree):
            if isinstance(n, ast.Attribute) and isinstance(n.value, ast.Name) and n.value.id == 'Token':
                emitted.add(n.attr)
    names = {n for n, _v in vals}
    need(emitted <= names, 'printers use unknown Token members: %r' % sorted(emitted - names))
    out = ['(* GENERATED by harness/translate.py from syntax.py, color.py and the printers - do not edit *)',
           'From Coq Require Import NArith List String.', 'Import ListNotations.', 'Open Scope string_scope.',
           'Definition token_values : list (string * N) := [%s].' % '; '.join(
               '(%s, %d%%N)' % (coq_string(n), v) for n, v in vals),
           'Definition table_tokens : list string := [%s].' % '; '.join(coq_string(k) for k in keys),
           'Definition emitted_tokens : list string := [%s].' % '; '.join(coq_string(k) for k in sorted(emitted)),
           '']
    return '\n'.join(out)


def gen_colorful():
    col = parse('color.py')
    fn = find_func(col, 'styleattrs_to_colorful')
    mods = []
    for n in ast.walk(fn):
        if isinstance(n, ast.AugAssign) and isinstance(n.op, ast.BitAnd) and isinstance(n.value, ast.Attribute) \
                and isinstance(n.value.value, ast.Name) and n.value.value.id == 'colorful':
            mods.append(n.value.attr)
    need(mods, 'styleattrs_to_colorful: c &= colorful.<modifier>')
    # the accessor built for each presence combination of color / bgcolor
    blocks = [n for n in fn.body if isinstance(n, ast.If) and ast.dump(n.test) == ast.dump(
        ast.parse("attrs['color'] or attrs['bgcolor']", mode='eval').body)]
    need(len(blocks) == 1, "styleattrs_to_colorful: if attrs['color'] or attrs['bgcolor']:")

    def run(stmts, env, attrs):
        for st in stmts:
            if isinstance(st, ast.Assign) and len(st.targets) == 1 and isinstance(st.targets[0], ast.Name) \
                    and st.targets[0].id == 'accessor':
                env['accessor'] = ev(st.value, env, attrs)
            elif isinstance(st, ast.AugAssign) and isinstance(st.target, ast.Name) and st.target.id == 'accessor' \
                    and isinstance(st.op, ast.Add):
                env['accessor'] = env['accessor'] + ev(st.value, env, attrs)
            elif isinstance(st, ast.AugAssign) and isinstance(st.target, ast.Name) and st.target.id == 'c':
                need(ast.dump(st.value) == ast.dump(ast.parse('getattr(colorful, accessor)', mode='eval').body),
                     'c &= getattr(colorful, accessor)')
                env['used'] = env['accessor']
            elif isinstance(st, ast.If):
                run(st.body if ev(st.test, env, attrs) else st.orelse, env, attrs)
            elif isinstance(st, ast.Expr) and isinstance(st.value, ast.Call) and \
                    ast.unparse(st.value.func) == 'colorful.update_palette':
                d = st.value.args[0]
                need(isinstance(d, ast.Dict) and len(d.keys) == 1 and isinstance(d.keys[0], ast.Constant),
                     'colorful.update_palette({name: ...})')
                env.setdefault('palette', []).append(d.keys[0].value)
            elif isinstance(st, ast.Expr) and isinstance(st.value, ast.Constant):
                pass
            else:
                raise TranslateError('styleattrs_to_colorful: statement not understood: %s' % ast.unparse(st))

    def ev(e, env, attrs):
        if isinstance(e, ast.Constant) and isinstance(e.value, str):
            return e.value
        if isinstance(e, ast.Name) and e.id == 'accessor':
            return env['accessor']
        if isinstance(e, ast.BinOp) and isinstance(e.op, ast.Add):
            return ev(e.left, env, attrs) + ev(e.right, env, attrs)
        if isinstance(e, ast.IfExp):
            return ev(e.body, env, attrs) if ev(e.test, env, attrs) else ev(e.orelse, env, attrs)
        if isinstance(e, ast.Subscript) and isinstance(e.value, ast.Name) and e.value.id == 'attrs' \
                and isinstance(e.slice, ast.Constant):
            return attrs[e.slice.value]
        if isinstance(e, ast.UnaryOp) and isinstance(e.op, ast.Not):
            return not ev(e.operand, env, attrs)
        raise TranslateError('styleattrs_to_colorful: expression not understood: %s' % ast.unparse(e))
    combos = []
    palette = set()
    for color in (True, False):
        for bg in (True, False):
            if not (color or bg):
                continue
            env = {'accessor': ''}
            run(blocks[0].body, env, {'color': color, 'bgcolor': bg})
            need('used' in env, 'accessor is used for color=%s bgcolor=%s' % (color, bg))
            combos.append((color, bg, env['used']))
            palette |= set(env.get('palette', []))
    try:
        import colorful.ansi as cansi
        lib_mods = sorted(cansi.MODIFIERS.keys())
    except Exception as e:  # pragma: no cover
        raise TranslateError('colorful.ansi.MODIFIERS not available: %s' % e)
    out = ['(* GENERATED by harness/translate.py from color.py and the installed colorful - do not edit *)',
           'From Coq Require Import List String Bool.', 'Import ListNotations.', 'Open Scope string_scope.',
           'Definition used_modifiers : list string := [%s].' % '; '.join(coq_string(m) for m in mods),
           'Definition colorful_modifiers : list string := [%s].' % '; '.join(coq_string(m) for m in lib_mods),
           '(* (color present, bgcolor present, the attribute name looked up on colorful) *)',
           'Definition accessors : list (bool * bool * string) := [%s].' % '; '.join(
               '(%s, %s, %s)' % ('true' if c else 'false', 'true' if b else 'false', coq_string(a)) for c, b, a in combos),
           'Definition palette_names : list string := [%s].' % '; '.join(coq_string(x) for x in sorted(palette)),
           '']
    return '\n'.join(out)


# -------------------------------------------------------------------- Lazy --
def gen_lazy():
    """the self-mutating lazily normalised FlatChoice (doctypes.py): which objects can ever be mutated"""
    dt = parse('doctypes.py')
    init = find_func(dt, '__init__', cls='FlatChoice')
    need([a.arg for a in init.args.args] == ['self', 'when_broken', 'when_flat', 'normalize_on_access']
         and len(init.args.defaults) == 1 and isinstance(init.args.defaults[0], ast.Constant)
         and isinstance(init.args.defaults[0].value, bool), 'FlatChoice.__init__(..., normalize_on_access=<bool>)')
    default_flag = init.args.defaults[0].value
    inits = {ast.unparse(st.targets[0]): ast.unparse(st.value) for st in init.body if isinstance(st, ast.Assign)}
    need(inits.get('self._broken_normalized') == 'False' and inits.get('self._flat_normalized') == 'False'
         and inits.get('self.normalize_on_access') == 'normalize_on_access',
         'FlatChoice.__init__ initialises the three flags')
    norm = find_func(dt, 'normalize', cls='FlatChoice')
    expect = ast.parse(
        "def normalize(self):\n"
        "    if self.normalize_on_access:\n"
        "        return self\n"
        "    return FlatChoice(self._when_broken, self._when_flat, normalize_on_access=True)\n").body[0]
    need(ast.dump(norm) == ast.dump(expect), 'FlatChoice.normalize returns self or a NEW FlatChoice(..., normalize_on_access=True)')

    def guard(prop, field, flag):
        fn = find_func(dt, prop, cls='FlatChoice')
        need(len(fn.body) == 2 and isinstance(fn.body[0], ast.If) and not fn.body[0].orelse
             and isinstance(fn.body[1], ast.Return) and ast.unparse(fn.body[1].value) == 'self.' + field,
             'FlatChoice.%s: one guarded update, then return self.%s' % (prop, field))
        body = fn.body[0].body
        need([ast.unparse(b) for b in body] == ['self.%s = normalize_doc(self.%s)' % (field, field), 'self.%s = True' % flag],
             'FlatChoice.%s: guarded body normalises self.%s and sets self.%s' % (prop, field, flag))

        def tr(e):
            if isinstance(e, ast.BoolOp) and isinstance(e.op, ast.And):
                return '(' + ' && '.join(tr(v) for v in e.values) + ')'
            if isinstance(e, ast.UnaryOp) and isinstance(e.op, ast.Not):
                return '(negb %s)' % tr(e.operand)
            m = {'self.normalize_on_access': 'flag', 'self._broken_normalized': 'bn', 'self._flat_normalized': 'fn'}
            need(ast.unparse(e) in m, 'FlatChoice.%s: guard term %s' % (prop, ast.unparse(e)))
            return m[ast.unparse(e)]
        return tr(fn.body[0].test)
    gb = guard('when_broken', '_when_broken', '_broken_normalized')
    gf = guard('when_flat', '_when_flat', '_flat_normalized')
    # every construction with normalize_on_access=True in the package
    sites = 0
    for rel in sorted(os.listdir(PKG)):
        if not rel.endswith('.py'):
            continue
        for n in ast.walk(parse(rel)):
            if isinstance(n, ast.Call) and any(k.arg == 'normalize_on_access' and not (
                    isinstance(k.value, ast.Constant) and k.value.value is False) for k in n.keywords):
                sites += 1
            if isinstance(n, ast.Call) and isinstance(n.func, ast.Name) and n.func.id == 'FlatChoice' and len(n.args) >= 3:
                sites += 1
    # assignments to the private fields anywhere else in doctypes.py
    writers = set()
    for cls in [n for n in dt.body if isinstance(n, ast.ClassDef)]:
        for fn in [n for n in cls.body if isinstance(n, ast.FunctionDef)]:
            for n in ast.walk(fn):
                if isinstance(n, (ast.Assign, ast.AugAssign)):
                    tg = n.targets[0] if isinstance(n, ast.Assign) else n.target
                    if isinstance(tg, ast.Attribute) and tg.attr in ('_when_broken', '_when_flat', '_broken_normalized',
                                                                     '_flat_normalized', 'normalize_on_access'):
                        writers.add('%s.%s' % (cls.name, fn.name))
    need(writers == {'FlatChoice.__init__', 'FlatChoice.when_broken', 'FlatChoice.when_flat'},
         'only __init__ and the two properties write FlatChoice fields: %r' % sorted(writers))
    out = ['(* GENERATED by harness/translate.py from doctypes.py - do not edit *)',
           'From Coq Require Import Bool.',
           'Definition fc_default_flag : bool := %s.' % ('true' if default_flag else 'false'),
           '(* guards of the self-mutating properties, over (normalize_on_access, _broken_normalized, _flat_normalized) *)',
           'Definition fc_broken_guard (flag bn fn : bool) : bool := %s.' % gb,
           'Definition fc_flat_guard (flag bn fn : bool) : bool := %s.' % gf,
           '(* number of constructions of a FlatChoice with normalize_on_access=True in the package (the one in normalize) *)',
           'Definition fc_true_flag_sites : nat := %d.' % sites,
           '']
    return '\n'.join(out)


# --------------------------------------------------------------- Promotion --
def gen_promotion():
    """shape of the promotion of a lazily registered printer (is_registered + register_pretty):
    which operations touch the shared tables, in which order"""
    pp = parse('prettyprinter.py')
    isr = find_func(pp, 'is_registered')
    src_lines = {}

    def shape_of(stmts):
        """the promotion block for one class expression: [(op, line)]"""
        ops = []
        for st in stmts:
            for n in ast.walk(st):
                if isinstance(n, ast.Call) and isinstance(n.func, ast.Attribute) and \
                        isinstance(n.func.value, ast.Name) and n.func.value.id == '_DEFERRED_DISPATCH_BY_NAME':
                    ops.append((n.func.attr + ('_default' if len(n.args) == 2 else ''), n.lineno))
                if isinstance(n, ast.Compare) and any(isinstance(o, ast.In) for o in n.ops) and any(
                        isinstance(c, ast.Name) and c.id == '_DEFERRED_DISPATCH_BY_NAME' for c in n.comparators):
                    ops.append(('contains', n.lineno))
                if isinstance(n, ast.Call) and isinstance(n.func, ast.Call) and isinstance(n.func.func, ast.Name) \
                        and n.func.func.id == 'register_pretty':
                    ops.append(('register_pretty', n.lineno))
        return sorted(ops, key=lambda x: x[1])
    ops = shape_of(isr.body)
    kinds = [k for k, _l in ops]
    need(kinds in (['get', 'register_pretty', 'get', 'register_pretty'],
                   ['contains', 'pop', 'register_pretty', 'contains', 'pop', 'register_pretty']),
         'is_registered: promotion is get+register_pretty or contains+pop+register_pretty (exact type, then supertypes): %r' % kinds)
    form = 'get_register' if kinds[0] == 'get' else 'contains_pop_register'
    # register_pretty's decorator: registry write, then pop with default
    rp = find_func(pp, 'register_pretty')
    dec = [n for n in rp.body if isinstance(n, ast.FunctionDef) and n.name == 'decorator']
    need(len(dec) == 1, 'register_pretty.decorator')
    reg = [n for n in ast.walk(dec[0]) if isinstance(n, ast.Call) and ast.unparse(n.func) == 'pretty_dispatch.register']
    pops = [n for n in ast.walk(dec[0]) if isinstance(n, ast.Call) and ast.unparse(n.func) == '_DEFERRED_DISPATCH_BY_NAME.pop']
    need(len(reg) == 1, 'decorator: one pretty_dispatch.register call')
    pop_default = len(pops) == 1 and len(pops[0].args) == 2 and isinstance(pops[0].args[1], ast.Constant) \
        and pops[0].args[1].value is None
    register_then_pop = len(pops) == 1 and reg[0].lineno < pops[0].lineno
    lines = {'first_op': ops[0][1], 'second_op': ops[1][1], 'register': reg[0].lineno,
             'pop': pops[0].lineno if pops else 0}
    out = ['(* GENERATED by harness/translate.py from prettyprinter.py (is_registered, register_pretty) - do not edit *)',
           'From Coq Require Import String Bool.',
           'Definition promotion_form : string := %s.' % coq_string(form),
           'Definition decorator_registers_then_pops : bool := %s.' % ('true' if register_then_pop else 'false'),
           'Definition decorator_pop_has_default : bool := %s.' % ('true' if pop_default else 'false'),
           '(* source lines (for the scheduler): %r *)' % lines,
           '']
    return '\n'.join(out), lines


GENERATORS = {'Consts.v': gen_consts, 'EntryPoints.v': gen_entrypoints, 'Extras.v': gen_extras, 'Tokens.v': gen_tokens, 'Colorful.v': gen_colorful, 'Lazy.v': gen_lazy, 'Promotion.v': (lambda: gen_promotion()[0])}


def generate():
    os.makedirs(os.path.join(COQ, 'Gen'), exist_ok=True)
    errs = []
    for name, fn in GENERATORS.items():
        try:
            content = fn()
        except TranslateError as e:
            errs.append('%s: %s' % (name, e))
            continue
        write_if_changed(os.path.join(COQ, 'Gen', name), content)
    if errs:
        raise TranslateError('; '.join(errs))


if __name__ == '__main__':
    generate()
    print('ok')

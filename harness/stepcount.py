"""Interpreter-step counting for C12: LINE events of sys.monitoring restricted to the code objects of
the prettyprinter package, plus the hit counts of the three triplestack.pop() statements of layout.py."""
import os
import sys
import types

TOOL = 3
_state = {'on': False, 'total': 0, 'pops': {}, 'codes': 0, 'limit': None}


class StepBudgetExceeded(BaseException):
    """raised from the monitoring callback (a BaseException: the package's own
    `except Exception` handlers must not swallow it)"""


def _codes_of(code, acc):
    acc.append(code)
    for c in code.co_consts:
        if isinstance(c, types.CodeType):
            _codes_of(c, acc)


def package_codes():
    import prettyprinter
    pkg = os.path.dirname(prettyprinter.__file__)
    seen, out = set(), []
    for name, mod in list(sys.modules.items()):
        f = getattr(mod, '__file__', None) or ''
        if not (name == 'prettyprinter' or name.startswith('prettyprinter.')) or not f.startswith(pkg):
            continue
        for obj in vars(mod).values():
            fns = []
            if isinstance(obj, types.FunctionType):
                fns.append(obj)
            elif isinstance(obj, type):
                for v in vars(obj).values():
                    if isinstance(v, types.FunctionType):
                        fns.append(v)
                    elif isinstance(v, property) and v.fget:
                        fns.append(v.fget)
                    elif isinstance(v, (staticmethod, classmethod)):
                        fns.append(v.__func__)
            for fn in fns:
                w = fn
                while hasattr(w, '__wrapped__'):
                    w = w.__wrapped__
                code = getattr(w, '__code__', None)
                if code is not None and code.co_filename.startswith(pkg) and id(code) not in seen:
                    acc = []
                    _codes_of(code, acc)
                    for c in acc:
                        if id(c) not in seen:
                            seen.add(id(c))
                            out.append(c)
    return out


def pop_lines():
    import prettyprinter.layout as L
    src = open(L.__file__).read().split('\n')
    lines = [i + 1 for i, l in enumerate(src) if 'triplestack.pop()' in l]
    return L.__file__, lines


def install():
    if _state['on']:
        return
    mon = sys.monitoring
    mon.use_tool_id(TOOL, 'verif-c12')
    lfile, plines = pop_lines()
    pl = set(plines)

    def cb(code, line):
        _state['total'] += 1
        if _state['limit'] is not None and _state['total'] > _state['limit']:
            _state['limit'] = None
            raise StepBudgetExceeded()
        if line in pl and code.co_filename == lfile:
            _state['pops'][line] = _state['pops'].get(line, 0) + 1
    mon.register_callback(TOOL, mon.events.LINE, cb)
    codes = package_codes()
    for c in codes:
        mon.set_local_events(TOOL, c, mon.events.LINE)
    _state['codes'] = len(codes)
    _state['on'] = True
    _state['pop_lines'] = plines


def measure(fn, limit=None):
    """-> (result of fn, total LINE events in the package, {pop line: hits}); with [limit] the run is
    aborted (StepBudgetExceeded) once more than that many steps have been executed"""
    install()
    _state['total'] = 0
    _state['pops'] = {}
    _state['limit'] = limit
    try:
        res = fn()
    finally:
        _state['limit'] = None
    return res, _state['total'], dict(_state['pops'])

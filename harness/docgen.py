"""Document terms over the public combinators: enumeration, random generation,
conversion to the real Doc (prettyprinter.doc) and to the driver's s-expression.

Term forms (nested tuples):
 ('N',) NIL | ('H',) HARDLINE | ('T', s) bare str | ('C', [..]) concat
 ('Ne', i, d) nest | ('G', d) group | ('AB', d) always_break | ('FC', b, f) flat_choice
 ('Fi', [..]) fill | ('An', ('oth', k) | ('tok', k), d) annotate | ('Al', d) align
 ('Hg', i, d) hang | ('L',) LINE | ('SL',) SOFTLINE
"""
import itertools

from common import cps

LEAF_TEXTS = ['a', 'bb', ' ']


def to_sexp(t):
    k = t[0]
    if k == 'N':
        return 'N'
    if k == 'H':
        return 'H'
    if k == 'T':
        return '(T %s)' % cps(t[1]) if t[1] else '(T)'
    if k == 'C':
        return '(C %s)' % ' '.join(to_sexp(x) for x in t[1]) if t[1] else '(C)'
    if k == 'Ne':
        return '(Ne %d %s)' % (t[1], to_sexp(t[2]))
    if k == 'G':
        return '(G %s)' % to_sexp(t[1])
    if k == 'AB':
        return '(AB %s)' % to_sexp(t[1])
    if k == 'FC':
        return '(FC %s %s)' % (to_sexp(t[1]), to_sexp(t[2]))
    if k == 'Fi':
        return '(Fi %s)' % ' '.join(to_sexp(x) for x in t[1]) if t[1] else '(Fi)'
    if k == 'An':
        return '(An (%s %d) %s)' % (t[1][0], t[1][1], to_sexp(t[2]))
    if k == 'Al':
        return '(Al %s)' % to_sexp(t[1])
    if k == 'Hg':
        return '(Al (Ne %d %s))' % (t[1], to_sexp(t[2]))
    if k == 'L':
        return '(FC H (T 32))'
    if k == 'SL':
        return '(FC H N)'
    raise ValueError(t)


class OtherAnn:
    """a non-token annotation value with a stable identity"""
    _cache = {}

    def __init__(self, k):
        self.k = k

    def __repr__(self):
        return 'OtherAnn(%d)' % self.k

    @classmethod
    def get(cls, k):
        """k >= 100: a NON-token annotation value that merely EQUALS a syntax token (Token is an IntEnum):
        the plain int k - 99 (100 -> 1 ... 113 -> 14), 99: True"""
        if k == 99:
            return True
        if 100 <= k <= 113:
            return k - 99
        if k not in cls._cache:
            cls._cache[k] = cls(k)
        return cls._cache[k]


def to_real(t, memo=None):
    """Build the real document through the public combinators only.  With a
    [memo] dict, equal sub-terms become ONE Python object (documents are
    immutable values; users share them)."""
    if memo is not None:
        key = repr(t)
        if key not in memo:
            memo[key] = _to_real(t, lambda x: to_real(x, memo))
        return memo[key]
    return _to_real(t, to_real)


def _to_real(t, to_real):
    from prettyprinter import doc as D
    from prettyprinter.syntax import Token
    k = t[0]
    if k == 'N':
        return D.NIL
    if k == 'H':
        return D.HARDLINE
    if k == 'T':
        return t[1]
    if k == 'C':
        return D.concat([to_real(x) for x in t[1]])
    if k == 'Ne':
        return D.nest(t[1], to_real(t[2]))
    if k == 'G':
        return D.group(to_real(t[1]))
    if k == 'AB':
        return D.always_break(to_real(t[1]))
    if k == 'FC':
        return D.flat_choice(when_broken=to_real(t[1]), when_flat=to_real(t[2]))
    if k == 'Fi':
        return D.fill([to_real(x) for x in t[1]])
    if k == 'An':
        a = Token(t[1][1]) if t[1][0] == 'tok' else OtherAnn.get(t[1][1])
        return D.annotate(a, to_real(t[2]))
    if k == 'Al':
        return D.align(to_real(t[1]))
    if k == 'Hg':
        return D.hang(t[1], to_real(t[2]))
    if k == 'L':
        return D.LINE
    if k == 'SL':
        return D.SOFTLINE
    raise ValueError(t)


def ann_out(a):
    from prettyprinter.syntax import Token
    if isinstance(a, Token):
        return 'tok:%d' % int(a)
    if isinstance(a, OtherAnn):
        return 'oth:%d' % a.k
    if a is True:
        return 'oth:99'
    if type(a) is int:
        return 'oth:%d' % (a + 99)
    val = getattr(a, 'value', None)
    if isinstance(val, str):
        return 'com:' + ','.join(str(ord(c)) for c in val)
    return 'oth:?'


def stream_out(sdocs):
    from prettyprinter.sdoctypes import SLine, SAnnotationPush, SAnnotationPop
    parts = []
    for s in sdocs:
        if isinstance(s, str):
            parts.append('T:' + ','.join(str(ord(c)) for c in s))
        elif isinstance(s, SLine):
            parts.append('L:%d' % s.indent)
        elif isinstance(s, SAnnotationPush):
            parts.append('U:' + ann_out(s.value))
        elif isinstance(s, SAnnotationPop):
            parts.append('O:' + ann_out(s.value))
        else:
            parts.append('?:' + repr(s))
    return ' '.join(parts)


def size(t):
    k = t[0]
    if k in ('N', 'H', 'T', 'L', 'SL'):
        return 1
    if k in ('C', 'Fi'):
        return 1 + sum(size(x) for x in t[1])
    if k in ('Ne', 'An', 'Hg'):
        return 1 + size(t[2])
    if k in ('G', 'AB', 'Al'):
        return 1 + size(t[1])
    if k == 'FC':
        return 1 + size(t[1]) + size(t[2])
    raise ValueError(t)


def kinds(t, acc=None):
    acc = acc if acc is not None else {}
    acc[t[0]] = acc.get(t[0], 0) + 1
    k = t[0]
    if k in ('C', 'Fi'):
        for x in t[1]:
            kinds(x, acc)
    elif k in ('Ne', 'An', 'Hg'):
        kinds(t[2], acc)
    elif k in ('G', 'AB', 'Al'):
        kinds(t[1], acc)
    elif k == 'FC':
        kinds(t[1], acc)
        kinds(t[2], acc)
    return acc


# ---------------------------------------------------------- enumeration ----
def enum_docs(n, classic=False, leaves=None, _memo={}):
    """All terms with exactly n nodes (lists of children count their members)."""
    key = (n, classic, tuple(leaves) if leaves else None)
    if key in _memo:
        return _memo[key]
    texts = leaves or LEAF_TEXTS
    res = []
    if n == 1:
        res = [('T', s) for s in texts] + [('H',), ('L',), ('SL',)]
        if not classic:
            res += [('N',), ('T', '')]
    else:
        subs = lambda m: enum_docs(m, classic, leaves)  # noqa: E731
        for d in subs(n - 1):
            res.append(('G', d))
            res.append(('Ne', 2, d))
            res.append(('AB', d))
            res.append(('Al', d))
            if not classic:
                res.append(('An', ('oth', 1), d))
        # concat / fill of 2 or 3 children
        for parts in compositions(n - 1, 2) + compositions(n - 1, 3):
            for kids in itertools.product(*[subs(m) for m in parts]):
                res.append(('C', list(kids)))
                if not classic:
                    res.append(('Fi', list(kids)))
        if not classic:
            for parts in compositions(n - 1, 2):
                for b, f in itertools.product(subs(parts[0]), subs(parts[1])):
                    res.append(('FC', b, f))
    _memo[key] = res
    return res


def compositions(total, k):
    if k == 1:
        return [(total,)] if total >= 1 else []
    out = []
    for first in range(1, total - k + 2):
        for rest in compositions(total - first, k - 1):
            out.append((first,) + rest)
    return out


# --------------------------------------------------------------- random ----
def rand_doc(r, budget, classic=False, depth=0):
    texts = ['a', 'bb', 'ccc', ' ', 'dddd ', 'x' * r.randint(1, 9)]
    if budget <= 1 or depth > 7:
        c = r.random()
        if c < 0.45:
            return ('T', r.choice(texts))
        if c < 0.65:
            return ('L',)
        if c < 0.8:
            return ('SL',)
        if c < 0.88:
            return ('H',)
        if classic:
            return ('T', r.choice(texts))
        return r.choice([('N',), ('T', ''), ('T', r.choice(texts))])
    c = r.random()
    if c < 0.34:
        k = r.randint(2, min(5, budget))
        kids = split_budget(r, budget - 1, k)
        return ('C', [rand_doc(r, b, classic, depth + 1) for b in kids])
    if c < 0.52:
        return ('G', rand_doc(r, budget - 1, classic, depth + 1))
    if c < 0.64:
        return ('Ne', r.choice([1, 2, 4, -1, 0]), rand_doc(r, budget - 1, classic, depth + 1))
    if c < 0.70:
        return ('AB', rand_doc(r, budget - 1, classic, depth + 1))
    if c < 0.76:
        return ('Al', rand_doc(r, budget - 1, classic, depth + 1))
    if classic:
        return ('G', rand_doc(r, budget - 1, classic, depth + 1))
    if c < 0.80:
        return ('Hg', r.choice([1, 2]), rand_doc(r, budget - 1, classic, depth + 1))
    if c < 0.87:
        k = r.randint(1, min(5, budget))
        kids = split_budget(r, budget - 1, k)
        return ('Fi', [rand_doc(r, b, classic, depth + 1) for b in kids])
    if c < 0.94:
        a, b = split_budget(r, budget - 1, 2)
        return ('FC', rand_doc(r, a, classic, depth + 1), rand_doc(r, b, classic, depth + 1))
    return ('An', r.choice([('oth', 1), ('oth', 2), ('tok', 6), ('tok', 13)]),
            rand_doc(r, budget - 1, classic, depth + 1))


def rand_align_doc(r, budget, depth=0):
    """align-heavy documents: nested align/hang under groups and nests"""
    texts = ['a', 'bb', 'ccc', 'x' * r.randint(1, 9)]
    if budget <= 1 or depth > 8:
        c = r.random()
        if c < 0.5:
            return ('T', r.choice(texts))
        if c < 0.75:
            return ('L',)
        if c < 0.85:
            return ('SL',)
        return ('H',)
    c = r.random()
    if c < 0.40:
        k = r.randint(2, min(4, budget))
        kids = split_budget(r, budget - 1, k)
        return ('C', [rand_align_doc(r, b, depth + 1) for b in kids])
    if c < 0.55:
        return ('G', rand_align_doc(r, budget - 1, depth + 1))
    if c < 0.70:
        return ('Ne', r.choice([1, 2, 3]), rand_align_doc(r, budget - 1, depth + 1))
    if c < 0.90:
        return ('Al', rand_align_doc(r, budget - 1, depth + 1))
    return ('Hg', r.choice([1, 2]), rand_align_doc(r, budget - 1, depth + 1))


def subterms(t, out=None):
    out = [] if out is None else out
    out.append(t)
    k = t[0]
    if k in ('C', 'Fi'):
        for x in t[1]:
            subterms(x, out)
    elif k in ('Ne', 'Hg', 'An'):
        subterms(t[2], out)
    elif k in ('G', 'AB', 'Al'):
        subterms(t[1], out)
    elif k == 'FC':
        subterms(t[1], out)
        subterms(t[2], out)
    return out


def shared_doc(r, base):
    """a document using one sub-document twice, at different indentation"""
    subs = [x for x in subterms(base) if x[0] not in ('T', 'L', 'SL', 'H', 'N')]
    cell = r.choice(subs) if subs else base
    if not (set(kinds(cell)) & {'Al', 'Hg'}) or r.random() < 0.3:
        cell = ('Al', ('C', [cell, ('H',), ('T', 'v')]))
    pre = ('T', r.choice(['a', 'ab', 'abc']))
    sep = r.choice([('H',), ('L',), ('H',)])
    second = ('Ne', r.choice([1, 2, 3, 4]), ('C', [sep, r.choice([('T', ''), pre]), cell]))
    shape = r.random()
    if shape < 0.5:
        return ('C', [pre, cell, second])
    if shape < 0.75:
        return ('G', ('C', [pre, cell, second, ('L',), base]))
    return ('C', [base, ('H',), pre, cell, second])


def split_budget(r, total, k):
    total = max(total, k)
    cuts = sorted(r.sample(range(1, total), k - 1)) if total > k - 1 and k > 1 else []
    parts = []
    prev = 0
    for c in cuts + [total]:
        parts.append(max(1, c - prev))
        prev = c
    return parts


def ribbon_width(w, frac):
    """max(0, min(w, round(frac*w))) with Python's round-half-even on the binary64 product"""
    return max(0, min(w, round(frac * w)))


# ------------------------------------------------------------- shrinking ----
def subterms_replacements(t):
    """terms obtained from t by one local simplification"""
    k = t[0]
    out = []
    if k in ('C', 'Fi'):
        kids = t[1]
        for i in range(len(kids)):
            out.append((k, kids[:i] + kids[i + 1:]))
            out.append(kids[i])
        for i, x in enumerate(kids):
            for y in subterms_replacements(x):
                out.append((k, kids[:i] + [y] + kids[i + 1:]))
    elif k in ('Ne', 'Hg'):
        out.append(t[2])
        out += [(k, t[1], y) for y in subterms_replacements(t[2])]
    elif k == 'An':
        out.append(t[2])
        out += [(k, t[1], y) for y in subterms_replacements(t[2])]
    elif k in ('G', 'AB', 'Al'):
        out.append(t[1])
        out += [(k, y) for y in subterms_replacements(t[1])]
    elif k == 'FC':
        out += [t[1], t[2]]
        out += [('FC', y, t[2]) for y in subterms_replacements(t[1])]
        out += [('FC', t[1], y) for y in subterms_replacements(t[2])]
    elif k == 'T' and len(t[1]) > 1:
        out.append(('T', t[1][:1]))
    return out


def shrink(t, still_fails, limit=400):
    """greedy delta-debugging on the term"""
    n = 0
    improved = True
    while improved and n < limit:
        improved = False
        for cand in subterms_replacements(t):
            n += 1
            if n > limit:
                break
            try:
                if size(cand) < size(t) and still_fails(cand):
                    t = cand
                    improved = True
                    break
            except Exception:
                continue
    return t

"""Object graphs for C13 / C14: heap descriptions, construction of the real
(possibly cyclic) Python objects, encoding for the model, the reference
unfolding used as oracle, and the instrumented user class whose printer can
be made to fail."""
import re
import warnings

import valgen
from common import cps, run_driver, from_cps

EXC_CLASSES = {}


class CustomError(Exception):
    pass


for _e in (ValueError, TypeError, KeyError, RuntimeError, RecursionError, CustomError, ArithmeticError,
           StopIteration, StopAsyncIteration, AssertionError, NotImplementedError, UnicodeError, UserWarning):
    EXC_CLASSES[_e.__name__] = _e


class Abort(BaseException):
    """not an Exception: escapes every printer-failure handler (like KeyboardInterrupt)"""


class GBase:
    def __repr__(self):
        # the repr a failing printer falls back to is arbitrary text: several lines (also with the other line
        # boundaries str.splitlines knows) for every fourth object
        base = object.__repr__(self)
        k = getattr(self, 'idx', 0) % 8
        if k == 1:
            return base + '(\n[[1, 2],\n [3, 4]])'
        if k == 5:
            return base + ' a\x0cb\u2028c\r'
        return base


class GObj(GBase):
    """object with a registered printer pretty_call(ctx, target, *args)"""
    def __init__(self, cname, idx, fault='none', exc='ValueError'):
        self.cname, self.idx, self.fault, self.exc = cname, idx, fault, exc
        self.args = []


class GObjP(GBase):
    """the same, but its printer is registered through a PREDICATE (objects with an index divisible by 3);
    NOT a subclass of GObj: a class registration anywhere in the MRO would win over the predicate"""
    __init__ = GObj.__init__


class GObjNBase(GBase):
    """its printer is registered BY NAME for this base class and never for the subclass below; no instance of
    the base itself is ever printed, so the promotion happens through a subclass instance"""
    __init__ = GObj.__init__


class GObjN(GObjNBase):
    pass


class Marker:
    def __init__(self, text):
        self.text = text


_registered = [False]


def ensure_registered():
    if _registered[0]:
        return
    from prettyprinter import register_pretty, pretty_call

    def boom(value):
        # exception texts are arbitrary: braces, percent signs, backslashes, line breaks for the
        # objects with an even index
        if value.idx % 2:
            return 'boom-%d' % value.idx
        return 'boom-%d {field} {} {0 } %%s %%(x)s \\ \n {{' % value.idx

    def is_pred_obj(value):
        return type(value) is GObjP

    @register_pretty(GObjNBase.__module__ + '.' + GObjNBase.__qualname__)
    @register_pretty(predicate=is_pred_obj)
    @register_pretty(GObj)
    def gobj_printer(value, ctx):
        if value.fault == 'raise':
            raise EXC_CLASSES[value.exc](boom(value))
        if value.fault == 'abort':
            raise Abort('abort-%d' % value.idx)
        if value.fault == 'nondoc':
            return 42
        # printers thread their own state to their children through the public context API
        if value.idx % 2:
            ctx = ctx.assoc('gobj-level', ctx.get('gobj-level', 0) + 1).assoc('owner', value.idx)
        doc = pretty_call(ctx, valgen.call_target(value.cname), *value.args)
        if value.fault == 'after':
            raise EXC_CLASSES[value.exc](boom(value))
        return doc

    @register_pretty(Marker)
    def marker_printer(value, ctx):
        return value.text
    _registered[0] = True


def build(heap):
    """heap: list of ('leaf', term) | ('list', [r]) | ('tuple', [r]) | ('dict', [(k, v)]) |
    ('user', cname, fault, [r], excname).  Tuples may only refer to tuples of lower index.
    -> list of objects"""
    ensure_registered()
    objs = [None] * len(heap)
    for i, n in enumerate(heap):
        if n[0] == 'leaf':
            objs[i] = valgen.build(n[1])[0]
        elif n[0] == 'list':
            objs[i] = []
        elif n[0] == 'dict':
            objs[i] = {}
        elif n[0] == 'user':
            objs[i] = (GObjP if i % 3 == 0 else GObjN if i % 3 == 1 else GObj)(
                n[1], i, n[2], n[4] if len(n) > 4 else 'ValueError')
    for i, n in enumerate(heap):
        if n[0] == 'tuple':
            assert all(heap[r][0] != 'tuple' or r < i for r in n[1])
            objs[i] = tuple(objs[r] for r in n[1])
    for i, n in enumerate(heap):
        if n[0] == 'list':
            objs[i].extend(objs[r] for r in n[1])
        elif n[0] == 'dict':
            for k, v in n[1]:
                objs[i][objs[k]] = objs[v]
        elif n[0] == 'user':
            objs[i].args = [objs[r] for r in n[3]]
    return objs


def marker_text(o):
    return '<Recursion on {} with id={}>'.format(type(o).__name__, id(o))


def request(heap, objs, root, cfg):
    def node_sx(n):
        if n[0] == 'leaf':
            return '(leaf %s)' % valgen.build(n[1])[1]
        if n[0] in ('list', 'tuple'):
            return '(%s %s)' % (n[0], ' '.join(str(r) for r in n[1]))
        if n[0] == 'dict':
            return '(dict %s)' % ' '.join('(%d %d)' % kv for kv in n[1])
        return '(user %s %s (%s))' % (valgen.cls_sx(valgen.call_target(n[1])), n[2], ' '.join(str(r) for r in n[3]))
    infos = []
    for o, n in zip(objs, heap):
        if n[0] == 'leaf':
            infos.append('(() ())')
        else:
            infos.append('((%s) (%s))' % (cps(marker_text(o)), cps(safe_repr(o))))
    w = cfg.get('width', 79)
    return '(graph %d %d %d %d (%s) (%s))' % (root, cfg.get('indent', 4), w,
                                              valgen.effective_rw(w, cfg.get('ribbon_width', 71)),
                                              ' '.join(node_sx(n) for n in heap), ' '.join(infos))


def safe_repr(o):
    try:
        return repr(o)
    except RecursionError:
        return '<unrepresentable>'


def dedupe_keys(heap):
    """dict pairs whose key OBJECTS are equal collapse in Python: keep the heap honest by
    dropping later pairs with an equal key"""
    objs = build(heap)
    out = []
    for n in heap:
        if n[0] == 'dict':
            seen, pairs = [], []
            for k, v in n[1]:
                ko = objs[k]
                if any(ko is s or (type(ko) is type(s) and ko == s) or ko == s for s in seen):
                    continue
                seen.append(ko)
                pairs.append((k, v))
            n = ('dict', pairs)
        out.append(n)
    return out


def run_timeout():
    import os
    return 40 if os.environ.get('VERIF_RUNNING_TIER', 'quick') == 'quick' else 400


MAX_TIMEOUTS = 3
TIMEOUTS = [0]


class RunTimeout(BaseException):
    pass


def _alarm(_s, _f):
    raise RunTimeout()


def run_impl(obj, cfg):
    """-> (text | 'EXC <type>', [warning messages]); 'EXC RunTimeout' when the call does not return within
    run_timeout() seconds; after MAX_TIMEOUTS such calls nothing more is printed ('EXC skipped')"""
    import signal
    import threading
    from prettyprinter import pformat
    if TIMEOUTS[0] >= MAX_TIMEOUTS:
        return 'EXC skipped-after-timeouts', []
    use_alarm = threading.current_thread() is threading.main_thread()
    with warnings.catch_warnings(record=True) as ws:
        warnings.simplefilter('always')
        if use_alarm:
            old = signal.signal(signal.SIGALRM, _alarm)
            signal.setitimer(signal.ITIMER_REAL, run_timeout())
        try:
            out = pformat(obj, **cfg)
        except Exception as e:
            out = 'EXC %s' % type(e).__name__
        except Abort:
            out = 'ABORTED'
        except RunTimeout:
            out = 'EXC RunTimeout'
            TIMEOUTS[0] += 1
        finally:
            if use_alarm:
                signal.setitimer(signal.ITIMER_REAL, 0)
                signal.signal(signal.SIGALRM, old)
    return out, [str(w.message) for w in ws]


def parse_w(x):
    x = x.strip()
    return (int(x[:-1]), True) if x.endswith('e') else (int(x), False)


def run_model(reqs):
    res = run_driver([valgen.uni_request()] + reqs, shards=8)[1:]
    out = []
    for line in res:
        if line.startswith('R '):
            text, _, rest = line[2:].partition(' | W ')
            ws, _, vis = rest.partition(' | V ')
            out.append((from_cps(text.strip()), [parse_w(x) for x in ws.split(',') if x.strip()], int(vis or 0)))
        elif line.startswith('X'):
            ws = line.partition(' | W ')[2]
            out.append(('EXC ValueError', [parse_w(x) for x in ws.split(',') if x.strip()], None))
        else:
            out.append((line, [], None))
    return out


BOOM = re.compile(r'boom-(\d+)')


def warning_keys(msgs, objs):
    """one key per 'raised an exception' warning: the index of the failing GObj when its
    own exception is named, else the type the failing printer was printing"""
    out = []
    for m in msgs:
        if 'raised an exception' not in m:
            out.append('other:' + m[:40])
            continue
        b = BOOM.findall(m)
        head = m.split('raised an exception')[0]
        if b and ('gobj_printer' in head or '_repr_pretty' in head):   # predicate printers run inside _repr_pretty
            out.append(int(b[-1]))
        else:
            mt = re.match(r'The pretty printer for (\w+),', m)
            out.append('T:' + (mt.group(1) if mt else '?'))
    return out


def model_warning_keys(refs, heap, objs):
    out = []
    for r, escaped in refs:
        n = heap[r]
        if n[0] == 'user' and n[2] in ('raise', 'after') and not escaped:
            out.append(r)                      # its own exception: the message names boom-<r>
        else:
            out.append('T:' + type(objs[r]).__name__)
    return out


# ------------------------------------------------------------ reference -----
def unfold(o, ancestors, failing=None):
    """acyclic copy: back-references (objects among the ancestors) become Marker objects;
    objects in [failing] become Marker(repr)"""
    if any(o is a for a in ancestors):
        return Marker(marker_text(o))
    if failing is not None and any(o is f for f in failing):
        return Marker(safe_repr(o))
    from prettyprinter.prettyprinter import _CommentedValue, _TrailingCommentedValue
    if isinstance(o, (_CommentedValue, _TrailingCommentedValue)):
        # comment wrappers are not containers: same ancestors, same wrapper around the copy
        from prettyprinter import comment, trailing_comment
        inner = unfold(o.value, ancestors, failing)
        return (comment if isinstance(o, _CommentedValue) else trailing_comment)(inner, o.comment)
    anc = ancestors + [o]
    if type(o) is list:
        return [unfold(x, anc, failing) for x in o]
    if type(o) is tuple:
        return tuple(unfold(x, anc, failing) for x in o)
    if type(o) is dict:
        return {unfold(k, anc, failing): unfold(v, anc, failing) for k, v in o.items()}
    if isinstance(o, GBase):
        c = type(o)(o.cname, o.idx)
        c.args = [unfold(x, anc, failing) for x in o.args]
        if len(o.args) == 1 and type(o.args[0]) in (list, dict, tuple) and isinstance(c.args[0], Marker):
            # pretty_call hugs a sole list/dict/tuple argument by the TYPE of the object: f(<text>)
            # has no break opportunity
            return Marker('valgen.%s(%s)' % (o.cname, c.args[0].text))
        return c
    return o


# ------------------------------------------------------------ generation ----
def rand_heap(r, n, faults=False, nondoc=False):
    heap = []
    kinds = ['list', 'list', 'dict', 'tuple', 'user', 'leaf', 'leaf']
    for i in range(n):
        heap.append(r.choice(kinds))
    leaf_terms = [('int', 1), ('int', 22), ('str', 'a'), ('none',), ('str', 'some words'), ('float', 1.5)]
    out = []
    for i, k in enumerate(heap):
        def refs(m, pool=None):
            pool = pool if pool is not None else list(range(n))
            return [r.choice(pool) for _ in range(r.randint(0, m))] if pool else []
        if k == 'leaf':
            out.append(('leaf', r.choice(leaf_terms)))
        elif k == 'list':
            out.append(('list', refs(3)))
        elif k == 'tuple':
            pool = [j for j in range(n) if heap[j] != 'tuple' or j < i]
            out.append(('tuple', refs(3, pool)))
        elif k == 'dict':
            keys = [j for j in range(n) if heap[j] in ('leaf', 'user')]
            out.append(('dict', [(r.choice(keys), r.randrange(n)) for _ in range(r.randint(0, 3))] if keys else []))
        else:
            fault = 'none'
            if faults and r.random() < 0.4:
                fault = r.choice(['raise', 'raise', 'after'] + (['nondoc'] if nondoc else []))
            out.append(('user', r.choice(['make', 'Thing']), fault, refs(3), r.choice(sorted(EXC_CLASSES))))
    return dedupe_keys(out)


def hashable_ok(heap):
    """dict keys must be hashable objects (leaves, user objects)"""
    return all(heap[k][0] in ('leaf', 'user') for n in heap if n[0] == 'dict' for k, _v in n[1])

"""Engine-level correspondence (DESIGN.md 3.2(1)): the complete SDoc stream of
layout_smart / layout_fast and default_render_to_str against the extracted model."""
import sys

from common import run_driver, cps, from_cps
import docgen


def space_table():
    return [c for c in range(sys.maxunicode + 1) if chr(c).isspace()]


def space_request():
    return '(space %s)' % ' '.join(str(c) for c in space_table())


def impl_layout(real, smart, w, frac):
    from prettyprinter.layout import layout_smart, layout_fast
    from prettyprinter.render import default_render_to_str
    try:
        sd = list((layout_smart if smart else layout_fast)(real, width=w, ribbon_frac=frac))
    except RecursionError:
        raise
    except Exception as e:  # mapped to a small enum
        return 'EXC ' + type(e).__name__
    text = default_render_to_str(list(sd))
    return 'S ' + docgen.stream_out(sd) + ' | R ' + ','.join(str(ord(c)) for c in text)


def diff_engine(terms, configs, shards=16):
    """terms: list of doc terms; configs: list of (smart, w, frac).
    Returns (n_cases, disagreements[list of dict], impl_results)"""
    reqs = [space_request()]
    impl = []
    meta = []
    for ti, t in enumerate(terms):
        try:
            real = docgen.to_real(t)
            err = None
        except Exception as e:
            real = None
            err = 'EXC-BUILD ' + type(e).__name__
        sx = docgen.to_sexp(t)
        for (smart, w, frac) in configs:
            rw = docgen.ribbon_width(w, frac)
            reqs.append('(layout %d %d %d %s)' % (1 if smart else 0, w, rw, sx))
            impl.append(err if err else impl_layout(real, smart, w, frac))
            meta.append((ti, smart, w, frac, rw))
    out = run_driver(reqs, shards=shards)[1:]
    dis = []
    for k, (a, b) in enumerate(zip(impl, out)):
        if a != b:
            ti, smart, w, frac, rw = meta[k]
            dis.append({'term': terms[ti], 'smart': smart, 'width': w, 'ribbon_frac': frac,
                        'ribbon_width': rw, 'impl': a, 'model': b})
    return len(impl), dis, impl, meta

"""Value terms for the printer-level checks: generation, construction of the real
Python value, encoding to the model's pyval s-expression (observing what the
model takes as given: set iteration order, sorted() order, repr(float), class
names).

Term forms:
 ('int', z) ('bool', b) ('none',) ('ellipsis',) ('float', x) ('str', s) ('bytes', b)
 ('list', [t..]) ('tuple', [t..]) ('set', [t..]) ('frozenset', [t..]) ('dict', [(kt, vt)..])
 ('sub', flavor, t)        flavor in FLAVORS; instance of a user subclass of the built-in type of t
 ('commented', t, text) ('trailing', t, text)
 ('call', cname, [t..], [(kw, t)..])   object whose printer is pretty_call_alt(ctx, cls, args, kwargs)
 ('path', clsname, posix)
"""
import enum
import math
import pathlib
import sys

from common import cps

FLAVORS = ['plain', 'reprov', 'strov', 'ducky', 'mainnest', 'maintop', 'modnest']
BASES = {'list': list, 'tuple': tuple, 'set': set, 'frozenset': frozenset, 'dict': dict, 'str': str,
         'bytes': bytes, 'int': int, 'float': float}
_classes = {}


class MainOuter:
    """stands for a class of the running script that holds nested classes"""


class Holder:
    """a class of this module that holds nested classes"""


class _Scope:
    pass


MAIN_SCOPE = _Scope()         # top-level names of the "running script" (eval scope of the oracles)
MainOuter.__module__ = '__main__'
MAIN_SCOPE.MainOuter = MainOuter


def subclass(base, flavor):
    key = (base, flavor)
    if key not in _classes:
        ns = {}
        if flavor == 'reprov':
            ns['__repr__'] = lambda self: '<REPR-OVERRIDE>'
        elif flavor == 'strov':
            ns['__str__'] = lambda self: '<STR-OVERRIDE>'
        elif flavor == 'ducky':
            # attributes other kinds of values are recognised by (namedtuple, struct sequence, enum, dataclass
            # look-alikes) - but never all of those a recogniser asks for: still a plain subclass instance
            ns.update({'__slots__': (), '_fields': ('id', 'name'), '_make': classmethod(lambda cls, it: cls(it)),
                       '_asdict': lambda self: {}, 'n_fields': 2, 'n_sequence_fields': 2,
                       'name': 'NAME', 'value': 'VALUE', '__match_args__': ('id',)})
        name = 'My%s_%s' % (base.capitalize(), flavor)
        cls = type(name, (BASES[base],), ns)
        if flavor in ('mainnest', 'maintop'):
            # classes of the running script: printed without a module prefix, a nested one by its QUALIFIED name
            cls.__module__ = '__main__'
            cls.__qualname__ = ('MainOuter.' + name) if flavor == 'mainnest' else name
            setattr(MainOuter if flavor == 'mainnest' else MAIN_SCOPE, name, cls)
        elif flavor == 'modnest':
            cls.__module__ = 'valgen'
            cls.__qualname__ = 'Holder.' + name
            setattr(Holder, name, cls)
        else:
            cls.__module__ = 'valgen'
            cls.__qualname__ = name
            setattr(sys.modules[__name__], name, cls)
        _classes[key] = cls
    return _classes[key]


class Color(enum.IntEnum):
    RED = 1
    GREEN = 2


Color.__module__ = 'valgen'


class UserObj:
    """object printed through pretty_call_alt"""
    def __init__(self, cname, args, kwargs):
        self.cname, self.args, self.kwargs = cname, args, kwargs

    def __eq__(self, other):
        return isinstance(other, UserObj) and (self.cname, self.args, self.kwargs) == \
            (other.cname, other.args, other.kwargs)

    def __hash__(self):
        return id(self)


_call_targets = {}


def call_target(cname):
    """a callable with a stable qualified name that rebuilds a UserObj"""
    if cname not in _call_targets:
        def fn(*args, **kwargs):
            return UserObj(cname, tuple(args), list(kwargs.items()))
        fn.__module__ = 'valgen'
        fn.__qualname__ = fn.__name__ = cname
        _call_targets[cname] = fn
        setattr(sys.modules[__name__], cname, fn)
    return _call_targets[cname]


_registered = [False]


def ensure_registered():
    if _registered[0]:
        return
    from prettyprinter import register_pretty, pretty_call_alt

    @register_pretty(UserObj)
    def _p(value, ctx):
        return pretty_call_alt(ctx, call_target(value.cname), args=arg_container(value), kwargs=kw_container(value))
    _registered[0] = True


def kw_container(value):
    """pretty_call_alt documents kwargs as "an OrderedDict, dict, or an iterable of two-tuples": the same pairs are
    handed over as a list, tuple, dict, OrderedDict, generator, zip or list iterator, chosen by the object's own
    contents (stable across prints).  An EMPTY kwargs stays a list: an empty generator is truthy, which only
    changes whether a sole argument is hugged."""
    kws = list(value.kwargs)
    if not kws:
        return kws
    mode = sum(map(ord, value.cname + ''.join(k for k, _ in kws))) % 7
    if mode == 0:
        return kws
    if mode == 1:
        return tuple(kws)
    if mode == 2:
        return dict(kws)
    if mode == 3:
        import collections
        return collections.OrderedDict(kws)
    if mode == 4:
        return (kv for kv in kws)
    if mode == 5:
        return zip([k for k, _ in kws], [x for _, x in kws])
    return iter(kws)


def arg_container(value):
    return list(value.args) if (len(value.cname) + len(value.kwargs)) % 2 else tuple(value.args)


def base_kind(t):
    while t[0] in ('commented', 'trailing'):
        t = t[1]
    return t[0]


def hashable(t):
    k = t[0]
    if k in ('int', 'bool', 'none', 'ellipsis', 'float', 'str', 'bytes', 'path'):
        return True
    if k in ('tuple', 'frozenset'):
        return all(hashable(x) for x in t[1])
    if k in ('commented', 'trailing', 'call'):
        return True
    if k == 'sub':
        return t[2][0] in ('tuple', 'frozenset', 'str', 'bytes', 'int', 'float') and hashable(t[2])
    return False


def float_sx(x):
    if math.isnan(x):
        return 'nan'
    if x == math.inf:
        return 'inf'
    if x == -math.inf:
        return 'neginf'
    return '(float %s)' % cps(float.__repr__(x))


def cls_sx(obj):
    mod, qn = obj.__module__, obj.__qualname__
    if mod == 'builtins':
        return '(2 %s)' % cps(qn)
    if mod == '__main__':
        return '(4 %s)' % cps(qn)
    return '(4 %s)' % cps('%s.%s' % (mod, qn))


def build(t):
    """-> (python value, model s-expression)"""
    from prettyprinter import comment, trailing_comment
    k = t[0]
    if k == 'int':
        return t[1], '(int %d)' % t[1]
    if k == 'bool':
        return t[1], '(bool %d)' % (1 if t[1] else 0)
    if k == 'none':
        return None, 'none'
    if k == 'ellipsis':
        return ..., 'ellipsis'
    if k == 'float':
        return t[1], float_sx(t[1])
    if k == 'str':
        return t[1], '(str %s)' % cps(t[1]) if t[1] else '(str)'
    if k == 'bytes':
        return t[1], '(bytes %s)' % cps(t[1]) if t[1] else '(bytes)'
    if k in ('list', 'tuple'):
        vs = [build(x) for x in t[1]]
        val = [v for v, _ in vs]
        return (val if k == 'list' else tuple(val)), '(%s %s)' % (k, ' '.join(s for _, s in vs))
    if k in ('set', 'frozenset'):
        vs = [build(x) for x in t[1]]
        s = set()
        for v, _ in vs:
            s.add(v)
        val = s if k == 'set' else frozenset(s)
        enc = []
        for e in val:          # observed iteration order
            for v, sx in vs:
                if v is e:
                    enc.append(sx)
                    break
            else:
                raise ValueError('set element without term')
        return val, '(%s %s)' % (k, ' '.join(enc))
    if k == 'dict':
        d = {}
        enc = {}
        for kt, vt in t[1]:
            kv, ks = build(kt)
            if kv in d:
                continue
            vv, vs = build(vt)
            d[kv] = vv
            enc[id(kv)] = (kv, ks, vs)
        keys = list(d.keys())
        pairs = [enc[id(key)] for key in keys]
        from prettyprinter.prettyprinter import _AlwaysSortable
        srt = sorted(keys, key=_AlwaysSortable)
        order = [next(i for i, k2 in enumerate(keys) if k2 is s) for s in srt]
        return d, '(dict (%s) (%s))' % (' '.join('(%s %s)' % (ks, vs) for _kv, ks, vs in pairs),
                                       ' '.join(str(i) for i in order))
    if k == 'sub':
        flavor, inner = t[1], t[2]
        iv, isx = build(inner)
        if flavor == 'intenum':
            val = Color(iv)
            return val, '(sub %s %s)' % (cls_sx(Color), isx)
        cls = subclass(inner[0], flavor)
        val = cls(iv)
        return val, '(sub %s %s)' % (cls_sx(cls), isx)
    if k == 'commented':
        iv, isx = build(t[1])
        return comment(iv, t[2]), '(commented %s (%s))' % (isx, cps(t[2]))
    if k == 'trailing':
        iv, isx = build(t[1])
        return trailing_comment(iv, t[2]), '(trailing %s (%s))' % (isx, cps(t[2]))
    if k == 'call':
        ensure_registered()
        args = [build(x) for x in t[2]]
        kws = [(kw, build(x)) for kw, x in t[3]]
        val = UserObj(t[1], tuple(v for v, _ in args), [(kw, v) for kw, (v, _) in kws])
        return val, '(call %s (%s) (%s))' % (cls_sx(call_target(t[1])), ' '.join(s for _, s in args),
                                             ' '.join('((%s) %s)' % (cps(kw), s) for kw, (_, s) in kws))
    if k == 'path':
        cls = getattr(pathlib, t[1])
        val = cls(t[2])
        return val, '(path %s (%s))' % (cls_sx(cls), cps(val.as_posix()))
    if k == 'std':
        return build_std(t)
    raise ValueError(t)


FACTORIES = {'list': list, 'int': int, 'dict': dict, 'set': set, 'float': float, 'str': str}
EXCS = {'ValueError': ValueError, 'KeyError': KeyError, 'OSError': OSError, 'Exception': Exception,
        'StopIteration': StopIteration, 'ZeroDivisionError': ZeroDivisionError}
PARTIAL_FUNCS = {'int': int, 'sorted': sorted, 'print': print, 'max': max}


def _dict_parts(pairs):
    """-> (python dict, 'KVS ORDER' part of the model's dict s-expression)"""
    d, sx = build(('dict', pairs))
    assert sx.startswith('(dict ') and sx.endswith(')')
    return d, sx[len('(dict '):-1]


def build_std(t):
    """standard-library collections (Model/StdColl.v): ('std', kind, ...) -> (object, s-expression)"""
    import collections
    import functools
    import types
    kind = t[1]
    if kind == 'ordered':
        d, part = _dict_parts(t[2])            # insertion order = order of the pairs
        kvs = part[:part.rindex('(')].rstrip()
        return collections.OrderedDict(d), '(std ordered %s %s)' % (cls_sx(collections.OrderedDict), kvs)
    if kind == 'deque':
        els = [build(x) for x in t[2]]
        ml = t[3]
        if ml is not None:
            els = els[-ml:] if ml else []
        val = collections.deque([v for v, _ in els], maxlen=ml)
        return val, '(std deque %s (%s) %s)' % (cls_sx(collections.deque), ' '.join(sx for _, sx in els),
                                                'none' if ml is None else ml)
    if kind == 'default':
        d, part = _dict_parts(t[3])
        f = FACTORIES[t[2]] if t[2] else None
        return collections.defaultdict(f, d), '(std default %s %s %s)' % (
            cls_sx(collections.defaultdict), '(repr %s)' % cps(t[2]) if t[2] else 'none', part)
    if kind == 'counter':
        c = collections.Counter()
        terms = {}
        for kt, n in t[2]:
            kv, _ = build(kt)
            if kv not in c:
                terms[id(kv)] = (kv, kt)
                c[kv] = n
        # dict(counter.most_common()): the keys of the counter itself, in most_common order
        mc = [(next(kt for kv, kt in terms.values() if kv is key), ('int', n)) for key, n in c.most_common()]
        _d, part = _dict_parts(mc)
        return c, '(std counter %s %s)' % (cls_sx(collections.Counter), part)
    if kind == 'chain':
        maps = [_dict_parts(m) for m in t[2]]
        return collections.ChainMap(*[d for d, _ in maps]), '(std chain %s %s)' % (
            cls_sx(collections.ChainMap), ' '.join('(%s)' % part for _, part in maps))
    if kind == 'proxy':
        d, part = _dict_parts(t[2])
        return types.MappingProxyType(d), '(std proxy %s %s)' % (cls_sx(types.MappingProxyType), part)
    if kind == 'exc':
        args = [build(x) for x in t[3]]
        cls = EXCS[t[2]]
        val = cls(*[v for v, _ in args])
        # what is printed is type(exc) and exc.args: OSError(errno, strerror, filename) keeps two of its three
        # arguments in .args (and picks a subclass by errno) - exactly as repr() shows it
        args = args[:len(val.args)]
        return val, '(std exc %s (%s))' % (cls_sx(type(val)), ' '.join(sx for _, sx in args))
    if kind == 'partial':
        args = [build(x) for x in t[3]]
        kws = [(kw, build(x)) for kw, x in t[4]]
        val = functools.partial(PARTIAL_FUNCS[t[2]], *[v for v, _ in args], **{kw: v for kw, (v, _) in kws})
        fsx = '(repr %s)' % cps(t[2])
        if not isinstance(PARTIAL_FUNCS[t[2]], type):
            fsx = '(commented %s (%s))' % (fsx, cps('built-in function'))     # pretty_builtin_function's own comment
        return val, '(std partial %s %s (%s) (%s))' % (
            cls_sx(functools.partial), fsx, ' '.join(sx for _, sx in args),
            ' '.join('((%s) %s)' % (cps(kw), sx) for kw, (_, sx) in kws))
    if kind == 'uuid':
        import uuid
        val = uuid.UUID(int=t[2])
        return val, '(std uuid %s (%s))' % (cls_sx(uuid.UUID), cps(str(val)))
    if kind == 'namespace':
        attrs = [(k, build(x)) for k, x in t[2]]
        val = types.SimpleNamespace()
        for k, (v, _sx) in attrs:          # insertion order = order of the pairs
            setattr(val, k, v)
        names = [k for k, _ in attrs]
        order = [names.index(k) for k in sorted(names)]
        return val, '(std namespace %s (%s) (%s))' % (
            cls_sx(types.SimpleNamespace), ' '.join('((%s) %s)' % (cps(k), sx) for k, (_, sx) in attrs),
            ' '.join(str(i) for i in order))
    if kind == 'namedtuple':
        fields = [(k, build(x)) for k, x in t[3]]
        cls = namedtuple_class(t[2], tuple(k for k, _ in fields))
        val = cls(*[v for _k, (v, _sx) in fields])
        return val, '(std namedtuple %s (%s))' % (cls_sx(cls), ' '.join('((%s) %s)' % (cps(k), sx) for k, (_, sx) in fields))
    raise ValueError(t)


_nt_classes = {}


def namedtuple_class(name, fields):
    import collections
    key = (name, fields)
    if key not in _nt_classes:
        cls = collections.namedtuple(name, fields)
        cls.__module__ = 'valgen'
        cls.__qualname__ = '%s_%d' % (name, len(_nt_classes))
        setattr(sys.modules[__name__], cls.__qualname__, cls)
        _nt_classes[key] = cls
    return _nt_classes[key]


def rand_std(r):
    """a random standard-library collection over small built-in value trees"""
    def val():
        return rand_val(r, r.randint(1, 5), set())

    def key():
        return r.choice([('int', r.randint(-3, 30)), ('str', r.choice(['b', 'a', 'zz', 'k' * r.randint(1, 12)])),
                         ('tuple', [('int', r.randint(0, 3))]), ('bytes', b'x'), ('float', 2.5), ('none',)])

    def pairs(n=None):
        return [(key(), val()) for _ in range(r.randint(0, 5) if n is None else n)]
    kind = r.choice(['ordered', 'deque', 'default', 'counter', 'chain', 'proxy', 'exc', 'partial', 'uuid', 'namespace',
                     'namedtuple'])
    if kind == 'uuid':
        return ('std', 'uuid', r.choice([0, 7, 2 ** 128 - 1, r.getrandbits(128)]))
    if kind == 'namespace':
        names = r.sample(['b', 'a', 'zz', 'ctx', 'fn', 'value', 'long_attribute_name', 'B', '_p'], r.randint(0, 4))
        return ('std', 'namespace', [(k, val()) for k in names])
    if kind == 'namedtuple':
        names = r.sample(['x', 'y', 'name', 'ctx', 'fn', 'items', 'a1'], r.randint(1, 4))
        return ('std', 'namedtuple', r.choice(['Point', 'Rec']), [(k, val()) for k in names])
    if kind == 'ordered':
        return ('std', 'ordered', pairs())
    if kind == 'deque':
        return ('std', 'deque', [val() for _ in range(r.randint(0, 5))], r.choice([None, None, 0, 1, 3, 10]))
    if kind == 'default':
        return ('std', 'default', r.choice([None] + sorted(FACTORIES)), pairs())
    if kind == 'counter':
        return ('std', 'counter', [(key(), r.choice([1, 1, 2, 3, 0, -1, 10 ** 12])) for _ in range(r.randint(0, 5))])
    if kind == 'chain':
        return ('std', 'chain', [pairs() for _ in range(r.choice([0, 1, 1, 2, 3]))])
    if kind == 'proxy':
        return ('std', 'proxy', pairs())
    if kind == 'exc':
        return ('std', 'exc', r.choice(sorted(EXCS)), [val() for _ in range(r.randint(0, 3))])
    return ('std', 'partial', r.choice(sorted(PARTIAL_FUNCS)), [val() for _ in range(r.randint(0, 2))],
            [(kw, val()) for kw in r.sample(['key', 'reverse', 'sep', 'base', 'default'], r.randint(0, 2))])


# ---------------------------------------------------------------- leaves ----
LEAVES = [
    ('int', 0), ('int', -1), ('int', 2 ** 70), ('int', 12345), ('bool', True), ('bool', False), ('none',),
    ('ellipsis',), ('float', 0.0), ('float', -0.0), ('float', math.inf), ('float', -math.inf),
    ('float', math.nan), ('float', 1e22), ('float', 1.5), ('str', ''), ('str', 'a'), ('str', "'"),
    ('str', '"\\'), ('str', 'ab cd' * 6), ('str', "it's \"q\""), ('str', 'café \U0001F600\x00\x85'),
    ('bytes', b''), ('bytes', b'\x00"'), ('bytes', b"a'b c" * 5),
]
ALPHABET = ["'", '"', '\\', ' ', '\n', 'a', 'b', 'é', '\U0001F600', '\x00', '\x85', '-', '/', '\t', 'Z']
BALPHABET = [b"'", b'"', b'\\', b' ', b'\n', b'a', b'\x00', b'\xff', b'-']
COMMENT_TEXTS = ['c', 'a comment with several words', 'two\nlines', 'a\n\nb', '# hash [x] "q" \'s\'', '  lead',
                 'trail  ', '\n', 'x' * 30 + ' ' + 'y' * 30, 'tab\tsep\x0bvt', ' ', 'café   sep',
                 # every line boundary str.splitlines knows must stay inside '#' comments; template characters are data
                 'first\rsecond', 'cr\r\nlf\rx\x0cff\x1cfs\x85nel\u2028ls\u2029ps', 'see {docs} and {0} %s {{x}} {']


def rand_str(r, maxlen=40):
    n = r.choice([0, 1, 2, 3, 5, 8, 13, 21, maxlen])
    return ''.join(r.choice(ALPHABET) if r.random() < 0.6 else r.choice('abcdefgh ') for _ in range(n))


def rand_bytes(r, maxlen=30):
    n = r.choice([0, 1, 2, 5, 9, maxlen])
    return b''.join(r.choice(BALPHABET) if r.random() < 0.6 else bytes([r.choice(b'abcd ')]) for _ in range(n))


PUNCT = ['/', '.', '-', ':', '?', '&', '=', '+', '#', '%', '@', '~', '\x00', '\x7f', '://', '--', '\\', "'", '"']


def rand_punct_text(r, isbytes, nwords=None):
    """words joined by punctuation and control characters, NO whitespace: the splitter has to fall back on
    its non-word pattern (URLs, paths, dotted names, query strings)"""
    n = nwords or r.choice([2, 4, 9, 17, 30])
    words = ['www', 'example', 'com', 'User', 'john_doe', 'x' * r.randint(1, 25), 'image0001', 'q', '1500',
             'caf\xe9', '_', 'A1']
    out = []
    for k in range(n):
        out.append(r.choice(words))
        if k < n - 1 or r.random() < 0.3:
            out.append(r.choice(PUNCT) * r.choice([1, 1, 1, 2, 5]))
    if r.random() < 0.2:
        out.insert(0, r.choice(PUNCT))
    t = ''.join(out)
    return t.encode('latin-1') if isbytes else t


def rand_leaf(r):
    x = r.random()
    if x < 0.45:
        return r.choice(LEAVES)
    if x < 0.6:
        return ('int', r.choice([1, 7, -3, 10 ** r.randint(1, 25), -10 ** r.randint(1, 12)]))
    if x < 0.8:
        return ('str', rand_str(r))
    if x < 0.9:
        return ('bytes', rand_bytes(r))
    return ('float', r.choice([0.1, -2.5e-7, 3.0, 1e100, 5e-324, 123456.789]))


def rand_val(r, budget, features, depth=0, need_hashable=False):
    """features: set of {'sub', 'comment', 'trailing', 'call', 'path'}"""
    if budget <= 1 or depth > 5:
        t = rand_leaf(r)
    else:
        x = r.random()
        if x < 0.22:
            t = ('list', [rand_val(r, b, features, depth + 1) for b in split(r, budget - 1, r.randint(0, 4))])
            if need_hashable:
                t = ('tuple', [rand_val(r, b, features, depth + 1, True) for b in split(r, budget - 1, r.randint(0, 3))])
        elif x < 0.40:
            t = ('tuple', [rand_val(r, b, features, depth + 1, need_hashable)
                           for b in split(r, budget - 1, r.randint(0, 4))])
        elif x < 0.50:
            t = (r.choice(['set', 'frozenset']) if not need_hashable else 'frozenset',
                 [rand_val(r, b, features, depth + 1, True) for b in split(r, budget - 1, r.randint(0, 4))])
        elif x < 0.72 and not need_hashable:
            n = r.randint(0, 4)
            bs = split(r, budget - 1, 2 * n) if n else []
            t = ('dict', [(rand_val(r, bs[2 * i], features, depth + 1, True),
                           rand_val(r, bs[2 * i + 1], features, depth + 1)) for i in range(n)])
        elif x < 0.80 and 'call' in features and not need_hashable:
            na, nk = r.randint(0, 3), r.randint(0, 2)
            bs = split(r, budget - 1, na + nk) if na + nk else []
            t = ('call', r.choice(['make', 'Thing', 'f']),
                 [rand_val(r, bs[i], features, depth + 1) for i in range(na)],
                 [(r.choice(['x', 'key', 'long_keyword_name']) + str(i), rand_val(r, bs[na + i], features, depth + 1))
                  for i in range(nk)])
        elif x < 0.84 and 'path' in features:
            t = ('path', r.choice(['PurePosixPath', 'PureWindowsPath']),
                 '/'.join(r.choice(['usr', 'a b', 'x' * 12, '..', 'café']) for _ in range(r.randint(1, 9))))
        else:
            t = rand_leaf(r)
    if 'sub' in features and r.random() < 0.15 and t[0] in BASES and (not need_hashable or hashable(('sub', 'plain', t))):
        if t[0] == 'float' and (math.isnan(t[1]) or math.isinf(t[1])) and False:
            pass
        if t[0] == 'int' and t[1] in (1, 2) and r.random() < 0.5:
            t = ('sub', 'intenum', t)
        else:
            t = ('sub', r.choice(FLAVORS), t)
    if 'comment' in features and r.random() < 0.12:
        t = ('commented', t, r.choice(COMMENT_TEXTS))
    if 'trailing' in features and r.random() < 0.08:
        t = ('trailing', t, r.choice(COMMENT_TEXTS))
    return t


def split(r, total, k):
    if k <= 0:
        return []
    total = max(total, k)
    cuts = sorted(r.sample(range(1, total), k - 1)) if k > 1 and total > k - 1 else []
    parts, prev = [], 0
    for c in cuts + [total]:
        parts.append(max(1, c - prev))
        prev = c
    while len(parts) < k:
        parts.append(1)
    return parts[:k]


def vsize(t):
    k = t[0]
    if k in ('list', 'tuple', 'set', 'frozenset'):
        return 1 + sum(vsize(x) for x in t[1])
    if k == 'dict':
        return 1 + sum(vsize(a) + vsize(b) for a, b in t[1])
    if k == 'sub':
        return 1 + vsize(t[2])
    if k in ('commented', 'trailing'):
        return 1 + vsize(t[1])
    if k == 'call':
        return 1 + sum(vsize(x) for x in t[2]) + sum(vsize(x) for _k, x in t[3])
    return 1


def vkinds(t, acc=None):
    acc = acc if acc is not None else {}
    acc[t[0]] = acc.get(t[0], 0) + 1
    k = t[0]
    if k in ('list', 'tuple', 'set', 'frozenset'):
        for x in t[1]:
            vkinds(x, acc)
    elif k == 'dict':
        for a, b in t[1]:
            vkinds(a, acc)
            vkinds(b, acc)
    elif k == 'sub':
        vkinds(t[2], acc)
    elif k in ('commented', 'trailing'):
        vkinds(t[1], acc)
    elif k == 'call':
        for x in t[2]:
            vkinds(x, acc)
        for _k, x in t[3]:
            vkinds(x, acc)
    return acc


# ------------------------------------------------------------ unicode -------
def ranges(pred):
    out = []
    start = None
    for c in range(sys.maxunicode + 1):
        if pred(c):
            if start is None:
                start = c
        elif start is not None:
            out.append((start, c - 1))
            start = None
    if start is not None:
        out.append((start, sys.maxunicode))
    return out


_uni = [None]


def uni_request():
    """character classes of the running interpreter"""
    if _uni[0] is None:
        import re
        ws = re.compile(r'\s')
        wd = re.compile(r'\w')

        def sx(rs):
            return '(%s)' % ' '.join('(%d %d)' % ab for ab in rs)
        pr = ranges(lambda c: chr(c).isprintable())
        sp = ranges(lambda c: chr(c).isspace())
        sp2 = ranges(lambda c: ws.match(chr(c)) is not None)
        assert sp == sp2, 're \\s differs from str.isspace'
        w = ranges(lambda c: wd.match(chr(c)) is not None)
        lb = ranges(lambda c: len(('a' + chr(c) + 'b').splitlines()) == 2)
        _uni[0] = '(uni %s %s %s %s)' % (sx(pr), sx(sp), sx(w), sx(lb))
    return _uni[0]


def effective_rw(width, ribbon_width):
    """the integer ribbon width best_layout computes from python_to_sdocs' ribbon_frac"""
    frac = min(1.0, ribbon_width / width)
    return max(0, min(width, round(frac * width)))


def pformat_request(sx, cfg):
    import sys as _s
    depth = 'none' if cfg.get('depth') is None else str(cfg['depth'])
    msl = cfg.get('max_seq_len', 1000)
    msl = _s.maxsize if msl is None else msl
    w = cfg.get('width', 79)
    return '(pformat %d %d %d %s %d %d %s)' % (
        cfg.get('indent', 4), w, effective_rw(w, cfg.get('ribbon_width', 71)), depth, msl,
        1 if cfg.get('sort_dict_keys', False) else 0, sx)


def dedupe(t):
    """drop set elements / dict pairs whose key equals an earlier one once comment
    wrappers are removed (a wrapper hashes by identity, so the commented value would
    otherwise have MORE elements than the value without its comments)"""
    import printercheck as PC
    k = t[0]
    if k in ('list', 'tuple'):
        return (k, [dedupe(x) for x in t[1]])
    if k in ('set', 'frozenset'):
        seen, out = [], []
        for x in t[1]:
            x = dedupe(x)
            v, _ = build(PC.strip_comments_term(x))
            if any(v is s or (v == s and hash(v) == hash(s)) for s in seen):
                continue
            seen.append(v)
            out.append(x)
        return (k, out)
    if k == 'dict':
        seen, out = [], []
        for a, b in t[1]:
            a = dedupe(a)
            v, _ = build(PC.strip_comments_term(a))
            if any(v is s or (v == s and hash(v) == hash(s)) for s in seen):
                continue
            seen.append(v)
            out.append((a, dedupe(b)))
        return (k, out)
    if k == 'sub':
        return (k, t[1], dedupe(t[2]))
    if k in ('commented', 'trailing'):
        return (k, dedupe(t[1]), t[2])
    if k == 'call':
        return (k, t[1], [dedupe(x) for x in t[2]], [(kw, dedupe(x)) for kw, x in t[3]])
    return t

"""Printer-level correspondence (DESIGN.md 3.2(2)) shared by C01-C03, C08-C11, C17:
pformat(value, **cfg) of the implementation against the extracted model
pformat_model, character for character, plus helpers for the property oracles."""
import ast
import io
import json
import math
import tokenize
import warnings

import valgen
from common import run_driver, from_cps


def comparable(v):
    """all dicts inside v have mutually comparable keys (sorted() is then deterministic)"""
    try:
        if isinstance(v, dict):
            sorted(v.keys())
            return all(comparable(k) and comparable(x) for k, x in v.items())
        if isinstance(v, (list, tuple, set, frozenset)):
            return all(comparable(x) for x in v)
        if type(v).__name__ in ('_CommentedValue', '_TrailingCommentedValue'):
            return comparable(v.value)
        if isinstance(v, valgen.UserObj):
            return all(comparable(x) for x in v.args) and all(comparable(x) for _k, x in v.kwargs)
        return True
    except TypeError:
        return False


class PrintTimeout(BaseException):
    """a single pformat call ran longer than print_timeout() seconds (a check must end on code that does not)"""


def print_timeout():
    import os
    return 40 if os.environ.get('VERIF_RUNNING_TIER', 'quick') == 'quick' else 200


MAX_TIMEOUTS = 3          # after this many calls that did not return, a run stops printing further cases
TIMEOUTS = [0]


def _alarm(_sig, _frm):
    raise PrintTimeout()


def call_with_timeout(fn, seconds=None):
    """-> fn() ; raises PrintTimeout when it does not return within the per-call limit (main thread only)"""
    import signal
    import threading
    if threading.current_thread() is not threading.main_thread():
        return fn()
    old = signal.signal(signal.SIGALRM, _alarm)
    signal.setitimer(signal.ITIMER_REAL, seconds or print_timeout())
    try:
        return fn()
    finally:
        signal.setitimer(signal.ITIMER_REAL, 0)
        signal.signal(signal.SIGALRM, old)


def impl_pformat(v, cfg):
    """-> (text or 'EXC <type>', [warning messages]); 'EXC PrintTimeout' when the call does not return"""
    import signal
    import threading
    from prettyprinter import pformat
    use_alarm = threading.current_thread() is threading.main_thread()
    with warnings.catch_warnings(record=True) as ws:
        warnings.simplefilter('always')
        if use_alarm:
            old = signal.signal(signal.SIGALRM, _alarm)
            signal.setitimer(signal.ITIMER_REAL, print_timeout())
        try:
            out = pformat(v, **cfg)
        except RecursionError:
            out = 'EXC RecursionError'
        except Exception as e:
            out = 'EXC %s' % type(e).__name__
        except PrintTimeout:
            out = 'EXC PrintTimeout'
            TIMEOUTS[0] += 1
        finally:
            if use_alarm:
                signal.setitimer(signal.ITIMER_REAL, 0)
                signal.signal(signal.SIGALRM, old)
    return out, [str(w.message) for w in ws]


class Case:
    __slots__ = ('term', 'value', 'sx', 'cfg', 'text', 'warnings', 'model', 'origin')


def run_cases(cases):
    """cases: list of (origin, term, cfg).  Builds each value once per term
    object, runs implementation and model.  -> list of Case"""
    reqs = [valgen.uni_request()]
    out = []
    built = {}
    for origin, term, cfg in cases:
        if TIMEOUTS[0] >= MAX_TIMEOUTS:
            break                      # the calls that hung are reported; do not sit through more of them
        key = id(term)
        if key not in built:
            built[key] = valgen.build(term)
        v, sx = built[key]
        c = Case()
        c.origin, c.term, c.value, c.sx, c.cfg = origin, term, v, sx, cfg
        c.text, c.warnings = impl_pformat(v, cfg)
        reqs.append(valgen.pformat_request(sx, cfg))
        out.append(c)
    res = run_driver(reqs, shards=16)[1:]
    for c, line in zip(out, res):
        c.model = from_cps(line[2:]) if line.startswith('R ') else line
    return out


def disagreements(cases):
    return [c for c in cases if c.text != c.model]


def case_json(c):
    return {'term': jsonable(c.term), 'cfg': c.cfg, 'impl': c.text, 'model': c.model, 'warnings': c.warnings[:2]}


def jsonable(t):
    if isinstance(t, tuple):
        return ['__t__'] + [jsonable(x) for x in t]
    if isinstance(t, list):
        return [jsonable(x) for x in t]
    if isinstance(t, bytes):
        return {'__bytes__': list(t)}
    if isinstance(t, float):
        if math.isnan(t):
            return {'__float__': 'nan'}
        if math.isinf(t):
            return {'__float__': 'inf' if t > 0 else '-inf'}
        return {'__float__': t.hex()}
    return t


def unjson(x):
    if isinstance(x, list):
        if x and x[0] == '__t__':
            return tuple(unjson(y) for y in x[1:])
        return [unjson(y) for y in x]
    if isinstance(x, dict):
        if '__bytes__' in x:
            return bytes(x['__bytes__'])
        if '__float__' in x:
            f = x['__float__']
            return float(f) if f in ('nan', 'inf', '-inf') else float.fromhex(f)
    return x


# ------------------------------------------------------------- oracles ------
def strict_equal(a, b):
    """structural equality with exactly the same type at every position; floats
    by sign of zero / nan-ness; dict entries in the same order; sets as sets"""
    if type(a) is not type(b):
        return False
    if isinstance(a, float):
        if math.isnan(a) or math.isnan(b):
            return math.isnan(a) and math.isnan(b)
        return a == b and math.copysign(1.0, a) == math.copysign(1.0, b)
    if isinstance(a, (list, tuple)):
        return len(a) == len(b) and all(strict_equal(x, y) for x, y in zip(a, b))
    if isinstance(a, (set, frozenset)):
        if len(a) != len(b):
            return False
        rest = list(b)
        for x in a:
            for i, y in enumerate(rest):
                if strict_equal(x, y):
                    del rest[i]
                    break
            else:
                return False
        return True
    if isinstance(a, dict):
        return len(a) == len(b) and all(strict_equal(k1, k2) and strict_equal(v1, v2)
                                        for (k1, v1), (k2, v2) in zip(a.items(), b.items()))
    if isinstance(a, valgen.UserObj):
        return a.cname == b.cname and strict_equal(list(a.args), list(b.args)) and \
            strict_equal([list(kv) for kv in a.kwargs], [list(kv) for kv in b.kwargs])
    return a == b


def eval_text(text):
    import pathlib
    ns = {'valgen': valgen, 'pathlib': pathlib, 'float': float, 'frozenset': frozenset, 'set': set}
    ns.update(vars(valgen.MAIN_SCOPE))       # the names a running script would have at top level
    return eval('(' + text + '\n)', ns)


def parse_text(text, unordered_sets=False):
    tree = ast.parse('(' + text + '\n)', mode='eval')
    if unordered_sets:
        _SortSets().visit(tree)
    return ast.dump(tree)


class _SortSets(ast.NodeTransformer):
    """set displays and the list inside frozenset([...]) / FrozensetSubclass([...]) in a canonical
    order: the iteration order of a set depends on the hashes of its elements, which differ
    between a value and the same value with comment wrappers on elements"""
    def visit_Set(self, node):
        self.generic_visit(node)
        node.elts = sorted(node.elts, key=ast.dump)
        return node

    def visit_Call(self, node):
        self.generic_visit(node)
        name = ast.unparse(node.func).lower()
        if 'frozenset' in name.split('.')[-1] and len(node.args) == 1 and isinstance(node.args[0], ast.List):
            node.args[0].elts = sorted(node.args[0].elts, key=ast.dump)
        return node


def _tokens(text):
    """tokens of the text enclosed in parentheses; [] when it does not tokenize
    (callers decide validity through ast / eval first)"""
    try:
        return list(tokenize.generate_tokens(io.StringIO('(' + text + '\n)').readline))
    except (tokenize.TokenError, SyntaxError, IndentationError):
        return []


def comments_of(text):
    """COMMENT tokens of the text, in order (text enclosed in parentheses)"""
    return [tok.string for tok in _tokens(text) if tok.type == tokenize.COMMENT]


def string_tokens(text):
    return [tok.string for tok in _tokens(text) if tok.type == tokenize.STRING]


def strip_comments_term(t):
    k = t[0]
    if k in ('commented', 'trailing'):
        return strip_comments_term(t[1])
    if k in ('list', 'tuple', 'set', 'frozenset'):
        return (k, [strip_comments_term(x) for x in t[1]])
    if k == 'dict':
        return (k, [(strip_comments_term(a), strip_comments_term(b)) for a, b in t[1]])
    if k == 'sub':
        return (k, t[1], strip_comments_term(t[2]))
    if k == 'call':
        return (k, t[1], [strip_comments_term(x) for x in t[2]], [(kw, strip_comments_term(x)) for kw, x in t[3]])
    return t


def std_cfgs(r, n, widths=None, with_depth=False, with_msl=False, sort=None):
    out = []
    for _ in range(n):
        w = r.choice(widths or [1, 2, 3, 5, 8, 13, 21, 40, 79, 200])
        cfg = dict(indent=r.randint(1, 8), width=w,
                   ribbon_width=r.choice([1, max(1, w // 2), w, 200]))
        if with_depth:
            cfg['depth'] = r.choice([None, 0, 1, 2, 3, 4])
        if with_msl:
            cfg['max_seq_len'] = r.choice([1, 2, 3, 5, None, 1000])
        if sort is not None:
            cfg['sort_dict_keys'] = sort
        out.append(cfg)
    return out


# ------------------------------------------------- token-level correspondence --
def etoks_request(sx, cfg):
    import sys as _s
    depth = 'none' if cfg.get('depth') is None else str(cfg['depth'])
    msl = cfg.get('max_seq_len', 1000)
    msl = _s.maxsize if msl is None else msl
    return '(etoks %s %d %d %s)' % (depth, msl, 1 if cfg.get('sort_dict_keys', False) else 0, sx)


def token_disagreements(cases, limit=3):
    """The specification side of the denotation theorem against CPython's parser: the canonical
    rendering of etoks(expr_of v) (one literal per string, no comments, no redundant parentheses)
    must parse to the same syntax tree as the text pformat produced.  Cases whose output is not an
    expression at all are left to the property oracle.  -> (number compared, [descriptions])"""
    reqs = [valgen.uni_request()]
    idx = []
    for k, c in enumerate(cases):
        if c.text.startswith('EXC '):
            continue
        reqs.append(etoks_request(c.sx, c.cfg))
        idx.append(k)
    res = run_driver(reqs, shards=16)[1:]
    bad = []
    n = 0
    for k, line in zip(idx, res):
        c = cases[k]
        if not line.startswith('K'):
            bad.append('model etoks failed: %s' % line[:80])
            continue
        src = ''.join(chr(int(x)) for x in line[1:].split()) if line[1:].strip() else ''
        try:
            want = ast.dump(ast.parse('(' + src + '\n)', mode='eval'))
        except SyntaxError:
            bad.append('etoks(expr_of v) is not an expression: %r for %s' % (src[:120], json.dumps(jsonable(c.term))[:200]))
            continue
        try:
            got = ast.dump(ast.parse('(' + c.text + '\n)', mode='eval'))
        except SyntaxError:
            continue
        n += 1
        if got != want and len(bad) < 50:
            bad.append('ast of the output differs from ast of etoks(expr_of v): %r vs spec %r (cfg %r)' % (
                c.text[:160], src[:160], c.cfg))
    return n, bad[:limit] if len(bad) <= limit else bad[:limit] + ['... %d in total' % len(bad)]

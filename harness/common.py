"""Shared machinery of the checks: paths, build (translator -> Gen/*.v -> make ->
extraction -> driver), the model driver, evidence/replay writing, known findings.

Everything is rebuilt from /repo's current working tree on every run; nothing
is cached across source edits except through make's dependency tracking (the
generated Gen/*.v files are only rewritten when their content changes)."""
import fcntl
import hashlib
import json
import os
import random
import re
import subprocess
import sys
import time

VERIF = os.path.dirname(os.path.dirname(os.path.abspath(__file__)))
REPO = os.environ.get('VERIF_REPO', '/repo')
COQ = os.path.join(VERIF, 'coq')
EXTRACT = os.path.join(VERIF, 'extract')
BUILD = os.path.join(VERIF, 'build')
DRIVER = os.path.join(BUILD, 'ppdriver')
EVIDENCE = os.path.join(VERIF, 'evidence')
REPLAYS = os.path.join(VERIF, 'replays')
CORPUS = os.path.join(VERIF, 'corpus')
GUARD = 'TOMMIKAIKKONEN_PRETTYPRINTER_VERIF'

os.environ.setdefault('PYTHONHASHSEED', '0')
os.environ[GUARD] = '1'
if REPO not in sys.path:
    sys.path.insert(0, REPO)

FORBIDDEN = re.compile(
    r'\b(Admitted|admit|Axiom|Axioms|Parameter|Parameters|Conjecture|Conjectures|'
    r'Hypothesis|Hypotheses|Variable|Variables|Unset\s+Guard|bypass_check|'
    r'Admit\s+Obligations|type-in-type|impredicative-set)\b')


def seed():
    return int(os.environ.get('VERIF_SEED', '0') or 0)


def sh(cmd, cwd=None, timeout=3000, check=True, env=None):
    p = subprocess.run(cmd, shell=True, cwd=cwd, timeout=timeout, env=env,
                       stdout=subprocess.PIPE, stderr=subprocess.STDOUT, text=True)
    if check and p.returncode != 0:
        raise BuildError(cmd, p.stdout)
    return p.returncode, p.stdout


class BuildError(Exception):
    def __init__(self, cmd, out):
        super().__init__('%s failed:\n%s' % (cmd, out[-4000:]))
        self.cmd = cmd
        self.out = out


class Lock:
    def __enter__(self):
        os.makedirs(BUILD, exist_ok=True)
        self.f = open(os.path.join(BUILD, '.lock'), 'w')
        fcntl.flock(self.f, fcntl.LOCK_EX)
        return self

    def __exit__(self, *a):
        fcntl.flock(self.f, fcntl.LOCK_UN)
        self.f.close()


def grep_gate():
    """Reject forbidden vernacular anywhere in coq/ (Variable/Hypothesis are
    allowed only inside a Section: checked by counting Section/End nesting)."""
    bad = []
    for root, _d, files in os.walk(COQ):
        for fn in files:
            if not fn.endswith('.v'):
                continue
            path = os.path.join(root, fn)
            depth = 0
            incomment = 0
            for ln, line in enumerate(open(path, encoding='utf-8'), 1):
                code = strip_comments(line)
                if re.match(r'\s*Section\s', code):
                    depth += 1
                elif re.match(r'\s*End\s', code) and depth > 0:
                    depth -= 1
                for m in FORBIDDEN.finditer(code):
                    w = m.group(1)
                    if w.startswith(('Variable', 'Hypothes')) and depth > 0:
                        continue
                    bad.append('%s:%d: %s' % (os.path.relpath(path, VERIF), ln, w))
    return bad


def strip_comments(line):
    # single-line approximation, sufficient for the gate: drop (* ... *) spans
    return re.sub(r'\(\*.*?\*\)', '', line)


def src_hash(paths):
    h = hashlib.sha256()
    for p in sorted(paths):
        h.update(p.encode())
        with open(p, 'rb') as f:
            h.update(f.read())
    return h.hexdigest()


def coq_files(sub):
    d = os.path.join(COQ, sub)
    return sorted(os.path.join(d, f) for f in os.listdir(d) if f.endswith('.v')) \
        if os.path.isdir(d) else []


def write_if_changed(path, content):
    old = None
    if os.path.exists(path):
        with open(path, encoding='utf-8') as f:
            old = f.read()
    if old != content:
        with open(path, 'w', encoding='utf-8') as f:
            f.write(content)
        return True
    return False


def make_coq(targets=None, timeout=2400):
    """Full .vo build of the requested targets (default: everything)."""
    if not os.path.exists(os.path.join(COQ, 'Makefile')) or \
            os.path.getmtime(os.path.join(COQ, 'Makefile')) < os.path.getmtime(os.path.join(COQ, '_CoqProject')):
        sh('coq_makefile -f _CoqProject -o Makefile', cwd=COQ)
    tg = ' '.join(targets) if targets else ''
    return sh('timeout %d make -j16 %s' % (timeout, tg), cwd=COQ, timeout=timeout + 60, check=False)


def refresh_coqproject():
    files = []
    for sub in ('Gen', 'Model', 'Proofs', 'Props'):
        files += [os.path.relpath(f, COQ) for f in coq_files(sub)]
    content = '-Q Gen PP\n-Q Model PP\n-Q Proofs PP\n-Q Props PP\n-Q Extract PP\n' + \
        '\n'.join(files) + '\n'
    write_if_changed(os.path.join(COQ, '_CoqProject'), content)


def build_driver(force=False):
    """Extract the model and compile the OCaml driver when the model changed."""
    srcs = coq_files('Model') + coq_files('Gen') + [os.path.join(COQ, 'Extract', 'Extract.v'),
                                  os.path.join(EXTRACT, 'driver.ml'),
                                  os.path.join(EXTRACT, 'main.ml')]
    stamp = os.path.join(BUILD, 'driver.stamp')
    h = src_hash(srcs)
    if not force and os.path.exists(DRIVER) and os.path.exists(stamp) and open(stamp).read() == h:
        return False
    sh('timeout 600 coqc -Q ../coq/Gen PP -Q ../coq/Model PP -Q ../coq/Extract PP ../coq/Extract/Extract.v',
       cwd=EXTRACT)
    sh('ocamlfind ocamlopt -w -a pp.mli pp.ml driver.ml main.ml -o %s && rm -f *.cm* *.o' % DRIVER,
       cwd=EXTRACT)
    with open(stamp, 'w') as f:
        f.write(h)
    return True


def _big_stack():
    """the extracted model recurses on the system stack (non-tail-recursive list functions of the
    standard extraction): give the driver as much as the hard limit allows"""
    import resource
    try:
        soft, hard = resource.getrlimit(resource.RLIMIT_STACK)
        want = hard if hard != resource.RLIM_INFINITY else resource.RLIM_INFINITY
        resource.setrlimit(resource.RLIMIT_STACK, (want, hard))
    except Exception:
        pass


def run_driver(requests, shards=1):
    """Send the request lines to the extracted model, return the result lines."""
    if not requests:
        return []
    if shards <= 1 or len(requests) < 2000:
        p = subprocess.run([DRIVER], input='\n'.join(requests) + '\n', text=True,
                           stdout=subprocess.PIPE, stderr=subprocess.PIPE, preexec_fn=_big_stack)
        if p.returncode != 0:
            raise BuildError('ppdriver', p.stderr)
        out = p.stdout.split('\n')
        if out and out[-1] == '':
            out.pop()
        if len(out) != len(requests):
            raise BuildError('ppdriver', 'expected %d lines, got %d\n%s' % (len(requests), len(out), p.stderr))
        return out
    # shard: keep the first request of kind (space ...)/(uni ...) in every shard
    pre = [r for r in requests[:8] if r.startswith(('(space', '(uni'))]
    body = requests[len(pre):]
    n = len(body)
    size = (n + shards - 1) // shards
    procs = []
    for k in range(shards):
        chunk = body[k * size:(k + 1) * size]
        if not chunk:
            continue
        pr = subprocess.Popen([DRIVER], stdin=subprocess.PIPE, stdout=subprocess.PIPE,
                              stderr=subprocess.PIPE, text=True, preexec_fn=_big_stack)
        procs.append((pr, chunk))
    import threading
    results = [None] * len(procs)

    def work(idx):
        pr, chunk = procs[idx]
        o, e = pr.communicate('\n'.join(pre + chunk) + '\n')
        lines = o.split('\n')
        if lines and lines[-1] == '':
            lines.pop()
        results[idx] = (lines[len(pre):], e, pr.returncode, len(chunk))
    ths = [threading.Thread(target=work, args=(k,)) for k in range(len(procs))]
    for t in ths:
        t.start()
    for t in ths:
        t.join()
    out = ['ok'] * len(pre)
    for lines, e, rc, cnt in results:
        if rc != 0 or len(lines) != cnt:
            raise BuildError('ppdriver', 'shard failed rc=%s got %d/%d\n%s' % (rc, len(lines), cnt, e))
        out += lines
    return out


# ---------------------------------------------------------------- s-expr ----
def cps(s):
    if isinstance(s, (bytes, bytearray)):
        return ' '.join(str(b) for b in s)
    return ' '.join(str(ord(c)) for c in s)


def from_cps(txt):
    if txt == '':
        return ''
    return ''.join(chr(int(x)) for x in txt.split(','))


# -------------------------------------------------------------- evidence ----
def write_json(path, obj):
    os.makedirs(os.path.dirname(path), exist_ok=True)
    tmp = path + '.tmp'
    with open(tmp, 'w', encoding='utf-8') as f:
        json.dump(obj, f, indent=1, sort_keys=True, default=str)
        f.write('\n')
    os.replace(tmp, path)


def write_replay(prop, payload):
    os.makedirs(REPLAYS, exist_ok=True)
    blob = json.dumps(payload, sort_keys=True, default=str)
    name = '%s-%s.json' % (prop, hashlib.sha1(blob.encode()).hexdigest()[:12])
    path = os.path.join(REPLAYS, name)
    write_json(path, payload)
    return os.path.relpath(path, VERIF)


def load_known_findings(prop):
    path = os.path.join(VERIF, 'KNOWN_FINDINGS.json')
    if not os.path.exists(path):
        return []
    with open(path) as f:
        data = json.load(f)
    return [e for e in data.get('findings', []) if e.get('property') == prop]


class Rng(random.Random):
    pass


def rng(tag=''):
    return Rng('%d/%s' % (seed(), tag))

"""Worker for C09 (fresh interpreter): values of the types whose bundled printer is registered BY NAME
(enum.Enum, uuid.UUID, pathlib.PurePath, functools.partial, mappingproxy, ast nodes) are printed for the FIRST
time in the process inside a comment wrapper, at the position given on the command line, and only then bare.
Prints one JSON list of [type name, commented text, bare text, warnings]."""
import ast
import enum
import functools
import json
import pathlib
import sys
import types
import uuid
import warnings


class Colour(enum.Enum):
    RED = 1
    GREEN = 'g'


class Perm(enum.IntFlag):
    R = 4
    W = 2


def values():
    return [('Enum', Colour.RED), ('IntFlag', Perm.R), ('UUID', uuid.UUID(int=7)),
            ('PurePosixPath', pathlib.PurePosixPath('/srv/data')), ('PureWindowsPath', pathlib.PureWindowsPath('c:/x')),
            ('partial', functools.partial(int, '7', base=8)), ('mappingproxy', types.MappingProxyType({'a': 1}))]


def place(pos, v):
    from prettyprinter import comment, trailing_comment
    if pos == 'top':
        return comment(v, 'note')
    if pos == 'list':
        return [1, comment(v, 'note'), 2]
    if pos == 'dictvalue':
        return {'k': comment(v, 'note')}
    if pos == 'trailing':
        return (trailing_comment(v, 'note'), 0)
    if pos == 'double':
        return [comment(comment(v, 'inner'), 'note')]
    raise ValueError(pos)


def bare(pos, v):
    if pos == 'top':
        return v
    if pos == 'list':
        return [1, v, 2]
    if pos == 'dictvalue':
        return {'k': v}
    if pos == 'trailing':
        return (v, 0)
    return [v]


def main():
    from prettyprinter import pformat
    pos = sys.argv[1]
    out = []
    for name, v in values():
        with warnings.catch_warnings(record=True) as ws:
            warnings.simplefilter('always')
            try:
                first = pformat(place(pos, v))
            except Exception as e:
                first = 'EXC ' + type(e).__name__
            try:
                second = pformat(bare(pos, v))
            except Exception as e:
                second = 'EXC ' + type(e).__name__
            try:
                again = pformat(place(pos, v))
            except Exception as e:
                again = 'EXC ' + type(e).__name__
        out.append([name, first, second, again, [str(w.message)[:200] for w in ws]])
    print(json.dumps(out))


if __name__ == '__main__':
    main()

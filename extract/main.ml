open Pp
open Driver

let evs_dummy _ _ _ _ _ = Nil

let dtout_str = function
  | DPos args -> "pos " ^ String.concat " " (List.map string_of_z args)
  | DKw kw -> "kw " ^ String.concat " " (List.map (fun (k, v) ->
      string_of_c k ^ "=" ^ (match v with KInt z -> string_of_z z | KTz -> "tz")) kw)

let color_out out tbl rs =
  let t = Hashtbl.create 16 in
  List.iter (function L (k :: v) -> Hashtbl.replace t (int_of_string (atom k)) (cps v) | _ -> failwith "sgr") tbl;
  let sgr tok = try Hashtbl.find t (int_of_n tok) with Not_found -> [] in
  let cs = color_render is_space_u sgr (cps rs) out in
  "W " ^ str_out (written cs) ^ " | U " ^ str_out (unstyled cs)

let handle (x : sexp) : Stdlib.String.t =
  match x with
  | L (A "space" :: l) ->
      Hashtbl.reset space_tbl;
      List.iter (fun c -> Hashtbl.replace space_tbl (int_of_string (atom c)) ()) l; "ok"
  | L [A "layout"; smart; w; rw; d] ->
      (match best_layout evs_dummy big_fuel big_fuel (boolv smart) (zint w) (zint rw) (doc_of d) with
       | None -> "FUEL"
       | Some out -> "S " ^ stream_out out ^ " | R " ^ str_out (default_render is_space out))
  | L [A "uni"; L pr; L sp; L wd; L lb] ->
      t_printable := mk_table pr; t_space := mk_table sp; t_word := mk_table wd; t_linebreak := mk_table lb; "ok"
  | L [A "pformat"; indent; w; rw; depth; maxlen; sort; v] ->
      (match pformat_model printable is_space_u is_word_u is_linebreak big_fuel big_fuel (val_of v)
               (zint indent) (zint w) (zint rw) (optz depth) (zint maxlen) (boolv sort) with
       | None -> "FUEL"
       | Some s -> "R " ^ str_out s)
  | L [A "str_to_lines"; bytes; maxlen; q; L s; pat] ->
      (match str_to_lines printable is_space_u is_word_u big_fuel (boolv bytes) (zint maxlen)
               (n_of_int (int_of_string (atom q))) (cps s)
               (match pat with A "path" -> Some PPath | _ -> None) with
       | None -> "FUEL"
       | Some l -> "L " ^ String.concat " " (List.map (fun x -> "[" ^ str_out x ^ "]") l))
  | L [A "escape"; bytes; q; L s] ->
      "E " ^ str_out (escape_for_quote printable (boolv bytes) (n_of_int (int_of_string (atom q))) (cps s))
  | L [A "etoks"; depth; maxlen; sort; v] ->
      let e = expr_of { e_depth = optz depth; e_maxlen = zint maxlen; e_sort = boolv sort } (val_of v) false in
      let lit b s = let q = quote_strategy s in
        (if b then [98] else []) @ [int_of_n q] @ List.map int_of_n (escape_for_quote printable b q s) @ [int_of_n q] in
      let tk = function
        | TP s | TNum s | TName s | TRepr s -> List.map int_of_n s
        | TStr (b, s) -> lit b s in
      "K " ^ String.concat " 32 " (List.map (fun t -> String.concat " " (List.map string_of_int (tk t))) (etoks e))
  | L [A "litval"; bytes; q; L body] ->
      (match literal_value (boolv bytes) (n_of_int (int_of_string (atom q))) (cps body) with
       | None -> "V none" | Some v -> "V " ^ str_out v)
  | L [A "quote"; L s] -> "Q " ^ string_of_int (int_of_n (quote_strategy (cps s)))
  | L [A "dispatch"; L mro; L acc; L ops] ->
      let mt = table_of mro and at = table_of acc in
      let mrof c = let ci = int_of_nat c in
        List.map nat_of_int (try Hashtbl.find mt ci with Not_found -> [ci]) in
      let accf q c = (try List.mem (int_of_nat c) (Hashtbl.find at (int_of_nat q)) with Not_found -> false) in
      String.concat " " (List.map dobs_out (drun mrof accf dinit (List.map dop_of ops)))
  | L [A "cfg"; L d0; L h] ->
      let obs = run_cfg entry_points set_default_plumbing (List.map cop_of h) (env_of d0) in
      String.concat " ; " (List.map (fun (d, eff) ->
        env_out d ^ " | " ^ (match eff with None -> "-" | Some e -> env_out e)) obs)
  | L [A "graph"; root; indent; w; rw; L heap; L info] ->
      let h = List.map gnode_of heap in
      let (res, st) = gprint h (ginfo_of info) (nat_of_int (List.length h + 1)) (natv root) in
      let ws = String.concat "," (List.map (fun (r, esc) -> string_of_int (int_of_nat r) ^ (if esc then "e" else "")) st.g_warns) in
      (match res with
       | GExc -> "X | W " ^ ws
       | GFuel -> "FUEL"
       | GOk v ->
           (match pformat_model printable is_space_u is_word_u is_linebreak big_fuel big_fuel v
                    (zint indent) (zint w) (zint rw) None (z_of_int 1000) false with
            | None -> "FUEL"
            | Some s -> "R " ^ str_out s ^ " | W " ^ ws ^ " | V " ^ string_of_int (List.length st.g_visited)))
  | L [A "colorv"; indent; w; rw; depth; maxlen; sort; v; L tbl; L rs] ->
      (match sdocs_model printable is_space_u is_word_u is_linebreak big_fuel big_fuel (val_of v)
               (zint indent) (zint w) (zint rw) (optz depth) (zint maxlen) (boolv sort) with
       | None -> "FUEL"
       | Some out -> color_out out tbl rs)
  | L [A "colord"; smart; w; rw; d; L tbl; L rs] ->
      (match best_layout evs_dummy big_fuel big_fuel (boolv smart) (zint w) (zint rw) (doc_of d) with
       | None -> "FUEL"
       | Some out -> color_out out tbl rs)
  | L [A "threads"; A prog; n; L sch] ->
      let step = if prog = "new" then step_new else step_old in
      let rec rep k = if k = 0 then [] else t0 :: rep (k - 1) in
      let (_, ts) = run step (List.map natv sch) (sh0, rep (int_of_string (atom n))) in
      String.concat " " (List.map (fun t -> match t.t_out with
        | None -> "-" | Some Printed -> "P" | Some ReprFallback -> "R" | Some KeyErr -> "K") ts)
  | L [A "timedelta"; neg; d; sec; us] ->
      let kw = timedelta_kwargs (zint d) (zint sec) (zint us) in
      let dv = function
        | DInt z -> string_of_z z
        | DYears (y, dd) ->
            (if Z.compare y (z_of_int 1) = Gt then string_of_z y ^ "*365" else "365") ^
            (if dd = Z0 then "" else "+" ^ string_of_z dd) in
      (if boolv neg then "- " else "+ ") ^ String.concat " " (List.map (fun (k, v) -> string_of_c k ^ "=" ^ dv v) kw)
  | L [A "datetime"; y; mo; d; h; mi; sec; us; tz; fold] ->
      dtout_str (datetime_out (zint y) (zint mo) (zint d) (zint h) (zint mi) (zint sec) (zint us) (boolv tz) (boolv fold))
  | L [A "time"; h; mi; sec; us; tz; fold] ->
      dtout_str (time_out (zint h) (zint mi) (zint sec) (zint us) (boolv tz) (zint fold))
  | L [A "lpops"; smart; w; rw; d] ->
      (match best_layout_pops evs_dummy big_fuel big_fuel (boolv smart) (zint w) (zint rw) (doc_of d) with
       | None -> "FUEL" | Some (a, b) -> string_of_int (int_of_nat a) ^ " " ^ string_of_int (int_of_nat b))
  | L [A "ppops"; indent; w; rw; depth; maxlen; sort; v] ->
      let d = top_doc is_space_u is_linebreak (val_of v) (zint indent) (optz depth) (zint maxlen) (boolv sort) in
      (match best_layout_pops (eval_str printable is_space_u is_word_u is_linebreak) big_fuel big_fuel true
               (zint w) (zint rw) d with
       | None -> "FUEL" | Some (a, b) -> string_of_int (int_of_nat a) ^ " " ^ string_of_int (int_of_nat b))
  | L [A "dcshow"; A kind; r; a; b; c; d] ->
      let f = if kind = "dc" then dc_display else attrs_display in
      if f (boolv r) (boolv a) (boolv b) (boolv c) (boolv d) then "1" else "0"
  | _ -> "ERR bad request"

let () =
  try
    while true do
      let line = input_line stdin in
      let res = (try handle (parse_sexp line) with e -> "ERR " ^ Printexc.to_string e) in
      print_string res; print_newline ()
    done
  with End_of_file -> ()

(* Driver for the extracted model: one request per input line (an
   s-expression), one result per output line.  Trusted glue: s-expression
   parsing, int/decimal <-> Z conversion, printing of results. *)
open Pp

type sexp = A of string | L of sexp list

let parse_sexp (s : string) : sexp =
  let n = String.length s in
  let pos = ref 0 in
  let rec skip () = if !pos < n && (s.[!pos] = ' ' || s.[!pos] = '\t') then (incr pos; skip ()) in
  let rec item () =
    skip ();
    if !pos >= n then failwith "sexp: eof"
    else if s.[!pos] = '(' then begin
      incr pos;
      let acc = ref [] in
      let rec loop () =
        skip ();
        if !pos >= n then failwith "sexp: unclosed"
        else if s.[!pos] = ')' then incr pos
        else (acc := item () :: !acc; loop ()) in
      loop (); L (List.rev !acc)
    end else begin
      let st = !pos in
      while !pos < n && s.[!pos] <> ' ' && s.[!pos] <> '(' && s.[!pos] <> ')' do incr pos done;
      A (String.sub s st (!pos - st))
    end in
  item ()

(* ---- numbers ---- *)
let rec pos_of_int (i : int) : positive =
  if i = 1 then XH else if i land 1 = 0 then XO (pos_of_int (i lsr 1)) else XI (pos_of_int (i lsr 1))
let n_of_int i : n = if i = 0 then N0 else Npos (pos_of_int i)
let z_of_int i : z = if i = 0 then Z0 else if i > 0 then Zpos (pos_of_int i) else Zneg (pos_of_int (-i))
let rec int_of_pos = function XH -> 1 | XO p -> 2 * int_of_pos p | XI p -> 2 * int_of_pos p + 1
let int_of_n = function N0 -> 0 | Npos p -> int_of_pos p
let int_of_z = function Z0 -> 0 | Zpos p -> int_of_pos p | Zneg p -> - (int_of_pos p)
let nat_of_int i : nat = let r = ref O in for _ = 1 to i do r := S !r done; !r
let ten = z_of_int 10
(* decimal string -> Z, unbounded *)
let z_of_string (s : string) : z =
  let neg = String.length s > 0 && s.[0] = '-' in
  let st = if neg then 1 else 0 in
  let acc = ref Z0 in
  for k = st to String.length s - 1 do
    acc := Z.add (Z.mul !acc ten) (z_of_int (Char.code s.[k] - 48))
  done;
  if neg then Z.opp !acc else !acc
let string_of_z (x : z) : string =
  match x with
  | Z0 -> "0"
  | _ ->
    let neg = (match x with Zneg _ -> true | _ -> false) in
    let cur = ref (if neg then Z.opp x else x) in
    let buf = Buffer.create 16 in
    while !cur <> Z0 do
      let (q, r) = Z.div_eucl !cur ten in
      Buffer.add_char buf (Char.chr (48 + int_of_z r)); cur := q
    done;
    let s = Buffer.contents buf in
    let m = String.length s in
    (if neg then "-" else "") ^ String.init m (fun k -> s.[m - 1 - k])

let atom = function A s -> s | L _ -> failwith "atom expected"
let zint x = z_of_string (atom x)
let cps (l : sexp list) : str = List.map (fun x -> n_of_int (int_of_string (atom x))) l
let boolv x = (atom x = "1")

(* ---- documents ---- *)
let ann_of = function
  | L [A "tok"; x] -> ATok (n_of_int (int_of_string (atom x)))
  | L (A "com" :: l) -> AComment (cps l)
  | L [A "oth"; x] -> AOther (n_of_int (int_of_string (atom x)))
  | _ -> failwith "ann"
let mls_of = function "plain" -> MPlain | "hang" -> MHang | "indented" -> MIndented
  | "parens" -> MParens | _ -> failwith "mls"
let rec doc_of (x : sexp) : doc =
  match x with
  | A "N" -> Nil
  | A "H" -> HardLine
  | L (A "T" :: l) -> Text (cps l)
  | L (A "C" :: l) -> Cat (List.map doc_of l)
  | L [A "Ne"; i; d] -> Nest (zint i, doc_of d)
  | L [A "G"; d] -> Group (doc_of d)
  | L [A "AB"; d] -> AlwaysBreak (doc_of d)
  | L [A "FC"; b; f] -> FlatChoice (doc_of b, doc_of f)
  | L (A "Fi" :: l) -> Fill (List.map doc_of l)
  | L [A "An"; a; d] -> Annot (ann_of a, doc_of d)
  | L [A "Al"; d] -> Align (doc_of d)
  | _ -> failwith "doc"

(* ---- output ---- *)
let str_out (s : str) = String.concat "," (List.map (fun c -> string_of_int (int_of_n c)) s)
let ann_out = function
  | ATok t -> "tok:" ^ string_of_int (int_of_n t)
  | AComment s -> "com:" ^ str_out s
  | AOther k -> "oth:" ^ string_of_int (int_of_n k)
let sdoc_out = function
  | SText s -> "T:" ^ str_out s
  | SLine i -> "L:" ^ string_of_z i
  | SPush a -> "U:" ^ ann_out a
  | SPop a -> "O:" ^ ann_out a
let stream_out l = String.concat " " (List.map sdoc_out l)

(* whitespace predicate used by rstrip; replaced at start-up by the table the
   harness sends with (space c1 c2 ...) *)
let space_tbl : (int, unit) Hashtbl.t = Hashtbl.create 64
let () = List.iter (fun c -> Hashtbl.replace space_tbl c ()) [9;10;11;12;13;28;29;30;31;32;133;160]
let is_space (c : n) = Hashtbl.mem space_tbl (int_of_n c)

let big_fuel = nat_of_int 3_000_000

(* Driver for the extracted model: one request per input line (an
   s-expression), one result per output line.  Trusted glue: s-expression
   parsing, int/decimal <-> Z conversion, printing of results. *)
open Pp

type sexp = A of Stdlib.String.t | L of sexp list

let parse_sexp (s : Stdlib.String.t) : sexp =
  let n = String.length s in
  let pos = ref 0 in
  let rec skip () = if !pos < n && (s.[!pos] = ' ' || s.[!pos] = '\t') then (incr pos; skip ()) in
  let rec item () =
    skip ();
    if !pos >= n then failwith "sexp: eof"
    else if s.[!pos] = '(' then begin
      incr pos;
      let acc = ref [] in
      let rec loop () =
        skip ();
        if !pos >= n then failwith "sexp: unclosed"
        else if s.[!pos] = ')' then incr pos
        else (acc := item () :: !acc; loop ()) in
      loop (); L (List.rev !acc)
    end else begin
      let st = !pos in
      while !pos < n && s.[!pos] <> ' ' && s.[!pos] <> '(' && s.[!pos] <> ')' do incr pos done;
      A (String.sub s st (!pos - st))
    end in
  item ()

(* ---- numbers ---- *)
let rec pos_of_int (i : int) : positive =
  if i = 1 then XH else if i land 1 = 0 then XO (pos_of_int (i lsr 1)) else XI (pos_of_int (i lsr 1))
let n_of_int i : n = if i = 0 then N0 else Npos (pos_of_int i)
let z_of_int i : z = if i = 0 then Z0 else if i > 0 then Zpos (pos_of_int i) else Zneg (pos_of_int (-i))
let rec int_of_pos = function XH -> 1 | XO p -> 2 * int_of_pos p | XI p -> 2 * int_of_pos p + 1
let int_of_n = function N0 -> 0 | Npos p -> int_of_pos p
let int_of_z = function Z0 -> 0 | Zpos p -> int_of_pos p | Zneg p -> - (int_of_pos p)
let nat_of_int i : nat = let r = ref O in for _ = 1 to i do r := S !r done; !r
let ten = z_of_int 10
(* decimal string -> Z, unbounded *)
let z_of_string (s : Stdlib.String.t) : z =
  let neg = String.length s > 0 && s.[0] = '-' in
  let st = if neg then 1 else 0 in
  let acc = ref Z0 in
  for k = st to String.length s - 1 do
    acc := Z.add (Z.mul !acc ten) (z_of_int (Char.code s.[k] - 48))
  done;
  if neg then Z.opp !acc else !acc
let string_of_z (x : z) : Stdlib.String.t =
  match x with
  | Z0 -> "0"
  | _ ->
    let neg = (match x with Zneg _ -> true | _ -> false) in
    let cur = ref (if neg then Z.opp x else x) in
    let buf = Buffer.create 16 in
    while !cur <> Z0 do
      let (q, r) = Z.div_eucl !cur ten in
      Buffer.add_char buf (Char.chr (48 + int_of_z r)); cur := q
    done;
    let s = Buffer.contents buf in
    let m = String.length s in
    (if neg then "-" else "") ^ String.init m (fun k -> s.[m - 1 - k])

let atom = function A s -> s | L _ -> failwith "atom expected"
let zint x = z_of_string (atom x)
let cps (l : sexp list) : str = List.map (fun x -> n_of_int (int_of_string (atom x))) l
let boolv x = (atom x = "1")

(* ---- documents ---- *)
let ann_of = function
  | L [A "tok"; x] -> ATok (n_of_int (int_of_string (atom x)))
  | L (A "com" :: l) -> AComment (cps l)
  | L [A "oth"; x] -> AOther (n_of_int (int_of_string (atom x)))
  | _ -> failwith "ann"
let mls_of = function "plain" -> MPlain | "hang" -> MHang | "indented" -> MIndented
  | "parens" -> MParens | _ -> failwith "mls"
let rec doc_of (x : sexp) : doc =
  match x with
  | A "N" -> Nil
  | A "H" -> HardLine
  | L (A "T" :: l) -> Text (cps l)
  | L (A "C" :: l) -> Cat (List.map doc_of l)
  | L [A "Ne"; i; d] -> Nest (zint i, doc_of d)
  | L [A "G"; d] -> Group (doc_of d)
  | L [A "AB"; d] -> AlwaysBreak (doc_of d)
  | L [A "FC"; b; f] -> FlatChoice (doc_of b, doc_of f)
  | L (A "Fi" :: l) -> Fill (List.map doc_of l)
  | L [A "An"; a; d] -> Annot (ann_of a, doc_of d)
  | L [A "Al"; d] -> Align (doc_of d)
  | _ -> failwith "doc"

(* ---- output ---- *)
let str_out (s : str) = String.concat "," (List.map (fun c -> string_of_int (int_of_n c)) s)
let ann_out = function
  | ATok t -> "tok:" ^ string_of_int (int_of_n t)
  | AComment s -> "com:" ^ str_out s
  | AOther k -> "oth:" ^ string_of_int (int_of_n k)
let sdoc_out = function
  | SText s -> "T:" ^ str_out s
  | SLine i -> "L:" ^ string_of_z i
  | SPush a -> "U:" ^ ann_out a
  | SPop a -> "O:" ^ ann_out a
let stream_out l = String.concat " " (List.map sdoc_out l)

(* whitespace predicate used by rstrip; replaced at start-up by the table the
   harness sends with (space c1 c2 ...) *)
let space_tbl : (int, unit) Hashtbl.t = Hashtbl.create 64
let () = List.iter (fun c -> Hashtbl.replace space_tbl c ()) [9;10;11;12;13;28;29;30;31;32;133;160]
let is_space (c : n) = Hashtbl.mem space_tbl (int_of_n c)

let big_fuel = nat_of_int 3_000_000

(* ---- Coq strings ---- *)
let ascii_of_char (c : char) : ascii =
  let n = Char.code c in
  let b k = (n lsr k) land 1 = 1 in
  Ascii (b 0, b 1, b 2, b 3, b 4, b 5, b 6, b 7)
let char_of_ascii (Ascii (b0, b1, b2, b3, b4, b5, b6, b7)) : char =
  let v b k = if b then 1 lsl k else 0 in
  Char.chr (v b0 0 + v b1 1 + v b2 2 + v b3 3 + v b4 4 + v b5 5 + v b6 6 + v b7 7)
let cstring_of (s : Stdlib.String.t) : Pp.string =
  let n = String.length s in
  let rec go k = if k = n then EmptyString else String (ascii_of_char s.[k], go (k + 1)) in go 0
let rec string_of_c (s : Pp.string) : Stdlib.String.t =
  match s with EmptyString -> "" | String (a, tl) -> String.make 1 (char_of_ascii a) ^ string_of_c tl

(* ---- configuration histories ---- *)
let cval_of = function
  | A "none" -> CNone
  | L [A "int"; z] -> CInt (zint z)
  | L [A "bool"; b] -> CBool (boolv b)
  | _ -> failwith "cval"
let env_of (l : sexp list) = List.map (function L [A k; v] -> (cstring_of k, cval_of v) | _ -> failwith "env") l
let cop_of = function
  | L (A "set" :: l) -> OSet (env_of l)
  | L (A "call" :: A ep :: l) -> OCall (cstring_of ep, env_of l)
  | _ -> failwith "cop"
let cval_out = function CNone -> "none" | CInt z -> string_of_z z | CBool b -> if b then "True" else "False"
let env_out (e : (Pp.string * cval) list) =
  String.concat "," (List.map (fun (k, v) -> string_of_c k ^ "=" ^ cval_out v) e)

(* ---- dispatch histories ---- *)
let natv x = nat_of_int (int_of_string (atom x))
let rec int_of_nat = function O -> 0 | S n -> 1 + int_of_nat n
let dop_of = function
  | L [A "rc"; c; p] -> RegClass (natv c, natv p)
  | L [A "rn"; c; p] -> RegName (natv c, natv p)
  | L [A "rp"; q; p] -> RegPred (natv q, natv p)
  | L [A "pr"; c] -> Print (natv c, natv c)
  | L [A "pr"; c; i] -> Print (natv c, natv i)
  | L [A "ir"; c; cs; cd; rd] -> IsReg (natv c, boolv cs, boolv cd, boolv rd)
  | _ -> failwith "dop"
let dobs_out = function
  | OUnit -> "-"
  | OChosen (ByPrinter p) -> "P" ^ string_of_int (int_of_nat p)
  | OChosen ByRepr -> "R"
  | OBool None -> "E"
  | OBool (Some true) -> "T"
  | OBool (Some false) -> "F"
let table_of (l : sexp list) : (int, int list) Hashtbl.t =
  let t = Hashtbl.create 16 in
  List.iter (function L (k :: vs) -> Hashtbl.replace t (int_of_string (atom k)) (List.map (fun v -> int_of_string (atom v)) vs)
                    | _ -> failwith "table") l; t

(* ---- unicode class tables: sorted disjoint ranges, binary search ---- *)
let mk_table (l : sexp list) : int array * int array =
  let los = Array.of_list (List.map (function L [a; _] -> int_of_string (atom a) | _ -> failwith "range") l) in
  let his = Array.of_list (List.map (function L [_; b] -> int_of_string (atom b) | _ -> failwith "range") l) in
  (los, his)
let in_table ((los, his) : int array * int array) (c : int) : bool =
  let lo = ref 0 and hi = ref (Array.length los - 1) and res = ref false in
  while not !res && !lo <= !hi do
    let mid = (!lo + !hi) / 2 in
    if c < los.(mid) then hi := mid - 1
    else if c > his.(mid) then lo := mid + 1
    else res := true
  done; !res
let t_printable = ref ([||], [||])
let t_space = ref ([||], [||])
let t_word = ref ([||], [||])
let t_linebreak = ref ([||], [||])
let printable (c : n) = in_table !t_printable (int_of_n c)
let is_space_u (c : n) = in_table !t_space (int_of_n c)
let is_word_u (c : n) = in_table !t_word (int_of_n c)
let is_linebreak (c : n) = in_table !t_linebreak (int_of_n c)

(* ---- values ---- *)
let cls_of_sexp = function
  | L (t :: name) -> { cn_name = cps name; cn_tok = n_of_int (int_of_string (atom t)) }
  | _ -> failwith "cls"
let rec val_of (x : sexp) : pyval =
  match x with
  | L [A "int"; z] -> VInt (zint z)
  | L [A "bool"; b] -> VBool (boolv b)
  | A "none" -> VNone
  | A "ellipsis" -> VEllipsis
  | L (A "float" :: r) -> VFloat (cps r)
  | A "inf" -> VInf | A "neginf" -> VNegInf | A "nan" -> VNan
  | L (A "str" :: s) -> VStr (cps s)
  | L (A "bytes" :: s) -> VBytes (cps s)
  | L (A "list" :: l) -> VList (List.map val_of l)
  | L (A "tuple" :: l) -> VTuple (List.map val_of l)
  | L (A "set" :: l) -> VSet (List.map val_of l)
  | L (A "frozenset" :: l) -> VFrozenset (List.map val_of l)
  | L [A "dict"; L kvs; L order] ->
      VDict (List.map (function L [k; v] -> (val_of k, val_of v) | _ -> failwith "kv") kvs,
             List.map (fun i -> nat_of_int (int_of_string (atom i))) order)
  | L [A "sub"; c; v] -> VSub (cls_of_sexp c, val_of v)
  | L [A "commented"; v; L c] -> VCommented (val_of v, cps c)
  | L [A "trailing"; v; L c] -> VTrailing (val_of v, cps c)
  | L [A "call"; f; L args; L kwargs] ->
      VCall (cls_of_sexp f, List.map val_of args,
             List.map (function L [L k; v] -> (cps k, val_of v) | _ -> failwith "kw") kwargs)
  | L [A "path"; c; L s] -> VPath (cls_of_sexp c, cps s)
  | L (A "repr" :: r) -> VRepr (cps r)
  | L (A "std" :: rest) -> std_print (std_of rest)
  | _ -> failwith "val"
and kvs_of l = List.map (function L [k; v] -> (val_of k, val_of v) | _ -> failwith "kv") l
and order_of l = List.map (fun i -> nat_of_int (int_of_string (atom i))) l
and std_of (l : sexp list) : stdval =
  match l with
  | [A "ordered"; c; L kvs] -> SOrdered (cls_of_sexp c, kvs_of kvs)
  | [A "deque"; c; L els; ml] ->
      SDeque (cls_of_sexp c, List.map val_of els, (match ml with A "none" -> None | x -> Some (zint x)))
  | [A "default"; c; f; L kvs; L o] -> SDefault (cls_of_sexp c, val_of f, kvs_of kvs, order_of o)
  | [A "counter"; c; L kvs; L o] -> SCounter (cls_of_sexp c, kvs_of kvs, order_of o)
  | A "chain" :: c :: maps ->
      SChain (cls_of_sexp c, List.map (function L [L kvs; L o] -> (kvs_of kvs, order_of o) | _ -> failwith "map") maps)
  | [A "proxy"; c; L kvs; L o] -> SProxy (cls_of_sexp c, kvs_of kvs, order_of o)
  | [A "exc"; c; L args] -> SExc (cls_of_sexp c, List.map val_of args)
  | [A "partial"; c; f; L args; L kws] ->
      SPartial (cls_of_sexp c, val_of f, List.map val_of args,
                List.map (function L [L k; v] -> (cps k, val_of v) | _ -> failwith "kw") kws)
  | [A "uuid"; c; L text] -> SUuid (cls_of_sexp c, cps text)
  | [A "namespace"; c; L kws; L o] ->
      SNamespace (cls_of_sexp c, List.map (function L [L k; v] -> (cps k, val_of v) | _ -> failwith "kw") kws, order_of o)
  | [A "namedtuple"; c; L kws] ->
      SNamedtuple (cls_of_sexp c, List.map (function L [L k; v] -> (cps k, val_of v) | _ -> failwith "kw") kws)
  | _ -> failwith "std"
let optz = function A "none" -> None | x -> Some (zint x)

(* ---- object graphs ---- *)
let fault_of = function "none" -> FNone | "raise" -> FRaise | "after" -> FRaiseAfter | "nondoc" -> FNonDoc
  | _ -> failwith "fault"
let gnode_of = function
  | L [A "leaf"; v] -> GLeaf (val_of v)
  | L (A "list" :: l) -> GList (List.map natv l)
  | L (A "tuple" :: l) -> GTuple (List.map natv l)
  | L (A "dict" :: l) -> GDict (List.map (function L [k; v] -> (natv k, natv v) | _ -> failwith "gkv") l)
  | L [A "user"; c; A f; L args] -> GUser (cls_of_sexp c, List.map natv args, fault_of f)
  | _ -> failwith "gnode"
let ginfo_of (l : sexp list) : ginfo =
  let mk = Hashtbl.create 16 and rp = Hashtbl.create 16 in
  List.iteri (fun i x -> match x with
    | L [L m; L r] -> Hashtbl.replace mk i (cps m); Hashtbl.replace rp i (cps r)
    | _ -> failwith "ginfo") l;
  { gi_marker = (fun r -> try Hashtbl.find mk (int_of_nat r) with Not_found -> []);
    gi_repr = (fun r -> try Hashtbl.find rp (int_of_nat r) with Not_found -> []) }

(** Extraction of the executable model for the correspondence check.
    Only ExtrOcamlBasic (bool, option, unit, list, prod, sumbool, sumor map to
    the OCaml types); nat, positive, N, Z stay the extracted inductives.
    No Extract Constant. *)
From Coq Require Import ExtrOcamlBasic.
From PP Require Import Doc Normalize Layout Render Config EntryPoints Consts Dispatch PyStr PyLit PyVal Printers Pformat PyExpr PyEval Graph Extras ExtrasModel Color Threads Stdlib StdColl Cost.

Extraction "pp.ml"
  Z.add Z.mul Z.sub Z.opp Z.div_eucl Z.of_nat Z.to_nat Z.of_N N.of_nat Z.compare
  normalize_doc best_layout default_render plain
  run_cfg entry_points set_default_plumbing
  drun dinit
  pformat_model sdocs_model str_to_lines escape_for_quote quote_strategy commentdoc literal_value
  etoks expr_of eval norm gprint gspec gwarns dc_display attrs_display dc_call_form color_render written unstyled run step_new step_old sh0 t0 timedelta_kwargs datetime_out time_out best_layout_pops top_doc std_print std_rebuild.

(** Evaluating the expression a value prints as gives the value back
    (comments dropped, containers cut to max_seq_len, dict entries in the
    printed order) - for every built-in value, subclass instance, object
    printed through pretty_call and path, at every nesting. *)
From Coq Require Import Lia.
From PP Require Import Doc PyStr PyVal Consts Printers PyExpr PyEval PrettyToks1 PrettyToks3.

Ltac inv H := inversion H; subst; clear H.

Section EvalRT.
Variable env : str -> option target.
Hypothesis env_float : env n_float = None.
Hypothesis env_frozenset : env n_frozenset = None.
Hypothesis env_set : env n_set = None.

(** the classes of the value are the ones in scope *)
Fixpoint evaluable (v : pyval) : Prop :=
  match v with
  | VList l | VTuple l | VSet l | VFrozenset l =>
      (fix all (l : list pyval) : Prop := match l with [] => True | x :: tl => evaluable x /\ all tl end) l
  | VDict kvs _ =>
      (fix all (l : list (pyval * pyval)) : Prop :=
         match l with [] => True | (k, x) :: tl => evaluable k /\ evaluable x /\ all tl end) kvs
  | VSub c b => match bkind_of b with
                | Some k => env (cn_name c) = Some (TSub c k) /\ evaluable b
                | None => False
                end
  | VCommented x _ | VTrailing x _ => evaluable x
  | VCall f args kwargs =>
      env (cn_name f) = Some (TFn f) /\
      (fix all (l : list pyval) : Prop := match l with [] => True | x :: tl => evaluable x /\ all tl end) args /\
      (fix all (l : list (str * pyval)) : Prop :=
         match l with [] => True | (_, x) :: tl => evaluable x /\ all tl end) kwargs
  | VPath c _ => env (cn_name c) = Some (TPath c)
  | VRepr r => False
  | _ => True
  end.

Lemma ev_list_Forall l :
  (fix all (l : list pyval) : Prop := match l with [] => True | x :: tl => evaluable x /\ all tl end) l ->
  Forall evaluable l.
Proof. induction l as [|x tl IH]; intros H; constructor; destruct H; auto. Qed.
Lemma ev_dict_Forall kvs :
  (fix all (l : list (pyval * pyval)) : Prop :=
     match l with [] => True | (k, x) :: tl => evaluable k /\ evaluable x /\ all tl end) kvs ->
  Forall (fun kv => evaluable (fst kv) /\ evaluable (snd kv)) kvs.
Proof. induction kvs as [|[k x] tl IH]; intros H; constructor; destruct H as (?&?&?); auto. Qed.
Lemma ev_kw_Forall (kw : list (str * pyval)) :
  (fix all (l : list (str * pyval)) : Prop :=
     match l with [] => True | (_, x) :: tl => evaluable x /\ all tl end) kw ->
  Forall (fun kv => evaluable (snd kv)) kw.
Proof. induction kw as [|[k x] tl IH]; intros H; constructor; destruct H; auto. Qed.

Lemma str_eqb_refl s : str_eqb s s = true.
Proof. induction s as [|c t IH]; cbn; [reflexivity|]. now rewrite N.eqb_refl. Qed.

Lemma mapM_take {A B} (f : A -> option B) n : forall l vs,
  mapM f l = Some vs -> mapM f (take_z n l) = Some (take_z n vs).
Proof.
  intros l. revert n. induction l as [|x tl IH]; intros n vs H; cbn [mapM take_z] in *.
  - inv H. reflexivity.
  - destruct (f x) as [v|] eqn:Ef; [|discriminate]. destruct (mapM f tl) as [vs'|] eqn:Et; [|discriminate].
    inv H. cbn [take_z]. destruct (n <=? 0)%Z; [reflexivity|]. cbn [mapM]. rewrite Ef.
    now rewrite (IH (n - 1)%Z vs' eq_refl).
Qed.

Lemma mapM_map {A B C} (f : B -> option C) (g : A -> B) (h : A -> C) l :
  (forall x, In x l -> f (g x) = Some (h x)) -> mapM f (map g l) = Some (map h l).
Proof.
  induction l as [|x tl IH]; intros H; cbn [map mapM]; [reflexivity|].
  rewrite (H x (or_introl eq_refl)). rewrite IH; [reflexivity|]. intros y Hy. apply H. now right.
Qed.

Lemma mapM_reorder {A B} (f : A -> option B) l vs order :
  mapM f l = Some vs -> mapM f (reorder l order) = Some (reorder vs order).
Proof.
  intros H. induction order as [|i tl IH]; cbn [reorder]; [reflexivity|].
  assert (G : match nth_error l i, nth_error vs i with
              | Some a, Some b => f a = Some b
              | None, None => True
              | _, _ => False end).
  { clear IH. revert vs i H. induction l as [|x l' IHl]; intros vs i H; cbn [mapM] in H.
    - inv H. now destruct i.
    - destruct (f x) eqn:Ef; [|discriminate]. destruct (mapM f l') eqn:El; [|discriminate]. inv H.
      destruct i; cbn [nth_error]; [exact Ef|]. now apply IHl. }
  destruct (nth_error l i), (nth_error vs i); try contradiction; [|exact IH].
  cbn [mapM]. now rewrite G, IH.
Qed.

Variable n : Z.
Variable sort : bool.
Hypothesis n_pos : 1 <= n.
Notation c := (mkE None n sort).
Notation nrm := (norm n sort).

Definition mk (k : seqkind) (vs : list pyval) : pyval :=
  match k with KList => VList vs | KTuple => VTuple vs | KSet => VSet vs end.
Definition bk (k : seqkind) : bkind := match k with KList => BList | KTuple => BTuple | KSet => BSet end.

Lemma take_z_nonempty {A} (x : A) tl : take_z n (x :: tl) = x :: take_z (n - 1) tl.
Proof. cbn [take_z]. destruct (n <=? 0) eqn:E; [lia|reflexivity]. Qed.

Lemma take_z_one {A} (x : A) : take_z n [x] = [x].
Proof. now rewrite take_z_nonempty. Qed.

(** the literal of a non-empty sequence *)
Lemma eval_lit k (l : list pyval) tr :
  l <> [] ->
  (forall x, In x l -> eval env (expr_of c x false) = Some (nrm x)) ->
  let els := map (fun x => expr_of c x false) l in
  let shown := match length l with 1%nat => els | _ => take_z n els end in
  let tc := match shown with
            | [] => false
            | _ => ((n <? Z.of_nat (length l)) || tr) || (match k with KTuple => Nat.eqb (length l) 1 | _ => false end)
            end in
  eval env (ESeq k shown tc) = Some (mk k (take_z n (map nrm l))).
Proof.
  intros Hne IH els shown tc.
  assert (Hs : mapM (eval env) shown = Some (take_z n (map nrm l))).
  { pose proof (mapM_map (eval env) (fun x => expr_of c x false) nrm l IH) as HM. fold els in HM.
    unfold shown. destruct l as [|x [|y tl]]; [congruence| |].
    - cbn [length]. cbn [map] in *. rewrite take_z_one. exact HM.
    - cbn [length]. now apply mapM_take. }
  assert (Hsne : shown <> []).
  { unfold shown, els. destruct l as [|x [|y tl]]; [congruence|discriminate|].
    cbn [length map]. rewrite take_z_nonempty. discriminate. }
  cbn [eval]. rewrite Hs.
  destruct shown as [|e0 [|e1 er]] eqn:Es; [congruence| |]; destruct k; cbn [mk]; try reflexivity.
  (* a one-element tuple literal must carry its comma *)
  assert (tc = true); [|subst tc; now rewrite H].
  unfold tc. destruct l as [|x [|y tl]]; [congruence| |].
  - cbn [length Nat.eqb]. now rewrite orb_true_r.
  - assert (n <? Z.of_nat (length (x :: y :: tl)) = true); [|now rewrite H].
    apply Z.ltb_lt. unfold shown, els in Es. cbn [length map] in Es. rewrite take_z_nonempty in Es.
    inv Es. cbn [take_z] in H1. destruct (n - 1 <=? 0) eqn:E; [|discriminate].
    apply Z.leb_le in E. cbn [length]. lia.
Qed.

Lemma c_not0 : e_is0 c = false /\ e_le0 c = false /\ e_nested c = c.
Proof. repeat split. Qed.

Lemma eval_eseq_native k (l : list pyval) tr :
  (forall x, In x l -> eval env (expr_of c x false) = Some (nrm x)) ->
  eval env (eseq c k (length l) None tr (map (fun x => expr_of c x false) l))
  = Some (mk k (take_z n (map nrm l))).
Proof.
  intros IH. unfold eseq. cbv zeta. destruct l as [|x0 tl0] eqn:El.
  - cbn [length map take_z andb negb]. destruct k; cbn [negb mk]; try reflexivity.
    unfold ecall. cbn [e_le0 e_depth eval mapM kind_name]. unfold eval_call. now rewrite env_set.
  - rewrite <- El in *. assert (Hne : l <> []) by (subst; discriminate).
    pose proof (eval_lit k l tr Hne IH) as H. cbv zeta in H.
    destruct (length l) eqn:Elen; [subst; discriminate|]. cbn [e_is0 e_depth e_maxlen]. exact H.
Qed.

Lemma eval_eseq_sub k (l : list pyval) tr w :
  env (cn_name w) = Some (TSub w (bk k)) ->
  (forall x, In x l -> eval env (expr_of c x false) = Some (nrm x)) ->
  eval env (eseq c k (length l) (Some w) tr (map (fun x => expr_of c x false) l))
  = Some (VSub w (mk k (take_z n (map nrm l)))).
Proof.
  intros Hw IH. unfold eseq. cbv zeta. destruct l as [|x0 tl0] eqn:El.
  - cbn [length map take_z andb negb]. unfold ecall. cbn [e_le0 e_depth eval mapM]. unfold eval_call. rewrite Hw.
    now destruct k.
  - rewrite <- El in *. assert (Hne : l <> []) by (subst; discriminate).
    pose proof (eval_lit k l tr Hne IH) as H. cbv zeta in H.
    destruct (length l) eqn:Elen; [subst; discriminate|]. cbn [e_is0 e_depth e_maxlen andb].
    match goal with |- eval env (ECall _ [?lit] []) = _ => change (eval env (ECall (cn_name w) [lit] []))
      with (match mapM (eval env) [lit], Some (@nil (str * pyval)) with
            | Some a, Some k0 => eval_call env (cn_name w) a k0 | _, _ => None end) end.
    cbn [mapM]. cbn [e_maxlen] in H. rewrite H. unfold eval_call. rewrite Hw. now destruct k.
Qed.

Definition pairf (kv : expr * expr) : option (pyval * pyval) :=
  let '(k, x) := kv in match eval env k, eval env x with Some a, Some b => Some (a, b) | _, _ => None end.

Lemma eval_edict sub so (kvs : list (pyval * pyval)) (keyf : pyval -> expr) tr :
  match sub with Some w => env (cn_name w) = Some (TSub w BDict) | None => True end ->
  (forall k x, In (k, x) kvs -> eval env (keyf k) = Some (nrm k) /\ eval env (expr_of c x false) = Some (nrm x)) ->
  eval env (edict c sub so (map (fun kv => let '(k, x) := kv in (keyf k, expr_of c x false)) kvs) tr)
  = Some (let d := VDict (take_z n (let kvs' := map (fun kv => (nrm (fst kv), nrm (snd kv))) kvs in
                                    if sort then reorder kvs' so else kvs')) [] in
          match sub with Some w => VSub w d | None => d end).
Proof.
  intros Hw IH. unfold edict. cbv zeta. cbn [e_is0 e_depth e_sort e_maxlen].
  set (pairs := map (fun kv => let '(k, x) := kv in (keyf k, expr_of c x false)) kvs).
  set (kvs' := map (fun kv => (nrm (fst kv), nrm (snd kv))) kvs).
  assert (HM : mapM pairf pairs = Some kvs').
  { unfold pairs, kvs'. apply mapM_map. intros [k x] Hin. destruct (IH k x Hin) as [Hk Hx].
    cbn [pairf fst snd]. now rewrite Hk, Hx. }
  assert (HS : mapM pairf (take_z n (if sort then reorder pairs so else pairs))
               = Some (take_z n (if sort then reorder kvs' so else kvs'))).
  { apply mapM_take. destruct sort; [now apply mapM_reorder|exact HM]. }
  set (shown := take_z n (if sort then reorder pairs so else pairs)) in *.
  assert (HD : eval env (EDict shown) = Some (VDict (take_z n (if sort then reorder kvs' so else kvs')) [])).
  { cbn [eval]. change (fun '(k, x) => match eval env k, eval env x with
                                      | Some a, Some b => Some (a, b) | _, _ => None end) with pairf.
    now rewrite HS. }
  assert (HC : forall w, env (cn_name w) = Some (TSub w BDict) ->
               eval env (ECall (cn_name w) [EDict shown] [])
               = Some (VSub w (VDict (take_z n (if sort then reorder kvs' so else kvs')) []))).
  { intros w Hw'. change (eval env (ECall (cn_name w) [EDict shown] []))
      with (match mapM (eval env) [EDict shown], Some (@nil (str * pyval)) with
            | Some a, Some k0 => eval_call env (cn_name w) a k0 | _, _ => None end).
    cbn [mapM]. rewrite HD. unfold eval_call. now rewrite Hw'. }
  destruct sub as [w|]; [|exact HD].
  destruct shown as [|s0 sr] eqn:Es; [|now apply HC].
  destruct ((n <? Z.of_nat (length pairs)) || tr); [now apply HC|].
  unfold ecall. cbn [e_le0 e_depth eval mapM]. unfold eval_call. rewrite Hw.
  cbn [mapM] in HS. inv HS. reflexivity.
Qed.

Definition RT (v : pyval) : Prop :=
  forall tr, evaluable v -> eval env (expr_of c v tr) = Some (nrm v).

Lemma special_eval nm w v :
  special_float nm = Some v ->
  eval env (ecall c n_float [estr (e_nested c) false nm None] []) = Some v /\
  (env (cn_name w) = Some (TSub w BFloat) ->
   eval env (ecall c (cn_name w) [estr (e_nested c) false nm None] []) = Some (VSub w v)).
Proof.
  intros H. unfold ecall, estr. cbn [e_le0 e_is0 e_nested e_depth option_map eval mapM]. unfold eval_call.
  rewrite env_float. split; [now rewrite str_eqb_refl|]. intros Hw. rewrite Hw. cbn [construct]. now rewrite H.
Qed.

Lemma key_eval k : RT k -> evaluable k -> eval env (key_expr_ c k) = Some (nrm k).
Proof.
  intros IH Hev. assert (G : eval env (expr_of (e_nested c) k false) = Some (nrm k)) by now apply IH.
  destruct k; try exact G; try reflexivity.
  destruct k; try exact G; cbn [evaluable bkind_of] in Hev; destruct Hev as [Hw _];
    unfold key_expr_, estr; cbn [e_is0 e_depth norm];
    match goal with |- eval env (ECall ?f [?lit] []) = _ => change (eval env (ECall f [lit] []))
      with (match mapM (eval env) [lit], Some (@nil (str * pyval)) with
            | Some a, Some k0 => eval_call env f a k0 | _, _ => None end) end;
    cbn [mapM eval]; unfold eval_call; now rewrite Hw.
Qed.

Lemma RT_n : forall m v, (vsize v <= m)%nat -> RT v.
Proof.
  induction m as [|m IHm]; intros v Hm.
  { destruct v; cbn in Hm; lia. }
  destruct v as [z|b| | |r| | | |s|s|l|l|l|l|kvs sorted|c0 v|v cm|v cm|f args kwargs|c0 s|r];
    intros tr Hev; cbn [expr_of norm e_is0 e_depth].
  - reflexivity.
  - destruct b; reflexivity.
  - reflexivity.
  - reflexivity.
  - reflexivity.
  - now apply (special_eval s_inf (mkCls [] 0)).
  - now apply (special_eval s_neginf (mkCls [] 0)).
  - now apply (special_eval s_nan (mkCls [] 0)).
  - reflexivity.
  - reflexivity.
  - rewrite vsize_list in Hm. apply (eval_eseq_native KList). apply ev_list_Forall in Hev.
    intros x Hx. apply IHm; [apply vsum_in in Hx; lia|]. now apply (proj1 (Forall_forall _ _) Hev).
  - rewrite vsize_tuple in Hm. apply (eval_eseq_native KTuple). apply ev_list_Forall in Hev.
    intros x Hx. apply IHm; [apply vsum_in in Hx; lia|]. now apply (proj1 (Forall_forall _ _) Hev).
  - rewrite vsize_set in Hm. apply (eval_eseq_native KSet). apply ev_list_Forall in Hev.
    intros x Hx. apply IHm; [apply vsum_in in Hx; lia|]. now apply (proj1 (Forall_forall _ _) Hev).
  - (* frozenset *)
    rewrite vsize_frozenset in Hm. apply ev_list_Forall in Hev.
    assert (IH : forall x, In x l -> eval env (expr_of c x false) = Some (nrm x)).
    { intros x Hx. apply IHm; [apply vsum_in in Hx; lia|]. now apply (proj1 (Forall_forall _ _) Hev). }
    pose proof (eval_eseq_native KList l false IH) as HL.
    destruct l as [|x0 tl0]; unfold ecall; cbn [e_le0 e_depth eval mapM]; unfold eval_call; rewrite env_frozenset.
    + reflexivity.
    + cbn [eval] in HL. cbn [mapM]. change (e_nested c) with c. rewrite HL. reflexivity.
  - (* dict *)
    rewrite vsize_dict in Hm. apply ev_dict_Forall in Hev.
    apply (eval_edict None sorted kvs (key_expr_ c) tr I).
    intros k x Hin. pose proof (proj1 (Forall_forall _ _) Hev _ Hin) as [Hk Hx]. cbn [fst snd] in *.
    apply kvsum_in in Hin. split; [apply key_eval; auto; apply IHm; lia|apply IHm; auto; lia].
  - (* VSub *)
    cbn [evaluable] in Hev. destruct (bkind_of v) as [bkd|] eqn:Ebk; [|contradiction].
    destruct Hev as [Hw Hev]. cbn [vsize] in Hm.
    assert (HCall : forall lit a, eval env lit = Some a -> construct bkd a = Some a ->
              eval env (ECall (cn_name c0) [lit] []) = Some (VSub c0 a)).
    { intros lit a Hl Hc. change (eval env (ECall (cn_name c0) [lit] []))
        with (match mapM (eval env) [lit], Some (@nil (str * pyval)) with
              | Some a, Some k0 => eval_call env (cn_name c0) a k0 | _, _ => None end).
      cbn [mapM]. rewrite Hl. unfold eval_call. rewrite Hw. now rewrite Hc. }
    destruct v; try discriminate Ebk; inv Ebk; cbn [norm].
    + now apply HCall.
    + now apply HCall.
    + now apply (special_eval s_inf c0).
    + now apply (special_eval s_neginf c0).
    + now apply (special_eval s_nan c0).
    + unfold estr. cbn [e_is0 e_depth]. now apply HCall.
    + unfold estr. cbn [e_is0 e_depth]. now apply HCall.
    + rewrite vsize_list in Hm. apply (eval_eseq_sub KList); [exact Hw|]. apply ev_list_Forall in Hev.
      intros x Hx. apply IHm; [apply vsum_in in Hx; lia|]. now apply (proj1 (Forall_forall _ _) Hev).
    + rewrite vsize_tuple in Hm. apply (eval_eseq_sub KTuple); [exact Hw|]. apply ev_list_Forall in Hev.
      intros x Hx. apply IHm; [apply vsum_in in Hx; lia|]. now apply (proj1 (Forall_forall _ _) Hev).
    + rewrite vsize_set in Hm. apply (eval_eseq_sub KSet); [exact Hw|]. apply ev_list_Forall in Hev.
      intros x Hx. apply IHm; [apply vsum_in in Hx; lia|]. now apply (proj1 (Forall_forall _ _) Hev).
    + rewrite vsize_frozenset in Hm. apply ev_list_Forall in Hev.
      assert (IH : forall x, In x l -> eval env (expr_of c x false) = Some (nrm x)).
      { intros x Hx. apply IHm; [apply vsum_in in Hx; lia|]. now apply (proj1 (Forall_forall _ _) Hev). }
      pose proof (eval_eseq_native KList l false IH) as HL.
      destruct l as [|x0 tl0]; unfold ecall; cbn [e_le0 e_depth].
      * cbn [eval mapM]. unfold eval_call. now rewrite Hw.
      * change (e_nested c) with c.
        match goal with |- eval env (ECall ?f [?lit] []) = _ => change (eval env (ECall f [lit] []))
          with (match mapM (eval env) [lit], Some (@nil (str * pyval)) with
                | Some a, Some k0 => eval_call env f a k0 | _, _ => None end) end.
        cbn [mapM]. rewrite HL. unfold eval_call. now rewrite Hw.
    + rewrite vsize_dict in Hm. apply ev_dict_Forall in Hev.
      apply (eval_edict (Some c0) sorted kvs (key_expr_ c) tr Hw).
      intros k x Hin. pose proof (proj1 (Forall_forall _ _) Hev _ Hin) as [Hk Hx]. cbn [fst snd] in *.
      apply kvsum_in in Hin. split; [apply key_eval; auto; apply IHm; lia|apply IHm; auto; lia].
  - (* commented *) cbn [vsize] in Hm. apply IHm; [lia|exact Hev].
  - (* trailing *) cbn [vsize] in Hm. apply IHm; [lia|exact Hev].
  - (* call *)
    rewrite vsize_call in Hm. destruct Hev as (Hf & Ha & Hk).
    apply ev_list_Forall in Ha. apply ev_kw_Forall in Hk.
    assert (Gen : eval env (ECall (cn_name f) (map (fun a => expr_of c a false) args)
                              (map (fun '(k, x) => (k, expr_of c x false)) kwargs))
                  = Some (VCall f (map nrm args) (map (fun kv => (fst kv, nrm (snd kv))) kwargs))).
    { cbn [eval].
      rewrite (mapM_map (eval env) (fun a => expr_of c a false) nrm args).
      2:{ intros x Hx. apply IHm; [apply vsum_in in Hx; lia|]. now apply (proj1 (Forall_forall _ _) Ha). }
      rewrite (mapM_map (fun '(k, x) => match eval env x with Some b => Some (k, b) | None => None end)
                 (fun '(k, x) => (k, expr_of c x false)) (fun kv => (fst kv, nrm (snd kv))) kwargs).
      2:{ intros [k x] Hx. cbn [fst snd].
          rewrite (IHm x); [reflexivity|apply kwsum_in in Hx; lia|].
          exact (proj1 (Forall_forall _ _) Hk _ Hx). }
      unfold eval_call. now rewrite Hf. }
    cbn [e_le0 e_depth].
    destruct kwargs as [|kw0 kwr]; [|exact Gen].
    destruct args as [|a [|a2 ar]]; try exact Gen. destruct (huggable a); exact Gen.
  - (* path *)
    cbn [evaluable] in Hev. unfold estr. cbn [e_is0 e_depth eval mapM]. unfold eval_call. now rewrite Hev.
  - (* repr *) contradiction.
Qed.

Theorem eval_expr_of v tr : evaluable v -> eval env (expr_of c v tr) = Some (nrm v).
Proof. intros H. exact (RT_n (vsize v) v (le_n _) tr H). Qed.





End EvalRT.

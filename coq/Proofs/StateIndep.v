(** C19: what was printed (or queried) before leaves no trace in the printer
    dispatch: the printer chosen for a class depends only on the
    registrations made so far. *)
From Coq Require Import Lia.
From PP Require Import Doc Dispatch DispatchProofs.

Section SI.
Variable mro : cls -> list cls.
Variable accepts : pd -> nat -> bool.
Hypothesis Hmro : forall c, exists tl, mro c = c :: tl.

Definition is_reg_op (o : dop) : bool :=
  match o with RegClass _ _ | RegName _ _ | RegPred _ _ => true | _ => false end.

Definition sfold (s : sstate) (h : list dop) : sstate := fold_left sstep h s.

Lemma sfold_filter : forall h s, sfold s h = sfold s (filter is_reg_op h).
Proof.
  induction h as [|o tl IH]; intros s; [reflexivity|]. unfold sfold in *. cbn [fold_left filter].
  destruct o; cbn [is_reg_op fold_left]; apply IH.
Qed.

Lemma srun_last : forall h s c i,
  last (srun mro accepts s (h ++ [Print c i])) OUnit = OChosen (schosen mro accepts (sfold s h) c i).
Proof.
  induction h as [|o tl IH]; intros s c i; [reflexivity|].
  cbn [app srun]. unfold sfold. cbn [fold_left]. specialize (IH (sstep s o) c i).
  destruct (srun mro accepts (sstep s o) (tl ++ [Print c i])) eqn:E.
  - destruct tl; discriminate.
  - exact IH.
Qed.

Lemma cd_app h c i : forallb cd_query h = true -> forallb cd_query (h ++ [Print c i]) = true.
Proof. intros H. rewrite forallb_app, H. reflexivity. Qed.

Theorem prints_leave_no_trace h1 h2 c i :
  forallb cd_query h1 = true -> forallb cd_query h2 = true ->
  filter is_reg_op h1 = filter is_reg_op h2 ->
  last (drun mro accepts dinit (h1 ++ [Print c i])) OUnit = last (drun mro accepts dinit (h2 ++ [Print c i])) OUnit.
Proof.
  intros Q1 Q2 E.
  rewrite (refines mro accepts Hmro (h1 ++ [Print c i]) dinit sinit Inv_init (cd_app h1 c i Q1)).
  rewrite (refines mro accepts Hmro (h2 ++ [Print c i]) dinit sinit Inv_init (cd_app h2 c i Q2)).
  rewrite !srun_last. now rewrite (sfold_filter h1), (sfold_filter h2), E.
Qed.

End SI.

(** C12 (printers): the document built for a dict whose value carries a
    comment contains the value's document TWICE (prettyprinter.py 1421-1458:
    the value is rendered again for the comment-above variant), so a chain of
    n such dicts yields a document with at least 2^n leaves: the work of the
    printers is exponential in the nesting depth for this family. *)
From Coq Require Import Lia.
From PP Require Import Doc PyStr PyVal Consts Printers.

Fixpoint dleaves (d : doc) : nat :=
  match d with
  | Text _ => 1%nat
  | Cat l | Fill l => (fix sum (l : list doc) : nat := match l with [] => O | x :: tl => (dleaves x + sum tl)%nat end) l
  | Nest _ x | Group x | AlwaysBreak x | Annot _ x | Align x => dleaves x
  | FlatChoice b f | FCN b f => (dleaves b + dleaves f)%nat
  | _ => O
  end.

(** {'a': comment({'a': comment(... 0 ..., 'c')}, 'c')}  nested n times *)
Fixpoint nestc (n : nat) : pyval :=
  match n with
  | O => VInt 0
  | S k => VDict [(VStr [97]%N, VCommented (nestc k) [99]%N)] [0%nat]
  end.

Section Cost.
Variable sp lb : N -> bool.

Definition cx (m : mls) : pctx := mkCtx 4 None m 1000 false.

Lemma leaves_step (k vdoc vplain : doc) (c : str) (m : mls) :
  (dleaves vdoc + dleaves vplain <=
   dleaves (dict_d sp lb (cx m) None None [0%nat]
              (fun _ => [(k, Annot (AComment c) vdoc, fun _ : unit => vplain)])))%nat.
Proof.
  unfold dict_d, cx. cbn [depth_is0 c_depth c_maxlen c_sort is_some negb length].
  change (1000 <? Z.of_nat 1)%Z with false. cbn [take_z Z.leb Z.compare].
  cbn [dict_parts dict_part is_commented uncomment is_some orb].
  rewrite !Bool.orb_true_r. unfold bracket.
  destruct (is_commented k); cbn [dleaves c_indent app]; lia.
Qed.

Lemma nestc_commented n ctx a c tr :
  pretty_pv sp lb (nestc n) ctx (Some (a :: c)) tr
  = Annot (AComment (a :: c)) (pretty_pv sp lb (nestc n) ctx None tr).
Proof. destruct n; reflexivity. Qed.

Theorem commented_dicts_exponential : forall n m,
  (2 ^ n <= dleaves (pretty_pv sp lb (nestc n) (cx m) None None))%nat.
Proof.
  induction n as [|n IH]; intros m.
  - cbn. lia.
  - cbn [nestc]. cbn [pretty_pv map truthy joinc].
    change (with_strategy (nested_call (cx m)) MIndented) with (cx MIndented).
    change (with_strategy (nested_call (cx m)) MPlain) with (cx MPlain).
    rewrite !nestc_commented.
    pose proof (leaves_step
                  (str_doc (with_strategy (cx m) MParens) false [97%N] None false)
                  (pretty_pv sp lb (nestc n) (cx MIndented) None None)
                  (Annot (AComment [99%N]) (pretty_pv sp lb (nestc n) (cx MPlain) None None))
                  [99%N] m) as H.
    cbn [dleaves] in H. pose proof (IH MIndented). pose proof (IH MPlain).
    cbn [Nat.pow]. lia.
Qed.
End Cost.

(** C04 (last clause): the default renderer alters the text the stream denotes
    only by trimming white space at line ends.  The stream is cut into lines
    (a new line at every SLine); on each line only the last text fragment is
    right-stripped, so what is written is the line's text minus a suffix that
    consists of white space only. *)
From Coq Require Import Lia.
From PP Require Import Doc Render.

Section RP.
Variable is_space : N -> bool.

Notation rstrip := (rstrip is_space).
Notation render_line := (render_line is_space).
Notation default_render := (default_render is_space).

Definition is_line (x : sdoc) : bool := match x with SLine _ => true | _ => false end.

(** ---- rstrip ------------------------------------------------------------- *)
Definition dropsp := fix drop (l : str) := match l with
        | c :: tl => if is_space c then drop tl else l
        | [] => [] end.

Lemma dropsp_split l : exists ws, forallb is_space ws = true /\ l = ws ++ dropsp l.
Proof.
  induction l as [|c tl IH]; [exists []; split; reflexivity|]. cbn [dropsp].
  destruct (is_space c) eqn:E.
  - destruct IH as (ws & Hw & Ht). exists (c :: ws). cbn [forallb app]. rewrite E, Hw. split; [reflexivity|]. now rewrite <- Ht.
  - exists []. split; reflexivity.
Qed.

Lemma forallb_rev {A} (f : A -> bool) l : forallb f (rev l) = forallb f l.
Proof.
  induction l as [|x tl IH]; [reflexivity|]. cbn [rev forallb]. rewrite forallb_app, IH. cbn. rewrite andb_true_r. apply andb_comm.
Qed.

Lemma existsb_rev' {A} (f : A -> bool) l : existsb f (rev l) = existsb f l.
Proof.
  induction l as [|x tl IH]; [reflexivity|]. cbn [rev existsb]. rewrite existsb_app, IH. cbn. rewrite orb_false_r. apply orb_comm.
Qed.

Lemma rstrip_split s : exists ws, forallb is_space ws = true /\ s = rstrip s ++ ws.
Proof.
  unfold Render.rstrip. fold dropsp. destruct (dropsp_split (rev s)) as (ws & Hw & Hs).
  exists (rev ws). split; [now rewrite forallb_rev|].
  rewrite <- (rev_involutive s) at 1. rewrite Hs at 1. rewrite rev_app_distr. reflexivity.
Qed.

(** ---- one line ------------------------------------------------------------ *)
(** reversed line: everything before (in the reversed list) the last text fragment writes nothing *)
Lemma strip_rev_split : forall r, forallb (fun x => negb (is_line x)) r = true ->
  exists ws, forallb is_space ws = true /\
    flat_map write_sdoc (rev r) = flat_map write_sdoc (rev (strip_last_text_rev is_space r)) ++ ws.
Proof.
  induction r as [|x tl IH]; intros H; [exists []; split; reflexivity|].
  cbn [forallb] in H. apply andb_prop in H as [Hx Ht].
  destruct x as [s|i|a|a]; cbn [strip_last_text_rev rev].
  - destruct (rstrip_split s) as (ws & Hw & Hs). exists ws. split; [exact Hw|].
    rewrite !flat_map_app. cbn [flat_map write_sdoc]. rewrite !app_nil_r, <- app_assoc. now rewrite <- Hs.
  - discriminate.
  - destruct (IH Ht) as (ws & Hw & E). exists ws. split; [exact Hw|].
    rewrite !flat_map_app. cbn [flat_map write_sdoc]. rewrite !app_nil_r. exact E.
  - destruct (IH Ht) as (ws & Hw & E). exists ws. split; [exact Hw|].
    rewrite !flat_map_app. cbn [flat_map write_sdoc]. rewrite !app_nil_r. exact E.
Qed.

(** a line: an optional leading SLine, then no SLine *)
Definition line_shape (l : list sdoc) : Prop :=
  match l with [] => True | _ :: tl => forallb (fun x => negb (is_line x)) tl = true end.

Lemma strip_last_app_line r i : forallb (fun x => negb (is_line x)) r = true ->
  (forall s, ~ In (SText s) r) ->
  strip_last_text_rev is_space (r ++ [SLine i]) = r ++ [SLine i].
Proof.
  induction r as [|x tl IH]; intros H Hn; [reflexivity|]. cbn [app strip_last_text_rev].
  destruct x as [s|j|a|a]; try (exfalso; apply (Hn s); now left);
    try (f_equal; apply IH; [cbn [forallb] in H; apply andb_prop in H; tauto|intros s Hs; apply (Hn s); now right]).
Qed.

Lemma line_trim l : line_shape l ->
  exists ws, forallb is_space ws = true /\ flat_map write_sdoc l = render_line l ++ ws.
Proof.
  intros Hs. unfold Render.render_line, strip_line.
  destruct l as [|x tl]; [exists []; split; reflexivity|]. cbn [line_shape] in Hs.
  destruct (is_line x) eqn:Ex.
  - (* leading SLine: the tail is trimmed, the SLine itself is kept *)
    destruct x as [s|i|a|a]; try discriminate.
    assert (Hr : forallb (fun x => negb (is_line x)) (rev tl) = true) by now rewrite forallb_rev.
    cbn [rev].
    destruct (existsb (fun y => match y with SText _ => true | _ => false end) tl) eqn:Et.
    + (* some text in the tail: the stripping stops inside rev tl *)
      assert (G : forall r, existsb (fun y => match y with SText _ => true | _ => false end) r = true ->
                 strip_last_text_rev is_space (r ++ [SLine i]) = strip_last_text_rev is_space r ++ [SLine i]).
      { induction r as [|y r' IHr]; intros He; [discriminate|]. cbn [app strip_last_text_rev].
        destruct y; try reflexivity; cbn [existsb orb] in He; rewrite IHr by exact He; reflexivity. }
      rewrite G by (rewrite existsb_rev'; exact Et).
      destruct (strip_rev_split (rev tl) Hr) as (ws & Hw & E). rewrite rev_involutive in E.
      exists ws. split; [exact Hw|]. rewrite rev_app_distr. cbn [rev app flat_map].
      rewrite <- app_assoc. now rewrite <- E.
    + exists []. split; [reflexivity|]. rewrite app_nil_r.
      rewrite strip_last_app_line; [rewrite rev_app_distr, rev_involutive; reflexivity|exact Hr|].
      intros s Hin. apply in_rev in Hin.
      assert (existsb (fun y => match y with SText _ => true | _ => false end) tl = true)
        by (apply existsb_exists; exists (SText s); split; [exact Hin|reflexivity]).
      congruence.
  - assert (Hr : forallb (fun x => negb (is_line x)) (rev (x :: tl)) = true).
    { rewrite forallb_rev. cbn [forallb]. now rewrite Ex, Hs. }
    destruct (strip_rev_split (rev (x :: tl)) Hr) as (ws & Hw & E). rewrite rev_involutive in E.
    exists ws. split; [exact Hw|exact E].
Qed.

(** ---- cutting into lines -------------------------------------------------- *)
Lemma as_lines_concat : forall l cur, concat (as_lines_aux cur l) = rev cur ++ l.
Proof.
  induction l as [|x tl IH]; intros cur; cbn [as_lines_aux].
  - destruct cur; [reflexivity|]. cbn [concat]. now rewrite !app_nil_r.
  - destruct x; try (rewrite IH; cbn [rev]; now rewrite <- app_assoc).
    cbn [concat]. rewrite IH. reflexivity.
Qed.

Lemma shape_snoc r x : line_shape r -> is_line x = false -> line_shape (r ++ [x]).
Proof.
  intros H Hx. destruct r as [|y tl]; [reflexivity|]. cbn [app line_shape] in *.
  rewrite forallb_app, H. cbn. now rewrite Hx.
Qed.

Lemma as_lines_shape : forall l cur, line_shape (rev cur) -> Forall line_shape (as_lines_aux cur l).
Proof.
  induction l as [|x tl IH]; intros cur H; cbn [as_lines_aux].
  - destruct cur; constructor; [exact H|constructor].
  - destruct x as [s|i|a|a]; try (apply IH; cbn [rev]; apply shape_snoc; [exact H|reflexivity]).
    constructor; [exact H|]. apply IH. reflexivity.
Qed.

Definition starts_line (l : list sdoc) : Prop := exists i tl, l = SLine i :: tl.

Lemma starts_snoc r x : starts_line r -> starts_line (r ++ [x]).
Proof. intros (i & tl0 & ->). exists i, (tl0 ++ [x]). reflexivity. Qed.

Lemma all_start : forall l cur, starts_line (rev cur) -> Forall starts_line (as_lines_aux cur l).
Proof.
  induction l as [|x t IH]; intros cur H; cbn [as_lines_aux].
  - destruct cur; [destruct H as (i & tl0 & E); discriminate|]. constructor; [exact H|constructor].
  - destruct x as [s|i|a|a]; try (apply IH; cbn [rev]; now apply starts_snoc).
    constructor; [exact H|]. apply IH. exists i, []. reflexivity.
Qed.

Lemma tail_start : forall l cur, Forall starts_line (tl (as_lines_aux cur l)).
Proof.
  induction l as [|x t IH]; intros cur; cbn [as_lines_aux].
  - destruct cur; constructor.
  - destruct x as [s|i|a|a]; try apply IH. cbn [tl]. apply all_start. exists i, []. reflexivity.
Qed.

(** The renderer cuts the stream into lines - every line after the first
    begins with its SLine - and writes each line's text minus a suffix of
    white space. *)
Theorem render_only_trims l :
  exists lines,
    concat lines = l /\
    plain l = flat_map plain lines /\
    default_render l = flat_map render_line lines /\
    Forall starts_line (tl lines) /\
    Forall (fun line => exists ws, forallb is_space ws = true /\ plain line = render_line line ++ ws) lines.
Proof.
  exists (as_lines l). unfold as_lines.
  pose proof (as_lines_concat l []) as Hc. cbn [rev app] in Hc.
  repeat split.
  - exact Hc.
  - rewrite <- Hc at 1. unfold plain. generalize (as_lines_aux [] l). intros ls.
    induction ls as [|x tl0 IH]; [reflexivity|]. cbn [concat flat_map]. now rewrite flat_map_app, IH.
  - apply tail_start.
  - pose proof (as_lines_shape l [] I) as Hs. revert Hs. generalize (as_lines_aux [] l). intros ls Hs.
    induction Hs as [|x tl0 Hx _ IH]; constructor; [|exact IH]. unfold plain. now apply line_trim.
Qed.

End RP.

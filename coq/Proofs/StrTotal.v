(** C02 / C12: str_to_lines terminates for every positive max_len (however
    small - not only for the floor of 10 the caller guarantees), with the
    fuel the model gives it. *)
From Coq Require Import Lia.
From PP Require Import Doc PyStr Printers.

Local Open Scope nat_scope.

Section StrTotal.
Variable printable : N -> bool.
Variable is_space_u : N -> bool.
Variable is_word_u : N -> bool.

Ltac inv H := inversion H; subst; clear H.

Definition chars (st : slstate) : nat :=
  length (match sl_next st with Some (p, _) => p | None => [] end)
  + length (concat (map fst (sl_rest st))).

Definition mu (st : slstate) : nat :=
  2 * chars st + length (sl_rest st) + match sl_parts st with [] => 0 | _ => 1 end.

Lemma firstn_skipn_len k s : length (firstn_z k s) + length (skipn_z k s) = length s.
Proof.
  revert k. induction s as [|x tl IH]; intros k; cbn [firstn_z skipn_z length]; [reflexivity|].
  destruct (k <=? 0)%Z; cbn [length]; [lia|]. rewrite <- (IH (k - 1)%Z). lia.
Qed.

Lemma firstn_pos k s : (1 <= k)%Z -> s <> [] -> firstn_z k s <> [].
Proof. intros Hk Hs. destruct s; [congruence|]. cbn [firstn_z]. destruct (k <=? 0)%Z eqn:E; [lia|discriminate]. Qed.

Definition Inv2 (max_len : Z) (st : slstate) : Prop :=
  (sl_len st < max_len)%Z /\ (forall p w, sl_next st = Some (p, w) -> p <> []).

Ltac slia := unfold str in *; lia.

Lemma step_measure bytes max_len q st st' :
  (0 < max_len)%Z -> Inv2 max_len st ->
  sl_step printable bytes max_len q st = SLCont st' ->
  mu st' < mu st /\ Inv2 max_len st'.
Proof.
  intros Hpos [Hlen Hnext]. destruct st as [next rest parts len out].
  cbn [sl_next sl_rest sl_parts sl_len sl_out] in *. unfold sl_step.
  cbn [sl_next sl_rest sl_parts sl_len sl_out].
  assert (Process : forall part isw rest' (base : nat),
    part <> [] ->
    (* [base] = measure contribution of everything except the flag, with part counted *)
    base = 2 * (length part + length (concat (map fst rest'))) + length rest' ->
    forall st',
    (let elen := escaped_len printable bytes q part in
       let cl := (len + elen)%Z in
       if (cl =? max_len)%Z then
         if negb isw && Nat.ltb 1 (length parts) then
           SLCont (mkSL (Some (part, isw)) rest' [] 0 (joinl parts :: out))
         else SLCont (mkSL None rest' [] 0 (joinl (parts ++ [part]) :: out))
       else if (max_len <? cl)%Z then
         if negb isw && negb (match parts with [] => true | _ => false end) then
           SLCont (mkSL (Some (part, isw)) rest' [] 0 (joinl parts :: out))
         else
           let remaining := (max_len - (cl - elen))%Z in
           let k := Z.max remaining 0 in
           let this := firstn_z k part in
           let nxt := skipn_z k part in
           let parts' := match this with [] => parts | _ => parts ++ [this] end in
           let out' := match parts' with [] => out | _ => joinl parts' :: out end in
           SLCont (mkSL (match nxt with [] => None | _ => Some (nxt, isw) end) rest' [] 0 out')
       else SLCont (mkSL None rest' (parts ++ [part]) cl out)) = SLCont st' ->
    Inv2 max_len st' /\ mu st' < base + match parts with [] => 0 | _ => 1 end).
  { intros part isw rest' base Hpart Hbase st1. cbv zeta.
    assert (Hlp : 1 <= length part) by (destruct part; cbn; [congruence|slia]).
    destruct (_ =? max_len)%Z eqn:Eeq.
    - destruct (negb isw && Nat.ltb 1 (length parts)) eqn:E; intros H; inv H.
      + apply andb_prop in E as [_ E]. apply Nat.ltb_lt in E.
        assert (parts <> []) by (destruct parts; cbn in E; [slia|congruence]).
        unfold mu, chars, Inv2; cbn [sl_next sl_rest sl_parts sl_len].
        destruct parts; [congruence|]. repeat split; try slia.
        intros p w H1. now inv H1.
      + unfold mu, chars, Inv2; cbn [sl_next sl_rest sl_parts sl_len length].
        repeat split; try (destruct parts; slia). discriminate.
    - destruct (max_len <? _)%Z eqn:Elt.
      + destruct (negb isw && negb (match parts with [] => true | _ => false end)) eqn:E; intros H; inv H.
        * apply andb_prop in E as [_ E].
          unfold mu, chars, Inv2; cbn [sl_next sl_rest sl_parts sl_len].
          destruct parts; [discriminate|]. repeat split; try slia.
          intros p w H1. now inv H1.
        * set (k := Z.max _ 0).
          assert (Hk : (1 <= k)%Z) by (unfold k; slia).
          pose proof (firstn_skipn_len k part) as Hfs.
          pose proof (firstn_pos k part Hk Hpart) as Hthis.
          assert (1 <= length (firstn_z k part)) by (destruct (firstn_z k part); cbn; [congruence|slia]).
          unfold mu, chars, Inv2; cbn [sl_next sl_rest sl_parts sl_len].
          destruct (skipn_z k part) as [|n0 nxt] eqn:En; cbn [length] in *.
          -- repeat split; try (destruct parts; slia). discriminate.
          -- repeat split; try (destruct parts; slia). intros p w H1. inv H1. discriminate.
      + intros H; inv H. apply Z.eqb_neq in Eeq. apply Z.ltb_ge in Elt.
        unfold mu, chars, Inv2; cbn [sl_next sl_rest sl_parts sl_len length].
        assert (parts ++ [part] <> []) by (destruct parts; discriminate).
        destruct (parts ++ [part]) eqn:Epp; [congruence|].
        repeat split; try (destruct parts; slia). discriminate. }
  destruct next as [[p w]|].
  - intros E. destruct (Process p w rest (2 * (length p + length (concat (map fst rest))) + length rest)
                          ltac:(eauto) eq_refl st' E) as (HI & Hm).
    split; [|exact HI]. revert Hm. unfold mu, chars. cbn [sl_next sl_rest sl_parts]. intros Hm. slia.
  - destruct rest as [|[p w] tl]; [discriminate|].
    destruct p as [|c0 p'].
    + intros E. inv E. unfold mu, chars, Inv2; cbn [sl_next sl_rest sl_parts sl_len map fst concat app length].
      split; [slia|]. split; [exact Hlen|discriminate].
    + intros E. destruct (Process (c0 :: p') w tl
                            (2 * (length (c0 :: p') + length (concat (map fst tl))) + length tl)
                            ltac:(discriminate) eq_refl st' E) as (HI & Hm).
      split; [|exact HI]. revert Hm. unfold mu, chars. cbn [sl_next sl_rest sl_parts map fst concat length].
      rewrite app_length. cbn [length]. intros Hm. slia.
Qed.

Lemma loop_total bytes max_len q : (0 < max_len)%Z -> forall fuel st,
  Inv2 max_len st -> mu st < fuel -> sl_loop printable fuel bytes max_len q st <> None.
Proof.
  intros Hpos. induction fuel as [|fuel IH]; intros st HI Hm; [lia|]. cbn [sl_loop].
  destruct (sl_step printable bytes max_len q st) as [o|st'] eqn:E; [discriminate|].
  destruct (step_measure _ _ _ _ _ Hpos HI E) as [Hlt HI']. apply IH; auto. lia.
Qed.

Lemma split_runs_len sep : forall s cur insep,
  length (split_runs_aux sep cur insep s) <= length s + 1.
Proof.
  induction s as [|c tl IH]; intros cur insep; cbn [split_runs_aux length]; [lia|].
  destruct (Bool.eqb (sep c) insep); [specialize (IH (c :: cur) insep); lia|].
  cbn [length]. specialize (IH [c] (sep c)). lia.
Qed.

Lemma re_split_len sep s : length (re_split sep s) <= length s + 2.
Proof.
  unfold re_split. pose proof (split_runs_len sep s [] false).
  destruct (Nat.even _); [rewrite app_length; cbn [length]|]; lia.
Qed.

Lemma re_split_concat_len sep s : length (concat (re_split sep s)) = length s.
Proof.
  unfold re_split.
  assert (H : forall s cur insep, length (concat (split_runs_aux sep cur insep s)) = length cur + length s).
  { clear s. induction s as [|c tl IH]; intros cur insep; cbn [split_runs_aux].
    - cbn. rewrite app_nil_r, rev_length. lia.
    - destruct (Bool.eqb (sep c) insep); [rewrite IH; cbn [length]; lia|].
      cbn [concat]. rewrite app_length, IH, rev_length. cbn [length]. lia. }
  destruct (Nat.even _); [rewrite concat_app, app_length; cbn|]; rewrite H; cbn; lia.
Qed.

Lemma tag_alt_len l : forall w, length (tag_alt l w) = length l.
Proof. induction l as [|x tl IH]; intros w; cbn; [reflexivity|]. now rewrite IH. Qed.
Lemma tag_alt_fst' l : forall w, map fst (tag_alt l w) = l.
Proof. induction l as [|x tl IH]; intros w; cbn [tag_alt map fst]; [reflexivity|]. now rewrite IH. Qed.

(** C02_split_total *)
Theorem str_to_lines_total bytes max_len q s pat :
  (0 < max_len)%Z ->
  str_to_lines printable is_space_u is_word_u (big_fuel_of s) bytes max_len q s pat <> None.
Proof.
  intros Hpos. unfold str_to_lines. destruct (slen s <=? max_len)%Z; [discriminate|].
  apply loop_total; auto.
  - split; cbn [sl_len sl_next]; [lia|discriminate].
  - unfold mu, chars, big_fuel_of. cbn [sl_next sl_rest sl_parts length].
    rewrite tag_alt_len, tag_alt_fst'.
    destruct pat as [p|].
    + pose proof (re_split_len (sep_of is_space_u is_word_u bytes p) s).
      rewrite re_split_concat_len. lia.
    + destruct (Nat.leb _ 1).
      * pose proof (re_split_len (sep_of is_space_u is_word_u bytes PNonword) s).
        rewrite re_split_concat_len. lia.
      * pose proof (re_split_len (sep_of is_space_u is_word_u bytes PWs) s).
        rewrite re_split_concat_len. lia.
Qed.

(** the guard is needed: with max_len = 0 the loop spins (the Python function
    asserts max_len > 0; the caller's floor of 10 keeps it away) *)
Example str_to_lines_zero_diverges :
  str_to_lines (fun _ => true) (fun _ => false) (fun _ => true) 50 false 0 39%N [97; 98]%N None = None.
Proof. vm_compute. reflexivity. Qed.

End StrTotal.

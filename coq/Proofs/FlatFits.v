(** C05 lifted to every decision of every run from a classic document. *)
From Coq Require Import Lia.
From PP Require Import Doc Normalize Layout Classic FirstLine.

Section FlatFits.
Variable evs : strp -> Z -> Z -> Z -> Z -> doc.
Variables (ff : nat) (smart : bool) (w rw : Z).

Ltac inv H := inversion H; subst; clear H.

(** the state after [k] iterations of the main loop *)
Fixpoint steps (k : nat) (st : lstate) : option lstate :=
  match k with
  | O => Some st
  | S k' => match layout_step evs ff smart w rw st with
            | LCont st' => steps k' st'
            | _ => None
            end
  end.

Lemma classic_step st st' :
  classic_stk (ls_stk st) -> layout_step evs ff smart w rw st = LCont st' ->
  classic_stk (ls_stk st').
Proof.
  destruct st as [stk col out]. unfold layout_step. cbn [ls_stk ls_col ls_out].
  destruct stk as [|[[i m] d] rest]; [discriminate|]. intros HC.
  apply classic_stk_inv in HC as [Hcd HC'].
  destruct d as [ |s|l|j x|x|x|b f|b f|l|a x| |x|p|a]; cbn [classict classic] in Hcd; try discriminate;
    intros E; try (inv E; cbn [ls_stk]; first [exact HC' | now apply classic_stk_cons]).
  - inv E. cbn [ls_stk]. now apply classic_stk_push_all.
  - destruct (fits _ _ _ _ _ _ _ _) as [[|]|]; inv E; cbn [ls_stk]; now apply classic_stk_cons.
  - apply andb_prop in Hcd as [Hb Hf]. destruct b; try discriminate.
    inv E. cbn [ls_stk]. apply classic_stk_cons; [|exact HC']. now destruct m.
  - apply andb_prop in Hcd as [Hb Hf]. destruct b; try discriminate.
    inv E. cbn [ls_stk]. apply classic_stk_cons; [|exact HC']. now destruct m.
  - (* annot *) inv E. cbn [ls_stk]. apply classic_stk_cons; [exact Hcd|]. now apply classic_stk_cons_t.
  - inv E. cbn [ls_stk]. apply classic_stk_cons; [|exact HC'].
    apply (classic_normalize (Nest (col - i) x)). exact Hcd.
Qed.

Lemma classic_steps k : forall st st',
  classic_stk (ls_stk st) -> steps k st = Some st' -> classic_stk (ls_stk st').
Proof.
  induction k as [|k IH]; intros st st' HC E; cbn [steps] in E.
  - now inv E.
  - destruct (layout_step evs ff smart w rw st) as [|st1|] eqn:Es; try discriminate.
    eapply IH; [|exact E]. eapply classic_step; eauto.
Qed.

Lemma loop_from_reach k : forall fuel st0 st out,
  layout_loop evs fuel ff smart w rw st0 = Some out -> steps k st0 = Some st ->
  exists fuel', layout_loop evs fuel' ff smart w rw st = Some out.
Proof.
  induction k as [|k IH]; intros fuel st0 st out HL HS; cbn [steps] in HS.
  - inv HS. eauto.
  - destruct (layout_step evs ff smart w rw st0) as [|st1|] eqn:Es; try discriminate.
    destruct fuel as [|fuel]; [discriminate|]. cbn [layout_loop] in HL. rewrite Es in HL.
    eapply IH; eauto.
Qed.

Theorem flat_fits d fuel out :
  classic d = true ->
  best_layout evs fuel ff smart w rw d = Some out ->
  forall k i m x rest col o,
    steps k (init_state d) = Some (mkL ((i, m, Group x) :: rest) col o) ->
    fits evs ff smart w rw (Z.min col i) (avail w rw col i) ((i, MFlat, x) :: rest) = Some true ->
    exists new, out = rev o ++ new /\ col + flw new <= Z.min w (i + rw).
Proof.
  intros Hc HB k i m x rest col o HS Hfit. unfold best_layout in HB.
  destruct (loop_from_reach _ _ _ _ _ HB HS) as [fuel' HL].
  eapply flat_group_first_line; eauto.
  change ((i, m, Group x) :: rest) with (ls_stk (mkL ((i, m, Group x) :: rest) col o)).
  eapply classic_steps; [|exact HS]. unfold init_state. cbn [ls_stk].
  constructor; [|constructor]. cbn [snd]. apply classic_t. now apply classic_normalize.
Qed.

End FlatFits.

(** Bridge between the two halves of the development: every layout (Sem.Lay)
    of a document whose token projection is [ts] (PyExpr.DT) carries, as an
    SDoc stream, exactly the tokens [ts] - for documents without the
    contextual string printer.  Together with C04_membership: the stream the
    layout engine really emits has those tokens. *)
From Coq Require Import Lia.
From PP Require Import Doc PyStr PyVal Printers PyExpr Sem.

Ltac inv H := inversion H; subst; clear H.

(** tokens of an SDoc stream: text under a syntax-token annotation is one
    token of that class, everything under COMMENT_SINGLE is skipped, blank
    text and line breaks are skipped, other text is opaque *)
Inductive tmode := MNormal | MTok (t : N) (acc : str) | MCom (depth : nat).

Fixpoint stoks (l : list sdoc) (m : tmode) : list token :=
  match l with
  | [] => []
  | x :: tl =>
      match m, x with
      | MNormal, SText s => if ws_only s then stoks tl MNormal else TRepr s :: stoks tl MNormal
      | MNormal, SLine _ => stoks tl MNormal
      | MNormal, SPush (ATok t) => if (t =? 14)%N then stoks tl (MCom 1) else stoks tl (MTok t [])
      | MNormal, SPush _ => stoks tl MNormal
      | MNormal, SPop _ => stoks tl MNormal
      | MTok t acc, SText s => stoks tl (MTok t (acc ++ s))
      | MTok t acc, SPop _ => tok_of t acc :: stoks tl MNormal
      | MTok t acc, _ => stoks tl (MTok t acc)
      | MCom d, SPush _ => stoks tl (MCom (S d))
      | MCom d, SPop _ => match d with 1%nat | O => stoks tl MNormal | S d' => stoks tl (MCom d') end
      | MCom d, _ => stoks tl (MCom d)
      end
  end.

(** documents without the contextual string printer and without layout-stack
    residue *)
Fixpoint clean (d : doc) : bool :=
  match d with
  | Nil | Text _ | HardLine => true
  | Cat l | Fill l => (fix all (l : list doc) : bool := match l with [] => true | x :: tl => clean x && all tl end) l
  | Nest _ x | Group x | AlwaysBreak x | Annot _ x | Align x => clean x
  | FlatChoice b f | FCN b f => clean b && clean f
  | CtxS _ | PopD _ => false
  end.

Lemma clean_list l : (fix all (l : list doc) : bool := match l with [] => true | x :: tl => clean x && all tl end) l = forallb clean l.
Proof. induction l as [|x tl IH]; [reflexivity|]. cbn [forallb]. now rewrite IH. Qed.

Lemma clean_unab d : clean d = true -> clean (unab d) = true.
Proof. induction d; cbn [unab clean]; auto. Qed.

Section Bridge.
Variable evs : strp -> Z -> Z -> Z -> Z -> doc.
Variables w rw : Z.

Scheme Lay_mut := Induction for Lay Sort Prop
  with LayList_mut := Induction for LayList Sort Prop
  with LayFill_mut := Induction for LayFill Sort Prop.

(** inside a comment: a clean document leaves the depth where it found it *)
Definition Bal (o : list sdoc) : Prop :=
  forall k rest, stoks (o ++ rest) (MCom (S k)) = stoks rest (MCom (S k)).

Lemma bal_app a b : Bal a -> Bal b -> Bal (a ++ b).
Proof. intros Ha Hb k rest. rewrite <- app_assoc, Ha, Hb. reflexivity. Qed.
Lemma bal_nil : Bal [].
Proof. intros k rest. reflexivity. Qed.

Lemma lay_balanced :
  forall m i c d o c', Lay evs w rw m i c d o c' -> clean d = true -> Bal o.
Proof.
  apply (Lay_mut evs w rw
           (fun m i c d o c' _ => clean d = true -> Bal o)
           (fun m i c l o c' _ => forallb clean l = true -> Bal o)
           (fun i c l o c' _ => forallb clean l = true -> Bal o)); intros; cbn [clean] in *;
    rewrite ?clean_list in *.
  - (* demote *) auto.
  - apply bal_nil.
  - intros k rest. unfold txt. destruct s; reflexivity.
  - auto.
  - auto.
  - auto.
  - auto.
  - apply andb_prop in H0 as [? ?]. auto.
  - apply andb_prop in H0 as [? ?]. auto.
  - apply andb_prop in H0 as [? ?]. auto.
  - apply andb_prop in H0 as [? ?]. auto.
  - auto.
  - (* annot *) intros k rest. cbn [app stoks]. rewrite <- app_assoc. rewrite (H H0 (S k)). reflexivity.
  - intros k rest. reflexivity.
  - (* align *) apply H. cbn [clean]. exact H0.
  - discriminate.
  - discriminate.
  - apply bal_nil.
  - cbn [forallb] in H1. apply andb_prop in H1 as [? ?]. apply bal_app; auto.
  - apply bal_nil.
  - cbn [forallb] in H1. apply andb_prop in H1 as [? ?]. apply bal_app; auto. apply H. now apply clean_unab.
Qed.

Lemma DT_unab d ts : DT d ts -> DT (unab d) ts.
Proof.
  revert ts. induction d; intros ts H; cbn [unab]; auto. inv H. auto.
Qed.

Definition Tok (o : list sdoc) (ts : list token) : Prop :=
  forall rest, stoks (o ++ rest) MNormal = ts ++ stoks rest MNormal.

Lemma tok_app a b ta tb : Tok a ta -> Tok b tb -> Tok (a ++ b) (ta ++ tb).
Proof. intros Ha Hb rest. rewrite <- !app_assoc, Ha, Hb. reflexivity. Qed.

Lemma lay_text_inv : forall m i c d o c', Lay evs w rw m i c d o c' -> forall s, d = Text s -> o = txt s.
Proof.
  apply (Lay_mut evs w rw
           (fun m i c d o c' _ => forall s, d = Text s -> o = txt s)
           (fun m i c l o c' _ => True) (fun i c l o c' _ => True)); intros; try discriminate; auto.
  now inv H.
Qed.

Theorem lay_tokens :
  forall m i c d o c', Lay evs w rw m i c d o c' -> forall ts, DT d ts -> clean d = true -> Tok o ts.
Proof.
  apply (Lay_mut evs w rw
           (fun m i c d o c' _ => forall ts, DT d ts -> clean d = true -> Tok o ts)
           (fun m i c l o c' _ => forall ts, DTL l ts -> forallb clean l = true -> Tok o ts)
           (fun i c l o c' _ => forall ts, DTL l ts -> forallb clean l = true -> Tok o ts)); intros; cbn [clean] in *;
    rewrite ?clean_list in *.
  - (* demote *) auto.
  - inv H. intros rest. reflexivity.
  - (* text *)
    inv H; intros rest; unfold txt.
    + destruct s as [|a s']; [reflexivity|]. cbn [app stoks]. now rewrite H2.
    + destruct s as [|a s']; [discriminate|]. cbn [app stoks]. now rewrite H2.
  - inv H0. auto.
  - inv H0. auto.
  - inv H0. auto.
  - inv H0. auto.
  - inv H0. apply andb_prop in H1 as [? ?]. auto.
  - inv H0. apply andb_prop in H1 as [? ?]. auto.
  - inv H0.
  - inv H0.
  - inv H0. auto.
  - (* annot *)
    inv H0.
    + (* comment *) intros rest. cbn [app stoks N.eqb Pos.eqb]. rewrite <- app_assoc.
      rewrite (lay_balanced _ _ _ _ _ _ l H1 O). reflexivity.
    + (* a syntax token around a text *)
      rewrite (lay_text_inv _ _ _ _ _ _ l s eq_refl).
      intros rest. cbn [app stoks]. destruct (t =? 14)%N eqn:E; [apply N.eqb_eq in E; contradiction|].
      unfold txt. destruct s; cbn [app stoks]; reflexivity.
    + (* comment annotation of the value: transparent *)
      intros rest. cbn [app stoks]. rewrite <- app_assoc. rewrite (H _ H5 H1). reflexivity.
  - inv H. intros rest. reflexivity.
  - inv H0.
  - discriminate.
  - discriminate.
  - inv H. intros rest. reflexivity.
  - inv H1. cbn [forallb] in H2. apply andb_prop in H2 as [? ?]. apply tok_app; auto.
  - inv H. intros rest. reflexivity.
  - inv H1. cbn [forallb] in H2. apply andb_prop in H2 as [? ?]. apply tok_app; auto.
    apply H; [now apply DT_unab|now apply clean_unab].
Qed.

End Bridge.

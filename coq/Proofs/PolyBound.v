(** C12, end to end: pformat's document of ANY value weighs at most 1000 |v|
    (|v| = nodes + characters of strings and comments), and the layout of it
    finishes within 1000 |v| + 1 iterations of the main loop, each look-ahead
    within 1000 |v| iterations: at most (1000 |v| + 1)^2 loop iterations. *)
From Coq Require Import Lia.
From PP Require Import Doc PyStr PyVal Consts Printers Normalize Layout Pformat FuelAll StrWeight LinearDocs.

Section PB.
Variable printable sp isw lb : N -> bool.

Notation W := (wt cb_str).

Theorem pretty_linear v ctx cm tr : sorted_ok v -> (0 <= c_maxlen ctx)%Z ->
  (W (pretty_pv sp lb v ctx cm tr) <= K * (vsz v + olen cm + olen tr))%nat.
Proof. intros Hok Hm. pose proof (lin_n sp lb (PrettyToks3.vsize v) v (le_n _) Hok ctx cm tr Hm). lia. Qed.

Theorem top_doc_linear v indent depth maxlen sort : sorted_ok v -> (0 <= maxlen)%Z ->
  (W (top_doc sp lb v indent depth maxlen sort) <= K * vsz v)%nat.
Proof.
  intros Hok Hm. unfold top_doc.
  pose proof (lin_n sp lb (PrettyToks3.vsize v) v (le_n _) Hok (mkCtx indent depth MPlain maxlen sort) None None Hm) as H.
  cbn [olen] in H. rewrite <- (csz_pretty sp lb v (mkCtx indent depth MPlain maxlen sort) None None) in H.
  unfold csz in H. destruct (is_commented _) as [c|]; [|lia].
  pose proof (commentdoc_wt sp lb c). rewrite ?W_group, ?W_fc, ?W_cat, ?Wl_cons. cbn [FuelAll.wtl fold_right].
  change (W HardLine) with 1%nat. change (W TWO_SPACES) with 1%nat. lia.
Qed.

(** the model's layout of pformat's document never runs out of fuel once both
    fuels exceed 1000 |v| *)
Theorem sdocs_total fuel ff v indent width rw depth maxlen sort :
  sorted_ok v -> (0 <= maxlen)%Z -> (K * vsz v < fuel)%nat -> (K * vsz v <= ff)%nat ->
  sdocs_model printable sp isw lb fuel ff v indent width rw depth maxlen sort <> None.
Proof.
  intros Hok Hm Hf Hff. unfold sdocs_model, best_layout, init_state.
  pose proof (top_doc_linear v indent depth maxlen sort Hok Hm) as Ht.
  pose proof (norm_wt cb_str (top_doc sp lb v indent depth maxlen sort)) as Hn.
  apply (layout_total_all cb_str (evs printable sp isw lb) (eval_str_weight printable sp isw lb cb_str));
    cbn [ls_stk mwt fold_right snd]; lia.
Qed.

End PB.

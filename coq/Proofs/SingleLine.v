(** C06: completeness of the fitting predicates on single-line runs, and
    stability of single-line layouts under every width/ribbon >= their length.

    Algebra ("no forced break"): text, concat, nest (offset >= 0), group,
    line/softline (flat_choice with a hardline as broken branch), hardline,
    annotate.  No always_break, align, fill, contextual. *)
From Coq Require Import Lia.
From PP Require Import Doc Normalize Layout Classic FirstLine.

Section SingleLine.
Variable evs : strp -> Z -> Z -> Z -> Z -> doc.

Ltac inv H := inversion H; subst; clear H.

Fixpoint plainc (d : doc) : bool :=
  match d with
  | Nil | Text _ | HardLine | PopD _ => true
  | Cat l => (fix all (l : list doc) : bool :=
                match l with [] => true | x :: tl => plainc x && all tl end) l
  | Nest j x => (0 <=? j) && plainc x
  | Group x | Annot _ x => plainc x
  | FlatChoice b f | FCN b f => is_hard b && plainc f
  | AlwaysBreak _ | Align _ | Fill _ | CtxS _ => false
  end.

Lemma plainc_cat l : plainc (Cat l) = forallb plainc l.
Proof. induction l as [|x tl IH]; [reflexivity|]. cbn [plainc forallb] in *. now rewrite <- IH. Qed.

Definition plain_stk (s : list triple) : Prop :=
  Forall (fun t => plainc (snd t) = true /\ 0 <= fst (fst t)) s.

(** no line break in a stream; total text width *)
Fixpoint nosl (l : list sdoc) : bool :=
  match l with [] => true | SLine _ :: _ => false | _ :: tl => nosl tl end.
Fixpoint tw (l : list sdoc) : Z :=
  match l with [] => 0 | SText s :: tl => slen s + tw tl | _ :: tl => tw tl end.

Lemma tw_nonneg l : 0 <= tw l.
Proof. induction l as [|x tl IH]; cbn [tw]; [lia|]. destruct x; try lia. pose proof (slen_nonneg s). lia. Qed.

(** look-ahead stack vs machine stack: same entries, the machine may be in
    break mode where the look-ahead is flat, and carries the pending
    annotation pops the look-ahead never pushes *)
Inductive RS : list triple -> list triple -> Prop :=
| RS_nil : RS [] []
| RS_cons i mf mm d F M : mle mm mf -> RS F M -> RS ((i, mf, d) :: F) ((i, mm, d) :: M)
| RS_pop i m a F M : RS F M -> RS F ((i, m, PopD a) :: M).

Lemma RS_refl s : RS s s.
Proof. induction s as [|[[i m] d] tl IH]; constructor; auto. now left. Qed.

Lemma RS_push i mf mm l F M :
  mle mm mf -> RS F M -> RS (push_all i mf l F) (push_all i mm l M).
Proof.
  intros Hm HR. unfold push_all. induction l as [|x tl IH]; cbn [map app]; [exact HR|].
  now constructor.
Qed.

Lemma plain_stk_push i m l rest :
  plainc (Cat l) = true -> 0 <= i -> plain_stk rest -> plain_stk (push_all i m l rest).
Proof.
  rewrite plainc_cat. intros Hl Hi Hr. apply Forall_app; split; [|exact Hr].
  apply Forall_forall. intros t Ht. apply in_map_iff in Ht as (x & <- & Hx).
  cbn [fst snd]. rewrite forallb_forall in Hl. auto.
Qed.

(** a hardline on top of the machine's stack contradicts a single-line run *)
Lemma hard_contra ff sm w0 rw0 fuel i m M col o new :
  layout_loop evs fuel ff sm w0 rw0 (mkL ((i, m, HardLine) :: M) col o) = Some (rev o ++ new) ->
  nosl new = true -> False.
Proof.
  intros HL Hn. destruct fuel as [|fuel]; [discriminate|].
  cbn [layout_loop layout_step ls_stk ls_col ls_out] in HL.
  apply loop_out_prefix in HL as [new' E]. cbn [ls_out rev] in E.
  rewrite <- app_assoc in E. apply app_inv_head in E. subst. discriminate.
Qed.

(** the machine has just emitted [x] *)
Lemma emit_inv ff sm w0 rw0 fuel M col x o new :
  layout_loop evs fuel ff sm w0 rw0 (mkL M col (x :: o)) = Some (rev o ++ new) ->
  exists new', new = x :: new' /\
    layout_loop evs fuel ff sm w0 rw0 (mkL M col (x :: o)) = Some (rev (x :: o) ++ new').
Proof.
  intros HL. pose proof (loop_out_prefix _ _ _ _ _ _ _ _ HL) as [new' E]. cbn [ls_out rev] in E.
  rewrite <- app_assoc in E. apply app_inv_head in E. subst new.
  exists new'. split; [reflexivity|]. rewrite HL. cbn [rev]. now rewrite <- app_assoc.
Qed.

Lemma fits_loop_det : forall n1 n2 smart w rw mnl maxw cl S b1 b2,
  fits_loop evs n1 smart w rw mnl maxw cl S = Some b1 ->
  fits_loop evs n2 smart w rw mnl maxw cl S = Some b2 -> b1 = b2.
Proof.
  induction n1 as [|n1 IH]; intros n2 smart w rw mnl maxw cl S b1 b2 H1 H2; [discriminate|].
  destruct n2 as [|n2]; [discriminate|]. cbn [fits_loop] in H1, H2.
  destruct (fits_step evs smart w rw mnl maxw cl S); try congruence. eauto.
Qed.

Ltac plain_inv HP :=
  let Hp := fresh "Hp" in let Hi := fresh "Hi" in let HP' := fresh "HP'" in
  inversion HP as [|? ? [Hp Hi] HP']; subst; cbn [fst snd] in Hp, Hi.

(** If the machine, from stack [M], finishes the run without a line break
    emitting text of total width <= [cl], every look-ahead over the
    corresponding stack with budget [cl] succeeds - for any page width,
    ribbon, nesting level and strategy. *)
Lemma single_line_fits ff sm w0 rw0 : forall fuel M col o new F smart w rw mnl maxw cl,
  layout_loop evs fuel ff sm w0 rw0 (mkL M col o) = Some (rev o ++ new) ->
  nosl new = true -> tw new <= cl ->
  RS F M -> plain_stk M ->
  exists nf, fits_loop evs nf smart w rw mnl maxw cl F = Some true.
Proof.
  induction fuel as [|fuel IH]; intros M col o new F smart w rw mnl maxw cl HL Hn Ht HR HP;
    [discriminate|].
  assert (Hcl : (cl <? 0) = false) by (apply Z.ltb_ge; pose proof (tw_nonneg new); lia).
  assert (Step : forall F1 cl1, (exists nf, fits_loop evs nf smart w rw mnl maxw cl1 F1 = Some true) ->
            fits_step evs smart w rw mnl maxw cl F = FCont cl1 F1 ->
            exists nf, fits_loop evs nf smart w rw mnl maxw cl F = Some true).
  { intros F1 cl1 [nf Hf] Hs. exists (S nf). cbn [fits_loop]. now rewrite Hs. }
  inversion HR as [|i mf mm d F' M' Hm HR'|i m a F' M' HR']; subst.
  - exists 1%nat. cbn [fits_loop]. unfold fits_step. now rewrite Hcl.
  - plain_inv HP.
    destruct d as [ |s|l|j x|x|x|b f|b f|l|a x| |x|p|a]; cbn [plainc] in Hp; try discriminate;
      cbn [layout_loop layout_step ls_stk ls_col ls_out] in HL.
    + (* Nil *)
      eapply Step; [eapply (IH _ _ _ _ F'); eauto|]. unfold fits_step. now rewrite Hcl.
    + (* Text *)
      apply emit_inv in HL as (new' & -> & HL). cbn [nosl tw] in Hn, Ht.
      eapply Step; [eapply (IH _ _ _ _ F' _ _ _ _ _ (cl - slen s)); eauto; lia|].
      unfold fits_step. now rewrite Hcl.
    + (* Cat *)
      eapply Step; [eapply (IH _ _ _ _ (push_all i mf l F')); eauto|].
      * now apply RS_push.
      * now apply plain_stk_push.
      * unfold fits_step. now rewrite Hcl.
    + (* Nest *)
      apply andb_prop in Hp as [Hj Hx]. apply Z.leb_le in Hj.
      eapply Step; [eapply (IH _ _ _ _ ((i + j, mf, x) :: F')); eauto|].
      * now constructor.
      * constructor; [cbn [fst snd]; split; [auto|lia]|exact HP'].
      * unfold fits_step. now rewrite Hcl.
    + (* Group *)
      destruct (fits evs ff sm w0 rw0 (Z.min col i) (avail w0 rw0 col i) ((i, MFlat, x) :: M'))
        as [[|]|]; [| |discriminate];
        (eapply Step; [eapply (IH _ _ _ _ ((i, MFlat, x) :: F')); eauto|];
         [constructor; [unfold mle; auto|exact HR']
         |constructor; [cbn [fst snd]; auto|exact HP']
         |unfold fits_step; now rewrite Hcl]).
    + (* FlatChoice *)
      apply andb_prop in Hp as [Hb Hf]. destruct b; try discriminate.
      destruct mm.
      { exfalso. eapply hard_contra; eauto. }
      destruct mf; [destruct Hm; discriminate|].
      eapply Step; [eapply (IH _ _ _ _ ((i, MFlat, f) :: F')); eauto|].
      * constructor; [now left|exact HR'].
      * constructor; [cbn [fst snd]; auto|exact HP'].
      * unfold fits_step. now rewrite Hcl.
    + (* FCN *)
      apply andb_prop in Hp as [Hb Hf]. destruct b; try discriminate.
      destruct mm.
      { exfalso. cbn [normalize_doc] in HL. eapply hard_contra; eauto. }
      destruct mf; [destruct Hm; discriminate|].
      eapply Step; [eapply (IH _ _ _ _ ((i, MFlat, f) :: F')); eauto|].
      * constructor; [now left|exact HR'].
      * constructor; [cbn [fst snd]; auto|exact HP'].
      * unfold fits_step. now rewrite Hcl.
    + (* Annot *)
      apply emit_inv in HL as (new' & -> & HL). cbn [nosl tw] in Hn, Ht.
      eapply Step; [eapply (IH _ _ _ _ ((i, mf, x) :: F')); eauto|].
      * constructor; [exact Hm|]. now constructor.
      * constructor; [cbn [fst snd]; auto|]. constructor; [cbn [fst snd]; auto|exact HP'].
      * unfold fits_step. now rewrite Hcl.
    + (* HardLine *) apply emit_inv in HL as (new' & -> & _). discriminate.
    + (* PopD, also on the look-ahead stack *)
      apply emit_inv in HL as (new' & -> & HL). cbn [nosl tw] in Hn, Ht.
      eapply Step; [eapply (IH _ _ _ _ F'); eauto|]. unfold fits_step. now rewrite Hcl.
  - (* a pending pop the look-ahead does not have *)
    plain_inv HP. cbn [layout_loop layout_step ls_stk ls_col ls_out] in HL.
    apply emit_inv in HL as (new' & -> & HL). cbn [nosl tw] in Hn, Ht.
    eapply (IH _ _ _ _ F); eauto.
Qed.

End SingleLine.

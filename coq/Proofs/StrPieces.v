(** C02: whatever the page, the ribbon, the indentation and the column, the
    document the string printer evaluates to consists of literal pieces whose
    concatenation is the value - never zero pieces, never an empty piece of a
    non-empty value, same quote and prefix on every piece. *)
From Coq Require Import Lia.
From PP Require Import Doc PyStr Consts Printers StrSplit StrTotal.

Section StrPieces.
Variable printable : N -> bool.
Variable is_space_u : N -> bool.
Variable is_word_u : N -> bool.
Variable is_linebreak : N -> bool.

Ltac inv H := inversion H; subst; clear H.

Lemma quote_strategy_cases s : quote_strategy s = SQ \/ quote_strategy s = DQ.
Proof.
  unfold quote_strategy. destruct (negb (mem_n SQ s)); [now left|].
  destruct (negb (mem_n DQ s)); [now right|]. destruct (Nat.leb _ _); auto.
Qed.

(** the documents the evaluator can return, given the pieces *)
Definition assemble (p : strp) (q : N) (lines : list str) : list doc :=
  let pctx0 := mkCtx (sp_indent p) None MPlain 0 false in
  let wrap (d : doc) :=
      match sp_wrap p with
      | None => d
      | Some (t, name) => build_fncall is_space_u is_linebreak pctx0 (tok t name) [d] [] false
      end in
  let pieces := map (single_line_str printable (sp_bytes p) q) lines in
  let parts := intersperse HardLine pieces in
  [ wrap (hd Nil pieces);
    wrap (AlwaysBreak (Cat parts));
    AlwaysBreak (Nest (sp_indent p) (Cat parts));
    AlwaysBreak (Cat [LPAREN; Nest (sp_indent p) (Cat (HardLine :: parts)); HardLine; RPAREN]);
    AlwaysBreak (Cat [Text []; Nest (sp_indent p) (Cat (HardLine :: parts)); Nil; Text []]) ].

Theorem eval_str_pieces p indent column page_width ribbon_width :
  exists lines q,
    (q = SQ \/ q = DQ) /\
    concat lines = sp_s p /\
    lines <> [] /\
    (Forall (fun l => l <> []) lines \/ (lines = [[]] /\ sp_s p = [])) /\
    In (eval_str printable is_space_u is_word_u is_linebreak p indent column page_width ribbon_width)
       (assemble p q lines).
Proof.
  set (s := sp_s p).
  assert (Single : exists lines, concat lines = s /\ lines <> [] /\
            (Forall (fun l => l <> []) lines \/ (lines = [[]] /\ s = [])) /\ lines = [s]).
  { exists [s]. cbn [concat]. rewrite app_nil_r. repeat split; [discriminate|].
    destruct s; [right; auto|left; constructor; [discriminate|constructor]]. }
  destruct Single as (l1 & Hc1 & Hn1 & Hf1 & ->).
  unfold eval_str. fold s.
  destruct (quote_strategy_cases s) as [Hq|Hq].
  all: destruct (slen s + str_quotes_len <=? _).
  all: try (exists [s], (quote_strategy s); repeat split; auto; unfold assemble; cbn [map hd In];
            left; reflexivity).
  all: match goal with
       | |- context [str_to_lines ?a ?b ?c ?f ?bb ?m ?qq ?ss ?pat] =>
           destruct (str_to_lines a b c f bb m qq ss pat) as [lines|] eqn:E
       end.
  all: try (exfalso; revert E; apply str_to_lines_total;
            pose proof (Z.le_max_r (Z.min page_width (indent + ribbon_width) - indent - 2) str_floor);
            unfold str_floor in *; lia).
  all: apply str_to_lines_join in E as [Hcat Hne].
  all: destruct (Nat.leb (length lines) 1) eqn:El.
  all: try (exists [s], (quote_strategy s); repeat split; auto; unfold assemble; cbn [map hd In];
            left; reflexivity).
  all: apply Nat.leb_gt in El.
  all: exists lines, (quote_strategy s).
  all: repeat split; auto; try (destruct lines; cbn in El; [lia|discriminate]).
  all: unfold assemble; fold s; cbn [In].
  all: destruct (sp_wrap p) as [[t name]|]; [right; left; reflexivity|].
  all: destruct (sp_strategy p); [right; left|right; right; left|right; right; right; right; left
                                 |right; right; right; left]; reflexivity.
Qed.

End StrPieces.

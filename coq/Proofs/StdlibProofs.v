(** C07: the datetime-family printers reconstruct the value they print. *)
From Coq Require Import Lia ZArith.
From PP Require Import Stdlib.
Ltac Zify.zify_post_hook ::= Z.to_euclidean_division_equations.

Ltac inv H := inversion H; subst; clear H.

(** ---- timedelta --------------------------------------------------------- *)
Definition tv (l : list (string * Z)) : Z := fold_right (fun kv acc => weight (fst kv) * snd kv + acc) 0 l.
Definition asint (l : list (string * Z)) : list (string * dval) := map (fun kv => (fst kv, DInt (snd kv))) l.

Lemma tv_cons k v l : tv ((k, v) :: l) = weight k * v + tv l.
Proof. reflexivity. Qed.

Lemma tv_filter l : tv (filter (fun kv => negb (snd kv =? 0)) l) = tv l.
Proof.
  induction l as [|[k v] tl IH]; [reflexivity|]. cbn [filter snd]. destruct (v =? 0) eqn:E; cbn [negb].
  - apply Z.eqb_eq in E. subst. rewrite tv_cons, IH, Z.mul_0_r. reflexivity.
  - now rewrite !tv_cons, IH.
Qed.

Lemma value_asint l : timedelta_value (asint l) = tv l.
Proof.
  induction l as [|[k v] tl IH]; [reflexivity|]. rewrite tv_cons, <- IH. reflexivity.
Qed.

Theorem timedelta_roundtrip (d s u : Z) :
  0 <= d -> 0 <= s < 86400 -> 0 <= u < 1000000 ->
  timedelta_value (timedelta_kwargs d s u) = (d * 86400 + s) * 1000000 + u.
Proof.
  intros Hd Hs Hu. unfold timedelta_kwargs. cbv zeta.
  set (rest := [("hours"%string, s / 60 / 60); ("minutes"%string, (s / 60) mod 60); ("seconds"%string, s mod 60);
                ("milliseconds"%string, u / 1000); ("microseconds"%string, u mod 1000)]).
  assert (Hrest : tv rest = (s * 1000000 + u)).
  { unfold rest, tv. cbn [fold_right fst snd weight String.eqb Ascii.eqb Bool.eqb]. lia. }
  change (filter _ (("days"%string, d) :: rest))
    with (if negb (d =? 0) then ("days"%string, d) :: filter (fun kv => negb (snd kv =? 0)) rest
          else filter (fun kv => negb (snd kv =? 0)) rest).
  destruct (d =? 0) eqn:Ed; cbn [negb].
  - apply Z.eqb_eq in Ed. subst d.
    assert (G : forall l, Forall (fun kv : string * Z => String.eqb (fst kv) "days" = false) l ->
                match l with
                | (k, d0) :: tl =>
                    if String.eqb k "days"
                    then if d0 / 365 =? 0 then (k, DInt d0) :: asint tl else (k, DYears (d0 / 365) (d0 mod 365)) :: asint tl
                    else asint l
                | [] => []
                end = asint l).
    { intros l Hl. destruct l as [|[k d0] tl]; [reflexivity|]. inv Hl. cbn [fst] in H1. now rewrite H1. }
    unfold asint in G. rewrite G.
    + fold (asint (filter (fun kv => negb (snd kv =? 0)) rest)). rewrite value_asint, tv_filter, Hrest. lia.
    + apply Forall_forall. intros kv Hin. apply filter_In in Hin as [Hin _]. unfold rest in Hin.
      cbn [In] in Hin. repeat (destruct Hin as [<-|Hin]; [reflexivity|]). destruct Hin.
  - cbn [String.eqb Ascii.eqb Bool.eqb]. apply Z.eqb_neq in Ed.
    fold (asint (filter (fun kv => negb (snd kv =? 0)) rest)).
    destruct (d / 365 =? 0) eqn:Ey; cbn [timedelta_value fold_right fst snd dval_value];
      fold (timedelta_value (asint (filter (fun kv => negb (snd kv =? 0)) rest)));
      rewrite value_asint, tv_filter, Hrest; cbn [weight String.eqb Ascii.eqb Bool.eqb]; lia.
Qed.

(** ---- datetime ---------------------------------------------------------- *)
Ltac zcase x := let E := fresh "E" in destruct (x =? 0) eqn:E; [apply Z.eqb_eq in E; subst x|apply Z.eqb_neq in E].

Theorem datetime_roundtrip (y mo d h mi s us : Z) (has_tz fold : bool) :
  1 <= y -> 1 <= mo -> 1 <= d ->
  datetime_fields (datetime_out y mo d h mi s us has_tz fold) = ([y; mo; d; h; mi; s; us], has_tz, fold).
Proof.
  intros Hy Hmo Hd. unfold datetime_out. cbv zeta. cbn [dropwhile_zero].
  assert (Ey : (y =? 0) = false) by (apply Z.eqb_neq; lia).
  assert (Emo : (mo =? 0) = false) by (apply Z.eqb_neq; lia).
  assert (Ed : (d =? 0) = false) by (apply Z.eqb_neq; lia).
  zcase us; [zcase s; [zcase mi; [zcase h|]|]|]; rewrite ?Ed, ?Emo, ?Ey;
    destruct has_tz, fold; vm_compute; reflexivity.
Qed.

Theorem time_roundtrip (h mi s us : Z) (has_tz : bool) (fold : Z) :
  time_fields (time_out h mi s us has_tz fold) = ([h; mi; s; us], has_tz, fold).
Proof.
  unfold time_out. cbv zeta. cbn [dropwhile_zero].
  zcase us; [zcase s; [zcase mi; [zcase h|]|]|]; zcase fold; destruct has_tz; cbn; reflexivity.
Qed.

(** C12 (layout engine), full algebra: fill, annotations, general flat_choice,
    lazily normalised flat_choice copies, align, and contextual string
    documents whose evaluations are bounded in size: the main loop ends within
    M + 1 iterations and every look-ahead within M + 1, M = total weight of
    the pending stack.  Normalisation never increases the weight. *)
From Coq Require Import Lia.
From PP Require Import Doc Normalize Layout DocInd NormEq.

Ltac inv H := inversion H; subst; clear H.

Section W.
(** bound on the weight of what the string printer's evaluator can return *)
Variable cb : strp -> nat.

Fixpoint wt (d : doc) : nat :=
  match d with
  | Cat l => S ((fix sum (l : list doc) : nat := match l with [] => O | x :: tl => (wt x + sum tl)%nat end) l)
  | Fill l => S ((fix sum (l : list doc) : nat := match l with [] => O | x :: tl => (S (wt x) + sum tl)%nat end) l)
  | Nest _ x | Group x | AlwaysBreak x => S (wt x)
  | Annot _ x | Align x => S (S (wt x))
  | FlatChoice b f | FCN b f => S (Nat.max (wt b) (wt f))
  | CtxS p => S (cb p)
  | _ => 1%nat
  end.

Definition wtl (l : list doc) : nat := fold_right (fun x a => (wt x + a)%nat) O l.
Definition wtf (l : list doc) : nat := fold_right (fun x a => (S (wt x) + a)%nat) O l.

Lemma wt_cat l : wt (Cat l) = S (wtl l).
Proof. induction l as [|x tl IH]; [reflexivity|]. cbn [wt] in *. unfold wtl in *. cbn [fold_right]. lia. Qed.
Lemma wt_fill l : wt (Fill l) = S (wtf l).
Proof. induction l as [|x tl IH]; [reflexivity|]. cbn [wt] in *. unfold wtf in *. cbn [fold_right]. lia. Qed.
Lemma wt_pos d : (1 <= wt d)%nat.
Proof. destruct d; cbn [wt]; lia. Qed.
Lemma wtl_app a b : wtl (a ++ b) = (wtl a + wtl b)%nat.
Proof. unfold wtl. induction a as [|x tl IH]; cbn [app fold_right]; [reflexivity|]. rewrite IH. lia. Qed.
Lemma wtf_app a b : wtf (a ++ b) = (wtf a + wtf b)%nat.
Proof. unfold wtf. induction a as [|x tl IH]; cbn [app fold_right]; [reflexivity|]. rewrite IH. lia. Qed.

Definition b2n (b : bool) : nat := if b then 1%nat else O.

Lemma contrib_wt nd : (wtl (fst (contrib nd)) + b2n (snd (contrib nd)) <= wt nd)%nat.
Proof.
  destruct nd; cbn [contrib fst snd b2n wtl fold_right]; try (cbn [wt]; lia).
  rewrite wt_cat. unfold wtl. lia.
Qed.

Lemma cat_go_wt : forall l, Forall (fun d => (wt (normalize_doc d) <= wt d)%nat) l ->
  (wtl (fst (cat_go l [] false)) + b2n (snd (cat_go l [] false)) <= wtl l)%nat.
Proof.
  induction 1 as [|x tl Hx Htl IH]; [reflexivity|].
  cbn [cat_go]. pose proof (contrib_wt (normalize_doc x)) as Hc. destruct (contrib (normalize_doc x)) as [k p].
  rewrite cat_go_acc. cbn [fst snd app] in *. rewrite wtl_app.
  unfold wtl at 3. cbn [fold_right]. fold (wtl tl).
  destruct p, (snd (cat_go tl [] false)); cbn [orb b2n] in *; lia.
Qed.

Lemma fill_contrib_wt x : (wtf (fst (fill_contrib x)) + b2n (snd (fill_contrib x)) <= S (wt x))%nat.
Proof.
  destruct x; cbn [fill_contrib fst snd b2n wtf fold_right wt]; try lia.
  destruct (is_nil x); cbn [wtf fold_right]; lia.
Qed.

Lemma fill_go_wt : forall l,
  (wtf (fst (fill_go l [] false)) + b2n (snd (fill_go l [] false)) <= wtf l)%nat.
Proof.
  induction l as [|x tl IH]; [reflexivity|].
  cbn [fill_go]. pose proof (fill_contrib_wt x) as Hc. destruct (fill_contrib x) as [k p].
  rewrite fill_go_acc. cbn [fst snd app] in *. rewrite wtf_app.
  unfold wtf at 3. cbn [fold_right]. fold (wtf tl).
  destruct p, (snd (fill_go tl [] false)); cbn [orb b2n] in *; lia.
Qed.

(** normalisation never increases the weight *)
Theorem norm_wt : forall d, (wt (normalize_doc d) <= wt d)%nat.
Proof.
  induction d using doc_ind'; try (cbn [normalize_doc wt]; lia).
  - destruct s; cbn; lia.
  - rewrite normalize_cat, wt_cat. pose proof (cat_go_wt l H) as Hg. unfold cat_finish.
    destruct (cat_go l [] false) as [items prop]. cbn [fst snd] in Hg.
    destruct items as [|x [|y tl]].
    + cbn. lia.
    + unfold wtl in Hg at 1. cbn [fold_right] in Hg. destruct prop; cbn [wt b2n] in *; lia.
    + destruct prop; cbn [b2n] in Hg; [change (wt (AlwaysBreak (Cat (x :: y :: tl)))) with (S (wt (Cat (x :: y :: tl))))|];
        rewrite wt_cat; lia.
  - cbn [normalize_doc]. destruct (normalize_doc d); cbn [wt] in *; lia.
  - cbn [normalize_doc]. destruct (normalize_doc d); cbn [wt] in *; lia.
  - cbn [normalize_doc]. destruct (normalize_doc d); cbn [wt] in *; lia.
  - rewrite normalize_fill, wt_fill. pose proof (fill_go_wt l) as Hg. unfold fill_finish.
    destruct (fill_go l [] false) as [items prop]. cbn [fst snd] in Hg.
    destruct items as [|x tl]; [cbn; lia|].
    destruct prop; cbn [b2n] in Hg;
      [change (wt (AlwaysBreak (Fill (x :: tl)))) with (S (wt (Fill (x :: tl))))|]; rewrite wt_fill; lia.
  - cbn [normalize_doc]. destruct (normalize_doc d); cbn [wt] in *; lia.
Qed.

Definition mwt (s : list triple) : nat := fold_right (fun t a => (wt (snd t) + a)%nat) O s.

Lemma mwt_push_all i m l rest : mwt (push_all i m l rest) = (wtl l + mwt rest)%nat.
Proof.
  unfold push_all. induction l as [|x tl IH]; [reflexivity|].
  change (mwt (map (fun x0 => (i, m, x0)) (x :: tl) ++ rest))
    with (wt x + mwt (map (fun x0 => (i, m, x0)) tl ++ rest))%nat.
  rewrite IH. unfold wtl. cbn [fold_right]. lia.
Qed.
Lemma mwt_cons i m d rest : mwt ((i, m, d) :: rest) = (wt d + mwt rest)%nat.
Proof. reflexivity. Qed.
Lemma wtl_le_wtf l : (wtl l <= wtf l)%nat.
Proof. unfold wtl, wtf. induction l as [|x tl IH]; cbn [fold_right]; lia. Qed.
Lemma wtf_cons x l : wtf (x :: l) = (S (wt x) + wtf l)%nat.
Proof. reflexivity. Qed.
Lemma wtl_cons x l : wtl (x :: l) = (wt x + wtl l)%nat.
Proof. reflexivity. Qed.

Variable evs : strp -> Z -> Z -> Z -> Z -> doc.
Hypothesis evs_bounded : forall p i c w rw, (wt (evs p i c w rw) <= cb p)%nat.

Ltac fin := rewrite ?mwt_cons, ?mwt_push_all, ?wt_cat, ?wt_fill, ?wtf_cons, ?wtl_cons; cbn [wt mwt fold_right]; try lia.

(** one look-ahead iteration strictly shrinks the stack weight *)
Lemma fits_step_dec smart w rw mnl maxw cl stk cl' stk' :
  fits_step evs smart w rw mnl maxw cl stk = FCont cl' stk' -> (mwt stk' < mwt stk)%nat.
Proof.
  intros H. unfold fits_step in H. destruct (cl <? 0)%Z; [discriminate|].
  destruct stk as [|[[i m] d] rest]; [discriminate|].
  destruct d as [|s|l|j x|x|x|b f|b f|l|a x| |x|p|a]; try discriminate; try (inv H; fin; fail).
  - inv H. fin. destruct m; lia.
  - inv H. fin. pose proof (norm_wt b). destruct m; lia.
  - inv H. fin. pose proof (wtl_le_wtf l). lia.
  - destruct smart; [|discriminate]. destruct (i >? mnl)%Z; [|discriminate]. inv H. fin.
  - inv H. rewrite !mwt_cons.
    pose proof (norm_wt x) as Hn. destruct (normalize_doc x); cbn [wt] in *; lia.
  - inv H. rewrite !mwt_cons.
    match goal with |- context [normalize_doc (evs ?p ?a ?b ?c ?d)] =>
      pose proof (norm_wt (evs p a b c d)) as Hn; pose proof (evs_bounded p a b c d) end. cbn [wt]. lia.
Qed.

Theorem fits_total_all : forall fuel smart w rw mnl maxw cl stk,
  (mwt stk < fuel)%nat -> fits_loop evs fuel smart w rw mnl maxw cl stk <> None.
Proof.
  induction fuel as [|f IH]; intros smart w rw mnl maxw cl stk Hf; [lia|].
  cbn [fits_loop]. destruct (fits_step evs smart w rw mnl maxw cl stk) as [| |cl' stk'] eqn:E; try discriminate.
  pose proof (fits_step_dec _ _ _ _ _ _ _ _ _ E). apply IH. lia.
Qed.

Lemma fits_some ff smart w rw mnl maxw stk :
  (mwt stk < ff)%nat -> exists b, fits evs ff smart w rw mnl maxw stk = Some b.
Proof.
  intros H. unfold fits. pose proof (fits_total_all ff smart w rw mnl maxw maxw stk H) as Ht.
  destruct (fits_loop evs ff smart w rw mnl maxw maxw stk) as [b|]; [now exists b|contradiction].
Qed.

(** one iteration of the main loop: never out of look-ahead fuel, and the
    pending stack strictly shrinks *)
Lemma layout_step_dec ff smart w rw st :
  (mwt (ls_stk st) <= ff)%nat ->
  match layout_step evs ff smart w rw st with
  | LDone _ => True
  | LFuel => False
  | LCont st' => (mwt (ls_stk st') < mwt (ls_stk st))%nat
  end.
Proof.
  intros Hff. unfold layout_step. destruct (ls_stk st) as [|[[i m] d] rest] eqn:Es; [exact I|].
  rewrite mwt_cons in Hff.
  destruct d as [|s|l|j x|x|x|b f|b f|l|a x| |x|p|a]; cbn [ls_stk]; try (fin; fail).
  - (* group *)
    destruct (fits_some ff smart w rw (Z.min (ls_col st) i) (avail w rw (ls_col st) i) ((i, MFlat, x) :: rest)) as [r Hr].
    { rewrite mwt_cons. cbn [wt] in Hff. lia. }
    rewrite Hr. destruct r; cbn [ls_stk]; fin.
  - fin. destruct m; lia.
  - fin. pose proof (norm_wt b). destruct m; lia.
  - (* fill *)
    destruct l as [|first tl]; [cbn [ls_stk]; fin|].
    rewrite wt_fill, wtf_cons in Hff.
    destruct (fits_some ff false w rw (Z.min (ls_col st) i) (avail w rw (ls_col st) i) [(i, MFlat, first)]) as [r Hr].
    { rewrite mwt_cons. cbn [mwt fold_right]. lia. }
    rewrite Hr. destruct tl as [|ws tl2]; [cbn [ls_stk]; fin|].
    destruct tl2 as [|y tl3]; [cbn [ls_stk]; fin|].
    rewrite !wtf_cons in Hff.
    destruct (fits_some ff false w rw (Z.min (ls_col st) i) (avail w rw (ls_col st) i) [(i, MFlat, Cat [first; ws])]) as [r2 Hr2].
    { rewrite mwt_cons, wt_cat, !wtl_cons. cbn [mwt wtl fold_right]. lia. }
    rewrite Hr2. cbn [ls_stk]. fin.
  - (* align *)
    rewrite !mwt_cons. pose proof (norm_wt x) as Hn. cbn [normalize_doc]. destruct (normalize_doc x); cbn [wt] in *; lia.
  - rewrite !mwt_cons.
    match goal with |- context [normalize_doc (evs ?p ?a ?b ?c ?d)] =>
      pose proof (norm_wt (evs p a b c d)) as Hn; pose proof (evs_bounded p a b c d) end. cbn [wt]. lia.
Qed.

Theorem layout_total_all : forall fuel ff smart w rw st,
  (mwt (ls_stk st) < fuel)%nat -> (mwt (ls_stk st) <= ff)%nat ->
  layout_loop evs fuel ff smart w rw st <> None.
Proof.
  induction fuel as [|f IH]; intros ff smart w rw st Hf Hff; [lia|].
  cbn [layout_loop]. pose proof (layout_step_dec ff smart w rw st Hff) as H.
  destruct (layout_step evs ff smart w rw st) as [out|st'|]; [discriminate| |contradiction].
  apply IH; lia.
Qed.

(** best_layout on any document: fuel wt d + 1 for both loops suffices *)
Corollary best_layout_total smart w rw d :
  best_layout evs (S (wt d)) (wt d) smart w rw d <> None.
Proof.
  unfold best_layout, init_state. pose proof (norm_wt d).
  apply layout_total_all; cbn [ls_stk mwt fold_right snd]; lia.
Qed.

End W.

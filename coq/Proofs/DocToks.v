(** Token projection of the document combinators used by the printers
    (bracket, sequence_of_docs, build_fncall, dict pairs): whatever the
    layout, they denote  open items-separated-by-commas close. *)
From PP Require Import Doc PyStr PyVal Printers PyExpr.

Section DocToks.
Variable is_space_u : N -> bool.
Variable is_linebreak : N -> bool.
Notation commentdoc := (commentdoc is_space_u is_linebreak).

Ltac inv H := inversion H; subst; clear H.

Lemma DTL_nilhead d l b : DT d [] -> DTL l b -> DTL (d :: l) b.
Proof. intros H1 H2. exact (DTL_cons d l [] b H1 H2). Qed.

Lemma DTL_cons1 d l x ts : DT d [x] -> DTL l ts -> DTL (d :: l) (x :: ts).
Proof. intros H1 H2. exact (DTL_cons d l [x] ts H1 H2). Qed.

Lemma DTL_one d a : DT d a -> DTL [d] a.
Proof. intros H. rewrite <- (app_nil_r a). apply DTL_cons; [exact H|constructor]. Qed.

Lemma DTL_two_nil d e a : DT d a -> DT e [] -> DTL [d; e] a.
Proof. intros H1 H2. rewrite <- (app_nil_r a). apply DTL_cons; [exact H1|]. now apply DTL_one. Qed.

Lemma DTL_allnil l : Forall (fun x => DT x []) l -> DTL l [].
Proof. induction 1; [constructor|]. now apply DTL_nilhead. Qed.

Lemma DTL_cons_nilrest d l a : DT d a -> Forall (fun x => DT x []) l -> DTL (d :: l) a.
Proof. intros H1 H2. rewrite <- (app_nil_r a). apply DTL_cons; [exact H1|now apply DTL_allnil]. Qed.

Lemma DTL_app l1 : forall l2 a b, DTL l1 a -> DTL l2 b -> DTL (l1 ++ l2) (a ++ b).
Proof.
  induction l1 as [|d tl IH]; intros l2 a b H1 H2; inv H1; cbn [app]; [exact H2|].
  rewrite <- app_assoc. apply DTL_cons; auto.
Qed.

Lemma DT_SOFTLINE : DT SOFTLINE [].
Proof. apply DT_fc; constructor. Qed.
Lemma DT_LINE : DT LINE [].
Proof. apply DT_fc; [constructor|apply DT_ws; reflexivity]. Qed.
Lemma DT_TWO : DT TWO_SPACES [].
Proof. apply DT_ws. reflexivity. Qed.
Lemma DT_COMMA : DT COMMA [p_comma].
Proof. apply (DT_tok 13 [44]%N). discriminate. Qed.
Lemma DT_COLON : DT COLON [p_colon].
Proof. apply (DT_tok 13 [58]%N). discriminate. Qed.
Lemma DT_LPAREN : DT LPAREN [p_lparen].
Proof. apply (DT_tok 13 [40]%N). discriminate. Qed.
Lemma DT_RPAREN : DT RPAREN [p_rparen].
Proof. apply (DT_tok 13 [41]%N). discriminate. Qed.
Lemma DT_ASSIGN : DT ASSIGN_OP [p_assign].
Proof. apply (DT_tok 12 [61]%N). discriminate. Qed.
Lemma DT_ELLIPSIS : DT ELLIPSIS [p_ellipsis].
Proof. apply (DT_tok 13 [46; 46; 46]%N). discriminate. Qed.
Lemma DT_commentdoc t : DT (commentdoc t) [].
Proof. unfold Printers.commentdoc. apply DT_comment. Qed.

Lemma DT_uncomment d ts : DT d ts -> DT (uncomment d) ts.
Proof.
  intros H. destruct d; try exact H. destruct a; try exact H. cbn [uncomment]. now inv H.
Qed.

Lemma DT_opt_comma (b : bool) : DT (if b then COMMA else Nil) (if b then [p_comma] else []).
Proof. destruct b; [apply DT_COMMA|constructor]. Qed.
Lemma DT_opt_hard (b : bool) : DT (if b then Nil else HardLine) [].
Proof. destruct b; constructor. Qed.

(** bracket *)
Lemma DT_bracket ctx l c r a b e :
  DT l a -> DT c b -> DT r e -> DT (bracket ctx l c r) (a ++ b ++ e).
Proof.
  intros Hl Hc Hr. unfold bracket. apply DT_cat. apply DTL_cons; [exact Hl|].
  apply DTL_cons.
  - apply DT_nest, DT_cat. apply DTL_nilhead; [apply DT_SOFTLINE|]. now apply DTL_one.
  - apply DTL_nilhead; [apply DT_SOFTLINE|]. now apply DTL_one.
Qed.

Definition last_commented (docs : list doc) : bool := is_some (is_commented (last docs Nil)).

Lemma sepcomma_cons x y tl : sepcomma (x :: y :: tl) = x ++ p_comma :: sepcomma (y :: tl).
Proof. reflexivity. Qed.

(** sequence elements *)
Lemma seq_parts_DT dangle : forall docs tss,
  Forall2 DT docs tss ->
  DTL (seq_parts is_space_u is_linebreak docs dangle)
      (sepcomma tss ++ (if dangle && nonempty_docs docs && last_commented docs then [p_comma] else [])).
Proof.
  induction 1 as [|d ts docs tss Hd Hrest IH]; [cbn; rewrite andb_false_r; constructor|].
  cbn [seq_parts].
  destruct docs as [|d2 docs'].
  - (* last element *)
    inv Hrest. cbn [sepcomma nonempty_docs andb]. unfold last_commented. cbn [last].
    destruct (is_commented d) as [c|] eqn:Ec; cbn [is_some].
    + cbn [negb orb]. rewrite !andb_true_r.
      apply DTL_one. apply DT_group, DT_fc; apply DT_cat.
      * apply DTL_nilhead; [apply DT_commentdoc|]. apply DTL_nilhead; [constructor|].
        apply DTL_cons; [exact Hd|]. rewrite <- (app_nil_r (if dangle then _ else _)).
        apply DTL_cons; [apply DT_opt_comma|]. apply DTL_one. constructor.
      * apply DTL_cons; [exact Hd|]. rewrite <- (app_nil_r (if dangle then _ else _)).
        apply DTL_cons; [apply DT_opt_comma|]. apply DTL_nilhead; [apply DT_TWO|].
        apply DTL_nilhead; [apply DT_commentdoc|]. apply DTL_one. constructor.
    + rewrite andb_false_r, app_nil_r. now apply DTL_one.
  - (* not last *)
    destruct tss as [|ts2 tss']; [inv Hrest|].
    rewrite sepcomma_cons. cbn [nonempty_docs] in *.
    assert (Hl : last_commented (d :: d2 :: docs') = last_commented (d2 :: docs')) by reflexivity.
    rewrite Hl. rewrite <- app_assoc. cbn [app].
    destruct (is_commented d) as [c|] eqn:Ec.
    + cbn [negb orb].
      change (ts ++ p_comma :: sepcomma (ts2 :: tss') ++ _)
        with (ts ++ [p_comma] ++ (sepcomma (ts2 :: tss') ++
              (if dangle && true && last_commented (d2 :: docs') then [p_comma] else []))).
      rewrite app_assoc. apply DTL_cons; [|exact IH].
      apply DT_group, DT_fc; apply DT_cat.
      * apply DTL_nilhead; [apply DT_commentdoc|]. apply DTL_nilhead; [constructor|].
        apply DTL_cons; [exact Hd|]. apply DTL_two_nil; [apply DT_COMMA|constructor].
      * apply DTL_cons; [exact Hd|]. apply DTL_cons_nilrest; [apply DT_COMMA|].
        repeat constructor; auto using DT_TWO, DT_commentdoc.
    + apply DTL_cons; [exact Hd|].
      change (p_comma :: sepcomma (ts2 :: tss') ++ _)
        with ([p_comma] ++ (sepcomma (ts2 :: tss') ++
              (if dangle && true && last_commented (d2 :: docs') then [p_comma] else []))).
      apply DTL_cons; [|exact IH].
      apply DT_cat. apply DTL_two_nil; [apply DT_COMMA|apply DT_LINE].
Qed.

Lemma sequence_of_docs_DT ctx l docs r dangle fb a e tss :
  DT l a -> DT r e -> Forall2 DT docs tss ->
  DT (sequence_of_docs is_space_u is_linebreak ctx l docs r dangle fb)
     (a ++ (sepcomma tss ++ (if dangle then [p_comma] else [])) ++ e).
Proof.
  intros Hl Hr HF. unfold sequence_of_docs.
  assert (HB : DT (bracket ctx l
                     (Cat (seq_parts is_space_u is_linebreak docs dangle ++
                           (if dangle && negb (nonempty_docs docs &&
                               match is_commented (last docs Nil) with Some _ => true | None => false end)
                            then [COMMA] else []))) r)
                  (a ++ (sepcomma tss ++ (if dangle then [p_comma] else [])) ++ e)).
  { apply DT_bracket; auto. apply DT_cat.
    pose proof (seq_parts_DT dangle docs tss HF) as HP. unfold last_commented, is_some in HP.
    set (lc := match is_commented (last docs Nil) with Some _ => true | None => false end) in *.
    destruct dangle; cbn [andb] in *.
    - destruct (nonempty_docs docs && lc) eqn:E; cbn [negb].
      + rewrite app_nil_r. exact HP.
      + rewrite app_nil_r in HP. apply DTL_app; [exact HP|]. apply DTL_one, DT_COMMA.
    - rewrite !app_nil_r in *. exact HP. }
  destruct (_ || _); [now apply DT_ab|now apply DT_group].
Qed.

(** call arguments *)
Lemma fncall_parts_DT : forall docs tss hc,
  Forall2 DT docs tss ->
  DTL (fst (fncall_parts is_space_u is_linebreak docs hc)) (sepcomma tss).
Proof.
  intros docs tss hc H. revert hc. induction H as [|d ts docs tss Hd Hrest IH]; intros hc; [constructor|].
  cbn [fncall_parts].
  set (hc' := match is_commented d with Some _ => true | None => hc end).
  destruct (fncall_parts is_space_u is_linebreak docs hc') as [rest hcr] eqn:Er.
  specialize (IH hc'). rewrite Er in IH. cbn [fst] in *.
  apply DT_uncomment in Hd.
  destruct docs as [|d2 docs'].
  - inv Hrest. cbn [sepcomma]. cbn in Er. inv Er.
    apply DTL_one.
    assert (H0 : DT (Cat [uncomment d; Nil]) ts).
    { apply DT_cat. rewrite <- (app_nil_r ts). apply DTL_cons; [exact Hd|]. apply DTL_one. constructor. }
    destruct (is_commented d) as [c|]; [|exact H0].
    apply DT_group, DT_fc; apply DT_cat.
    + apply DTL_nilhead; [apply DT_commentdoc|]. apply DTL_nilhead; [constructor|]. now apply DTL_one.
    + rewrite <- (app_nil_r ts). apply DTL_cons; [exact H0|]. apply DTL_nilhead; [apply DT_TWO|].
      apply DTL_one, DT_commentdoc.
  - destruct tss as [|ts2 tss']; [inv Hrest|]. rewrite sepcomma_cons.
    change (ts ++ p_comma :: sepcomma (ts2 :: tss')) with (ts ++ [p_comma] ++ sepcomma (ts2 :: tss')).
    rewrite app_assoc. apply DTL_cons; [|exact IH].
    assert (H0 : DT (Cat [uncomment d; COMMA]) (ts ++ [p_comma])).
    { apply DT_cat. apply DTL_cons; [exact Hd|]. apply DTL_one, DT_COMMA. }
    apply DT_cat. rewrite <- (app_nil_r (ts ++ [p_comma])). apply DTL_cons.
    + destruct (is_commented d) as [c|]; [|exact H0].
      apply DT_group, DT_fc; apply DT_cat.
      * apply DTL_nilhead; [apply DT_commentdoc|]. apply DTL_nilhead; [constructor|]. now apply DTL_one.
      * rewrite <- (app_nil_r (ts ++ [p_comma])). apply DTL_cons; [exact H0|].
        apply DTL_nilhead; [apply DT_TWO|]. apply DTL_one, DT_commentdoc.
    + apply DTL_one. destruct hc'; [constructor|apply DT_LINE].
Qed.

Lemma kwarg_doc_DT k d ts : DT d ts -> DT (kwarg_doc (k, d)) (TName k :: p_assign :: ts).
Proof.
  intros H. unfold kwarg_doc.
  assert (G : forall x, DT x ts -> DT (Cat [tok T_NAME_VARIABLE k; ASSIGN_OP; x]) (TName k :: p_assign :: ts)).
  { intros x Hx. apply DT_cat.
    change (TName k :: p_assign :: ts) with ([TName k] ++ [p_assign] ++ ts).
    apply DTL_cons; [apply (DT_tok 5 k); discriminate|]. apply DTL_cons; [apply DT_ASSIGN|]. now apply DTL_one. }
  destruct d; try (now apply G). destruct a; try (now apply G).
  inv H. apply DT_acomment. now apply G.
Qed.

Definition kwtoks (kv : str * list token) : list token := TName (fst kv) :: p_assign :: snd kv.

Lemma build_fncall_DT ctx fndoc fts argdocs atss kwargdocs ktss hug :
  DT fndoc fts -> Forall2 DT argdocs atss ->
  Forall2 (fun kd kt => fst kd = fst kt /\ DT (snd kd) (snd kt)) kwargdocs ktss ->
  DT (build_fncall is_space_u is_linebreak ctx fndoc argdocs kwargdocs hug)
     (fts ++ p_lparen :: sepcomma (atss ++ map kwtoks ktss) ++ [p_rparen]).
Proof.
  intros Hf Ha Hk.
  assert (Hkw : Forall2 DT (map kwarg_doc kwargdocs) (map kwtoks ktss)).
  { clear -Hk. induction Hk as [|[k d] [k' ts] l l' [E H] _ IH]; cbn [map]; constructor; auto.
    cbn [fst snd] in *. subst. unfold kwtoks. cbn [fst snd]. now apply kwarg_doc_DT. }
  assert (General :
    DT (let '(parts, has_comment) := fncall_parts is_space_u is_linebreak (argdocs ++ map kwarg_doc kwargdocs) false in
        let body := Cat [fndoc; LPAREN; Nest (c_indent ctx) (Cat [SOFTLINE; Cat parts]); SOFTLINE; RPAREN] in
        if has_comment then AlwaysBreak body else Group body)
       (fts ++ p_lparen :: sepcomma (atss ++ map kwtoks ktss) ++ [p_rparen])).
  { pose proof (fncall_parts_DT (argdocs ++ map kwarg_doc kwargdocs) (atss ++ map kwtoks ktss) false
                  (Forall2_app Ha Hkw)) as HP.
    destruct (fncall_parts _ _ _ false) as [parts hcm]. cbn [fst] in HP.
    assert (HB : DT (Cat [fndoc; LPAREN; Nest (c_indent ctx) (Cat [SOFTLINE; Cat parts]); SOFTLINE; RPAREN])
                    (fts ++ p_lparen :: sepcomma (atss ++ map kwtoks ktss) ++ [p_rparen])).
    { apply DT_cat. apply DTL_cons; [exact Hf|].
      change (p_lparen :: ?x) with ([p_lparen] ++ x). apply DTL_cons; [apply DT_LPAREN|].
      apply DTL_cons.
      - apply DT_nest, DT_cat. apply DTL_nilhead; [apply DT_SOFTLINE|]. apply DTL_one. now apply DT_cat.
      - apply DTL_nilhead; [apply DT_SOFTLINE|]. apply DTL_one, DT_RPAREN. }
    destruct hcm; [now apply DT_ab|now apply DT_group]. }
  unfold build_fncall.
  destruct argdocs as [|a0 argdocs']; destruct kwargdocs as [|[k0 d0] krest]; cbn [map] in *.
  - inv Ha. inv Hk. cbn [map app sepcomma].
    apply DT_cat. apply DTL_cons; [exact Hf|].
    change [p_lparen; p_rparen] with ([p_lparen] ++ [p_rparen]).
    apply DTL_cons; [apply DT_LPAREN|]. apply DTL_one, DT_RPAREN.
  - rewrite andb_false_r. cbn [andb]. exact General.
  - destruct (hug && true && _) eqn:Eh; [|exact General].
    apply andb_prop in Eh as [_ Eh].
    destruct argdocs' as [|a1 rest]; [|discriminate].
    inv Ha. match goal with H : Forall2 DT [] _ |- _ => inv H end. inv Hk. cbn [map app sepcomma hd].
    apply DT_group, DT_cat. apply DTL_cons; [exact Hf|].
    change (p_lparen :: ?x) with ([p_lparen] ++ x). apply DTL_cons; [apply DT_LPAREN|].
    apply DTL_cons; [assumption|]. apply DTL_one, DT_RPAREN.
  - rewrite andb_false_r. cbn [andb]. exact General.
Qed.

(** dict pairs *)
Lemma dict_part_DT ctx last kdoc0 vdoc0 vplain kts vts :
  DT kdoc0 kts -> DT vdoc0 vts -> DT (vplain tt) vts ->
  DT (fst (dict_part is_space_u is_linebreak ctx last kdoc0 vdoc0 vplain))
     ((kts ++ p_colon :: vts) ++ (if last then [] else [p_comma])).
Proof.
  intros Hk Hv Hp. apply DT_uncomment in Hk. apply DT_uncomment in Hv.
  unfold dict_part. cbn [fst].
  assert (Hcs : DT (Cat [COLON; Text [32%N]]) [p_colon]).
  { apply DT_cat. apply DTL_two_nil; [apply DT_COLON|apply DT_ws; reflexivity]. }
  assert (Hoc : DT (if last then Nil else COMMA) (if last then [] else [p_comma])).
  { destruct last; [constructor|apply DT_COMMA]. }
  assert (Hol : DT (if last then Nil else LINE) []) by (destruct last; [constructor|apply DT_LINE]).
  assert (Hoh : DT (if last then Nil else HardLine) []) by (destruct last; constructor).
  assert (Plain : DT (Cat [uncomment vdoc0; if last then Nil else COMMA; if last then Nil else LINE])
                     (vts ++ (if last then [] else [p_comma]))).
  { apply DT_cat. apply DTL_cons; [exact Hv|]. rewrite <- (app_nil_r (if last then _ else _)).
    apply DTL_cons; [exact Hoc|]. now apply DTL_one. }
  rewrite <- app_assoc. cbn [app].
  change (kts ++ p_colon :: vts ++ ?x) with (kts ++ [p_colon] ++ (vts ++ x)).
  destruct (is_commented kdoc0) as [kc|]; destruct (is_commented vdoc0) as [vc|].
  all: apply DT_cat.
  1,2: apply DTL_cons; [apply DT_cat; apply DTL_nilhead; [apply DT_commentdoc|];
                        apply DTL_nilhead; [constructor|]; now apply DTL_one|].
  3: apply DTL_cons; [exact Hk|].
  4: { apply DTL_cons; [exact Hk|]. apply DTL_cons; [exact Hcs|].
       apply DTL_cons; [exact Hv|]. rewrite <- (app_nil_r (if last then _ else _)).
       apply DTL_cons; [exact Hoc|]. now apply DTL_one. }
  all: apply DTL_cons; [exact Hcs|]; apply DTL_one.
  2: exact Plain.
  all: apply DT_group, DT_fc; apply DT_cat.
  1,3: rewrite <- (app_nil_r (vts ++ _)); apply DTL_cons; [|now apply DTL_one];
       apply DT_nest, DT_cat; apply DTL_nilhead; [constructor|]; apply DTL_nilhead; [apply DT_commentdoc|];
       apply DTL_nilhead; [constructor|]; apply DTL_cons; [exact Hp|]; now apply DTL_one.
  all: apply DTL_cons; [exact Hv|]; rewrite <- (app_nil_r (if last then _ else _));
       apply DTL_cons; [exact Hoc|]; apply DTL_nilhead; [apply DT_TWO|];
       apply DTL_nilhead; [apply DT_commentdoc|]; now apply DTL_one.
Qed.

Definition pairtoks (kv : list token * list token) : list token := fst kv ++ p_colon :: snd kv.

Lemma dict_parts_DT ctx : forall triples pts,
  Forall2 (fun tr pt => DT (fst (fst tr)) (fst pt) /\ DT (snd (fst tr)) (snd pt) /\ DT (snd tr tt) (snd pt))
          triples pts ->
  DTL (fst (dict_parts is_space_u is_linebreak ctx triples)) (sepcomma (map pairtoks pts)).
Proof.
  induction 1 as [|[[k x] xp] [kts vts] triples pts (Hk & Hv & Hp) Hrest IH]; [constructor|].
  cbn [dict_parts fst snd] in *.
  destruct (dict_part _ _ ctx _ k x xp) as [part hc] eqn:Ep.
  destruct (dict_parts _ _ ctx triples) as [rest hc'] eqn:Er. cbn [fst] in *.
  pose proof (dict_part_DT ctx (match triples with [] => true | _ => false end) k x xp kts vts Hk Hv Hp) as HP.
  rewrite Ep in HP. cbn [fst] in HP.
  destruct triples as [|t2 triples'].
  - inv Hrest. cbn [map sepcomma]. cbn in Er. inv Er. rewrite app_nil_r in HP. now apply DTL_one.
  - destruct pts as [|p2 pts']; [inv Hrest|]. cbn [map]. rewrite sepcomma_cons.
    change (pairtoks (kts, vts) ++ p_comma :: ?x) with (pairtoks (kts, vts) ++ [p_comma] ++ x).
    rewrite app_assoc. apply DTL_cons; [exact HP|exact IH].
Qed.

End DocToks.

(** C04: whatever the layout machine emits is one of the layouts the document
    denotes.  The proof never looks inside the fitting predicates: the
    decision of a group / fill item may be arbitrary. *)
From PP Require Import Doc Normalize Layout Sem DocInd NormEq SemLemmas NormSound.

Section Membership.
Variable evs : strp -> Z -> Z -> Z -> Z -> doc.
Variables w rw : Z.
Notation Lay := (Lay evs w rw).
Notation LayList := (LayList evs w rw).
Notation LayFill := (LayFill evs w rw).
Notation LayStk := (LayStk evs w rw).

Ltac inv H := inversion H; subst; clear H.

Lemma strip_app l1 l2 : strip (l1 ++ l2) = strip l1 ++ strip l2.
Proof. apply filter_app. Qed.

Lemma strip_text s : strip [SText s] = txt s.
Proof. destruct s; reflexivity. Qed.

Lemma Lay_pop_inv m i c a o c' : Lay m i c (PopD a) o c' -> o = [SPop a] /\ c' = c.
Proof.
  intros H. destruct m; inv H; auto.
  match goal with H : Sem.Lay _ _ _ MBreak _ _ (PopD _) _ _ |- _ => inv H end; auto.
Qed.

Ltac stk_inv :=
  repeat match goal with
  | H : Sem.LayStk _ _ _ (_ :: _) _ _ _ |- _ => inv H
  end.

Lemma one_triple i m d rest c o1 c1 o c' :
  Lay m i c d o1 c1 -> LayStk rest c1 o c' -> LayStk ((i, m, d) :: rest) c (o1 ++ o) c'.
Proof. intros. econstructor; eauto. Qed.

Lemma step_sound ff smart st st' :
  layout_step evs ff smart w rw st = LCont st' ->
  forall o c', LayStk (ls_stk st') (ls_col st') o c' ->
  exists e, strip (rev (ls_out st')) = strip (rev (ls_out st)) ++ e /\
            LayStk (ls_stk st) (ls_col st) (e ++ o) c'.
Proof.
  destruct st as [stk col out]. unfold layout_step. cbn [ls_stk ls_col ls_out].
  destruct stk as [|[[i m] d] rest]; [discriminate|].
  destruct d as [ |s|l|j d|d|d|b f|b f|l|a d| |d|p|a].
  - (* Nil *) intros E o c' H; inv E; cbn [ls_stk ls_col ls_out] in *.
    exists []; rewrite app_nil_r; split; [reflexivity|]; cbn [app]. apply (one_triple i m Nil rest col [] col); auto. constructor.
  - (* Text *) intros E o c' H; inv E; cbn [ls_stk ls_col ls_out] in *.
    exists (txt s). cbn [rev]. rewrite strip_app, strip_text. split; auto.
    apply one_triple with (c1 := col + slen s); auto. constructor.
  - (* Cat *) intros E o c' H; inv E; cbn [ls_stk ls_col ls_out] in *.
    exists []; rewrite app_nil_r; split; [reflexivity|]; cbn [app]. unfold push_all in H.
    apply (LayStk_app evs w rw) in H as (o1 & c1 & o2 & -> & H1 & H2).
    apply (LayStk_push_all evs w rw) in H1.
    apply one_triple with (c1 := c1); auto. now constructor.
  - (* Nest *) intros E o c' H; inv E; cbn [ls_stk ls_col ls_out] in *.
    exists []; rewrite app_nil_r; split; [reflexivity|]; cbn [app]. stk_inv.
    eapply one_triple; eauto. now constructor.
  - (* Group *) intros E o c' H.
    destruct (fits evs ff smart w rw (Z.min col i) (avail w rw col i) ((i, MFlat, d) :: rest))
      as [[|]|]; inv E; cbn [ls_stk ls_col ls_out] in *;
      exists []; rewrite app_nil_r; (split; [reflexivity|]); cbn [app]; stk_inv;
      eapply one_triple; eauto; constructor; auto. now apply L_demote.
  - (* AlwaysBreak *) intros E o c' H; inv E; cbn [ls_stk ls_col ls_out] in *.
    exists []; rewrite app_nil_r; split; [reflexivity|]; cbn [app]. stk_inv.
    eapply one_triple; eauto. now constructor.
  - (* FlatChoice *) intros E o c' H; inv E; cbn [ls_stk ls_col ls_out] in *.
    exists []; rewrite app_nil_r; split; [reflexivity|]; cbn [app]. stk_inv.
    eapply one_triple; eauto. destruct m; now constructor.
  - (* FCN *) intros E o c' H; inv E; cbn [ls_stk ls_col ls_out] in *.
    exists []; rewrite app_nil_r; split; [reflexivity|]; cbn [app]. stk_inv.
    eapply one_triple; eauto.
    destruct m; [apply L_fcn_break; now apply (normalize_sound evs w rw) | now apply L_fcn_flat].
  - (* Fill *) intros E o c' H.
    destruct l as [|first tl].
    { inv E; cbn [ls_stk ls_col ls_out] in *. exists []; rewrite app_nil_r; split; [reflexivity|]; cbn [app].
      apply (one_triple i m (Fill []) rest col [] col); auto. repeat constructor. }
    destruct (fits evs ff false w rw (Z.min col i) (avail w rw col i) [(i, MFlat, first)])
      as [does_fit|]; [|discriminate].
    destruct tl as [|ws tl2].
    { inv E; cbn [ls_stk ls_col ls_out] in *.
      exists []; rewrite app_nil_r; split; [reflexivity|]; cbn [app].
      inversion H as [|? ? ? ? ? o1 c1 o2 c2 Hf Hr]; subst.
      apply (Lay_unab evs w rw) in Hf as [mx Hf].
      eapply one_triple; eauto. constructor.
      rewrite <- (app_nil_r o1). econstructor; eauto. constructor. }
    destruct tl2 as [|x3 tl3].
    { inv E; cbn [ls_stk ls_col ls_out] in *.
      exists []; rewrite app_nil_r; split; [reflexivity|]; cbn [app].
      inversion H as [|? ? ? ? ? o1 c1 ox cx Hf Hr]; subst.
      inversion Hr as [|? ? ? ? ? o2 c2 o3 c3 Hw Hrest]; subst.
      apply (Lay_unab evs w rw) in Hf as [mf Hf].
      apply (Lay_unab evs w rw) in Hw as [mw Hw].
      rewrite app_assoc. eapply one_triple; eauto. constructor.
      econstructor; eauto. rewrite <- (app_nil_r o2). econstructor; eauto. constructor. }
    destruct (fits evs ff false w rw (Z.min col i) (avail w rw col i)
                [(i, MFlat, Cat [first; ws])]) as [both_fit|]; [|discriminate].
    inv E; cbn [ls_stk ls_col ls_out] in *.
    exists []; rewrite app_nil_r; split; [reflexivity|]; cbn [app].
    inversion H as [|? ? ? ? ? o1 c1 ox cx Hf Hr]; subst.
    inversion Hr as [|? ? ? ? ? o2 c2 oy cy Hw Hr2]; subst.
    inversion Hr2 as [|? ? ? ? ? o3 c3 o4 c4 Hfill Hrest]; subst.
    apply (Lay_fill_inv evs w rw) in Hfill.
    apply (Lay_unab evs w rw) in Hf as [mf Hf].
    apply (Lay_unab evs w rw) in Hw as [mw Hw].
    rewrite !app_assoc. eapply one_triple; eauto. constructor.
    rewrite <- app_assoc. econstructor; eauto. econstructor; eauto.
  - (* Annot *) intros E o c' H; inv E; cbn [ls_stk ls_col ls_out] in *.
    exists [SPush a]. cbn [rev]. rewrite strip_app. split; auto. stk_inv.
    match goal with H : Sem.Lay _ _ _ _ _ _ (PopD _) _ _ |- _ =>
      apply Lay_pop_inv in H as [-> ->] end.
    replace ([SPush a] ++ o1 ++ [SPop a] ++ o3) with ((SPush a :: o1 ++ [SPop a]) ++ o3)
      by (cbn; now rewrite <- app_assoc).
    eapply one_triple; eauto. now constructor.
  - (* HardLine *) intros E o c' H; inv E; cbn [ls_stk ls_col ls_out] in *.
    exists [SLine i]. cbn [rev]. rewrite strip_app. split; auto.
    apply one_triple with (c1 := i); auto. constructor.
  - (* Align *) intros E o c' H; inv E; cbn [ls_stk ls_col ls_out] in *.
    exists []; rewrite app_nil_r; split; [reflexivity|]; cbn [app]. stk_inv.
    eapply one_triple; eauto. constructor. now apply (normalize_sound evs w rw).
  - (* CtxS *) intros E o c' H; inv E; cbn [ls_stk ls_col ls_out] in *.
    exists []; rewrite app_nil_r; split; [reflexivity|]; cbn [app]. stk_inv.
    eapply one_triple; eauto. constructor. now apply (normalize_sound evs w rw).
  - (* PopD *) intros E o c' H; inv E; cbn [ls_stk ls_col ls_out] in *.
    exists [SPop a]. cbn [rev]. rewrite strip_app. split; auto.
    apply one_triple with (c1 := col); auto. constructor.
Qed.

Lemma step_done ff smart st out :
  layout_step evs ff smart w rw st = LDone out -> ls_stk st = [] /\ out = rev (ls_out st).
Proof.
  destruct st as [stk col o]. unfold layout_step. cbn [ls_stk ls_col ls_out].
  destruct stk as [|[[i m] d] rest].
  - intros E; inv E; auto.
  - destruct d; try discriminate.
    + destruct (fits _ _ _ _ _ _ _ _) as [[|]|]; discriminate.
    + destruct l as [|first tl]; [discriminate|].
      destruct (fits _ _ _ _ _ _ _ _) as [?|]; [|discriminate].
      destruct tl as [|ws [|x3 tl3]]; try discriminate.
      destruct (fits _ _ _ _ _ _ _ _) as [?|]; discriminate.
Qed.

Lemma loop_sound ff smart fuel : forall st out,
  layout_loop evs fuel ff smart w rw st = Some out ->
  exists o c', LayStk (ls_stk st) (ls_col st) o c' /\
               strip out = strip (rev (ls_out st)) ++ o.
Proof.
  induction fuel as [|fuel IH]; intros st out E; [discriminate|].
  cbn [layout_loop] in E.
  destruct (layout_step evs ff smart w rw st) as [out0|st'|] eqn:Es; [| |discriminate].
  - inv E. apply step_done in Es as [-> ->].
    exists [], (ls_col st). split; [constructor|]. now rewrite app_nil_r.
  - apply IH in E as (o & c' & HS & Ho).
    destruct (step_sound _ _ _ _ Es o c' HS) as (e & He & HS').
    exists (e ++ o), c'. split; auto. rewrite Ho, He. now rewrite app_assoc.
Qed.

Theorem membership fuel ff smart d out :
  best_layout evs fuel ff smart w rw d = Some out ->
  exists c', Lay MBreak 0 0 d (strip out) c'.
Proof.
  unfold best_layout, init_state. intros E.
  apply loop_sound in E as (o & c' & HS & Ho). cbn [ls_stk ls_col ls_out rev strip filter app] in *.
  subst. inv HS.
  match goal with H : Sem.LayStk _ _ _ [] _ _ _ |- _ => inv H end.
  rewrite app_nil_r. exists c'. now apply (normalize_sound evs w rw).
Qed.

End Membership.

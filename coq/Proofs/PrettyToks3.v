(** The denotation theorem: in EVERY layout, the document the printers build
    for a value denotes the tokens of the expression [expr_of] prescribes -
    whatever the indent, the multiline strategy and the comments attached. *)
From Coq Require Import Lia.
From PP Require Import Doc PyStr PyVal Consts Printers PyExpr DocToks PrettyToks1 PrettyToks2.

Ltac inv H := inversion H; subst; clear H.

(** well-formed values: classes print as names, subclass instances wrap a
    built-in value, opaque reprs are not blank *)
Definition is_base (v : pyval) : bool :=
  match v with
  | VInt _ | VFloat _ | VInf | VNegInf | VNan | VStr _ | VBytes _
  | VList _ | VTuple _ | VSet _ | VFrozenset _ | VDict _ _ => true
  | _ => false
  end.

Fixpoint wf_val (v : pyval) : Prop :=
  match v with
  | VList l | VTuple l | VSet l | VFrozenset l =>
      (fix all (l : list pyval) : Prop := match l with [] => True | x :: tl => wf_val x /\ all tl end) l
  | VDict kvs _ =>
      (fix all (l : list (pyval * pyval)) : Prop :=
         match l with [] => True | (k, x) :: tl => wf_val k /\ wf_val x /\ all tl end) kvs
  | VSub c b => wf_cls c /\ is_base b = true /\ wf_val b
  | VCommented x _ | VTrailing x _ => wf_val x
  | VCall f args kwargs =>
      wf_cls f /\
      (fix all (l : list pyval) : Prop := match l with [] => True | x :: tl => wf_val x /\ all tl end) args /\
      (fix all (l : list (str * pyval)) : Prop :=
         match l with [] => True | (_, x) :: tl => wf_val x /\ all tl end) kwargs
  | VPath c _ => wf_cls c
  | VRepr r => ws_only r = false
  | _ => True
  end.

Fixpoint vsize (v : pyval) : nat :=
  match v with
  | VList l | VTuple l | VSet l | VFrozenset l =>
      S ((fix sum (l : list pyval) : nat := match l with [] => O | x :: tl => (vsize x + sum tl)%nat end) l)
  | VDict kvs _ =>
      S ((fix sum (l : list (pyval * pyval)) : nat :=
            match l with [] => O | (k, x) :: tl => (vsize k + vsize x + sum tl)%nat end) kvs)
  | VSub _ b => S (vsize b)
  | VCommented x _ | VTrailing x _ => S (vsize x)
  | VCall _ args kwargs =>
      S (((fix sum (l : list pyval) : nat := match l with [] => O | x :: tl => (vsize x + sum tl)%nat end) args +
         (fix sum (l : list (str * pyval)) : nat :=
            match l with [] => O | (_, x) :: tl => (vsize x + sum tl)%nat end) kwargs)%nat)
  | _ => 1%nat
  end.

Definition wf_all (l : list pyval) : Prop := Forall wf_val l.
Definition vsum (l : list pyval) : nat := fold_right (fun x a => (vsize x + a)%nat) O l.

Lemma wf_list_Forall l :
  (fix all (l : list pyval) : Prop := match l with [] => True | x :: tl => wf_val x /\ all tl end) l ->
  Forall wf_val l.
Proof. induction l as [|x tl IH]; intros H; constructor; destruct H; auto. Qed.

Lemma vsum_eq l :
  (fix sum (l : list pyval) : nat := match l with [] => O | x :: tl => (vsize x + sum tl)%nat end) l = vsum l.
Proof. induction l as [|x tl IH]; cbn; auto. Qed.

Lemma vsum_in l x : In x l -> (vsize x <= vsum l)%nat.
Proof.
  unfold vsum. induction l as [|y tl IH]; cbn [fold_right In]; [intros []|].
  intros [E|H]; [subst; lia|]. specialize (IH H). lia.
Qed.

Lemma vsize_list l : vsize (VList l) = S (vsum l).
Proof. cbn [vsize]. now rewrite vsum_eq. Qed.
Lemma vsize_tuple l : vsize (VTuple l) = S (vsum l).
Proof. cbn [vsize]. now rewrite vsum_eq. Qed.
Lemma vsize_set l : vsize (VSet l) = S (vsum l).
Proof. cbn [vsize]. now rewrite vsum_eq. Qed.
Lemma vsize_frozenset l : vsize (VFrozenset l) = S (vsum l).
Proof. cbn [vsize]. now rewrite vsum_eq. Qed.

Definition kvsum (l : list (pyval * pyval)) : nat :=
  fold_right (fun kv a => (vsize (fst kv) + vsize (snd kv) + a)%nat) O l.
Lemma vsize_dict kvs so : vsize (VDict kvs so) = S (kvsum kvs).
Proof.
  cbn [vsize]. f_equal. induction kvs as [|[k x] tl IH]; [reflexivity|].
  unfold kvsum in *. cbn [fold_right fst snd]. now rewrite IH.
Qed.
Lemma kvsum_in l k x : In (k, x) l -> (vsize k + vsize x <= kvsum l)%nat.
Proof.
  unfold kvsum. induction l as [|y tl IH]; cbn [fold_right In]; [intros []|].
  intros [E|H]; [subst; cbn [fst snd]; lia|]. specialize (IH H). lia.
Qed.
Lemma wf_dict_Forall kvs :
  (fix all (l : list (pyval * pyval)) : Prop :=
     match l with [] => True | (k, x) :: tl => wf_val k /\ wf_val x /\ all tl end) kvs ->
  Forall (fun kv => wf_val (fst kv) /\ wf_val (snd kv)) kvs.
Proof. induction kvs as [|[k x] tl IH]; intros H; constructor; destruct H as (?&?&?); auto. Qed.

Definition kwsum (l : list (str * pyval)) : nat := fold_right (fun kv a => (vsize (snd kv) + a)%nat) O l.
Lemma vsize_call f args kw : vsize (VCall f args kw) = S (vsum args + kwsum kw).
Proof.
  cbn [vsize]. rewrite vsum_eq. do 2 f_equal. induction kw as [|[k x] tl IH]; [reflexivity|].
  unfold kwsum in *. cbn [fold_right snd]. now rewrite IH.
Qed.
Lemma kwsum_in l k x : In (k, x) l -> (vsize x <= kwsum l)%nat.
Proof.
  unfold kwsum. induction l as [|y tl IH]; cbn [fold_right In]; [intros []|].
  intros [E|H]; [subst; cbn [snd]; lia|]. specialize (IH H). lia.
Qed.
Lemma wf_kw_Forall (kw : list (str * pyval)) :
  (fix all (l : list (str * pyval)) : Prop :=
     match l with [] => True | (_, x) :: tl => wf_val x /\ all tl end) kw ->
  Forall (fun kv => wf_val (snd kv)) kw.
Proof. induction kw as [|[k x] tl IH]; intros H; constructor; destruct H; auto. Qed.

Section Main.
Variable is_space_u : N -> bool.
Variable is_linebreak : N -> bool.
Notation pretty_pv := (pretty_pv is_space_u is_linebreak).

Definition Goal_ (v : pyval) : Prop :=
  forall ctx cm tr, wf_val v ->
    DT (pretty_pv v ctx cm tr) (etoks (expr_of (ectx_of ctx) v (trb tr))).

Lemma finish_DT (cm : option str) d ts :
  DT d ts -> DT (match truthy cm with Some c => Annot (AComment c) d | None => d end) ts.
Proof. intros H. destruct (truthy cm); [now apply DT_acomment|exact H]. Qed.

(** the elements of a sequence *)
Lemma elems_DT ctx l :
  Forall wf_val l -> (forall x, In x l -> Goal_ x) ->
  Forall2 DT (match l with
              | [x] => [pretty_pv x (with_strategy (nested_call ctx) MPlain) None None]
              | _ => map (fun x => pretty_pv x (nested_hang ctx) None None) l
              end)
          (map etoks (map (fun x => expr_of (e_nested (ectx_of ctx)) x false) l)).
Proof.
  intros Hwf IH.
  assert (G : forall c', ectx_of c' = e_nested (ectx_of ctx) ->
              Forall2 DT (map (fun x => pretty_pv x c' None None) l)
                      (map etoks (map (fun x => expr_of (e_nested (ectx_of ctx)) x false) l))).
  { intros c' Ec. induction l as [|x tl IHl]; cbn [map]; constructor.
    - inv Hwf. rewrite <- Ec. apply (IH x (or_introl eq_refl) c' None None). assumption.
    - inv Hwf. apply IHl; auto. intros y Hy. apply IH. now right. }
  destruct l as [|x [|y tl]]; apply G; reflexivity.
Qed.

Lemma trb_truthy tr : trb (truthy tr) = trb tr.
Proof. destruct tr as [[|c t]|]; reflexivity. Qed.

Lemma seq_case ctx kind sub tr l :
  match sub with Some w => wf_cls w | None => True end ->
  Forall wf_val l -> (forall x, In x l -> Goal_ x) ->
  DT (seq_d is_space_u is_linebreak ctx kind (length l) sub (truthy tr)
        (fun _ => match l with
                  | [x] => [pretty_pv x (with_strategy (nested_call ctx) MPlain) None None]
                  | _ => map (fun x => pretty_pv x (nested_hang ctx) None None) l
                  end))
     (etoks (eseq (ectx_of ctx) (kind_of kind) (length l) sub (trb tr)
               (map (fun x => expr_of (e_nested (ectx_of ctx)) x false) l))).
Proof.
  intros Hw Hwf IH.
  pose proof (seq_d_DT is_space_u is_linebreak ctx kind sub tr
                (fun _ => match l with
                  | [x] => [pretty_pv x (with_strategy (nested_call ctx) MPlain) None None]
                  | _ => map (fun x => pretty_pv x (nested_hang ctx) None None) l
                  end) _ Hw (elems_DT ctx l Hwf IH)) as H.
  rewrite map_length in H. exact H.
Qed.

Lemma frozen_case ctx sub l :
  match sub with Some w => wf_cls w | None => True end ->
  Forall wf_val l -> (forall x, In x l -> Goal_ x) ->
  DT (frozen_d is_space_u is_linebreak ctx (length l) sub
        (fun _ => seq_d is_space_u is_linebreak ctx 0 (length l) None None
           (fun _ => match l with
                     | [x] => [pretty_pv x (with_strategy (nested_call ctx) MPlain) None None]
                     | _ => map (fun x => pretty_pv x (nested_hang ctx) None None) l
                     end)))
     (etoks (let nm := match sub with Some w => cn_name w | None => n_frozenset end in
             match l with
             | [] => ecall (ectx_of ctx) nm [] []
             | _ => ecall (ectx_of ctx) nm
                      [eseq (ectx_of ctx) KList (length l) None false
                         (map (fun x => expr_of (e_nested (ectx_of ctx)) x false) l)] []
             end)).
Proof.
  intros Hw Hwf IH.
  pose proof (frozen_d_DT is_space_u is_linebreak ctx (length l) sub
                (fun _ => seq_d is_space_u is_linebreak ctx 0 (length l) None None
                   (fun _ => match l with
                             | [x] => [pretty_pv x (with_strategy (nested_call ctx) MPlain) None None]
                             | _ => map (fun x => pretty_pv x (nested_hang ctx) None None) l
                             end))
                (eseq (ectx_of ctx) KList (length l) None false
                         (map (fun x => expr_of (e_nested (ectx_of ctx)) x false) l))
                Hw (fun _ => seq_case ctx 0%nat None None l I Hwf IH)) as H.
  destruct l; exact H.
Qed.

Definition key_doc_ ctx (k : pyval) : doc :=
  match k with
  | VStr s => str_doc (with_strategy ctx MParens) false s None false
  | VBytes s => str_doc (with_strategy ctx MParens) true s None false
  | VSub c (VStr s) => str_doc (with_strategy ctx MParens) false s (Some c) false
  | VSub c (VBytes s) => str_doc (with_strategy ctx MParens) true s (Some c) false
  | _ => pretty_pv k (nested_call ctx) None None
  end.
Definition key_expr_ (c : ectx) (k : pyval) : expr :=
  match k with
  | VStr s => estr c false s None
  | VBytes s => estr c true s None
  | VSub w (VStr s) => estr c false s (Some w)
  | VSub w (VBytes s) => estr c true s (Some w)
  | _ => expr_of (e_nested c) k false
  end.

Lemma key_DT ctx k : wf_val k -> Goal_ k -> DT (key_doc_ ctx k) (etoks (key_expr_ (ectx_of ctx) k)).
Proof.
  intros Hwf IH.
  assert (G : DT (pretty_pv k (nested_call ctx) None None) (etoks (expr_of (e_nested (ectx_of ctx)) k false))).
  { exact (IH (nested_call ctx) None None Hwf). }
  destruct k; try exact G.
  - exact (str_doc_DT (with_strategy ctx MParens) false s None false I).
  - exact (str_doc_DT (with_strategy ctx MParens) true s None false I).
  - destruct k; try exact G; destruct Hwf as (Hc & _ & _).
    + exact (str_doc_DT (with_strategy ctx MParens) false s (Some c) false Hc).
    + exact (str_doc_DT (with_strategy ctx MParens) true s (Some c) false Hc).
Qed.

Lemma triples_TR ctx kvs :
  Forall (fun kv => wf_val (fst kv) /\ wf_val (snd kv)) kvs ->
  (forall k x, In (k, x) kvs -> Goal_ k /\ Goal_ x) ->
  Forall2 TR
    (map (fun '(k, x) =>
            (key_doc_ ctx k,
             pretty_pv x (with_strategy (nested_call ctx) MIndented) None None,
             fun _ : unit => pretty_pv x (with_strategy (nested_call ctx) MPlain) None None)) kvs)
    (map (fun '(k, x) => (key_expr_ (ectx_of ctx) k, expr_of (e_nested (ectx_of ctx)) x false)) kvs).
Proof.
  intros Hwf IH. induction kvs as [|[k x] tl IHl]; cbn [map]; constructor.
  - inv Hwf. destruct H1 as [Hk Hx]. cbn [fst snd] in *. destruct (IH k x (or_introl eq_refl)) as [Gk Gx].
    split; [|split]; cbn [fst snd].
    + now apply key_DT.
    + exact (Gx (with_strategy (nested_call ctx) MIndented) None None Hx).
    + exact (Gx (with_strategy (nested_call ctx) MPlain) None None Hx).
  - inv Hwf. apply IHl; auto. intros k' x' H. apply IH. now right.
Qed.

Lemma pretty_pv_DT_n : forall n v, (vsize v <= n)%nat -> Goal_ v.
Proof.
  induction n as [|n IHn]; intros v Hn.
  { destruct v; cbn in Hn; lia. }
  destruct v; intros ctx cm tr Hwf; cbn [Printers.pretty_pv expr_of].
  all: try apply finish_DT.
  - (* VInt *)
    exact (num_d_DT is_space_u is_linebreak ctx T_NUMBER_INT n_int (repr_int z) None (EInt z)
             ltac:(discriminate) eq_refl eq_refl I).
  - (* VBool *) destruct b; apply (DT_tok 1); discriminate.
  - (* VNone *) apply (DT_tok 1); discriminate.
  - (* VEllipsis *) apply DT_ELLIPSIS.
  - (* VFloat *)
    exact (num_d_DT is_space_u is_linebreak ctx T_NUMBER_FLOAT n_float r None (EFloat r)
             ltac:(discriminate) eq_refl eq_refl I).
  - exact (special_float_d_DT is_space_u is_linebreak ctx s_inf None I).
  - exact (special_float_d_DT is_space_u is_linebreak ctx s_neginf None I).
  - exact (special_float_d_DT is_space_u is_linebreak ctx s_nan None I).
  - exact (str_doc_DT ctx false s None false I).
  - exact (str_doc_DT ctx true s None false I).
  - (* VList *)
    rewrite vsize_list in Hn. apply seq_case with (kind := 0%nat); [exact I|now apply wf_list_Forall|].
    intros x Hx. apply IHn. apply vsum_in in Hx. lia.
  - rewrite vsize_tuple in Hn. apply seq_case with (kind := 1%nat); [exact I|now apply wf_list_Forall|].
    intros x Hx. apply IHn. apply vsum_in in Hx. lia.
  - rewrite vsize_set in Hn. apply seq_case with (kind := 2%nat); [exact I|now apply wf_list_Forall|].
    intros x Hx. apply IHn. apply vsum_in in Hx. lia.
  - (* VFrozenset *)
    rewrite vsize_frozenset in Hn.
    apply (frozen_case ctx None l I); [now apply wf_list_Forall|].
    intros x Hx. apply IHn. apply vsum_in in Hx. lia.
  - (* VDict *)
    rewrite vsize_dict in Hn.
    apply dict_d_DT; [exact I|]. apply wf_dict_Forall in Hwf.
    apply (triples_TR ctx kvs Hwf). intros k x Hin. apply kvsum_in in Hin. split; apply IHn; lia.
  - (* VSub *)
    destruct Hwf as (Hc & Hb & Hwf). cbn [vsize] in Hn.
    destruct v; try discriminate Hb.
    + exact (num_d_DT is_space_u is_linebreak ctx T_NUMBER_INT n_int (repr_int z) (Some c) (EInt z)
               ltac:(discriminate) eq_refl eq_refl Hc).
    + exact (num_d_DT is_space_u is_linebreak ctx T_NUMBER_FLOAT n_float r (Some c) (EFloat r)
               ltac:(discriminate) eq_refl eq_refl Hc).
    + exact (special_float_d_DT is_space_u is_linebreak ctx s_inf (Some c) Hc).
    + exact (special_float_d_DT is_space_u is_linebreak ctx s_neginf (Some c) Hc).
    + exact (special_float_d_DT is_space_u is_linebreak ctx s_nan (Some c) Hc).
    + exact (str_doc_DT ctx false s (Some c) false Hc).
    + exact (str_doc_DT ctx true s (Some c) false Hc).
    + rewrite vsize_list in Hn. apply seq_case with (kind := 0%nat); [exact Hc|now apply wf_list_Forall|].
      intros x Hx. apply IHn. apply vsum_in in Hx. lia.
    + rewrite vsize_tuple in Hn. apply seq_case with (kind := 1%nat); [exact Hc|now apply wf_list_Forall|].
      intros x Hx. apply IHn. apply vsum_in in Hx. lia.
    + rewrite vsize_set in Hn. apply seq_case with (kind := 2%nat); [exact Hc|now apply wf_list_Forall|].
      intros x Hx. apply IHn. apply vsum_in in Hx. lia.
    + rewrite vsize_frozenset in Hn. apply (frozen_case ctx (Some c) l Hc); [now apply wf_list_Forall|].
      intros x Hx. apply IHn. apply vsum_in in Hx. lia.
    + rewrite vsize_dict in Hn. apply dict_d_DT; [exact Hc|]. apply wf_dict_Forall in Hwf.
      apply (triples_TR ctx kvs Hwf). intros k x Hin. apply kvsum_in in Hin. split; apply IHn; lia.
  - (* VCommented *)
    cbn [vsize] in Hn. rewrite <- trb_truthy. apply IHn; [lia|exact Hwf].
  - (* VTrailing *)
    cbn [vsize] in Hn.
    assert (E : (trb tr || match c with [] => false | _ :: _ => true end)%bool = trb (Some (joinc (truthy tr) c))).
    { unfold joinc. destruct tr as [[|a t]|], c as [|b c']; reflexivity. }
    rewrite E. apply IHn; [lia|exact Hwf].
  - (* VCall *)
    rewrite vsize_call in Hn. destruct Hwf as (Hf & Ha & Hk).
    apply wf_list_Forall in Ha. apply wf_kw_Forall in Hk.
    assert (HA : Forall2 DT (map (fun a => pretty_pv a (nested_hang ctx) None None) args)
                   (map etoks (map (fun a => expr_of (e_nested (ectx_of ctx)) a false) args))).
    { assert (IHa : forall x, In x args -> Goal_ x).
      { intros x Hx. apply IHn. apply vsum_in in Hx. lia. }
      clear Hn. induction args as [|a tl IHl]; cbn [map]; constructor.
      - inv Ha. exact (IHa a (or_introl eq_refl) (nested_hang ctx) None None H1).
      - inv Ha. apply IHl; auto. intros x Hx. apply IHa. now right. }
    assert (HK : Forall2 (fun kd kt => fst kd = fst kt /\ DT (snd kd) (snd kt))
                   (map (fun '(k, x) => (k, pretty_pv x (nested_hang ctx) None None)) kwargs)
                   (map (fun kv => (fst kv, etoks (snd kv)))
                      (map (fun '(k, x) => (k, expr_of (e_nested (ectx_of ctx)) x false)) kwargs))).
    { assert (IHk : forall k x, In (k, x) kwargs -> Goal_ x).
      { intros k x Hx. apply IHn. apply kwsum_in in Hx. lia. }
      clear Hn. induction kwargs as [|[k x] tl IHl]; cbn [map]; constructor.
      - inv Hk. cbn [fst snd] in *. split; [reflexivity|].
        exact (IHk k x (or_introl eq_refl) (nested_hang ctx) None None H1).
      - inv Hk. apply IHl; auto. intros k' x' Hx. apply (IHk k'). now right. }
    assert (Gen : forall same,
              DT (call_alt_d is_space_u is_linebreak ctx f false same
                    (fun _ => map (fun a => pretty_pv a (nested_hang ctx) None None) args)
                    (fun _ => map (fun '(k, x) => (k, pretty_pv x (nested_hang ctx) None None)) kwargs))
                 (etoks (ecall (ectx_of ctx) (cn_name f)
                           (map (fun a => expr_of (e_nested (ectx_of ctx)) a false) args)
                           (map (fun '(k, x) => (k, expr_of (e_nested (ectx_of ctx)) x false)) kwargs)))).
    { intros same. now apply call_alt_d_nested_DT. }
    unfold ecall in Gen. unfold placeholder in *.
    destruct kwargs as [|kw0 kwr]; [|apply Gen].
    destruct args as [|a [|a2 ar]]; try apply Gen.
    destruct (huggable a) eqn:Eh; [|apply Gen].
    pose proof (call_alt_d_hug_DT is_space_u is_linebreak ctx f
                  (fun _ => map (fun a => pretty_pv a ctx None None) [a])
                  (fun _ => map (fun a => pretty_pv a (nested_hang ctx) None None) [a])
                  (fun _ => map (fun '(k, x) => (k, pretty_pv x (nested_hang ctx) None None)) [])
                  (expr_of (ectx_of ctx) a false) Hf) as H.
    unfold ecall, placeholder in H. apply H. cbn [map]. constructor; [|constructor].
    inv Ha. apply (IHn a); [|assumption]. cbn [vsum fold_right] in Hn. lia.
  - (* VPath *)
    exact (build_fncall_DT is_space_u is_linebreak ctx (general_identifier c) [TName (cn_name c)]
             [str_doc ctx false s None true] [etoks (estr (ectx_of ctx) false s None)] [] [] false
             (DT_ident c Hwf) ltac:(constructor; [exact (str_doc_DT ctx false s None true I)|constructor])
             (Forall2_nil _)).
  - (* VRepr *) now apply DT_text.
Qed.

Theorem pretty_pv_DT : forall v ctx cm tr, wf_val v ->
  DT (pretty_pv v ctx cm tr) (etoks (expr_of (ectx_of ctx) v (trb tr))).
Proof. intros v. exact (pretty_pv_DT_n (vsize v) v (le_n _)). Qed.

(** python_to_sdocs: the document handed to the layout engine *)
Theorem top_doc_DT v indent depth maxlen sort : wf_val v ->
  DT (top_doc is_space_u is_linebreak v indent depth maxlen sort)
     (etoks (expr_of (mkE depth maxlen sort) v false)).
Proof.
  intros Hwf. unfold top_doc.
  pose proof (pretty_pv_DT v (mkCtx indent depth MPlain maxlen sort) None None Hwf) as H.
  change (ectx_of (mkCtx indent depth MPlain maxlen sort)) with (mkE depth maxlen sort) in H.
  change (trb None) with false in H.
  destruct (is_commented _) as [c|]; [|exact H].
  apply DT_group, DT_fc; apply DT_cat.
  - apply DTL_nilhead; [apply DT_commentdoc|]. apply DTL_nilhead; [constructor|]. now apply DTL_one.
  - rewrite <- (app_nil_r (etoks _)). apply DTL_cons; [exact H|].
    apply DTL_nilhead; [apply DT_TWO|]. apply DTL_one, DT_commentdoc.
Qed.








End Main.

(** The printed DOCUMENT does not depend on depth / max_seq_len once they are
    large enough: depth greater than the nesting height, max_seq_len at least
    every container length.  Hence the text is identical at every width. *)
From Coq Require Import Lia.
From PP Require Import Doc PyStr PyVal Consts Printers PyExpr PyEval PrettyToks3 NormFits.

Ltac inv H := inversion H; subst; clear H.

Fixpoint hgt (v : pyval) : nat :=
  match v with
  | VList l | VTuple l | VSet l | VFrozenset l =>
      S ((fix mx (l : list pyval) : nat := match l with [] => O | x :: tl => Nat.max (hgt x) (mx tl) end) l)
  | VDict kvs _ =>
      S ((fix mx (l : list (pyval * pyval)) : nat :=
            match l with [] => O | (k, x) :: tl => Nat.max (Nat.max (hgt k) (hgt x)) (mx tl) end) kvs)
  | VSub _ b => hgt b
  | VCommented x _ | VTrailing x _ => hgt x
  | VCall _ args kwargs =>
      S (Nat.max ((fix mx (l : list pyval) : nat := match l with [] => O | x :: tl => Nat.max (hgt x) (mx tl) end) args)
                 ((fix mx (l : list (str * pyval)) : nat :=
                     match l with [] => O | (_, x) :: tl => Nat.max (hgt x) (mx tl) end) kwargs))
  | VInf | VNegInf | VNan => 1%nat
  | _ => O
  end.

Definition lmax (l : list pyval) : nat := fold_right (fun x a => Nat.max (hgt x) a) O l.
Lemma lmax_eq l :
  (fix mx (l : list pyval) : nat := match l with [] => O | x :: tl => Nat.max (hgt x) (mx tl) end) l = lmax l.
Proof. induction l as [|x tl IH]; cbn; auto. Qed.
Lemma lmax_in l x : In x l -> (hgt x <= lmax l)%nat.
Proof. unfold lmax. induction l as [|y tl IH]; cbn [fold_right In]; [intros []|]. intros [E|H]; [subst; lia|]. specialize (IH H). lia. Qed.
Definition kvmax (l : list (pyval * pyval)) : nat :=
  fold_right (fun kv a => Nat.max (Nat.max (hgt (fst kv)) (hgt (snd kv))) a) O l.
Lemma kvmax_eq l :
  (fix mx (l : list (pyval * pyval)) : nat :=
     match l with [] => O | (k, x) :: tl => Nat.max (Nat.max (hgt k) (hgt x)) (mx tl) end) l = kvmax l.
Proof. induction l as [|[k x] tl IH]; cbn; auto. Qed.
Lemma kvmax_in l k x : In (k, x) l -> (hgt k <= kvmax l /\ hgt x <= kvmax l)%nat.
Proof.
  unfold kvmax. induction l as [|y tl IH]; cbn [fold_right In]; [intros []|].
  intros [E|H]; [subst; cbn [fst snd]; lia|]. specialize (IH H). lia.
Qed.
Definition kwmax (l : list (str * pyval)) : nat := fold_right (fun kv a => Nat.max (hgt (snd kv)) a) O l.
Lemma kwmax_eq l :
  (fix mx (l : list (str * pyval)) : nat := match l with [] => O | (_, x) :: tl => Nat.max (hgt x) (mx tl) end) l = kwmax l.
Proof. induction l as [|[k x] tl IH]; cbn; auto. Qed.
Lemma kwmax_in l k x : In (k, x) l -> (hgt x <= kwmax l)%nat.
Proof.
  unfold kwmax. induction l as [|y tl IH]; cbn [fold_right In]; [intros []|].
  intros [E|H]; [subst; cbn [snd]; lia|]. specialize (IH H). lia.
Qed.

Definition same_static (c1 c2 : pctx) : Prop :=
  c_indent c1 = c_indent c2 /\ c_strategy c1 = c_strategy c2 /\ c_sort c1 = c_sort c2.
Definition deep (h : nat) (c : pctx) : Prop :=
  match c_depth c with None => True | Some d => Z.of_nat h < d end.

Lemma deep_mono h h' c : (h' <= h)%nat -> deep h c -> deep h' c.
Proof. unfold deep. destruct (c_depth c); auto. lia. Qed.
Lemma deep_not0 h c : deep h c -> depth_is0 c = false /\ depth_le0 c = false.
Proof.
  unfold deep, depth_is0, depth_le0. destruct (c_depth c) as [d|]; [|auto]. intros H.
  split; [apply Z.eqb_neq|apply Z.leb_gt]; lia.
Qed.
Lemma deep_nested h c : deep (S h) c -> deep h (nested_call c).
Proof. unfold deep, nested_call. cbn [c_depth]. destruct (c_depth c); cbn [option_map]; auto. lia. Qed.
Lemma deep_strategy h c m : deep h c -> deep h (with_strategy c m).
Proof. auto. Qed.
Lemma static_nested c1 c2 : same_static c1 c2 -> same_static (nested_call c1) (nested_call c2).
Proof. auto. Qed.
Lemma static_strategy c1 c2 m : same_static c1 c2 -> same_static (with_strategy c1 m) (with_strategy c2 m).
Proof. unfold same_static. cbn. intuition. Qed.

Section Stable.
Variable sp lb : N -> bool.
Notation pretty_pv := (pretty_pv sp lb).

(** helpers depend on the context only through indent and the two depth tests *)
Lemma call_alt_d_ext c1 c2 f h same1 same2 nested1 nested2 kws1 kws2 :
  c_indent c1 = c_indent c2 -> depth_le0 c1 = depth_le0 c2 ->
  same1 tt = same2 tt -> nested1 tt = nested2 tt -> kws1 tt = kws2 tt ->
  call_alt_d sp lb c1 f h same1 nested1 kws1 = call_alt_d sp lb c2 f h same2 nested2 kws2.
Proof. intros Hi Hd Hs Hn Hk. unfold call_alt_d, build_fncall. now rewrite Hi, Hd, Hs, Hn, Hk. Qed.

Lemma str_doc_ext c1 c2 b s w p :
  c_indent c1 = c_indent c2 -> c_strategy c1 = c_strategy c2 -> depth_is0 c1 = depth_is0 c2 ->
  str_doc c1 b s w p = str_doc c2 b s w p.
Proof. intros Hi Hs Hd. unfold str_doc. now rewrite Hi, Hs, Hd. Qed.

Lemma num_d_ext c1 c2 t base lit sub :
  c_indent c1 = c_indent c2 -> depth_is0 c1 = depth_is0 c2 -> depth_le0 c1 = depth_le0 c2 ->
  num_d sp lb c1 t base lit sub = num_d sp lb c2 t base lit sub.
Proof.
  intros Hi Hd Hl. unfold num_d, call_ellipsis, build_fncall. rewrite Hd, Hi.
  now rewrite (call_alt_d_ext c1 c2 _ false (fun _ => []) (fun _ => []) (fun _ => [ELLIPSIS]) (fun _ => [ELLIPSIS])
                 (fun _ => []) (fun _ => []) Hi Hl eq_refl eq_refl eq_refl).
Qed.

Lemma seq_d_stable c1 c2 kind len sub tr els1 els2 :
  c_indent c1 = c_indent c2 -> deep 0 c1 -> deep 0 c2 ->
  Z.of_nat len <= c_maxlen c1 -> Z.of_nat len <= c_maxlen c2 ->
  els1 tt = els2 tt -> length (els1 tt) = len ->
  seq_d sp lb c1 kind len sub tr els1 = seq_d sp lb c2 kind len sub tr els2.
Proof.
  intros Hi H1 H2 M1 M2 He Hl. destruct (deep_not0 _ _ H1) as [A1 B1]. destruct (deep_not0 _ _ H2) as [A2 B2].
  unfold seq_d, call_noargs. rewrite A1, A2.
  replace (c_maxlen c1 <? Z.of_nat len) with false by (symmetry; apply Z.ltb_ge; lia).
  replace (c_maxlen c2 <? Z.of_nat len) with false by (symmetry; apply Z.ltb_ge; lia).
  rewrite (take_z_all (c_maxlen c1)) by (rewrite Hl; lia).
  rewrite (take_z_all (c_maxlen c2)) by (rewrite <- He, Hl; lia).
  rewrite <- He.
  rewrite (call_alt_d_ext c1 c2 _ false (fun _ => []) (fun _ => []) (fun _ => []) (fun _ => [])
             (fun _ => []) (fun _ => []) Hi (eq_trans B1 (eq_sym B2)) eq_refl eq_refl eq_refl).
  unfold sequence_of_docs, build_fncall, bracket. now rewrite Hi.
Qed.

Lemma dict_d_stable c1 c2 sub tr so tri1 tri2 :
  c_indent c1 = c_indent c2 -> c_sort c1 = c_sort c2 -> deep 0 c1 -> deep 0 c2 ->
  Z.of_nat (length (tri1 tt)) <= c_maxlen c1 -> Z.of_nat (length (tri1 tt)) <= c_maxlen c2 ->
  (length so <= length (tri1 tt))%nat ->
  tri1 tt = tri2 tt ->
  dict_d sp lb c1 sub tr so tri1 = dict_d sp lb c2 sub tr so tri2.
Proof.
  intros Hi Hso H1 H2 M1 M2 Hlen He. destruct (deep_not0 _ _ H1) as [A1 B1]. destruct (deep_not0 _ _ H2) as [A2 B2].
  unfold dict_d, call_noargs. rewrite A1, A2. cbv zeta. rewrite <- He, Hso.
  replace (c_maxlen c1 <? Z.of_nat (length (tri1 tt))) with false by (symmetry; apply Z.ltb_ge; lia).
  replace (c_maxlen c2 <? Z.of_nat (length (tri1 tt))) with false by (symmetry; apply Z.ltb_ge; lia).
  assert (T : forall c, Z.of_nat (length (tri1 tt)) <= c_maxlen c ->
              take_z (c_maxlen c) (if c_sort c2 then reorder (tri1 tt) so else tri1 tt)
              = (if c_sort c2 then reorder (tri1 tt) so else tri1 tt)).
  { intros c Hc. apply take_z_all. destruct (c_sort c2); [|exact Hc].
    pose proof (reorder_length (tri1 tt) so). lia. }
  rewrite (T c1 M1), (T c2 M2).
  assert (P : forall l, dict_parts sp lb c1 l = dict_parts sp lb c2 l).
  { induction l as [|[[k x] xp] tl IH]; [reflexivity|]. cbn [dict_parts]. rewrite IH. unfold dict_part. now rewrite Hi. }
  rewrite P.
  rewrite (call_alt_d_ext c1 c2 _ false (fun _ => []) (fun _ => []) (fun _ => []) (fun _ => [])
             (fun _ => []) (fun _ => []) Hi (eq_trans B1 (eq_sym B2)) eq_refl eq_refl eq_refl).
  unfold build_fncall, bracket. now rewrite Hi.
Qed.

Lemma special_float_stable c1 c2 name sub :
  c_indent c1 = c_indent c2 -> c_strategy c1 = c_strategy c2 -> deep 1 c1 -> deep 1 c2 ->
  special_float_d sp lb c1 name sub = special_float_d sp lb c2 name sub.
Proof.
  intros Hi Hs H1 H2.
  destruct (deep_not0 _ _ (deep_mono 1 0 _ ltac:(lia) H1)) as [A1 B1].
  destruct (deep_not0 _ _ (deep_mono 1 0 _ ltac:(lia) H2)) as [A2 B2].
  destruct (deep_not0 _ _ (deep_nested 0 _ H1)) as [A1' _]. destruct (deep_not0 _ _ (deep_nested 0 _ H2)) as [A2' _].
  unfold special_float_d. rewrite A1, A2.
  apply call_alt_d_ext; auto; try congruence. f_equal.
  apply str_doc_ext; cbn; auto. unfold nested_hang, with_strategy, depth_is0 in *. cbn [c_depth nested_call] in *. congruence.
Qed.

Lemma frozen_d_ext c1 c2 len sub lst1 lst2 :
  c_indent c1 = c_indent c2 -> deep 0 c1 -> deep 0 c2 -> lst1 tt = lst2 tt ->
  frozen_d sp lb c1 len sub lst1 = frozen_d sp lb c2 len sub lst2.
Proof.
  intros Hi H1 H2 He. destruct (deep_not0 _ _ H1) as [A1 B1]. destruct (deep_not0 _ _ H2) as [A2 B2].
  unfold frozen_d, call_noargs. destruct len; apply call_alt_d_ext; auto; congruence.
Qed.

Lemma fits_list n l :
  (fix all (l : list pyval) : Prop := match l with [] => True | x :: tl => fits n x /\ all tl end) l ->
  forall x, In x l -> fits n x.
Proof. induction l as [|y tl IH]; intros H x Hx; [destruct Hx|]. destruct H, Hx; subst; auto. Qed.
Lemma fits_dict n kvs :
  (fix all (l : list (pyval * pyval)) : Prop :=
     match l with [] => True | (k, x) :: tl => fits n k /\ fits n x /\ all tl end) kvs ->
  forall k x, In (k, x) kvs -> fits n k /\ fits n x.
Proof. induction kvs as [|[k0 x0] tl IH]; intros H k x Hx; [destruct Hx|]. destruct H as (?&?&?), Hx as [E|Hx]; [inv E; auto|auto]. Qed.
Lemma fits_kw n (kw : list (str * pyval)) :
  (fix all (l : list (str * pyval)) : Prop := match l with [] => True | (_, x) :: tl => fits n x /\ all tl end) kw ->
  forall k x, In (k, x) kw -> fits n x.
Proof. induction kw as [|[k0 x0] tl IH]; intros H k x Hx; [destruct Hx|]. destruct H, Hx as [E|Hx]; [inv E; auto|eauto]. Qed.

Definition Stab (v : pyval) : Prop :=
  forall c1 c2 cm tr, same_static c1 c2 -> deep (hgt v) c1 -> deep (hgt v) c2 ->
    fits (c_maxlen c1) v -> fits (c_maxlen c2) v ->
    pretty_pv v c1 cm tr = pretty_pv v c2 cm tr.

Definition elems_ (c : pctx) (l : list pyval) : list doc :=
  match l with
  | [x] => [pretty_pv x (with_strategy (nested_call c) MPlain) None None]
  | _ => map (fun x => pretty_pv x (nested_hang c) None None) l
  end.

Lemma elems_stable c1 c2 l :
  same_static c1 c2 -> deep (S (lmax l)) c1 -> deep (S (lmax l)) c2 ->
  (forall x, In x l -> fits (c_maxlen c1) x /\ fits (c_maxlen c2) x /\ Stab x) ->
  elems_ c1 l = elems_ c2 l /\ length (elems_ c1 l) = length l.
Proof.
  intros Hs H1 H2 IH.
  assert (G : forall m, map (fun x => pretty_pv x (with_strategy (nested_call c1) m) None None) l
                      = map (fun x => pretty_pv x (with_strategy (nested_call c2) m) None None) l).
  { intros m. apply map_ext_in'. intros x Hx. destruct (IH x Hx) as (F1 & F2 & St).
    apply St; auto.
    - now apply static_strategy, static_nested.
    - apply deep_strategy, deep_nested. eapply deep_mono; [|exact H1]. apply lmax_in in Hx. lia.
    - apply deep_strategy, deep_nested. eapply deep_mono; [|exact H2]. apply lmax_in in Hx. lia. }
  unfold elems_. destruct l as [|x [|y tl]].
  - split; reflexivity.
  - split; [|reflexivity]. exact (G MPlain).
  - split; [exact (G MHang)|now rewrite map_length].
Qed.

Lemma seq_case_stable c1 c2 kind sub tr l :
  same_static c1 c2 -> deep (S (lmax l)) c1 -> deep (S (lmax l)) c2 ->
  Z.of_nat (length l) <= c_maxlen c1 -> Z.of_nat (length l) <= c_maxlen c2 ->
  (forall x, In x l -> fits (c_maxlen c1) x /\ fits (c_maxlen c2) x /\ Stab x) ->
  seq_d sp lb c1 kind (length l) sub tr (fun _ => elems_ c1 l)
  = seq_d sp lb c2 kind (length l) sub tr (fun _ => elems_ c2 l).
Proof.
  intros Hs H1 H2 M1 M2 IH. destruct (elems_stable c1 c2 l Hs H1 H2 IH) as [He Hl].
  assert (D1 : deep 0 c1) by (apply (deep_mono (S (lmax l))); [lia|exact H1]).
  assert (D2 : deep 0 c2) by (apply (deep_mono (S (lmax l))); [lia|exact H2]).
  apply seq_d_stable; auto. now destruct Hs.
Qed.

Ltac list_IH IHm Hm F1 F2 :=
  let x := fresh "x" in let Hx := fresh "Hx" in
  intros x Hx; split; [exact (fits_list _ _ (proj2 F1) x Hx)|];
  split; [exact (fits_list _ _ (proj2 F2) x Hx)|]; apply IHm; apply vsum_in in Hx; lia.

Definition triples_ (c : pctx) (kvs : list (pyval * pyval)) : list (doc * doc * (unit -> doc)) :=
  map (fun '(k, x) => (key_doc_ sp lb c k,
                       pretty_pv x (with_strategy (nested_call c) MIndented) None None,
                       fun _ : unit => pretty_pv x (with_strategy (nested_call c) MPlain) None None)) kvs.

Lemma key_stable c1 c2 k :
  same_static c1 c2 -> deep (S (hgt k)) c1 -> deep (S (hgt k)) c2 ->
  fits (c_maxlen c1) k -> fits (c_maxlen c2) k -> Stab k ->
  key_doc_ sp lb c1 k = key_doc_ sp lb c2 k.
Proof.
  intros Hs H1 H2 F1 F2 St.
  assert (G : pretty_pv k (nested_call c1) None None = pretty_pv k (nested_call c2) None None).
  { apply St; auto; now apply deep_nested. }
  destruct (deep_not0 _ _ (deep_mono _ 0 _ ltac:(lia) H1)) as [A1 _].
  destruct (deep_not0 _ _ (deep_mono _ 0 _ ltac:(lia) H2)) as [A2 _].
  destruct Hs as (Hi & Hst & Hso).
  assert (S : forall b s w, str_doc (with_strategy c1 MParens) b s w false = str_doc (with_strategy c2 MParens) b s w false).
  { intros. apply str_doc_ext; cbn; auto. unfold depth_is0 in *. cbn [c_depth with_strategy]. congruence. }
  destruct k; try exact G; try apply S. destruct k; try exact G; apply S.
Qed.

Lemma dict_case_stable c1 c2 sub tr so kvs :
  same_static c1 c2 -> deep (S (kvmax kvs)) c1 -> deep (S (kvmax kvs)) c2 ->
  Z.of_nat (length kvs) <= c_maxlen c1 -> Z.of_nat (length kvs) <= c_maxlen c2 ->
  (length so <= length kvs)%nat ->
  (forall k x, In (k, x) kvs -> (fits (c_maxlen c1) k /\ fits (c_maxlen c2) k /\ Stab k) /\
                                (fits (c_maxlen c1) x /\ fits (c_maxlen c2) x /\ Stab x)) ->
  dict_d sp lb c1 sub tr so (fun _ => triples_ c1 kvs) = dict_d sp lb c2 sub tr so (fun _ => triples_ c2 kvs).
Proof.
  intros Hs H1 H2 M1 M2 Hso IH.
  assert (E : triples_ c1 kvs = triples_ c2 kvs).
  { unfold triples_. apply map_ext_in'. intros [k x] Hx. destruct (IH k x Hx) as [(Fk1 & Fk2 & Sk) (Fx1 & Fx2 & Sx)].
    destruct (kvmax_in _ _ _ Hx) as [Lk Lx].
    assert (D1 : deep (S (hgt k)) c1) by (apply (deep_mono (S (kvmax kvs))); [lia|exact H1]).
    assert (D2 : deep (S (hgt k)) c2) by (apply (deep_mono (S (kvmax kvs))); [lia|exact H2]).
    rewrite (key_stable c1 c2 k Hs D1 D2 Fk1 Fk2 Sk).
    assert (G : forall m, pretty_pv x (with_strategy (nested_call c1) m) None None
                        = pretty_pv x (with_strategy (nested_call c2) m) None None).
    { intros m0. apply Sx; auto.
      - now apply static_strategy, static_nested.
      - apply deep_strategy, deep_nested. eapply deep_mono; [|exact H1]. lia.
      - apply deep_strategy, deep_nested. eapply deep_mono; [|exact H2]. lia. }
    now rewrite !G. }
  destruct Hs as (Hi & Hst & Hsort).
  assert (D1 : deep 0 c1) by (apply (deep_mono (S (kvmax kvs))); [lia|exact H1]).
  assert (D2 : deep 0 c2) by (apply (deep_mono (S (kvmax kvs))); [lia|exact H2]).
  apply dict_d_stable; auto; unfold triples_; rewrite ?map_length; auto.
Qed.

Lemma fin_eq (cm : option str) (d1 d2 : doc) : d1 = d2 ->
  match truthy cm with Some c => Annot (AComment c) d1 | None => d1 end
  = match truthy cm with Some c => Annot (AComment c) d2 | None => d2 end.
Proof. now intros ->. Qed.

Lemma stable_n : forall m v, (vsize v <= m)%nat -> Stab v.
Proof.
  induction m as [|m IHm]; intros v Hm.
  { destruct v; cbn in Hm; lia. }
  destruct v as [z|b| | |r| | | |s|s|l|l|l|l|kvs so|w v|v c|v c|f args kwargs|w s|r];
    intros c1 c2 cm tr Hs H1 H2 F1 F2; cbn [Printers.pretty_pv]; destruct Hs as (Hi & Hst & Hso);
    pose proof (deep_not0 _ _ (deep_mono _ 0 _ ltac:(lia) H1)) as [A1 B1];
    pose proof (deep_not0 _ _ (deep_mono _ 0 _ ltac:(lia) H2)) as [A2 B2].
  - apply fin_eq. apply num_d_ext; congruence.
  - reflexivity.
  - reflexivity.
  - reflexivity.
  - apply fin_eq. apply num_d_ext; congruence.
  - apply fin_eq. now apply special_float_stable.
  - apply fin_eq. now apply special_float_stable.
  - apply fin_eq. now apply special_float_stable.
  - apply fin_eq. apply str_doc_ext; congruence.
  - apply fin_eq. apply str_doc_ext; congruence.
  - rewrite vsize_list in Hm. cbn [hgt] in H1, H2. rewrite lmax_eq in H1, H2. cbn [fits] in F1, F2.
    apply fin_eq. apply (seq_case_stable c1 c2 0%nat None (truthy tr) l); auto; try tauto; try lia.
    + now repeat split.
    + list_IH IHm Hm F1 F2.
  - rewrite vsize_tuple in Hm. cbn [hgt] in H1, H2. rewrite lmax_eq in H1, H2. cbn [fits] in F1, F2.
    apply fin_eq. apply (seq_case_stable c1 c2 1%nat None (truthy tr) l); auto; try tauto; try lia.
    + now repeat split.
    + list_IH IHm Hm F1 F2.
  - rewrite vsize_set in Hm. cbn [hgt] in H1, H2. rewrite lmax_eq in H1, H2. cbn [fits] in F1, F2.
    apply fin_eq. apply (seq_case_stable c1 c2 2%nat None (truthy tr) l); auto; try tauto; try lia.
    + now repeat split.
    + list_IH IHm Hm F1 F2.
  - rewrite vsize_frozenset in Hm. cbn [hgt] in H1, H2. rewrite lmax_eq in H1, H2. cbn [fits] in F1, F2.
    apply fin_eq. apply frozen_d_ext; [exact Hi|eapply deep_mono; [|exact H1]; lia|eapply deep_mono; [|exact H2]; lia|].
    apply (seq_case_stable c1 c2 0%nat None None l); auto; try tauto; try lia.
    + now repeat split.
    + list_IH IHm Hm F1 F2.
  - (* dict *)
    rewrite vsize_dict in Hm. cbn [hgt] in H1, H2. rewrite kvmax_eq in H1, H2. cbn [fits] in F1, F2.
    destruct F1 as (M1 & L1 & F1), F2 as (M2 & L2 & F2).
    apply fin_eq. apply (dict_case_stable c1 c2 None (truthy tr) so kvs); auto; [now repeat split|].
    intros k x Hx. destruct (fits_dict _ _ F1 k x Hx), (fits_dict _ _ F2 k x Hx). apply kvsum_in in Hx.
    repeat split; auto; apply IHm; lia.
  - (* sub *)
    cbn [vsize hgt fits] in Hm, H1, H2, F1, F2. apply fin_eq.
    destruct v as [z|b| | |r| | | |s|s|l|l|l|l|kvs so|w' v'|v' c'|v' c'|f' args' kwargs'|w' s|r]; try reflexivity.
    + apply num_d_ext; congruence.
    + apply num_d_ext; congruence.
    + now apply special_float_stable.
    + now apply special_float_stable.
    + now apply special_float_stable.
    + apply str_doc_ext; congruence.
    + apply str_doc_ext; congruence.
    + rewrite vsize_list in Hm. cbn [hgt] in H1, H2. rewrite lmax_eq in H1, H2. cbn [fits] in F1, F2.
      apply (seq_case_stable c1 c2 0%nat (Some w) (truthy tr) l); auto; try tauto; try lia.
      * now repeat split.
      * list_IH IHm Hm F1 F2.
    + rewrite vsize_tuple in Hm. cbn [hgt] in H1, H2. rewrite lmax_eq in H1, H2. cbn [fits] in F1, F2.
      apply (seq_case_stable c1 c2 1%nat (Some w) (truthy tr) l); auto; try tauto; try lia.
      * now repeat split.
      * list_IH IHm Hm F1 F2.
    + rewrite vsize_set in Hm. cbn [hgt] in H1, H2. rewrite lmax_eq in H1, H2. cbn [fits] in F1, F2.
      apply (seq_case_stable c1 c2 2%nat (Some w) (truthy tr) l); auto; try tauto; try lia.
      * now repeat split.
      * list_IH IHm Hm F1 F2.
    + rewrite vsize_frozenset in Hm. cbn [hgt] in H1, H2. rewrite lmax_eq in H1, H2. cbn [fits] in F1, F2.
      apply frozen_d_ext; [exact Hi|eapply deep_mono; [|exact H1]; lia|eapply deep_mono; [|exact H2]; lia|].
      apply (seq_case_stable c1 c2 0%nat None None l); auto; try tauto; try lia.
      * now repeat split.
      * list_IH IHm Hm F1 F2.
    + rewrite vsize_dict in Hm. cbn [hgt] in H1, H2. rewrite kvmax_eq in H1, H2. cbn [fits] in F1, F2.
      destruct F1 as (M1 & L1 & F1), F2 as (M2 & L2 & F2).
      apply (dict_case_stable c1 c2 (Some w) (truthy tr) so kvs); auto; [now repeat split|].
      intros k x Hx. destruct (fits_dict _ _ F1 k x Hx), (fits_dict _ _ F2 k x Hx). apply kvsum_in in Hx.
      repeat split; auto; apply IHm; lia.
  - (* commented *) cbn [vsize hgt fits] in *. apply IHm; auto; [lia|now repeat split].
  - (* trailing *) cbn [vsize hgt fits] in *. apply IHm; auto; [lia|now repeat split].
  - (* call *)
    rewrite vsize_call in Hm. cbn [hgt] in H1, H2. rewrite lmax_eq, kwmax_eq in H1, H2. cbn [fits] in F1, F2.
    destruct F1 as [Fa1 Fk1], F2 as [Fa2 Fk2].
    assert (SA : forall a, In a args -> forall c1' c2', same_static c1' c2' -> c_maxlen c1' = c_maxlen c1 ->
                 c_maxlen c2' = c_maxlen c2 -> deep (lmax args) c1' -> deep (lmax args) c2' ->
                 pretty_pv a c1' None None = pretty_pv a c2' None None).
    { intros a Ha c1' c2' Hs' E1 E2 D1 D2. apply (IHm a); auto.
      - apply vsum_in in Ha. lia.
      - eapply deep_mono; [|exact D1]. now apply lmax_in.
      - eapply deep_mono; [|exact D2]. now apply lmax_in.
      - rewrite E1. exact (fits_list _ _ Fa1 a Ha).
      - rewrite E2. exact (fits_list _ _ Fa2 a Ha). }
    assert (Hstat : same_static c1 c2) by now repeat split.
    apply fin_eq. apply call_alt_d_ext; auto; try congruence.
    + apply map_ext_in'. intros a Ha. apply SA; auto; (eapply deep_mono; [|eassumption]; lia).
    + apply map_ext_in'. intros a Ha. apply SA; auto.
      * now apply static_strategy, static_nested.
      * apply deep_strategy, deep_nested. eapply deep_mono; [|exact H1]. lia.
      * apply deep_strategy, deep_nested. eapply deep_mono; [|exact H2]. lia.
    + apply map_ext_in'. intros [k x] Hx. f_equal. apply (IHm x).
      * apply kwsum_in in Hx. lia.
      * now apply static_strategy, static_nested.
      * apply deep_strategy, deep_nested. eapply deep_mono; [|exact H1]. apply kwmax_in in Hx. lia.
      * apply deep_strategy, deep_nested. eapply deep_mono; [|exact H2]. apply kwmax_in in Hx. lia.
      * exact (fits_kw _ _ Fk1 k x Hx).
      * exact (fits_kw _ _ Fk2 k x Hx).
  - (* path *)
    apply fin_eq. rewrite (str_doc_ext c1 c2 false s None true) by congruence. unfold build_fncall. now rewrite Hi.
  - reflexivity.
Qed.

Theorem pretty_pv_stable v c1 c2 cm tr :
  same_static c1 c2 -> deep (hgt v) c1 -> deep (hgt v) c2 ->
  fits (c_maxlen c1) v -> fits (c_maxlen c2) v ->
  pretty_pv v c1 cm tr = pretty_pv v c2 cm tr.
Proof. exact (stable_n (vsize v) v (le_n _) c1 c2 cm tr). Qed.


End Stable.

(** C02, end to end at the engine level: in EVERY layout of the document the
    string printer evaluates to - at any indentation, column, page width and
    ribbon - the text, line breaks and indentation removed, is exactly
    [Name(] [(] piece_1 piece_2 ... piece_n [)] [)]  with  piece_k = prefix q
    escape(l_k) q,  the l_k non-empty and concatenating to the value. *)
From Coq Require Import Lia.
From PP Require Import Doc PyStr PyLit Consts Printers Sem DocInd StrEscape StrSplit StrTotal StrPieces AnnotProofs.

Ltac inv H := inversion H; subst; clear H.

Definition stext (x : sdoc) : str := match x with SText s => s | _ => [] end.
Definition otext (o : list sdoc) : str := flat_map stext o.
Lemma otext_app a b : otext (a ++ b) = otext a ++ otext b.
Proof. unfold otext. apply flat_map_app. Qed.

(** the text of a document (the flat alternative of a choice) *)
Fixpoint dtext (d : doc) : str :=
  match d with
  | Text s => s
  | Cat l | Fill l => (fix go (l : list doc) : str := match l with [] => [] | x :: tl => dtext x ++ go tl end) l
  | Nest _ x | Group x | AlwaysBreak x | Annot _ x | Align x => dtext x
  | FlatChoice _ f | FCN _ f => dtext f
  | _ => []
  end.
Definition dtexts (l : list doc) : str := flat_map dtext l.
Lemma dtext_list l : (fix go (l : list doc) : str := match l with [] => [] | x :: tl => dtext x ++ go tl end) l = dtexts l.
Proof. induction l as [|x tl IH]; [reflexivity|]. unfold dtexts. cbn [flat_map]. now rewrite IH. Qed.

(** both alternatives of every choice carry the same text; no contextual document *)
Fixpoint agree (d : doc) : Prop :=
  match d with
  | Cat l | Fill l => (fix all (l : list doc) : Prop := match l with [] => True | x :: tl => agree x /\ all tl end) l
  | Nest _ x | Group x | AlwaysBreak x | Annot _ x | Align x => agree x
  | FlatChoice b f | FCN b f => dtext b = dtext f /\ agree b /\ agree f
  | CtxS _ => False
  | _ => True
  end.
Lemma agree_list l : (fix all (l : list doc) : Prop := match l with [] => True | x :: tl => agree x /\ all tl end) l <-> Forall agree l.
Proof.
  induction l as [|x tl IH]; split; intros H.
  - constructor.
  - exact I.
  - destruct H. constructor; tauto.
  - inv H. tauto.
Qed.
Lemma agree_unab d : agree d -> agree (unab d).
Proof. induction d; cbn [unab agree]; auto. Qed.
Lemma dtext_unab d : dtext (unab d) = dtext d.
Proof. induction d; cbn [unab dtext]; auto. Qed.

Section SL.
Variable evs : strp -> Z -> Z -> Z -> Z -> doc.
Variables w rw : Z.

Theorem lay_text :
  forall m i c d o c', Lay evs w rw m i c d o c' -> agree d -> otext o = dtext d.
Proof.
  apply (Lay_mut evs w rw
           (fun m i c d o c' _ => agree d -> otext o = dtext d)
           (fun m i c l o c' _ => Forall agree l -> otext o = dtexts l)
           (fun i c l o c' _ => Forall agree l -> otext o = dtexts l)); intros; cbn [agree dtext] in *;
    rewrite ?dtext_list in *; rewrite ?agree_list in *; auto.
  - unfold txt. destruct s; [reflexivity|]. cbn. now rewrite app_nil_r.
  - tauto.
  - destruct H0 as (E & Hb & Hf). rewrite <- E. auto.
  - tauto.
  - destruct H0 as (E & Hb & Hf). rewrite <- E. auto.
  - change (otext (SPush a :: o ++ [SPop a])) with (otext (o ++ [SPop a])).
    rewrite otext_app, H by exact H0. cbn. now rewrite app_nil_r.
  - contradiction.
  - inv H1. rewrite otext_app. unfold dtexts. cbn [flat_map]. f_equal; auto.
  - inv H1. rewrite otext_app. unfold dtexts. cbn [flat_map]. f_equal; auto.
    rewrite <- dtext_unab. apply H. now apply agree_unab.
Qed.

End SL.

(** ---- the pieces --------------------------------------------------------- *)
Lemma flush_concat cur : concat (map snd (flush_run cur)) = rev cur.
Proof. destruct cur; [reflexivity|]. cbn [flush_run map concat snd]. now rewrite app_nil_r. Qed.

Lemma skipn_len {A} n (l : list A) : (length (skipn n l) <= length l)%nat.
Proof. revert l. induction n as [|n IH]; intros l; [cbn; lia|]. destruct l; cbn [skipn length]; [lia|]. specialize (IH l). lia. Qed.

Lemma split_escapes_concat : forall fuel s cur, (length s < fuel)%nat ->
  concat (map snd (split_escapes_aux fuel s cur)) = rev cur ++ s.
Proof.
  induction fuel as [|f IH]; intros s cur Hf; [lia|]. cbn [split_escapes_aux].
  destruct s as [|c tl]; [rewrite flush_concat; now rewrite app_nil_r|]. cbn [length] in Hf.
  assert (Hstep : concat (map snd (split_escapes_aux f tl (c :: cur))) = rev cur ++ c :: tl).
  { rewrite IH by lia. cbn [rev]. now rewrite <- app_assoc. }
  destruct (c =? 92)%N; [|exact Hstep].
  destruct (esc_len tl) as [|n]; [exact Hstep|].
  rewrite map_app, concat_app, flush_concat. cbn [map concat snd].
  rewrite IH by (cbn [skipn]; pose proof (skipn_len n tl); lia).
  cbn [rev app]. now rewrite firstn_skipn.
Qed.

Section Pieces.
Variable printable : N -> bool.
Variable sp isw lb : N -> bool.

(** one literal: prefix, quote, escaped text, quote *)
Definition literal_text (bytes : bool) (q : N) (l : str) : str :=
  (if bytes then [98%N] else []) ++ [q] ++ escape_for_quote printable bytes q l ++ [q].

Lemma dtexts_toks (l : list (bool * str)) :
  dtexts (map (fun p : bool * str => tok (if fst p then T_STRING_ESCAPE else T_LITERAL_STRING) (snd p)) l)
  = concat (map snd l).
Proof. induction l as [|x tl IH]; [reflexivity|]. unfold dtexts in *. cbn [map flat_map concat]. now rewrite IH. Qed.

Lemma agree_toks (l : list (bool * str)) :
  Forall agree (map (fun p : bool * str => tok (if fst p then T_STRING_ESCAPE else T_LITERAL_STRING) (snd p)) l).
Proof. induction l; constructor; [exact I|assumption]. Qed.

Lemma single_text bytes q l : dtext (single_line_str printable bytes q l) = literal_text bytes q l.
Proof.
  unfold single_line_str, literal_text.
  match goal with |- context [Cat [Text [q]; ?m; Text [q]]] => set (X := m) end.
  assert (HX : dtext X = escape_for_quote printable bytes q l).
  { subst X. destruct (escape_for_quote printable bytes q l) as [|x xs] eqn:E; [reflexivity|].
    cbn [dtext]. rewrite dtext_list, dtexts_toks. unfold split_escapes.
    rewrite split_escapes_concat by lia. reflexivity. }
  clearbody X. cbn [dtext]. rewrite HX. rewrite !app_nil_r. destruct bytes; reflexivity.
Qed.

Lemma single_agree bytes q l : agree (single_line_str printable bytes q l).
Proof.
  unfold single_line_str. cbn [agree]. repeat split; try (destruct bytes; exact I).
  destruct (escape_for_quote printable bytes q l); [exact I|]. cbn [agree]. apply agree_list. apply agree_toks.
Qed.

End Pieces.

Section Final.
Variable printable : N -> bool.
Variable sp isw lb : N -> bool.

Notation lit := (literal_text printable).

Lemma wrap_text ctx f d : is_commented d = None ->
  dtext (build_fncall sp lb ctx f [d] [] false) = dtext f ++ [40%N] ++ dtext d ++ [41%N].
Proof.
  intros Hc. unfold build_fncall. cbn [map andb app fncall_parts]. rewrite Hc.
  assert (Hu : uncomment d = d) by (destruct d; try reflexivity; destruct a; try reflexivity; discriminate).
  rewrite Hu. cbn [dtext LPAREN RPAREN SOFTLINE tok]. rewrite !app_nil_r. now rewrite <- !app_assoc.
Qed.

Lemma wrap_agree ctx f d : is_commented d = None -> agree f -> agree d -> agree (build_fncall sp lb ctx f [d] [] false).
Proof.
  intros Hc Hf Hd. unfold build_fncall. cbn [map andb app fncall_parts]. rewrite Hc.
  assert (Hu : uncomment d = d) by (destruct d; try reflexivity; destruct a; try reflexivity; discriminate).
  rewrite Hu. cbn [agree LPAREN RPAREN SOFTLINE tok dtext]. tauto.
Qed.

Lemma parts_text bytes q lines :
  dtexts (intersperse HardLine (map (single_line_str printable bytes q) lines)) = concat (map (lit bytes q) lines).
Proof.
  induction lines as [|l tl IH]; [reflexivity|]. destruct tl as [|l2 tl2].
  - unfold dtexts. cbn [map intersperse flat_map concat]. now rewrite single_text.
  - change (intersperse HardLine (map (single_line_str printable bytes q) (l :: l2 :: tl2)))
      with (single_line_str printable bytes q l :: HardLine :: intersperse HardLine (map (single_line_str printable bytes q) (l2 :: tl2))).
    unfold dtexts in *. cbn [flat_map dtext map concat] in *. rewrite IH, single_text. reflexivity.
Qed.

Lemma parts_agree bytes q lines :
  Forall agree (intersperse HardLine (map (single_line_str printable bytes q) lines)).
Proof.
  induction lines as [|l tl IH]; [constructor|]. destruct tl as [|l2 tl2].
  - constructor; [apply single_agree|constructor].
  - change (intersperse HardLine (map (single_line_str printable bytes q) (l :: l2 :: tl2)))
      with (single_line_str printable bytes q l :: HardLine :: intersperse HardLine (map (single_line_str printable bytes q) (l2 :: tl2))).
    constructor; [apply single_agree|]. constructor; [exact I|exact IH].
Qed.

Definition wrapT (p : strp) (x : str) : str :=
  match sp_wrap p with None => x | Some (_, name) => name ++ [40%N] ++ x ++ [41%N] end.

(** what the string printer evaluates to, as text *)
Theorem eval_str_text p indent column page_width ribbon_width :
  let D := eval_str printable sp isw lb p indent column page_width ribbon_width in
  exists lines q,
    (q = SQ \/ q = DQ) /\
    concat lines = sp_s p /\
    lines <> [] /\
    (Forall (fun l => l <> []) lines \/ (lines = [[]] /\ sp_s p = [])) /\
    agree D /\
    let lits := concat (map (lit (sp_bytes p) q) lines) in
    (dtext D = wrapT p lits \/ dtext D = lits \/ dtext D = [40%N] ++ lits ++ [41%N]).
Proof.
  intros D. subst D. set (s := sp_s p).
  assert (One : exists lines, lines = [s] /\ concat lines = s /\ lines <> [] /\
                 (Forall (fun l => l <> []) lines \/ (lines = [[]] /\ s = []))).
  { exists [s]. cbn [concat]. rewrite app_nil_r. repeat split; [discriminate|].
    destruct s; [right; auto|left; constructor; [discriminate|constructor]]. }
  destruct One as (l1 & -> & Hc1 & Hn1 & Hf1).
  pose proof (quote_strategy_cases s) as Hq.
  assert (Flat : let d := (match sp_wrap p with
                           | None => single_line_str printable (sp_bytes p) (quote_strategy s) s
                           | Some (t, name) => build_fncall sp lb (mkCtx (sp_indent p) None MPlain 0 false) (tok t name)
                                                 [single_line_str printable (sp_bytes p) (quote_strategy s) s] [] false
                           end) in
                 agree d /\ dtext d = wrapT p (concat (map (lit (sp_bytes p) (quote_strategy s)) [s]))).
  { cbn [map concat]. rewrite app_nil_r. unfold wrapT. destruct (sp_wrap p) as [[t name]|].
    - split; [apply wrap_agree; [reflexivity|exact I|apply single_agree]|].
      rewrite wrap_text by reflexivity. now rewrite single_text.
    - split; [apply single_agree|apply single_text]. }
  unfold eval_str. fold s.
  destruct (slen s + str_quotes_len <=? _).
  { exists [s], (quote_strategy s). destruct Flat as [Fa Ft]. repeat split; auto. }
  match goal with
  | |- context [str_to_lines ?a ?b ?c ?f ?bb ?m ?qq ?ss ?pat] =>
      destruct (str_to_lines a b c f bb m qq ss pat) as [lines|] eqn:E
  end.
  2:{ exfalso; revert E; apply str_to_lines_total;
      pose proof (Z.le_max_r (Z.min page_width (indent + ribbon_width) - indent - 2) str_floor);
      unfold str_floor in *; lia. }
  apply str_to_lines_join in E as [Hcat Hne].
  destruct (Nat.leb (length lines) 1) eqn:El.
  { exists [s], (quote_strategy s). destruct Flat as [Fa Ft]. repeat split; auto. }
  apply Nat.leb_gt in El.
  exists lines, (quote_strategy s).
  pose proof (parts_text (sp_bytes p) (quote_strategy s) lines) as Ht.
  pose proof (parts_agree (sp_bytes p) (quote_strategy s) lines) as Ha.
  set (parts := intersperse HardLine (map (single_line_str printable (sp_bytes p) (quote_strategy s)) lines)) in *.
  repeat split; auto; try (destruct lines; cbn in El; [lia|discriminate]).
  - (* agree *)
    destruct (sp_wrap p) as [[t name]|].
    + apply wrap_agree; [reflexivity|exact I|]. cbn [agree]. now apply agree_list.
    + destruct (sp_strategy p); cbn [agree LPAREN RPAREN tok]; rewrite ?agree_list; repeat split; auto;
        try (constructor; [exact I|exact Ha]).
  - (* text *)
    unfold wrapT. destruct (sp_wrap p) as [[t name]|].
    + left. rewrite wrap_text by reflexivity. cbn [dtext tok]. now rewrite dtext_list, Ht.
    + destruct (sp_strategy p).
      * left. cbn [dtext]. now rewrite dtext_list, Ht.
      * right; left. cbn [dtext]. now rewrite dtext_list, Ht.
      * cbn [dtext LPAREN RPAREN tok]. rewrite !dtext_list. unfold dtexts. cbn [flat_map dtext].
        rewrite dtext_list. fold (dtexts parts). rewrite Ht, !app_nil_r.
        first [right; left; reflexivity | right; right; reflexivity].
      * cbn [dtext LPAREN RPAREN tok]. rewrite !dtext_list. unfold dtexts. cbn [flat_map dtext].
        rewrite dtext_list. fold (dtexts parts). rewrite Ht, !app_nil_r.
        first [right; left; reflexivity | right; right; reflexivity].
Qed.

(** ... and therefore in every layout of it *)
Corollary str_layout_text (evs : strp -> Z -> Z -> Z -> Z -> doc) w rw p indent column page_width ribbon_width :
  exists lines q,
    (q = SQ \/ q = DQ) /\ concat lines = sp_s p /\ lines <> [] /\
    (Forall (fun l => l <> []) lines \/ (lines = [[]] /\ sp_s p = [])) /\
    let lits := concat (map (lit (sp_bytes p) q) lines) in
    forall m i c o c',
      Lay evs w rw m i c (eval_str printable sp isw lb p indent column page_width ribbon_width) o c' ->
      otext o = wrapT p lits \/ otext o = lits \/ otext o = [40%N] ++ lits ++ [41%N].
Proof.
  destruct (eval_str_text p indent column page_width ribbon_width) as (lines & q & Hq & Hc & Hn & Hf & Ha & Ht).
  exists lines, q. repeat split; auto. intros lits m i c o c' HL.
  rewrite (lay_text evs w rw _ _ _ _ _ _ HL Ha). exact Ht.
Qed.

End Final.

(** C12: the document the printers build for ANY value - commented, truncated,
    subclassed - weighs at most 400 times the size of the value (nodes +
    characters of strings and comments).  With FuelAll/StrWeight: the layout
    of pformat's document ends within (400 |v| + 1)^2 iterations. *)
From Coq Require Import Lia.
From PP Require Import Doc PyStr PyVal Consts Printers Normalize Layout StrTotal FuelAll StrWeight PrettyToks3.

Ltac inv H := inversion H; subst; clear H.

Section LD.
Variable sp lb : N -> bool.

Notation W := (wt cb_str).
Notation Wl := (wtl cb_str).
Notation Wf := (wtf cb_str).

Lemma W_cat l : W (Cat l) = S (Wl l). Proof. apply wt_cat. Qed.
Lemma W_fill l : W (Fill l) = S (Wf l). Proof. apply wt_fill. Qed.
Lemma W_nest i x : W (Nest i x) = S (W x). Proof. reflexivity. Qed.
Lemma W_group x : W (Group x) = S (W x). Proof. reflexivity. Qed.
Lemma W_ab x : W (AlwaysBreak x) = S (W x). Proof. reflexivity. Qed.
Lemma W_annot a x : W (Annot a x) = S (S (W x)). Proof. reflexivity. Qed.
Lemma W_fc b f : W (FlatChoice b f) = S (Nat.max (W b) (W f)). Proof. reflexivity. Qed.
Lemma W_text s : W (Text s) = 1%nat. Proof. reflexivity. Qed.
Lemma W_nil : W Nil = 1%nat. Proof. reflexivity. Qed.
Lemma W_hard : W HardLine = 1%nat. Proof. reflexivity. Qed.
Lemma W_tok t s : W (tok t s) = 3%nat. Proof. reflexivity. Qed.
Lemma Wl_cons x l : Wl (x :: l) = (W x + Wl l)%nat. Proof. reflexivity. Qed.
Lemma Wl_nil : Wl [] = O. Proof. reflexivity. Qed.
Lemma Wf_cons x l : Wf (x :: l) = (S (W x) + Wf l)%nat. Proof. reflexivity. Qed.
Lemma Wl_app a b : Wl (a ++ b) = (Wl a + Wl b)%nat. Proof. apply wtl_app. Qed.

Ltac ww := repeat (progress (rewrite ?W_cat, ?W_fill, ?W_nest, ?W_group, ?W_ab, ?W_annot, ?W_fc, ?W_text, ?W_nil,
                             ?W_hard, ?W_tok, ?Wl_cons, ?Wl_nil, ?Wl_app));
          change (W COMMA) with 3%nat; change (W COLON) with 3%nat; change (W LPAREN) with 3%nat;
          change (W RPAREN) with 3%nat; change (W LBRACKET) with 3%nat; change (W RBRACKET) with 3%nat;
          change (W LBRACE) with 3%nat; change (W RBRACE) with 3%nat; change (W ELLIPSIS) with 3%nat;
          change (W ASSIGN_OP) with 3%nat; change (W TWO_SPACES) with 1%nat; change (W HASH_SPACE) with 1%nat;
          change (W LINE) with 2%nat; change (W SOFTLINE) with 2%nat.

(** ---- comments ---------------------------------------------------------- *)
Definition tot (l : list str) : nat := fold_right (fun x a => (S (length x) + a)%nat) O l.

Lemma nl_shape (c : N) (tl cur : str) : lb c = true ->
  exists rest, (length rest <= length tl)%nat /\
    splitlines_aux lb cur (c :: tl) = rev cur :: splitlines_aux lb [] rest.
Proof.
  intros Hl. cbn [splitlines_aux]. rewrite Hl.
  destruct (N.eq_dec c 13) as [->|Hc].
  - destruct tl as [|d tl']; [exists []; split; [cbn; lia|reflexivity]|].
    destruct (N.eq_dec d 10) as [->|Hd]; [exists tl'; split; [cbn; lia|reflexivity]|].
    exists (d :: tl'). split; [lia|]. destruct d as [|q]; [reflexivity|].
    do 4 (try (destruct q as [q|q|]; try reflexivity; try congruence)).
  - exists tl. split; [lia|]. destruct c as [|q]; [reflexivity|].
    do 4 (try (destruct q as [q|q|]; try reflexivity; try congruence)).
Qed.

Lemma splitlines_tot : forall n s cur, (length s <= n)%nat ->
  (tot (splitlines_aux lb cur s) <= length cur + length s + 1)%nat.
Proof.
  induction n as [|n IH]; intros s cur Hn.
  { destruct s; [|cbn in Hn; lia]. cbn. destruct cur; cbn; rewrite ?app_length, ?rev_length; cbn; lia. }
  destruct s as [|c tl]; [cbn; destruct cur; cbn; rewrite ?app_length, ?rev_length; cbn; lia|].
  cbn [length] in Hn. destruct (lb c) eqn:Hl.
  - destruct (nl_shape c tl cur Hl) as (rest & Hr & ->).
    cbn [tot fold_right]. fold (tot (splitlines_aux lb [] rest)).
    pose proof (IH rest [] ltac:(lia)). rewrite rev_length. cbn [length] in *. lia.
  - cbn [splitlines_aux]. rewrite Hl. pose proof (IH tl (c :: cur) ltac:(lia)). cbn [length] in *. lia.
Qed.

Lemma comment_items_wf : forall l b, (Wf (comment_items l b) <= 7 * length l)%nat.
Proof.
  induction l as [|p tl IH]; intros b; [cbn; lia|]. cbn [comment_items length]. rewrite Wf_cons.
  specialize (IH (negb b)). destruct b; ww; lia.
Qed.

Lemma filter_len {A} (f : A -> bool) l : (length (filter f l) <= length l)%nat.
Proof. induction l as [|x tl IH]; cbn; [lia|]. destruct (f x); cbn; lia. Qed.
Lemma removelast_len {A} (l : list A) : (length (removelast l) <= length l)%nat.
Proof. induction l as [|x tl IH]; cbn [removelast length]; [lia|]. destruct tl; cbn [length] in *; lia. Qed.
Lemma tl_len {A} (l : list A) : (length (tl l) <= length l)%nat.
Proof. destruct l; cbn; lia. Qed.

Lemma comment_line_wt line : (W (comment_line sp line) <= 19 + 7 * length line)%nat.
Proof.
  unfold comment_line.
  pose proof (re_split_len sp line) as Hr.
  pose proof (filter_len nonempty (re_split sp line)) as Hf.
  set (alt := filter nonempty (re_split sp line)) in *.
  set (starts := match alt with p :: _ => existsb sp (firstn 1 p) | [] => false end).
  set (alt1 := if starts then tl alt else alt).
  assert (H1 : (length alt1 <= length alt)%nat) by (subst alt1; destruct starts; [apply tl_len|lia]).
  set (alt2 := if Nat.even (length alt1) then removelast alt1 else alt1).
  assert (H2 : (length alt2 <= length alt1)%nat) by (subst alt2; destruct (Nat.even _); [apply removelast_len|lia]).
  pose proof (comment_items_wf alt2 false).
  assert (Hp : (W (if starts then match alt with p :: _ => Text p | [] => Nil end else Nil) <= 1)%nat).
  { destruct starts; [destruct alt|]; cbn; lia. }
  ww. lia.
Qed.

Lemma intersperse_wl x l : (Wl (intersperse x l) <= Wl l + W x * length l)%nat.
Proof.
  induction l as [|y tl IH]; [cbn; lia|]. destruct tl as [|z tl2]; [cbn; lia|].
  change (intersperse x (y :: z :: tl2)) with (y :: x :: intersperse x (z :: tl2)).
  rewrite !Wl_cons. rewrite Wl_cons in IH. cbn [length] in *. lia.
Qed.

Lemma comment_lines_wl l : (Wl (map (comment_line sp) l) + length l <= 20 * tot l)%nat.
Proof.
  induction l as [|x tl IH]; [cbn; lia|]. cbn [map length tot fold_right]. fold (tot tl). rewrite Wl_cons.
  pose proof (comment_line_wt x). lia.
Qed.

Lemma commentdoc_wt t : (W (commentdoc sp lb t) <= 24 + 20 * length t)%nat.
Proof.
  unfold commentdoc. pose proof (splitlines_tot (length t) t [] (le_n _)) as Ht. fold (splitlines lb t) in Ht.
  pose proof (comment_lines_wl (splitlines lb t)) as Hl.
  pose proof (intersperse_wl HardLine (map (comment_line sp) (splitlines lb t))) as Hi. rewrite map_length in Hi.
  cbn [length] in Ht. destruct (Nat.ltb _ _); ww; rewrite W_hard in Hi; lia.
Qed.

End LD.

(** C12: the document the printers build for ANY value - commented, truncated,
    subclassed - weighs at most 400 times the size of the value (nodes +
    characters of strings and comments).  With FuelAll/StrWeight: the layout
    of pformat's document ends within (400 |v| + 1)^2 iterations. *)
From Coq Require Import Lia.
From PP Require Import Doc PyStr PyVal Consts Printers Normalize Layout StrTotal FuelAll StrWeight PrettyToks3 ReorderSum.

Ltac inv H := inversion H; subst; clear H.

Section LD.
Variable sp lb : N -> bool.

Notation W := (wt cb_str).
Notation Wl := (wtl cb_str).
Notation Wf := (wtf cb_str).

Lemma W_cat l : W (Cat l) = S (Wl l). Proof. apply wt_cat. Qed.
Lemma W_fill l : W (Fill l) = S (Wf l). Proof. apply wt_fill. Qed.
Lemma W_nest i x : W (Nest i x) = S (W x). Proof. reflexivity. Qed.
Lemma W_group x : W (Group x) = S (W x). Proof. reflexivity. Qed.
Lemma W_ab x : W (AlwaysBreak x) = S (W x). Proof. reflexivity. Qed.
Lemma W_annot a x : W (Annot a x) = S (S (W x)). Proof. reflexivity. Qed.
Lemma W_fc b f : W (FlatChoice b f) = S (Nat.max (W b) (W f)). Proof. reflexivity. Qed.
Lemma W_text s : W (Text s) = 1%nat. Proof. reflexivity. Qed.
Lemma W_nil : W Nil = 1%nat. Proof. reflexivity. Qed.
Lemma W_hard : W HardLine = 1%nat. Proof. reflexivity. Qed.
Lemma W_tok t s : W (tok t s) = 3%nat. Proof. reflexivity. Qed.
Lemma Wl_cons x l : Wl (x :: l) = (W x + Wl l)%nat. Proof. reflexivity. Qed.
Lemma Wl_nil : Wl [] = O. Proof. reflexivity. Qed.
Lemma Wf_cons x l : Wf (x :: l) = (S (W x) + Wf l)%nat. Proof. reflexivity. Qed.
Lemma Wl_app a b : Wl (a ++ b) = (Wl a + Wl b)%nat. Proof. apply wtl_app. Qed.

Ltac ww := repeat (progress (rewrite ?W_cat, ?W_fill, ?W_nest, ?W_group, ?W_ab, ?W_annot, ?W_fc, ?W_text, ?W_nil,
                             ?W_hard, ?W_tok, ?Wl_cons, ?Wl_nil, ?Wl_app));
          change (W COMMA) with 3%nat; change (W COLON) with 3%nat; change (W LPAREN) with 3%nat;
          change (W RPAREN) with 3%nat; change (W LBRACKET) with 3%nat; change (W RBRACKET) with 3%nat;
          change (W LBRACE) with 3%nat; change (W RBRACE) with 3%nat; change (W ELLIPSIS) with 3%nat;
          change (W ASSIGN_OP) with 3%nat; change (W TWO_SPACES) with 1%nat; change (W HASH_SPACE) with 1%nat;
          change (W LINE) with 2%nat; change (W SOFTLINE) with 2%nat.

(** ---- comments ---------------------------------------------------------- *)
Definition tot (l : list str) : nat := fold_right (fun x a => (S (length x) + a)%nat) O l.

Lemma nl_shape (c : N) (tl cur : str) : lb c = true ->
  exists rest, (length rest <= length tl)%nat /\
    splitlines_aux lb cur (c :: tl) = rev cur :: splitlines_aux lb [] rest.
Proof.
  intros Hl. cbn [splitlines_aux]. rewrite Hl.
  destruct (N.eq_dec c 13) as [->|Hc].
  - destruct tl as [|d tl']; [exists []; split; [cbn; lia|reflexivity]|].
    destruct (N.eq_dec d 10) as [->|Hd]; [exists tl'; split; [cbn; lia|reflexivity]|].
    exists (d :: tl'). split; [lia|]. destruct d as [|q]; [reflexivity|].
    do 4 (try (destruct q as [q|q|]; try reflexivity; try congruence)).
  - exists tl. split; [lia|]. destruct c as [|q]; [reflexivity|].
    do 4 (try (destruct q as [q|q|]; try reflexivity; try congruence)).
Qed.

Lemma splitlines_tot : forall n s cur, (length s <= n)%nat ->
  (tot (splitlines_aux lb cur s) <= length cur + length s + 1)%nat.
Proof.
  induction n as [|n IH]; intros s cur Hn.
  { destruct s; [|cbn in Hn; lia]. cbn. destruct cur; cbn; rewrite ?app_length, ?rev_length; cbn; lia. }
  destruct s as [|c tl]; [cbn; destruct cur; cbn; rewrite ?app_length, ?rev_length; cbn; lia|].
  cbn [length] in Hn. destruct (lb c) eqn:Hl.
  - destruct (nl_shape c tl cur Hl) as (rest & Hr & ->).
    cbn [tot fold_right]. fold (tot (splitlines_aux lb [] rest)).
    pose proof (IH rest [] ltac:(lia)). rewrite rev_length. cbn [length] in *. lia.
  - cbn [splitlines_aux]. rewrite Hl. pose proof (IH tl (c :: cur) ltac:(lia)). cbn [length] in *. lia.
Qed.

Lemma comment_items_wf : forall l b, (Wf (comment_items l b) <= 7 * length l)%nat.
Proof.
  induction l as [|p tl IH]; intros b; [cbn; lia|]. cbn [comment_items length]. rewrite Wf_cons.
  specialize (IH (negb b)). destruct b; ww; lia.
Qed.

Lemma filter_len {A} (f : A -> bool) l : (length (filter f l) <= length l)%nat.
Proof. induction l as [|x tl IH]; cbn; [lia|]. destruct (f x); cbn; lia. Qed.
Lemma removelast_len {A} (l : list A) : (length (removelast l) <= length l)%nat.
Proof. induction l as [|x tl IH]; cbn [removelast length]; [lia|]. destruct tl; cbn [length] in *; lia. Qed.
Lemma tl_len {A} (l : list A) : (length (tl l) <= length l)%nat.
Proof. destruct l; cbn; lia. Qed.

Lemma comment_line_wt line : (W (comment_line sp line) <= 19 + 7 * length line)%nat.
Proof.
  unfold comment_line.
  pose proof (re_split_len sp line) as Hr.
  pose proof (filter_len nonempty (re_split sp line)) as Hf.
  set (alt := filter nonempty (re_split sp line)) in *.
  set (starts := match alt with p :: _ => existsb sp (firstn 1 p) | [] => false end).
  set (alt1 := if starts then tl alt else alt).
  assert (H1 : (length alt1 <= length alt)%nat) by (subst alt1; destruct starts; [apply tl_len|lia]).
  set (alt2 := if Nat.even (length alt1) then removelast alt1 else alt1).
  assert (H2 : (length alt2 <= length alt1)%nat) by (subst alt2; destruct (Nat.even _); [apply removelast_len|lia]).
  pose proof (comment_items_wf alt2 false).
  assert (Hp : (W (if starts then match alt with p :: _ => Text p | [] => Nil end else Nil) <= 1)%nat).
  { destruct starts; [destruct alt|]; cbn; lia. }
  ww. lia.
Qed.

Lemma intersperse_wl x l : (Wl (intersperse x l) <= Wl l + W x * length l)%nat.
Proof.
  induction l as [|y tl IH]; [cbn; lia|]. destruct tl as [|z tl2]; [cbn; lia|].
  change (intersperse x (y :: z :: tl2)) with (y :: x :: intersperse x (z :: tl2)).
  rewrite !Wl_cons. rewrite Wl_cons in IH. cbn [length] in *. lia.
Qed.

Lemma comment_lines_wl l : (Wl (map (comment_line sp) l) + length l <= 20 * tot l)%nat.
Proof.
  induction l as [|x tl IH]; [cbn; lia|]. cbn [map length tot fold_right]. fold (tot tl). rewrite Wl_cons.
  pose proof (comment_line_wt x). lia.
Qed.

Lemma commentdoc_wt t : (W (commentdoc sp lb t) <= 24 + 20 * length t)%nat.
Proof.
  unfold commentdoc. pose proof (splitlines_tot (length t) t [] (le_n _)) as Ht. fold (splitlines lb t) in Ht.
  pose proof (comment_lines_wl (splitlines lb t)) as Hl.
  pose proof (intersperse_wl HardLine (map (comment_line sp) (splitlines lb t))) as Hi. rewrite map_length in Hi.
  cbn [length] in Ht. destruct (Nat.ltb _ _); ww; rewrite W_hard in Hi; lia.
Qed.

(** ---- combinators -------------------------------------------------------- *)
Definition csz (d : doc) : nat := match is_commented d with Some c => length c | None => O end.
Definition cost (d : doc) : nat := (W d + 20 * csz d + 50)%nat.
Definition costl (l : list doc) : nat := fold_right (fun d a => (cost d + a)%nat) O l.
Lemma costl_cons d l : costl (d :: l) = (cost d + costl l)%nat. Proof. reflexivity. Qed.
Lemma costl_app a b : costl (a ++ b) = (costl a + costl b)%nat.
Proof. induction a as [|x tl IH]; [reflexivity|]. cbn [app]. rewrite !costl_cons, IH. lia. Qed.

Lemma uncomment_wt d : (W (uncomment d) <= W d)%nat.
Proof. destruct d; cbn [uncomment]; try lia. destruct a; cbn; lia. Qed.

Lemma commented_cost d c : is_commented d = Some c -> (W (commentdoc sp lb c) + W d + 26 <= cost d)%nat.
Proof. intros H. unfold cost, csz. rewrite H. pose proof (commentdoc_wt c). lia. Qed.

Lemma seq_parts_wl dangle : forall docs, (Wl (seq_parts sp lb docs dangle) <= costl docs)%nat.
Proof.
  induction docs as [|d tl IH]; [cbn; lia|]. cbn [seq_parts]. rewrite costl_cons.
  destruct (is_commented d) as [c|] eqn:Ec.
  - pose proof (commented_cost d c Ec). rewrite Wl_cons.
    assert (Hc : (W (if negb match tl with [] => true | _ => false end || dangle then COMMA else Nil) <= 3)%nat)
      by (destruct (_ || _); cbn; lia).
    assert (Hn : (W (if match tl with [] => true | _ => false end then Nil else HardLine) <= 1)%nat)
      by (destruct tl; cbn; lia).
    ww. lia.
  - unfold cost. destruct tl as [|y tl2]; [ww; lia|]. rewrite !Wl_cons. ww. lia.
Qed.

Lemma sequence_of_docs_wt ctx l docs r dangle fb :
  (W (sequence_of_docs sp lb ctx l docs r dangle fb) <= costl docs + W l + W r + 20)%nat.
Proof.
  unfold sequence_of_docs, bracket. pose proof (seq_parts_wl dangle docs).
  assert (Hd : (Wl (if dangle && negb (nonempty_docs docs &&
                  match is_commented (last docs Nil) with Some _ => true | None => false end)
                    then [COMMA] else []) <= 3)%nat) by (destruct (_ && _); cbn; lia).
  destruct (_ || _); ww; lia.
Qed.

Lemma fncall_parts_wl : forall docs hc, (Wl (fst (fncall_parts sp lb docs hc)) <= costl docs)%nat.
Proof.
  induction docs as [|d tl IH]; intros hc; [cbn; lia|]. cbn [fncall_parts]. rewrite costl_cons.
  specialize (IH (match is_commented d with Some _ => true | None => hc end)).
  destruct (fncall_parts sp lb tl _) as [rest hc'] eqn:E. cbn [fst] in *. rewrite Wl_cons.
  pose proof (uncomment_wt d) as Hu.
  assert (Hc : (W (if match tl with [] => true | _ => false end then Nil else COMMA) <= 3)%nat)
    by (destruct tl; cbn; lia).
  assert (Hl : forall b : bool, (W (if b then HardLine else LINE) <= 2)%nat) by (intros []; cbn; lia).
  destruct (is_commented d) as [c|] eqn:Ec.
  - pose proof (commented_cost d c Ec). destruct tl; ww; try specialize (Hl true); lia.
  - unfold cost. destruct tl; ww; try pose proof (Hl hc); lia.
Qed.

Lemma kwarg_doc_cost kv : (cost (kwarg_doc kv) <= cost (snd kv) + 10)%nat.
Proof.
  destruct kv as [b d]. cbn [snd]. unfold kwarg_doc, cost, csz.
  destruct d; try (cbn [is_commented]; ww; lia).
  destruct a; cbn [is_commented]; ww; lia.
Qed.

Lemma kwargs_costl kws : (costl (map kwarg_doc kws) <= costl (map snd kws) + 10 * length kws)%nat.
Proof.
  induction kws as [|kv tl IH]; [cbn; lia|]. cbn [map length]. rewrite !costl_cons.
  pose proof (kwarg_doc_cost kv). lia.
Qed.

Lemma build_fncall_wt ctx f args kws hug :
  (W (build_fncall sp lb ctx f args kws hug) <= W f + 20 + costl args + costl (map snd kws) + 10 * length kws)%nat.
Proof.
  unfold build_fncall. pose proof (kwargs_costl kws) as Hk.
  destruct args as [|a tl], (map kwarg_doc kws) as [|k ktl] eqn:Ek; try (ww; lia).
  - (* no args, some kwargs *)
    cbn [andb]. rewrite andb_false_r. cbn [app].
    pose proof (fncall_parts_wl (k :: ktl) false) as Hp.
    destruct (fncall_parts sp lb (k :: ktl) false) as [parts hc]. cbn [fst] in Hp.
    destruct hc; ww; cbn [costl fold_right] in *; lia.
  - (* args, no kwargs *)
    match goal with |- context [if ?b then _ else _] => destruct b eqn:Eh end.
    + cbn [hd]. rewrite costl_cons. unfold cost. ww. lia.
    + rewrite app_nil_r. pose proof (fncall_parts_wl (a :: tl) false) as Hp.
      destruct (fncall_parts sp lb (a :: tl) false) as [parts hc]. cbn [fst] in Hp.
      destruct hc; ww; lia.
  - rewrite andb_false_r. cbn [andb].
    pose proof (fncall_parts_wl ((a :: tl) ++ k :: ktl) false) as Hp. rewrite costl_app in Hp.
    destruct (fncall_parts sp lb ((a :: tl) ++ k :: ktl) false) as [parts hc]. cbn [fst] in Hp.
    destruct hc; ww; lia.
Qed.

Lemma call_alt_d_wt ctx f hug same nested kws :
  (W (call_alt_d sp lb ctx f hug same nested kws)
   <= 30 + Nat.max (costl (same tt)) (costl (nested tt) + costl (map snd (kws tt)) + 10 * length (kws tt)))%nat.
Proof.
  unfold call_alt_d, general_identifier. destruct (depth_le0 ctx); [ww; lia|].
  destruct hug.
  - pose proof (build_fncall_wt ctx (tok (cn_tok f) (cn_name f)) (same tt) [] true) as H. cbn [map length costl fold_right] in H.
    rewrite W_tok in H. lia.
  - pose proof (build_fncall_wt ctx (tok (cn_tok f) (cn_name f)) (nested tt) (kws tt) false) as H.
    rewrite W_tok in H. lia.
Qed.

(** ---- the truncation notice --------------------------------------------- *)
Lemma pos_digits_len : forall fuel n acc, (length (pos_digits fuel n acc) <= fuel + length acc)%nat.
Proof.
  induction fuel as [|f IH]; intros n acc; cbn [pos_digits]; [lia|].
  destruct (n <? 10)%N; [cbn [length]; lia|]. specialize (IH (n / 10)%N ((48 + n mod 10)%N :: acc)). cbn [length] in IH. lia.
Qed.

Lemma repr_int_len z : (length (repr_int z) <= 2 + N.to_nat (N.log2 (Z.abs_N z)))%nat.
Proof.
  unfold repr_int. pose proof (pos_digits_len (S (N.to_nat (N.log2 (Z.abs_N z)))) (Z.abs_N z) []) as H.
  cbn [length] in H. destruct (z <? 0); cbn [length]; lia.
Qed.

Lemma log2_le_self n : (N.to_nat (N.log2 n) <= N.to_nat n)%nat.
Proof. destruct n as [|p]; [cbn; lia|]. pose proof (N.log2_lt_lin (N.pos p) ltac:(lia)). lia. Qed.

Lemma trunc_comment_len (k : Z) (len : nat) : (0 <= k <= Z.of_nat len)%Z -> (length (trunc_comment k) <= 23 + len)%nat.
Proof.
  intros Hk. unfold trunc_comment. rewrite !app_length. cbn [length].
  pose proof (repr_int_len k). pose proof (log2_le_self (Z.abs_N k)). lia.
Qed.

Definition olen (o : option str) : nat := match o with Some t => length t | None => O end.

Lemma join_comments_len t tr : (length (join_comments t tr) <= length t + 2 + olen tr)%nat.
Proof. unfold join_comments. destruct tr as [[|x xs]|]; cbn [olen]; rewrite ?app_length; cbn [length]; lia. Qed.

Lemma tr'_len (ml : Z) (len : nat) tr : (0 <= ml)%Z ->
  (olen (if (ml <? Z.of_nat len)%Z then Some (join_comments (trunc_comment (Z.of_nat len - ml)%Z) tr) else tr)
   <= 25 + len + olen tr)%nat.
Proof.
  intros Hm. destruct (ml <? Z.of_nat len)%Z eqn:E; [|lia]. apply Z.ltb_lt in E. cbn [olen].
  pose proof (join_comments_len (trunc_comment (Z.of_nat len - ml)%Z) tr).
  pose proof (trunc_comment_len (Z.of_nat len - ml)%Z len ltac:(lia)). lia.
Qed.

Lemma costl_take {n} : forall l, (costl (take_z n l) <= costl l)%nat.
Proof.
  revert n. intros n l. revert n. induction l as [|x tl IH]; intros n; cbn [take_z]; [lia|].
  destruct (n <=? 0)%Z; [cbn; lia|]. rewrite !costl_cons. specialize (IH (n - 1)%Z). lia.
Qed.

Lemma cost_commentdoc t : (cost (commentdoc sp lb t) <= 74 + 20 * length t)%nat.
Proof. unfold cost, csz. pose proof (commentdoc_wt t). unfold commentdoc at 2. cbn [is_commented]. lia. Qed.

(** sequences: [n] elements shown out of [len] *)
Lemma seq_d_wt ctx kind len sub tr els : (0 <= c_maxlen ctx)%Z ->
  (W (seq_d sp lb ctx kind len sub tr els) <= costl (els tt) + 20 * len + 20 * olen tr + 700)%nat.
Proof.
  intros Hm. unfold seq_d.
  pose proof (tr'_len (c_maxlen ctx) len tr Hm) as Ht.
  set (tr' := if (c_maxlen ctx <? Z.of_nat len)%Z then _ else tr) in *.
  assert (Hb : forall k : nat, exists l r, (match k with 0%nat => (LBRACKET, RBRACKET) | 1%nat => (LPAREN, RPAREN) | _ => (LBRACE, RBRACE) end)
                 = (l, r) /\ W l = 3%nat /\ W r = 3%nat /\ is_commented (Cat [l; ELLIPSIS; r]) = None).
  { intros [|[|k]]; eexists; eexists; repeat split. }
  destruct (Hb kind) as (l & r & -> & Hl & Hr & _).
  destruct len as [|len'].
  - destruct (_ && _); [ww; lia|]. unfold call_noargs.
    pose proof (call_alt_d_wt ctx (match sub with Some c => c | None => cls_of match kind with 0%nat => n_list | 1%nat => n_tuple | _ => n_set end end)
                  false (fun _ => []) (fun _ => []) (fun _ => [])) as H. cbn [costl fold_right map length] in H. lia.
  - destruct (depth_is0 ctx).
    + destruct (Nat.ltb kind 2).
      * destruct (negb (is_some sub)); [ww; lia|].
        pose proof (build_fncall_wt ctx (general_identifier (match sub with Some c => c | None => cls_of match kind with 0%nat => n_list | 1%nat => n_tuple | _ => n_set end end))
                      [Cat [l; ELLIPSIS; r]] [] true) as H.
        cbn [map length costl fold_right] in H. unfold cost, csz in H. cbn [is_commented] in H. revert H. unfold general_identifier. ww. lia.
      * unfold call_ellipsis.
        pose proof (call_alt_d_wt ctx (match sub with Some c => c | None => cls_of match kind with 0%nat => n_list | 1%nat => n_tuple | _ => n_set end end)
                      false (fun _ => []) (fun _ => [ELLIPSIS]) (fun _ => [])) as H.
        cbn [costl fold_right map length] in H. unfold cost, csz in H. cbn [is_commented ELLIPSIS tok] in H. revert H. ww. lia.
    + set (els0 := match S len' with 1%nat => els tt | _ => take_z (c_maxlen ctx) (els tt) end).
      assert (H0 : (costl els0 <= costl (els tt))%nat) by (subst els0; destruct len'; [lia|apply costl_take]).
      assert (H1 : exists els1 dangle, (match tr' with Some t => (els0 ++ [commentdoc sp lb t], false)
                                                    | None => (els0, Nat.eqb kind 1 && Nat.eqb (S len') 1) end) = (els1, dangle)
                     /\ (costl els1 <= costl els0 + 74 + 20 * olen tr')%nat).
      { destruct tr' as [t|]; eexists; eexists; (split; [reflexivity|]).
        - rewrite costl_app, costl_cons. pose proof (cost_commentdoc t). cbn [olen costl fold_right]. lia.
        - lia. }
      destruct H1 as (els1 & dangle & -> & H1).
      pose proof (sequence_of_docs_wt ctx l els1 r dangle (is_some tr')) as Hs.
      destruct (negb (is_some sub)); [lia|].
      set (lit := sequence_of_docs sp lb ctx l els1 r dangle (is_some tr')) in *.
      pose proof (build_fncall_wt ctx (general_identifier (match sub with Some c => c | None => cls_of match kind with 0%nat => n_list | 1%nat => n_tuple | _ => n_set end end))
                    [lit] [] true) as H.
      cbn [map length costl fold_right] in H. unfold cost, csz in H.
      assert (Hlc : is_commented lit = None).
      { subst lit. unfold sequence_of_docs. destruct (_ || _); reflexivity. }
      rewrite Hlc in H. revert H. unfold general_identifier. ww. lia.
Qed.

(** ---- dicts -------------------------------------------------------------- *)
Definition tcost (t : doc * doc * (unit -> doc)) : nat :=
  (cost (fst (fst t)) + (20 * csz (snd (fst t)) + 50 + Nat.max (W (snd (fst t))) (W (snd t tt))) + 30)%nat.
Definition tcostl (l : list (doc * doc * (unit -> doc))) : nat := tsum tcost l.
Lemma tcostl_cons t l : tcostl (t :: l) = (tcost t + tcostl l)%nat. Proof. reflexivity. Qed.

Lemma dict_part_wt ctx last k0 v0 vp :
  (W (fst (dict_part sp lb ctx last k0 v0 vp)) <= tcost (k0, v0, vp))%nat.
Proof.
  unfold dict_part, tcost. cbn [fst snd].
  pose proof (uncomment_wt k0) as Hk. pose proof (uncomment_wt v0) as Hv.
  assert (Hc : (W (if last then Nil else COMMA) <= 3)%nat) by (destruct last; cbn; lia).
  assert (Hl : (W (if last then Nil else LINE) <= 2)%nat) by (destruct last; cbn; lia).
  assert (Hh : (W (if last then Nil else HardLine) <= 1)%nat) by (destruct last; cbn; lia).
  destruct (is_commented k0) as [kc|] eqn:Ek, (is_commented v0) as [vc|] eqn:Ev.
  - pose proof (commented_cost k0 kc Ek). pose proof (commented_cost v0 vc Ev). unfold cost in *. ww. lia.
  - pose proof (commented_cost k0 kc Ek). unfold cost in *. ww. lia.
  - pose proof (commented_cost v0 vc Ev). unfold cost in *. ww. lia.
  - unfold cost. ww. lia.
Qed.

Lemma dict_parts_wl ctx : forall l, (Wl (fst (dict_parts sp lb ctx l)) <= tcostl l)%nat.
Proof.
  induction l as [|[[k x] xp] tl IH]; [cbn; lia|]. cbn [dict_parts]. rewrite tcostl_cons.
  pose proof (dict_part_wt ctx (match tl with [] => true | _ => false end) k x xp) as Hp.
  destruct (dict_part sp lb ctx _ k x xp) as [part hc]. destruct (dict_parts sp lb ctx tl) as [rest hc'].
  cbn [fst] in *. rewrite Wl_cons. lia.
Qed.

Lemma tcostl_take n : forall l, (tcostl (take_z n l) <= tcostl l)%nat.
Proof.
  revert n. intros n l. revert n. induction l as [|x tl IH]; intros n; cbn [take_z]; [lia|].
  destruct (n <=? 0)%Z; [cbn; lia|]. rewrite !tcostl_cons. specialize (IH (n - 1)%Z). lia.
Qed.

Lemma dict_d_wt ctx sub tr so triples : (0 <= c_maxlen ctx)%Z -> NoDup so ->
  (W (dict_d sp lb ctx sub tr so triples) <= tcostl (triples tt) + 20 * length (triples tt) + 20 * olen tr + 700)%nat.
Proof.
  intros Hm Hnd. unfold dict_d.
  destruct (depth_is0 ctx).
  { destruct (negb (is_some sub)); [ww; lia|].
    pose proof (build_fncall_wt ctx (general_identifier (match sub with Some c => c | None => cls_of n_dict end))
                  [Cat [LBRACE; ELLIPSIS; RBRACE]] [] true) as H.
    cbn [map length costl fold_right] in H. unfold cost, csz in H. cbn [is_commented] in H. revert H.
    unfold general_identifier. ww. lia. }
  set (all := triples tt).
  pose proof (tr'_len (c_maxlen ctx) (length all) tr Hm) as Ht.
  set (tr' := if (c_maxlen ctx <? Z.of_nat (length all))%Z then _ else tr) in *.
  set (ordered := if c_sort ctx then reorder all so else all).
  assert (Ho : (tcostl ordered <= tcostl all)%nat).
  { subst ordered. destruct (c_sort ctx); [apply reorder_le; exact Hnd|lia]. }
  pose proof (tcostl_take (c_maxlen ctx) ordered) as Hs.
  set (shown := take_z (c_maxlen ctx) ordered) in *.
  pose proof (dict_parts_wl ctx shown) as Hp.
  destruct (dict_parts sp lb ctx shown) as [parts0 hc0]. cbn [fst] in Hp.
  set (parts := match tr' with Some t => parts0 ++ [Cat [HardLine; commentdoc sp lb t]] | None => parts0 end).
  assert (Hparts : (Wl parts <= Wl parts0 + 30 + 20 * olen tr')%nat).
  { subst parts. destruct tr' as [t|]; [|lia]. pose proof (commentdoc_wt t). cbn [olen]. ww. lia. }
  set (d := if _ || _ then AlwaysBreak (bracket ctx LBRACE (Cat parts) RBRACE) else Group (bracket ctx LBRACE (Cat parts) RBRACE)).
  assert (Hd : (W d <= Wl parts + 20)%nat /\ is_commented d = None).
  { subst d. unfold bracket. destruct (_ || _); split; try reflexivity; ww; lia. }
  destruct Hd as [Hd Hdc].
  destruct (negb (is_some sub)); [lia|].
  destruct parts as [|p0 ps] eqn:Ep.
  - unfold call_noargs.
    pose proof (call_alt_d_wt ctx (match sub with Some c => c | None => cls_of n_dict end)
                  false (fun _ => []) (fun _ => []) (fun _ => [])) as H. cbn [costl fold_right map length] in H. lia.
  - pose proof (build_fncall_wt ctx (general_identifier (match sub with Some c => c | None => cls_of n_dict end))
                  [d] [] true) as H.
    cbn [map length costl fold_right] in H. unfold cost, csz in H. rewrite Hdc in H. revert H.
    unfold general_identifier. ww. lia.
Qed.

(** ---- leaves ------------------------------------------------------------- *)
Lemma str_doc_wt ctx bytes s wrapc path : (W (str_doc ctx bytes s wrapc path) <= 101 + 80 * length s)%nat.
Proof.
  unfold str_doc. destruct (depth_is0 ctx); [unfold general_identifier; ww; lia|]. cbn [FuelAll.wt]. unfold cb_str. cbn [sp_s]. lia.
Qed.
Lemma str_doc_nc ctx bytes s wrapc path : is_commented (str_doc ctx bytes s wrapc path) = None.
Proof. unfold str_doc. destruct (depth_is0 ctx); reflexivity. Qed.

Lemma num_d_wt ctx t base lit sub : (W (num_d sp lb ctx t base lit sub) <= 140)%nat.
Proof.
  unfold num_d. destruct (depth_is0 ctx).
  - unfold call_ellipsis.
    pose proof (call_alt_d_wt ctx (match sub with Some c => c | None => cls_of base end)
                  false (fun _ => []) (fun _ => [ELLIPSIS]) (fun _ => [])) as H.
    cbn [costl fold_right map length] in H. unfold cost, csz in H. cbn [is_commented ELLIPSIS tok] in H. revert H. ww. lia.
  - destruct sub as [c|]; [|ww; lia].
    pose proof (build_fncall_wt ctx (general_identifier c) [tok t lit] [] false) as H.
    cbn [map length costl fold_right] in H. unfold cost, csz in H. cbn [is_commented tok] in H. revert H.
    unfold general_identifier. ww. lia.
Qed.

Lemma special_float_d_wt ctx name sub : (W (special_float_d sp lb ctx name sub) <= 300 + 80 * length name)%nat.
Proof.
  unfold special_float_d. destruct (depth_is0 ctx).
  - unfold call_ellipsis.
    pose proof (call_alt_d_wt ctx (match sub with Some c => c | None => cls_of n_float end)
                  false (fun _ => []) (fun _ => [ELLIPSIS]) (fun _ => [])) as H.
    cbn [costl fold_right map length] in H. unfold cost, csz in H. cbn [is_commented ELLIPSIS tok] in H. revert H. ww. lia.
  - pose proof (call_alt_d_wt ctx (match sub with Some c => c | None => cls_of n_float end) false (fun _ => [])
                  (fun _ => [str_doc (nested_hang ctx) false name None false]) (fun _ => [])) as H.
    cbn [costl fold_right map length] in H. unfold cost, csz in H. rewrite str_doc_nc in H.
    pose proof (str_doc_wt (nested_hang ctx) false name None false). lia.
Qed.

Lemma frozen_d_wt ctx len sub lst : is_commented (lst tt) = None ->
  (W (frozen_d sp lb ctx len sub lst) <= W (lst tt) + 100)%nat.
Proof.
  intros Hc. unfold frozen_d. destruct len.
  - unfold call_noargs.
    pose proof (call_alt_d_wt ctx (match sub with Some c => c | None => cls_of n_frozenset end)
                  false (fun _ => []) (fun _ => []) (fun _ => [])) as H. cbn [costl fold_right map length] in H. lia.
  - pose proof (call_alt_d_wt ctx (match sub with Some c => c | None => cls_of n_frozenset end)
                  true (fun _ => [lst tt]) (fun _ => []) (fun _ => [])) as H.
    cbn [costl fold_right map length] in H. unfold cost, csz in H. rewrite Hc in H. lia.
Qed.

(** ---- no comment on what the per-type printers return -------------------- *)
Lemma build_fncall_nc ctx f args kws hug : is_commented (build_fncall sp lb ctx f args kws hug) = None.
Proof.
  unfold build_fncall. destruct args, (map kwarg_doc kws); try reflexivity.
  all: match goal with |- context [if ?b then _ else _] => destruct b end; try reflexivity.
  all: match goal with |- context [fncall_parts sp lb ?l ?h] => destruct (fncall_parts sp lb l h) as [pp hc] end.
  all: destruct hc; reflexivity.
Qed.
Lemma call_alt_d_nc ctx f hug same nested kws : is_commented (call_alt_d sp lb ctx f hug same nested kws) = None.
Proof. unfold call_alt_d. destruct (depth_le0 ctx); [reflexivity|]. destruct hug; apply build_fncall_nc. Qed.
Lemma sequence_nc ctx l docs r dangle fb : is_commented (sequence_of_docs sp lb ctx l docs r dangle fb) = None.
Proof. unfold sequence_of_docs. destruct (_ || _); reflexivity. Qed.
Lemma seq_d_nc ctx kind len sub tr els : is_commented (seq_d sp lb ctx kind len sub tr els) = None.
Proof.
  unfold seq_d.
  destruct (match kind with 0%nat => (LBRACKET, RBRACKET) | 1%nat => (LPAREN, RPAREN) | _ => (LBRACE, RBRACE) end) as [l r].
  destruct len.
  - destruct (_ && _); [reflexivity|apply call_alt_d_nc].
  - destruct (depth_is0 ctx).
    + destruct (Nat.ltb kind 2); [destruct (negb _); [reflexivity|apply build_fncall_nc]|apply call_alt_d_nc].
    + match goal with |- context [let '(a, b) := ?p in _] => destruct p as [els1 dangle] end.
      destruct (negb _); [apply sequence_nc|apply build_fncall_nc].
Qed.
Lemma dict_d_nc ctx sub tr so triples : is_commented (dict_d sp lb ctx sub tr so triples) = None.
Proof.
  unfold dict_d. destruct (depth_is0 ctx); [destruct (negb _); [reflexivity|apply build_fncall_nc]|].
  destruct (dict_parts sp lb ctx _) as [parts0 hc0].
  destruct (negb _).
  - destruct (_ || _); reflexivity.
  - match goal with |- context [match ?x with [] => _ | _ :: _ => _ end] => destruct x end;
      [apply call_alt_d_nc|apply build_fncall_nc].
Qed.
Lemma num_d_nc ctx t base lit sub : is_commented (num_d sp lb ctx t base lit sub) = None.
Proof. unfold num_d. destruct (depth_is0 ctx); [apply call_alt_d_nc|]. destruct sub; [apply build_fncall_nc|reflexivity]. Qed.
Lemma special_float_d_nc ctx name sub : is_commented (special_float_d sp lb ctx name sub) = None.
Proof. unfold special_float_d. destruct (depth_is0 ctx); apply call_alt_d_nc. Qed.
Lemma frozen_d_nc ctx len sub lst : is_commented (frozen_d sp lb ctx len sub lst) = None.
Proof. unfold frozen_d. destruct len; apply call_alt_d_nc. Qed.

(** ---- sizes --------------------------------------------------------------- *)
Fixpoint vsz (v : pyval) : nat :=
  match v with
  | VList l | VTuple l | VSet l | VFrozenset l =>
      S ((fix sum (l : list pyval) : nat := match l with [] => O | x :: tl => (vsz x + sum tl)%nat end) l)
  | VDict kvs _ =>
      S ((fix sum (l : list (pyval * pyval)) : nat :=
            match l with [] => O | (k, x) :: tl => (vsz k + vsz x + sum tl)%nat end) kvs)
  | VSub _ b => S (vsz b)
  | VCommented x c | VTrailing x c => S (length c + vsz x)
  | VCall _ args kwargs =>
      S (((fix sum (l : list pyval) : nat := match l with [] => O | x :: tl => (vsz x + sum tl)%nat end) args +
         (fix sum (l : list (str * pyval)) : nat :=
            match l with [] => O | (_, x) :: tl => (vsz x + sum tl)%nat end) kwargs)%nat)
  | VStr s | VBytes s | VPath _ s => S (length s)
  | _ => 1%nat
  end.

Definition zsum (l : list pyval) : nat := fold_right (fun x a => (vsz x + a)%nat) O l.
Definition zkv (l : list (pyval * pyval)) : nat := fold_right (fun kv a => (vsz (fst kv) + vsz (snd kv) + a)%nat) O l.
Definition zkw (l : list (str * pyval)) : nat := fold_right (fun kv a => (vsz (snd kv) + a)%nat) O l.
Lemma zsum_eq l : (fix sum (l : list pyval) : nat := match l with [] => O | x :: tl => (vsz x + sum tl)%nat end) l = zsum l.
Proof. induction l as [|x tl IH]; cbn; auto. Qed.
Lemma zkv_eq l : (fix sum (l : list (pyval * pyval)) : nat :=
                    match l with [] => O | (k, x) :: tl => (vsz k + vsz x + sum tl)%nat end) l = zkv l.
Proof. induction l as [|[k x] tl IH]; [reflexivity|]. unfold zkv in *. cbn [fold_right fst snd]. now rewrite IH. Qed.
Lemma zkw_eq l : (fix sum (l : list (str * pyval)) : nat :=
                    match l with [] => O | (_, x) :: tl => (vsz x + sum tl)%nat end) l = zkw l.
Proof. induction l as [|[k x] tl IH]; [reflexivity|]. unfold zkw in *. cbn [fold_right fst snd]. now rewrite IH. Qed.

(** every dict's sorted-order list is duplicate free (it is a permutation of the indices) *)
Fixpoint sorted_ok (v : pyval) : Prop :=
  match v with
  | VList l | VTuple l | VSet l | VFrozenset l =>
      (fix all (l : list pyval) : Prop := match l with [] => True | x :: tl => sorted_ok x /\ all tl end) l
  | VDict kvs so =>
      NoDup so /\
      (fix all (l : list (pyval * pyval)) : Prop :=
         match l with [] => True | (k, x) :: tl => sorted_ok k /\ sorted_ok x /\ all tl end) kvs
  | VSub _ b => sorted_ok b
  | VCommented x _ | VTrailing x _ => sorted_ok x
  | VCall _ args kwargs =>
      (fix all (l : list pyval) : Prop := match l with [] => True | x :: tl => sorted_ok x /\ all tl end) args /\
      (fix all (l : list (str * pyval)) : Prop :=
         match l with [] => True | (_, x) :: tl => sorted_ok x /\ all tl end) kwargs
  | _ => True
  end.
Lemma ok_list l :
  (fix all (l : list pyval) : Prop := match l with [] => True | x :: tl => sorted_ok x /\ all tl end) l ->
  forall x, In x l -> sorted_ok x.
Proof. induction l as [|y tl IH]; intros H x Hx; [destruct Hx|]. destruct H, Hx as [<-|Hx]; auto. Qed.
Lemma ok_dict kvs :
  (fix all (l : list (pyval * pyval)) : Prop :=
     match l with [] => True | (k, x) :: tl => sorted_ok k /\ sorted_ok x /\ all tl end) kvs ->
  forall k x, In (k, x) kvs -> sorted_ok k /\ sorted_ok x.
Proof. induction kvs as [|[k0 x0] tl IH]; intros H k x Hx; [destruct Hx|]. destruct H as (A & B & C), Hx as [E|Hx]; [inv E; auto|eauto]. Qed.
Lemma ok_kw (kw : list (str * pyval)) :
  (fix all (l : list (str * pyval)) : Prop := match l with [] => True | (_, x) :: tl => sorted_ok x /\ all tl end) kw ->
  forall k x, In (k, x) kw -> sorted_ok x.
Proof. induction kw as [|[k0 x0] tl IH]; intros H k x Hx; [destruct Hx|]. destruct H, Hx as [E|Hx]; [inv E; auto|eauto]. Qed.

Notation pretty_pv := (Printers.pretty_pv sp lb).
Definition K : nat := 1000.

Fixpoint cspec (v : pyval) (cm : option str) : nat :=
  match v with
  | VCommented x c => cspec x (Some (joinc cm c))
  | VTrailing x _ => cspec x cm
  | _ => olen (truthy cm)
  end.

Lemma joinc_len o c : (length (joinc o c) <= olen o + 1 + length c)%nat.
Proof.
  unfold joinc. destruct o as [[|a t]|]; cbn [truthy olen]; try lia.
  destruct c; rewrite ?app_length; cbn [length]; lia.
Qed.

Lemma olen_truthy o : (olen (truthy o) <= olen o)%nat.
Proof. destruct o as [[|x xs]|]; cbn; lia. Qed.

Lemma csz_finish cm d : is_commented d = None ->
  csz (match truthy cm with Some c => Annot (AComment c) d | None => d end) = olen (truthy cm).
Proof. intros H. destruct (truthy cm); cbn [olen]; unfold csz; [reflexivity|now rewrite H]. Qed.
Lemma W_finish cm d : (W (match truthy cm with Some c => Annot (AComment c) d | None => d end) <= W d + 2)%nat.
Proof. destruct (truthy cm); ww; lia. Qed.

Lemma csz_pretty : forall v ctx cm tr, csz (pretty_pv v ctx cm tr) = cspec v cm.
Proof.
  induction v; intros ctx cm tr; cbn [Printers.pretty_pv cspec]; try solve [eauto]; apply csz_finish;
    try reflexivity;
    try apply num_d_nc; try apply special_float_d_nc; try apply str_doc_nc; try apply seq_d_nc;
    try apply frozen_d_nc; try apply dict_d_nc; try apply call_alt_d_nc; try apply build_fncall_nc.
  destruct v; try reflexivity;
    try apply num_d_nc; try apply special_float_d_nc; try apply str_doc_nc; try apply seq_d_nc;
    try apply frozen_d_nc; try apply dict_d_nc.
Qed.

Definition LinV (v : pyval) : Prop :=
  sorted_ok v -> forall ctx cm tr, (0 <= c_maxlen ctx)%Z ->
    (W (pretty_pv v ctx cm tr) + 20 * cspec v cm + 100 <= K * (vsz v + olen cm + olen tr))%nat.

Lemma lin_cost x ctx : LinV x -> sorted_ok x -> (0 <= c_maxlen ctx)%Z ->
  (cost (pretty_pv x ctx None None) + 50 <= K * vsz x)%nat.
Proof.
  intros HL Hok Hm. specialize (HL Hok ctx None None Hm). unfold cost. rewrite csz_pretty. cbn [olen] in HL. lia.
Qed.

Lemma lin_map (l : list pyval) ctx : (forall x, In x l -> LinV x /\ sorted_ok x) -> (0 <= c_maxlen ctx)%Z ->
  (costl (map (fun x => pretty_pv x ctx None None) l) + 50 * length l <= K * zsum l)%nat.
Proof.
  intros H Hm. induction l as [|x tl IH]; [cbn; lia|]. cbn [map length]. rewrite costl_cons.
  unfold zsum. cbn [fold_right]. fold (zsum tl).
  destruct (H x (or_introl eq_refl)) as [HL Hok]. pose proof (lin_cost x ctx HL Hok Hm).
  specialize (IH (fun y Hy => H y (or_intror Hy))). lia.
Qed.

Lemma lin_elems (l : list pyval) ctx : (forall x, In x l -> LinV x /\ sorted_ok x) -> (0 <= c_maxlen ctx)%Z ->
  (costl (match l with
          | [x] => [pretty_pv x (with_strategy (nested_call ctx) MPlain) None None]
          | _ => map (fun x => pretty_pv x (nested_hang ctx) None None) l
          end) + 50 * length l <= K * zsum l)%nat.
Proof.
  intros H Hm.
  assert (G : forall c', (0 <= c_maxlen c')%Z ->
            (costl (map (fun x => pretty_pv x c' None None) l) + 50 * length l <= K * zsum l)%nat)
    by (intros; now apply lin_map).
  destruct l as [|x [|y tl]]; apply G; exact Hm.
Qed.

Lemma lin_key ctx k : LinV k -> sorted_ok k -> (0 <= c_maxlen ctx)%Z ->
  (cost (key_doc_ sp lb ctx k) + 50 <= K * vsz k)%nat.
Proof.
  intros HL Hok Hm.
  assert (G : (cost (pretty_pv k (nested_call ctx) None None) + 50 <= K * vsz k)%nat) by (now apply lin_cost).
  assert (S : forall b s w, (cost (str_doc (with_strategy ctx MParens) b s w false) + 50 <= K * (1 + length s))%nat).
  { intros. unfold cost, csz. rewrite str_doc_nc. pose proof (str_doc_wt (with_strategy ctx MParens) b s w false).
    unfold K. lia. }
  destruct k; try exact G; try apply S. destruct k; try exact G; cbn [vsz key_doc_].
  - pose proof (S false s (Some c)). unfold K in *. lia.
  - pose proof (S true s (Some c)). unfold K in *. lia.
Qed.

Lemma lin_triples ctx kvs :
  (forall k x, In (k, x) kvs -> (LinV k /\ sorted_ok k) /\ (LinV x /\ sorted_ok x)) -> (0 <= c_maxlen ctx)%Z ->
  (tcostl (map (fun '(k, x) => (key_doc_ sp lb ctx k,
                          pretty_pv x (with_strategy (nested_call ctx) MIndented) None None,
                          fun _ : unit => pretty_pv x (with_strategy (nested_call ctx) MPlain) None None)) kvs)
   + 70 * length kvs <= K * zkv kvs)%nat.
Proof.
  intros H Hm. induction kvs as [|[k x] tl IH]; [cbn; lia|]. cbn [map length]. rewrite tcostl_cons.
  unfold zkv. cbn [fold_right fst snd]. fold (zkv tl).
  destruct (H k x (or_introl eq_refl)) as [[HLk Hok] [HLx Hox]].
  pose proof (lin_key ctx k HLk Hok Hm) as Hk.
  pose proof (HLx Hox (with_strategy (nested_call ctx) MIndented) None None Hm) as H1.
  pose proof (HLx Hox (with_strategy (nested_call ctx) MPlain) None None Hm) as H2.
  unfold tcost. cbn [fst snd]. rewrite csz_pretty. cbn [olen] in *.
  specialize (IH (fun k' x' Hin => H k' x' (or_intror Hin))). lia.
Qed.

Lemma zlist l : vsz (VList l) = S (zsum l). Proof. cbn [vsz]. now rewrite zsum_eq. Qed.
Lemma ztuple l : vsz (VTuple l) = S (zsum l). Proof. cbn [vsz]. now rewrite zsum_eq. Qed.
Lemma zset l : vsz (VSet l) = S (zsum l). Proof. cbn [vsz]. now rewrite zsum_eq. Qed.
Lemma zfrozen l : vsz (VFrozenset l) = S (zsum l). Proof. cbn [vsz]. now rewrite zsum_eq. Qed.
Lemma zdict kvs so : vsz (VDict kvs so) = S (zkv kvs). Proof. cbn [vsz]. now rewrite zkv_eq. Qed.
Lemma zcall f a kw : vsz (VCall f a kw) = S (zsum a + zkw kw). Proof. cbn [vsz]. now rewrite zsum_eq, zkw_eq. Qed.

Ltac leaf := unfold K; cbn [vsz]; lia.

Lemma lin_seq ctx kind l sub tr cm :
  (forall x, In x l -> LinV x /\ sorted_ok x) -> (0 <= c_maxlen ctx)%Z ->
  (W (match truthy cm with
      | Some c => Annot (AComment c) (seq_d sp lb ctx kind (length l) sub (truthy tr)
                    (fun _ => match l with
                              | [x] => [pretty_pv x (with_strategy (nested_call ctx) MPlain) None None]
                              | _ => map (fun x => pretty_pv x (nested_hang ctx) None None) l
                              end))
      | None => seq_d sp lb ctx kind (length l) sub (truthy tr)
                    (fun _ => match l with
                              | [x] => [pretty_pv x (with_strategy (nested_call ctx) MPlain) None None]
                              | _ => map (fun x => pretty_pv x (nested_hang ctx) None None) l
                              end)
      end) + 20 * olen (truthy cm) + 100 <= K * (S (zsum l) + olen cm + olen tr))%nat.
Proof.
  intros H Hm.
  pose proof (W_finish cm (seq_d sp lb ctx kind (length l) sub (truthy tr)
                    (fun _ => match l with
                              | [x] => [pretty_pv x (with_strategy (nested_call ctx) MPlain) None None]
                              | _ => map (fun x => pretty_pv x (nested_hang ctx) None None) l
                              end))) as Hf.
  pose proof (seq_d_wt ctx kind (length l) sub (truthy tr)
                    (fun _ => match l with
                              | [x] => [pretty_pv x (with_strategy (nested_call ctx) MPlain) None None]
                              | _ => map (fun x => pretty_pv x (nested_hang ctx) None None) l
                              end) Hm) as Hs.
  cbv beta in Hs. pose proof (lin_elems l ctx H Hm) as He.
  pose proof (olen_truthy cm). pose proof (olen_truthy tr). unfold K in *. lia.
Qed.

Lemma lin_kws (kwargs : list (str * pyval)) ctx :
  (forall k x, In (k, x) kwargs -> LinV x /\ sorted_ok x) -> (0 <= c_maxlen ctx)%Z ->
  (costl (map snd (map (fun kv : str * pyval => let '(k, x) := kv in (k, pretty_pv x ctx None None)) kwargs))
   + 50 * length kwargs <= K * zkw kwargs)%nat.
Proof.
  intros H Hm. induction kwargs as [|[k x] tl IH]; [cbn; lia|]. cbn [map length snd]. rewrite costl_cons.
  unfold zkw. cbn [fold_right snd]. fold (zkw tl).
  destruct (H k x (or_introl eq_refl)) as [HL Hok]. pose proof (lin_cost x ctx HL Hok Hm).
  specialize (IH (fun k' x' Hin => H k' x' (or_intror Hin))). lia.
Qed.

Lemma lin_n : forall n v, (vsize v <= n)%nat -> LinV v.
Proof.
  induction n as [|n IHn]; intros v Hn.
  { destruct v; cbn in Hn; lia. }
  destruct v as [z|b| | |r| | | |s|s|l|l|l|l|kvs so|w v|v c|v c|f args kwargs|w s|r];
    intros Hok ctx cm tr Hm; cbn [Printers.pretty_pv cspec].
  - pose proof (W_finish cm (num_d sp lb ctx T_NUMBER_INT n_int (repr_int z) None)).
    pose proof (num_d_wt ctx T_NUMBER_INT n_int (repr_int z) None). pose proof (olen_truthy cm). leaf.
  - pose proof (W_finish cm (tok T_KEYWORD_CONSTANT (if b then s_True else s_False))) as Hf. rewrite W_tok in Hf.
    pose proof (olen_truthy cm). leaf.
  - pose proof (W_finish cm (tok T_KEYWORD_CONSTANT s_None)) as Hf. rewrite W_tok in Hf. pose proof (olen_truthy cm). leaf.
  - pose proof (W_finish cm ELLIPSIS) as Hf. change (W ELLIPSIS) with 3%nat in Hf. pose proof (olen_truthy cm). leaf.
  - pose proof (W_finish cm (num_d sp lb ctx T_NUMBER_FLOAT n_float r None)).
    pose proof (num_d_wt ctx T_NUMBER_FLOAT n_float r None). pose proof (olen_truthy cm). leaf.
  - pose proof (W_finish cm (special_float_d sp lb ctx s_inf None)).
    pose proof (special_float_d_wt ctx s_inf None) as Hs. cbn [length s_inf] in Hs. pose proof (olen_truthy cm). leaf.
  - pose proof (W_finish cm (special_float_d sp lb ctx s_neginf None)).
    pose proof (special_float_d_wt ctx s_neginf None) as Hs. cbn [length s_neginf] in Hs. pose proof (olen_truthy cm). leaf.
  - pose proof (W_finish cm (special_float_d sp lb ctx s_nan None)).
    pose proof (special_float_d_wt ctx s_nan None) as Hs. cbn [length s_nan] in Hs. pose proof (olen_truthy cm). leaf.
  - pose proof (W_finish cm (str_doc ctx false s None false)). pose proof (str_doc_wt ctx false s None false).
    pose proof (olen_truthy cm). leaf.
  - pose proof (W_finish cm (str_doc ctx true s None false)). pose proof (str_doc_wt ctx true s None false).
    pose proof (olen_truthy cm). leaf.
  - rewrite vsize_list in Hn. rewrite zlist. apply lin_seq; [|exact Hm].
    intros x Hx. split; [apply IHn; apply vsum_in in Hx; lia|exact (ok_list l Hok x Hx)].
  - rewrite vsize_tuple in Hn. rewrite ztuple. apply lin_seq; [|exact Hm].
    intros x Hx. split; [apply IHn; apply vsum_in in Hx; lia|exact (ok_list l Hok x Hx)].
  - rewrite vsize_set in Hn. rewrite zset. apply lin_seq; [|exact Hm].
    intros x Hx. split; [apply IHn; apply vsum_in in Hx; lia|exact (ok_list l Hok x Hx)].
  - (* frozenset *)
    rewrite vsize_frozenset in Hn. rewrite zfrozen.
    assert (HA : forall x, In x l -> LinV x /\ sorted_ok x).
    { intros x Hx. split; [apply IHn; apply vsum_in in Hx; lia|exact (ok_list l Hok x Hx)]. }
    set (lst := fun _ : unit => seq_d sp lb ctx 0 (length l) None None
                   (fun _ => match l with
                             | [x] => [pretty_pv x (with_strategy (nested_call ctx) MPlain) None None]
                             | _ => map (fun x => pretty_pv x (nested_hang ctx) None None) l
                             end)).
    pose proof (W_finish cm (frozen_d sp lb ctx (length l) None lst)) as Hf.
    pose proof (frozen_d_wt ctx (length l) None lst (seq_d_nc _ _ _ _ _ _)) as Hz.
    pose proof (seq_d_wt ctx 0 (length l) None None
                   (fun _ => match l with
                             | [x] => [pretty_pv x (with_strategy (nested_call ctx) MPlain) None None]
                             | _ => map (fun x => pretty_pv x (nested_hang ctx) None None) l
                             end) Hm) as Hs.
    cbv beta in Hs. subst lst. cbv beta in Hz. pose proof (lin_elems l ctx HA Hm) as He.
    pose proof (olen_truthy cm). cbn [olen] in Hs. unfold K in *. lia.
  - (* dict *)
    rewrite vsize_dict in Hn. rewrite zdict. destruct Hok as [Hnd Hok].
    assert (HA : forall k x, In (k, x) kvs -> (LinV k /\ sorted_ok k) /\ (LinV x /\ sorted_ok x)).
    { intros k x Hin. destruct (ok_dict kvs Hok k x Hin) as [Hk Hx]. apply kvsum_in in Hin.
      repeat split; auto; apply IHn; lia. }
    match goal with |- context [dict_d sp lb ctx None ?t so ?tri] =>
      pose proof (W_finish cm (dict_d sp lb ctx None t so tri)) as Hf;
      pose proof (dict_d_wt ctx None t so tri Hm Hnd) as Hd end.
    cbv beta in Hd.
    match type of Hd with context [tcostl ?m] =>
      change m with (map (fun '(k, x) => (key_doc_ sp lb ctx k,
                          pretty_pv x (with_strategy (nested_call ctx) MIndented) None None,
                          fun _ : unit => pretty_pv x (with_strategy (nested_call ctx) MPlain) None None)) kvs) in * end.
    pose proof (lin_triples ctx kvs HA Hm) as Ht. rewrite map_length in Hd.
    pose proof (olen_truthy cm). pose proof (olen_truthy tr). unfold K in *. lia.
  - (* sub *)
    cbn [sorted_ok vsize] in Hok, Hn. cbn [vsz]. fold (vsz v).
    destruct v as [z|b| | |r| | | |s|s|l|l|l|l|kvs so|w' v'|v' c'|v' c'|f' args' kwargs'|w' s|r].
    all: try (pose proof (W_finish cm Nil) as Hf; rewrite W_nil in Hf; pose proof (olen_truthy cm); leaf).
    + pose proof (W_finish cm (num_d sp lb ctx T_NUMBER_INT n_int (repr_int z) (Some w))).
      pose proof (num_d_wt ctx T_NUMBER_INT n_int (repr_int z) (Some w)). pose proof (olen_truthy cm). leaf.
    + pose proof (W_finish cm (num_d sp lb ctx T_NUMBER_FLOAT n_float r (Some w))).
      pose proof (num_d_wt ctx T_NUMBER_FLOAT n_float r (Some w)). pose proof (olen_truthy cm). leaf.
    + pose proof (W_finish cm (special_float_d sp lb ctx s_inf (Some w))).
      pose proof (special_float_d_wt ctx s_inf (Some w)) as Hs. cbn [length s_inf] in Hs. pose proof (olen_truthy cm). leaf.
    + pose proof (W_finish cm (special_float_d sp lb ctx s_neginf (Some w))).
      pose proof (special_float_d_wt ctx s_neginf (Some w)) as Hs. cbn [length s_neginf] in Hs. pose proof (olen_truthy cm). leaf.
    + pose proof (W_finish cm (special_float_d sp lb ctx s_nan (Some w))).
      pose proof (special_float_d_wt ctx s_nan (Some w)) as Hs. cbn [length s_nan] in Hs. pose proof (olen_truthy cm). leaf.
    + pose proof (W_finish cm (str_doc ctx false s (Some w) false)). pose proof (str_doc_wt ctx false s (Some w) false).
      pose proof (olen_truthy cm). leaf.
    + pose proof (W_finish cm (str_doc ctx true s (Some w) false)). pose proof (str_doc_wt ctx true s (Some w) false).
      pose proof (olen_truthy cm). leaf.
    + rewrite vsize_list in Hn. rewrite zlist.
      pose proof (lin_seq ctx 0 l (Some w) tr cm) as H. cbv beta in H.
      assert (HA : forall x, In x l -> LinV x /\ sorted_ok x).
      { intros x Hx. split; [apply IHn; apply vsum_in in Hx; lia|exact (ok_list l Hok x Hx)]. }
      specialize (H HA Hm). unfold K in *. lia.
    + rewrite vsize_tuple in Hn. rewrite ztuple.
      pose proof (lin_seq ctx 1 l (Some w) tr cm) as H. cbv beta in H.
      assert (HA : forall x, In x l -> LinV x /\ sorted_ok x).
      { intros x Hx. split; [apply IHn; apply vsum_in in Hx; lia|exact (ok_list l Hok x Hx)]. }
      specialize (H HA Hm). unfold K in *. lia.
    + rewrite vsize_set in Hn. rewrite zset.
      pose proof (lin_seq ctx 2 l (Some w) tr cm) as H. cbv beta in H.
      assert (HA : forall x, In x l -> LinV x /\ sorted_ok x).
      { intros x Hx. split; [apply IHn; apply vsum_in in Hx; lia|exact (ok_list l Hok x Hx)]. }
      specialize (H HA Hm). unfold K in *. lia.
    + rewrite vsize_frozenset in Hn. rewrite zfrozen.
      assert (HA : forall x, In x l -> LinV x /\ sorted_ok x).
      { intros x Hx. split; [apply IHn; apply vsum_in in Hx; lia|exact (ok_list l Hok x Hx)]. }
      set (lst := fun _ : unit => seq_d sp lb ctx 0 (length l) None None
                   (fun _ => match l with
                             | [x] => [pretty_pv x (with_strategy (nested_call ctx) MPlain) None None]
                             | _ => map (fun x => pretty_pv x (nested_hang ctx) None None) l
                             end)).
      pose proof (W_finish cm (frozen_d sp lb ctx (length l) (Some w) lst)) as Hf.
      pose proof (frozen_d_wt ctx (length l) (Some w) lst (seq_d_nc _ _ _ _ _ _)) as Hz.
      pose proof (seq_d_wt ctx 0 (length l) None None
                   (fun _ => match l with
                             | [x] => [pretty_pv x (with_strategy (nested_call ctx) MPlain) None None]
                             | _ => map (fun x => pretty_pv x (nested_hang ctx) None None) l
                             end) Hm) as Hs.
      cbv beta in Hs. subst lst. cbv beta in Hz. pose proof (lin_elems l ctx HA Hm) as He.
      pose proof (olen_truthy cm). cbn [olen] in Hs. unfold K in *. lia.
    + rewrite vsize_dict in Hn. rewrite zdict. destruct Hok as [Hnd Hok].
      assert (HA : forall k x, In (k, x) kvs -> (LinV k /\ sorted_ok k) /\ (LinV x /\ sorted_ok x)).
      { intros k x Hin. destruct (ok_dict kvs Hok k x Hin) as [Hk Hx]. apply kvsum_in in Hin.
        repeat split; auto; apply IHn; lia. }
      match goal with |- context [dict_d sp lb ctx (Some w) ?t so ?tri] =>
        pose proof (W_finish cm (dict_d sp lb ctx (Some w) t so tri)) as Hf;
        pose proof (dict_d_wt ctx (Some w) t so tri Hm Hnd) as Hd end.
      cbv beta in Hd.
      match type of Hd with context [tcostl ?m] =>
        change m with (map (fun '(k, x) => (key_doc_ sp lb ctx k,
                            pretty_pv x (with_strategy (nested_call ctx) MIndented) None None,
                            fun _ : unit => pretty_pv x (with_strategy (nested_call ctx) MPlain) None None)) kvs) in * end.
      pose proof (lin_triples ctx kvs HA Hm) as Ht. rewrite map_length in Hd.
      pose proof (olen_truthy cm). pose proof (olen_truthy tr). unfold K in *. lia.
  - (* commented *)
    cbn [vsize sorted_ok vsz] in *. fold (vsz v).
    pose proof (IHn v ltac:(lia) Hok ctx (Some (joinc cm c)) (truthy tr) Hm) as H. cbn [olen] in H.
    pose proof (olen_truthy tr). pose proof (joinc_len cm c). unfold K in *. lia.
  - (* trailing *)
    cbn [vsize sorted_ok vsz] in *. fold (vsz v).
    pose proof (IHn v ltac:(lia) Hok ctx cm (Some (joinc (truthy tr) c)) Hm) as H. cbn [olen] in H.
    pose proof (olen_truthy tr). pose proof (joinc_len (truthy tr) c). unfold K in *. lia.
  - (* call *)
    rewrite vsize_call in Hn. rewrite zcall. destruct Hok as [Ha Hk].
    assert (HA : forall x, In x args -> LinV x /\ sorted_ok x).
    { intros x Hx. split; [apply IHn; apply vsum_in in Hx; lia|exact (ok_list args Ha x Hx)]. }
    match goal with |- context [call_alt_d sp lb ctx f ?h ?sa ?ne ?kw] =>
      pose proof (W_finish cm (call_alt_d sp lb ctx f h sa ne kw)) as Hf;
      pose proof (call_alt_d_wt ctx f h sa ne kw) as Hc end.
    cbv beta in Hc.
    pose proof (lin_map args ctx HA Hm) as H1. pose proof (lin_map args (nested_hang ctx) HA Hm) as H2.
    assert (HK : forall k x, In (k, x) kwargs -> LinV x /\ sorted_ok x).
    { intros k x Hin. split; [apply IHn; apply kwsum_in in Hin; lia|exact (ok_kw kwargs Hk k x Hin)]. }
    pose proof (lin_kws kwargs (nested_hang ctx) HK Hm) as H3.
    rewrite map_length in Hc. pose proof (olen_truthy cm). unfold K in *. lia.
  - (* path *)
    pose proof (W_finish cm (build_fncall sp lb ctx (general_identifier w) [str_doc ctx false s None true] [] false)) as Hf.
    pose proof (build_fncall_wt ctx (general_identifier w) [str_doc ctx false s None true] [] false) as Hb.
    cbn [map length costl fold_right] in Hb. unfold cost, csz in Hb. rewrite str_doc_nc in Hb.
    pose proof (str_doc_wt ctx false s None true). unfold general_identifier in *. rewrite W_tok in Hb.
    pose proof (olen_truthy cm). leaf.
  - pose proof (W_finish cm (Text r)) as Hf. rewrite W_text in Hf. pose proof (olen_truthy cm). leaf.
Qed.

End LD.

(** The per-type printer helpers denote, in every layout, the tokens of the
    expression the specification [expr_of] prescribes. *)
From Coq Require Import Lia.
From PP Require Import Doc PyStr PyVal Consts Printers PyExpr DocToks.

Section PrettyToks1.
Variable is_space_u : N -> bool.
Variable is_linebreak : N -> bool.

Ltac inv H := inversion H; subst; clear H.

(** a class / callable is printed as a name *)
Definition wf_cls (c : clsinfo) : Prop := tok_of (cn_tok c) (cn_name c) = TName (cn_name c) /\ cn_tok c <> 14%N.

Lemma DT_ident c : wf_cls c -> DT (general_identifier c) [TName (cn_name c)].
Proof. intros [H1 H2]. unfold general_identifier, Printers.tok. rewrite <- H1. now apply DT_tok. Qed.

Lemma wf_cls_of name : wf_cls (cls_of name).
Proof. split; [reflexivity|discriminate]. Qed.

Lemma placeholder_DT c : wf_cls c ->
  DT (Cat [general_identifier c; LPAREN; ELLIPSIS; RPAREN]) (etoks (placeholder (cn_name c))).
Proof.
  intros H. apply DT_cat. cbn [etoks placeholder map app sepcomma].
  apply DTL_cons1; [now apply DT_ident|]. apply DTL_cons1; [apply DT_LPAREN|].
  apply DTL_cons1; [apply DT_ELLIPSIS|]. apply DTL_one, DT_RPAREN.
Qed.

Lemma is0_ectx ctx : e_is0 (ectx_of ctx) = depth_is0 ctx.
Proof. reflexivity. Qed.
Lemma le0_ectx ctx : e_le0 (ectx_of ctx) = depth_le0 ctx.
Proof. reflexivity. Qed.

(** strings *)
Lemma str_doc_DT ctx bytes s wrapc path :
  match wrapc with Some w => wf_cls w | None => True end ->
  DT (str_doc ctx bytes s wrapc path) (etoks (estr (ectx_of ctx) bytes s wrapc)).
Proof.
  intros Hw. unfold str_doc, estr. rewrite is0_ectx. destruct (depth_is0 ctx).
  - destruct wrapc as [w|]; [now apply placeholder_DT|].
    apply (placeholder_DT (cls_of (if bytes then n_bytes else n_str))). apply wf_cls_of.
  - assert (Hok : wrap_ok (mkStrp s bytes (c_strategy ctx) (c_indent ctx)
                          (option_map (fun c => (cn_tok c, cn_name c)) wrapc) path)).
    { unfold wrap_ok. cbn [sp_wrap]. destruct wrapc as [w|]; cbn [option_map]; [exact Hw|exact I]. }
    pose proof (DT_str _ Hok) as H.
    unfold strtoks in H. cbn [sp_wrap sp_bytes sp_s] in H.
    destruct wrapc as [w|]; cbn [option_map] in H; exact H.
Qed.

(** pretty_call_alt *)
Lemma call_alt_d_hug_DT ctx f same nested kws a :
  wf_cls f -> Forall2 DT (same tt) [etoks a] ->
  DT (call_alt_d is_space_u is_linebreak ctx f true same nested kws)
     (etoks (ecall (ectx_of ctx) (cn_name f) [a] [])).
Proof.
  intros Hf Hs. unfold call_alt_d, ecall. rewrite le0_ectx. destruct (depth_le0 ctx).
  - now apply placeholder_DT.
  - pose proof (build_fncall_DT is_space_u is_linebreak ctx (general_identifier f) [TName (cn_name f)]
                  (same tt) [etoks a] [] [] true (DT_ident f Hf) Hs (Forall2_nil _)) as H.
    exact H.
Qed.

Lemma call_alt_d_nested_DT ctx f same nested kws args kwargs :
  wf_cls f -> Forall2 DT (nested tt) (map etoks args) ->
  Forall2 (fun kd kt => fst kd = fst kt /\ DT (snd kd) (snd kt)) (kws tt)
          (map (fun kv => (fst kv, etoks (snd kv))) kwargs) ->
  DT (call_alt_d is_space_u is_linebreak ctx f false same nested kws)
     (etoks (ecall (ectx_of ctx) (cn_name f) args kwargs)).
Proof.
  intros Hf Ha Hk. unfold call_alt_d, ecall. rewrite le0_ectx. destruct (depth_le0 ctx).
  - now apply placeholder_DT.
  - pose proof (build_fncall_DT is_space_u is_linebreak ctx (general_identifier f) [TName (cn_name f)]
                  (nested tt) (map etoks args) (kws tt) _ false (DT_ident f Hf) Ha Hk) as H.
    cbn [etoks]. rewrite map_map in H. exact H.
Qed.

Lemma call_noargs_DT ctx f : wf_cls f ->
  DT (call_noargs is_space_u is_linebreak ctx f) (etoks (ecall (ectx_of ctx) (cn_name f) [] [])).
Proof. intros Hf. unfold call_noargs. apply call_alt_d_nested_DT; auto; constructor. Qed.

Lemma call_ellipsis_DT ctx f : wf_cls f ->
  DT (call_ellipsis is_space_u is_linebreak ctx f) (etoks (ecall (ectx_of ctx) (cn_name f) [EEllipsis] [])).
Proof.
  intros Hf. unfold call_ellipsis. apply call_alt_d_nested_DT; auto; [|constructor].
  constructor; [apply DT_ELLIPSIS|constructor].
Qed.

(** when no depth is left, ecall collapses to the placeholder *)
Lemma ecall_is0 c name args kwargs : e_is0 c = true -> ecall c name args kwargs = placeholder name.
Proof.
  unfold ecall, e_is0, e_le0. destruct (e_depth c) as [d|]; [|discriminate].
  intros H. apply Z.eqb_eq in H. subst. reflexivity.
Qed.

End PrettyToks1.

(** The classic algebra of C05/C06: text, concat, nest, group, line, softline
    (any flat_choice whose broken branch is a hardline), hardline, always_break,
    align, annotate.  Closed under normalisation.  On the layout stack the
    annotation pops ([PopD]) appear as entries of their own ([classict]). *)
From PP Require Import Doc Normalize DocInd NormEq.

Definition is_hard (d : doc) : bool := match d with HardLine => true | _ => false end.

Fixpoint classic (d : doc) : bool :=
  match d with
  | Nil | Text _ | HardLine => true
  | Cat l => (fix all (l : list doc) : bool :=
                match l with [] => true | x :: tl => classic x && all tl end) l
  | Nest _ x | Group x | AlwaysBreak x | Align x | Annot _ x => classic x
  | FlatChoice b f | FCN b f => is_hard b && classic f
  | Fill _ | CtxS _ | PopD _ => false
  end.

Definition classict (d : doc) : bool := match d with PopD _ => true | _ => classic d end.
Lemma classic_t d : classic d = true -> classict d = true.
Proof. destruct d; cbn; auto. Qed.

Lemma classic_cat l : classic (Cat l) = forallb classic l.
Proof. induction l as [|x tl IH]; [reflexivity|]. cbn [classic forallb] in *. now rewrite <- IH. Qed.

Definition classic_stk (s : list triple) : Prop := Forall (fun t => classict (snd t) = true) s.

Lemma classic_contrib nd : classic nd = true -> forallb classic (fst (contrib nd)) = true.
Proof.
  destruct nd; cbn [contrib fst forallb]; intros H; rewrite ?andb_true_r;
    try exact H; try reflexivity.
Qed.

Lemma classic_cat_go l : Forall (fun d => classic d = true -> classic (normalize_doc d) = true) l ->
  forallb classic l = true -> forallb classic (fst (cat_go l [] false)) = true.
Proof.
  induction 1 as [|x tl Hx Htl IH]; intros Hc; [reflexivity|].
  cbn [forallb] in Hc. apply andb_prop in Hc as [Hcx Hct].
  cbn [cat_go]. destruct (contrib (normalize_doc x)) as [k p] eqn:Ek.
  rewrite cat_go_acc. cbn [fst app]. rewrite forallb_app.
  apply andb_true_intro; split; [|auto].
  replace k with (fst (contrib (normalize_doc x))) by now rewrite Ek.
  apply classic_contrib. auto.
Qed.

Lemma classic_normalize : forall d, classic d = true -> classic (normalize_doc d) = true.
Proof.
  induction d using doc_ind'; intros Hc; try (cbn in Hc; discriminate); try exact Hc.
  - destruct s; reflexivity.
  - rewrite normalize_cat. rewrite classic_cat in Hc.
    pose proof (classic_cat_go l H Hc) as Hi. unfold cat_finish.
    destruct (cat_go l [] false) as [items prop]. cbn [fst] in Hi.
    destruct items as [|x [|y tl]]; [reflexivity| |].
    + cbn [forallb] in Hi. apply andb_prop in Hi as [Hx _]. destruct prop; exact Hx.
    + destruct prop;
        [change (classic (AlwaysBreak (Cat (x :: y :: tl)))) with (classic (Cat (x :: y :: tl)))|];
        rewrite classic_cat; exact Hi.
  - cbn [classic] in Hc. specialize (IHd Hc). cbn [normalize_doc].
    destruct (normalize_doc d); cbn [classic] in *; auto.
  - cbn [classic] in Hc. specialize (IHd Hc). cbn [normalize_doc].
    destruct (normalize_doc d); cbn [classic] in *; auto.
  - cbn [classic] in Hc. specialize (IHd Hc). cbn [normalize_doc].
    destruct (normalize_doc d); cbn [classic] in *; auto.
  - cbn [classic] in Hc. specialize (IHd Hc). cbn [normalize_doc].
    destruct (normalize_doc d); cbn [classic] in *; auto.
Qed.

Lemma classic_stk_push_all i m l rest :
  classic (Cat l) = true -> classic_stk rest -> classic_stk (map (fun x => (i, m, x)) l ++ rest).
Proof.
  rewrite classic_cat. intros Hl Hr. apply Forall_app; split; [|exact Hr].
  apply Forall_forall. intros t Ht. apply in_map_iff in Ht as (x & <- & Hx).
  cbn [snd]. rewrite forallb_forall in Hl. apply classic_t. auto.
Qed.

(** In the token sequence of an expression no two string VALUES are adjacent:
    Python's implicit concatenation of adjacent literals can therefore only
    merge the pieces of ONE value (StrBridge.Glue groups exactly those). *)
From Coq Require Import Lia.
From PP Require Import Doc PyStr PyVal PyExpr.

Definition is_str (t : token) : bool := match t with TStr _ _ => true | _ => false end.
Fixpoint noadj (ts : list token) : bool :=
  match ts with
  | a :: tl => match tl with b :: _ => negb (is_str a && is_str b) | [] => true end && noadj tl
  | [] => true
  end.

Lemma noadj_cons x l : is_str x = false -> noadj (x :: l) = noadj l.
Proof. intros H. destruct l as [|y tl]; [reflexivity|]. change (noadj (x :: y :: tl)) with (negb (is_str x && is_str y) && noadj (y :: tl)). now rewrite H. Qed.

Lemma noadj_mid a x b : is_str x = false -> noadj a = true -> noadj b = true -> noadj (a ++ x :: b) = true.
Proof.
  intros Hx Ha Hb. induction a as [|y tl IH]; cbn [app]; [now rewrite noadj_cons|].
  cbn [noadj] in *. apply andb_prop in Ha as [H1 H2]. rewrite (IH H2).
  destruct tl as [|z tl']; cbn [app]; [rewrite Hx, andb_false_r; reflexivity|]. now rewrite H1.
Qed.

Lemma noadj_snoc a x : is_str x = false -> noadj a = true -> noadj (a ++ [x]) = true.
Proof. intros Hx Ha. now apply noadj_mid. Qed.

Lemma noadj_sepcomma l : Forall (fun ts => noadj ts = true) l -> noadj (sepcomma l) = true.
Proof.
  induction 1 as [|x tl Hx Ht IH]; [reflexivity|]. cbn [sepcomma]. destruct tl as [|y tl']; [exact Hx|].
  apply noadj_mid; auto.
Qed.

Section Ind.
Variable P : expr -> Prop.
Hypothesis Hint : forall z, P (EInt z).
Hypothesis Hfloat : forall r, P (EFloat r).
Hypothesis Hname : forall s, P (EName s).
Hypothesis Hell : P EEllipsis.
Hypothesis Hstr : forall b s, P (EStr b s).
Hypothesis Hseq : forall k l tc, Forall P l -> P (ESeq k l tc).
Hypothesis Hdict : forall kvs, Forall (fun kv => P (fst kv) /\ P (snd kv)) kvs -> P (EDict kvs).
Hypothesis Hcall : forall f args kw, Forall P args -> Forall (fun kv => P (snd kv)) kw -> P (ECall f args kw).
Hypothesis Hrepr : forall s, P (ERepr s).

Fixpoint expr_ind' (e : expr) : P e :=
  match e with
  | EInt z => Hint z
  | EFloat r => Hfloat r
  | EName s => Hname s
  | EEllipsis => Hell
  | EStr b s => Hstr b s
  | ESeq k l tc =>
      Hseq k l tc ((fix go (l : list expr) : Forall P l :=
                      match l with [] => Forall_nil _ | x :: tl => Forall_cons x (expr_ind' x) (go tl) end) l)
  | EDict kvs =>
      Hdict kvs ((fix go (l : list (expr * expr)) : Forall (fun kv => P (fst kv) /\ P (snd kv)) l :=
                    match l with
                    | [] => Forall_nil _
                    | kv :: tl => Forall_cons kv (conj (expr_ind' (fst kv)) (expr_ind' (snd kv))) (go tl)
                    end) kvs)
  | ECall f args kw =>
      Hcall f args kw
        ((fix go (l : list expr) : Forall P l :=
            match l with [] => Forall_nil _ | x :: tl => Forall_cons x (expr_ind' x) (go tl) end) args)
        ((fix go (l : list (str * expr)) : Forall (fun kv => P (snd kv)) l :=
            match l with [] => Forall_nil _ | kv :: tl => Forall_cons kv (expr_ind' (snd kv)) (go tl) end) kw)
  | ERepr s => Hrepr s
  end.
End Ind.

Theorem etoks_noadj : forall e, noadj (etoks e) = true.
Proof.
  apply expr_ind'; try reflexivity.
  - (* ESeq *) intros k l tc Hl. cbn [etoks].
    assert (Hs : noadj (sepcomma (map etoks l)) = true).
    { apply noadj_sepcomma. apply Forall_map. exact Hl. }
    rewrite noadj_cons by (destruct k; reflexivity).
    destruct tc; cbn [app].
    + apply noadj_mid; [reflexivity|exact Hs|destruct k; reflexivity].
    + apply noadj_snoc; [destruct k; reflexivity|exact Hs].
  - (* EDict *) intros kvs Hk. cbn [etoks]. rewrite noadj_cons by reflexivity. apply noadj_snoc; [reflexivity|].
    apply noadj_sepcomma. apply Forall_map. eapply Forall_impl; [|exact Hk].
    intros kv [Ha Hb]. cbn beta. apply noadj_mid; auto.
  - (* ECall *) intros f args kw Ha Hk. cbn [etoks]. rewrite !noadj_cons by reflexivity.
    apply noadj_snoc; [reflexivity|]. apply noadj_sepcomma. apply Forall_app. split.
    + apply Forall_map. exact Ha.
    + apply Forall_map. eapply Forall_impl; [|exact Hk]. intros kv H. cbn beta. now rewrite !noadj_cons by reflexivity.
Qed.

(** Induction principle for [doc] with [Forall] hypotheses for the nested lists. *)
From PP Require Import Doc.

Section DocInd.
Variable P : doc -> Prop.
Hypothesis HNil : P Nil.
Hypothesis HText : forall s, P (Text s).
Hypothesis HCat : forall l, Forall P l -> P (Cat l).
Hypothesis HNest : forall i d, P d -> P (Nest i d).
Hypothesis HGroup : forall d, P d -> P (Group d).
Hypothesis HAB : forall d, P d -> P (AlwaysBreak d).
Hypothesis HFC : forall b f, P b -> P f -> P (FlatChoice b f).
Hypothesis HFCN : forall b f, P b -> P f -> P (FCN b f).
Hypothesis HFill : forall l, Forall P l -> P (Fill l).
Hypothesis HAnnot : forall a d, P d -> P (Annot a d).
Hypothesis HHard : P HardLine.
Hypothesis HAlign : forall d, P d -> P (Align d).
Hypothesis HCtxS : forall p, P (CtxS p).
Hypothesis HPop : forall a, P (PopD a).

Fixpoint doc_ind' (d : doc) : P d :=
  match d with
  | Nil => HNil
  | Text s => HText s
  | Cat l => HCat l ((fix go (l : list doc) : Forall P l :=
                        match l with
                        | [] => Forall_nil P
                        | x :: tl => Forall_cons x (doc_ind' x) (go tl)
                        end) l)
  | Nest i x => HNest i x (doc_ind' x)
  | Group x => HGroup x (doc_ind' x)
  | AlwaysBreak x => HAB x (doc_ind' x)
  | FlatChoice b f => HFC b f (doc_ind' b) (doc_ind' f)
  | FCN b f => HFCN b f (doc_ind' b) (doc_ind' f)
  | Fill l => HFill l ((fix go (l : list doc) : Forall P l :=
                        match l with
                        | [] => Forall_nil P
                        | x :: tl => Forall_cons x (doc_ind' x) (go tl)
                        end) l)
  | Annot a x => HAnnot a x (doc_ind' x)
  | HardLine => HHard
  | Align x => HAlign x (doc_ind' x)
  | CtxS p => HCtxS p
  | PopD a => HPop a
  end.
End DocInd.

(** C06: a single-line layout is stable under every width/ribbon >= its length. *)
From Coq Require Import Lia.
From PP Require Import Doc Normalize Layout DocInd NormEq Classic FirstLine SingleLine.

Section Stable.
Variable evs : strp -> Z -> Z -> Z -> Z -> doc.

Ltac inv H := inversion H; subst; clear H.

Lemma plainc_contrib nd : plainc nd = true -> forallb plainc (fst (contrib nd)) = true.
Proof.
  destruct nd; cbn [contrib fst forallb]; intros H; rewrite ?andb_true_r;
    try exact H; try reflexivity; try discriminate.
Qed.

Lemma plainc_cat_go l : Forall (fun d => plainc d = true -> plainc (normalize_doc d) = true) l ->
  forallb plainc l = true -> forallb plainc (fst (cat_go l [] false)) = true.
Proof.
  induction 1 as [|x tl Hx Htl IH]; intros Hc; [reflexivity|].
  cbn [forallb] in Hc. apply andb_prop in Hc as [Hcx Hct].
  cbn [cat_go]. destruct (contrib (normalize_doc x)) as [k p] eqn:Ek.
  rewrite cat_go_acc. cbn [fst app]. rewrite forallb_app.
  apply andb_true_intro; split; [|auto].
  replace k with (fst (contrib (normalize_doc x))) by now rewrite Ek.
  apply plainc_contrib. auto.
Qed.

Lemma plainc_no_ab_prop l :
  Forall (fun d => plainc d = true -> plainc (normalize_doc d) = true) l ->
  forallb plainc l = true -> snd (cat_go l [] false) = false.
Proof.
  induction 1 as [|x tl Hx Htl IH]; intros Hc; [reflexivity|].
  cbn [forallb] in Hc. apply andb_prop in Hc as [Hcx Hct].
  cbn [cat_go]. destruct (contrib (normalize_doc x)) as [k p] eqn:Ek.
  rewrite cat_go_acc. cbn [snd]. rewrite (IH Hct).
  specialize (Hx Hcx). destruct (normalize_doc x); cbn [contrib] in Ek; inv Ek; auto.
Qed.

Lemma plainc_normalize : forall d, plainc d = true -> plainc (normalize_doc d) = true.
Proof.
  induction d using doc_ind'; intros Hc; try (cbn in Hc; discriminate); try exact Hc.
  - destruct s; reflexivity.
  - rewrite normalize_cat. rewrite plainc_cat in Hc.
    pose proof (plainc_cat_go l H Hc) as Hi. pose proof (plainc_no_ab_prop l H Hc) as Hp.
    unfold cat_finish. destruct (cat_go l [] false) as [items prop]. cbn [fst snd] in Hi, Hp. subst prop.
    destruct items as [|x [|y tl]]; [reflexivity| |].
    + cbn [forallb] in Hi. now apply andb_prop in Hi as [Hx _].
    + rewrite plainc_cat. exact Hi.
  - cbn [plainc] in Hc. apply andb_prop in Hc as [Hj Hx]. specialize (IHd Hx). cbn [normalize_doc].
    destruct (normalize_doc d); cbn [plainc] in *; try discriminate; rewrite ?Hj; auto.
  - cbn [plainc] in Hc. specialize (IHd Hc). cbn [normalize_doc].
    destruct (normalize_doc d); cbn [plainc] in *; auto.
  - cbn [plainc] in Hc. specialize (IHd Hc). cbn [normalize_doc].
    destruct (normalize_doc d); cbn [plainc] in *; auto.
Qed.

Lemma stable_loop ff0 sm0 w0 rw0 L : forall fuel0 M col o new,
  layout_loop evs fuel0 ff0 sm0 w0 rw0 (mkL M col o) = Some (rev o ++ new) ->
  nosl new = true -> col + tw new <= L -> 0 <= col -> plain_stk M -> L <= w0 -> L <= rw0 ->
  forall ff sm w rw fuel out, L <= w -> L <= rw ->
    layout_loop evs fuel ff sm w rw (mkL M col o) = Some out -> out = rev o ++ new.
Proof.
  induction fuel0 as [|fuel0 IH]; intros M col o new HL0 Hn Ht Hcol HP Hw0 Hr0 ff sm w rw fuel out Hw Hr HL;
    [discriminate|].
  destruct fuel as [|fuel]; [discriminate|].
  destruct M as [|[[i m] d] M'].
  { cbn in HL0, HL. congruence. }
  inversion HP as [|? ? [Hp Hi] HP']; subst; cbn [fst snd] in Hp, Hi.
  destruct d as [ |s|l|j x|x|x|b f|b f|l|a x| |x|p|a]; cbn [plainc] in Hp; try discriminate;
    cbn [layout_loop layout_step ls_stk ls_col ls_out] in HL0, HL.
  - (* Nil *) exact (IH _ _ _ _ HL0 Hn Ht Hcol HP' Hw0 Hr0 _ _ _ _ _ _ Hw Hr HL).
  - (* Text *)
    apply emit_inv in HL0 as (new' & -> & HL0). cbn [nosl tw] in Hn, Ht.
    pose proof (slen_nonneg s).
    rewrite (IH _ _ _ _ HL0 Hn ltac:(lia) ltac:(lia) HP' Hw0 Hr0 _ _ _ _ _ _ Hw Hr HL).
    cbn [rev]. now rewrite <- app_assoc.
  - (* Cat *)
    refine (IH _ _ _ _ HL0 Hn Ht Hcol _ Hw0 Hr0 _ _ _ _ _ _ Hw Hr HL). now apply plain_stk_push.
  - (* Nest *)
    apply andb_prop in Hp as [Hj Hx]. apply Z.leb_le in Hj.
    refine (IH _ _ _ _ HL0 Hn Ht Hcol _ Hw0 Hr0 _ _ _ _ _ _ Hw Hr HL).
    constructor; [cbn [fst snd]; split; [auto|lia]|exact HP'].
  - (* Group: both runs decide flat *)
    pose proof (tw_nonneg new) as Hnn.
    destruct (fits evs ff0 sm0 w0 rw0 (Z.min col i) (avail w0 rw0 col i) ((i, MFlat, x) :: M'))
      as [b0|] eqn:E0; [|discriminate].
    destruct (fits evs ff sm w rw (Z.min col i) (avail w rw col i) ((i, MFlat, x) :: M'))
      as [b|] eqn:E; [|discriminate].
    assert (HL0' : exists mb, layout_loop evs fuel0 ff0 sm0 w0 rw0
                     (mkL ((i, mb, x) :: M') col o) = Some (rev o ++ new)).
    { destruct b0; eauto. }
    destruct HL0' as [mb HL0'].
    assert (HRS : RS ((i, MFlat, x) :: M') ((i, mb, x) :: M')).
    { constructor; [destruct mb; unfold mle; auto|apply RS_refl]. }
    assert (HPS : plain_stk ((i, mb, x) :: M')).
    { constructor; [cbn [fst snd]; auto|exact HP']. }
    assert (b0 = true) as ->.
    { destruct (single_line_fits evs _ _ _ _ _ _ _ _ _ ((i, MFlat, x) :: M') sm0 w0 rw0
                  (Z.min col i) (avail w0 rw0 col i) (avail w0 rw0 col i) HL0' Hn) as [nf Hf]; auto.
      { unfold avail. lia. }
      unfold fits in E0. symmetry. eapply fits_loop_det; eauto. }
    assert (b = true) as ->.
    { destruct (single_line_fits evs _ _ _ _ _ _ _ _ _ ((i, MFlat, x) :: M') sm w rw
                  (Z.min col i) (avail w rw col i) (avail w rw col i) HL0' Hn) as [nf Hf]; auto.
      { unfold avail. lia. }
      unfold fits in E. symmetry. eapply fits_loop_det; eauto. }
    refine (IH _ _ _ _ HL0 Hn Ht Hcol _ Hw0 Hr0 _ _ _ _ _ _ Hw Hr HL).
    constructor; [cbn [fst snd]; auto|exact HP'].
  - (* FlatChoice *)
    apply andb_prop in Hp as [Hb Hf]. destruct b; try discriminate.
    refine (IH _ _ _ _ HL0 Hn Ht Hcol _ Hw0 Hr0 _ _ _ _ _ _ Hw Hr HL).
    constructor; [cbn [fst snd]; split; [now destruct m|auto]|exact HP'].
  - (* FCN *)
    apply andb_prop in Hp as [Hb Hf]. destruct b; try discriminate.
    refine (IH _ _ _ _ HL0 Hn Ht Hcol _ Hw0 Hr0 _ _ _ _ _ _ Hw Hr HL).
    constructor; [cbn [fst snd]; split; [now destruct m|auto]|exact HP'].
  - (* Annot *)
    apply emit_inv in HL0 as (new' & -> & HL0). cbn [nosl tw] in Hn, Ht.
    rewrite (IH _ _ _ _ HL0 Hn Ht Hcol ltac:(constructor; [cbn [fst snd]; auto|];
               constructor; [cbn [fst snd]; auto|exact HP']) Hw0 Hr0 _ _ _ _ _ _ Hw Hr HL).
    cbn [rev]. now rewrite <- app_assoc.
  - (* HardLine *) apply emit_inv in HL0 as (new' & -> & _). discriminate.
  - (* PopD *)
    apply emit_inv in HL0 as (new' & -> & HL0). cbn [nosl tw] in Hn, Ht.
    rewrite (IH _ _ _ _ HL0 Hn Ht Hcol HP' Hw0 Hr0 _ _ _ _ _ _ Hw Hr HL).
    cbn [rev]. now rewrite <- app_assoc.
Qed.

(** If a document without forced breaks is laid out, at some page and ribbon
    width, as a single line, then at every page and ribbon width that is at
    least the length of that line (both runs) the layout is that same stream. *)
Theorem single_line_stable d fuel0 ff0 sm0 w0 rw0 out0 :
  plainc d = true ->
  best_layout evs fuel0 ff0 sm0 w0 rw0 d = Some out0 ->
  nosl out0 = true -> tw out0 <= w0 -> tw out0 <= rw0 ->
  forall w rw fuel ff sm out, tw out0 <= w -> tw out0 <= rw ->
    best_layout evs fuel ff sm w rw d = Some out -> out = out0.
Proof.
  intros Hp H0 Hn Hw0 Hr0 w rw fuel ff sm out Hw Hr H. unfold best_layout, init_state in *.
  change (Some out0) with (Some (rev [] ++ out0)) in H0.
  assert (HP : plain_stk [(0, MBreak, normalize_doc d)]).
  { constructor; [|constructor]. cbn [fst snd]. split; [now apply plainc_normalize|lia]. }
  exact (stable_loop ff0 sm0 w0 rw0 (tw out0) fuel0 _ 0 [] out0 H0 Hn ltac:(lia) ltac:(lia) HP
           Hw0 Hr0 ff sm w rw fuel out Hw Hr H).
Qed.

End Stable.

(** Every line break the model of the layout engine emits for ANY value of the
    model universe (strings included) is indented by a multiple of the indent
    setting - at every width, ribbon, depth, max_seq_len. *)
From Coq Require Import Lia ZArith.
From PP Require Import Doc Normalize Layout Render Sem PyStr PyVal Consts Printers Pformat Membership
     LayToks IndentMult NestDocs.

Ltac inv H := inversion H; subst; clear H.

Section E.
Variable printable sp wd lb : N -> bool.

Lemma nk_single_line k b q s : nestk k (single_line_str printable b q s) = true.
Proof.
  unfold single_line_str. rewrite nk_cat. cbn [forallb]. rewrite nk_annot, nk_cat. cbn [forallb].
  destruct (escape_for_quote printable b q s) as [|n0 s0].
  - destruct b; reflexivity.
  - rewrite nk_cat.
    assert (H : forallb (nestk k) (map (fun p : bool * str => tok (if fst p then T_STRING_ESCAPE else T_LITERAL_STRING) (snd p))
                                     (split_escapes (n0 :: s0))) = true).
    { induction (split_escapes (n0 :: s0)) as [|x tl IH]; [reflexivity|]. cbn [map forallb]. now rewrite IH. }
    rewrite H. destruct b; reflexivity.
Qed.

Lemma evs_ok p i c w rw : nestk (sp_indent p) (eval_str printable sp wd lb p i c w rw) = true.
Proof.
  set (k := sp_indent p). unfold eval_str. cbv zeta.
  set (pctx0 := mkCtx (sp_indent p) None MPlain 0 false).
  assert (Hw : forall d, nestk k d = true ->
            nestk k (match sp_wrap p with None => d | Some (t, name) => build_fncall sp lb pctx0 (tok t name) [d] [] false end) = true).
  { intros d Hd. destruct (sp_wrap p) as [[t name]|]; [|exact Hd].
    apply (nk_build_fncall sp lb k pctx0 eq_refl); cbn [forallb]; try reflexivity. now rewrite Hd. }
  destruct (slen (sp_s p) + str_quotes_len <=? _); [apply Hw, nk_single_line|].
  destruct (str_to_lines _ _ _ _ _ _ _ _ _) as [lines|]; [|reflexivity].
  destruct (Nat.leb (length lines) 1); [apply Hw, nk_single_line|].
  assert (Hp : forallb (nestk k) (intersperse HardLine (map (single_line_str printable (sp_bytes p) (quote_strategy (sp_s p))) lines)) = true).
  { apply nk_intersperse; [reflexivity|]. induction lines as [|x tl IH]; [reflexivity|]. cbn [map forallb].
    now rewrite nk_single_line, IH. }
  destruct (match sp_wrap p with Some _ => MPlain | None => sp_strategy p end).
  - apply Hw. rewrite nk_ab, nk_cat. exact Hp.
  - rewrite nk_ab. fold k. rewrite nk_nest, nk_cat. exact Hp.
  - rewrite nk_ab, nk_cat. cbn [forallb]. fold k. rewrite nk_nest, nk_cat. cbn [forallb]. rewrite Hp. reflexivity.
  - rewrite nk_ab, nk_cat. cbn [forallb]. fold k. rewrite nk_nest, nk_cat. cbn [forallb]. rewrite Hp. reflexivity.
Qed.

Theorem indent_multiple :
  forall (fuel ff : nat) (v : pyval) (indent width rw : Z) (depth : option Z) (maxlen : Z) (sort : bool) (out : list sdoc),
    sdocs_model printable sp wd lb fuel ff v indent width rw depth maxlen sort = Some out ->
    forall j, In (SLine j) out -> (indent | j).
Proof.
  intros fuel ff v indent width rw depth maxlen sort out H j Hj.
  unfold sdocs_model in H. apply membership in H as [c' HL].
  assert (He : forall p i c, sp_indent p = indent -> nestk indent (evs printable sp wd lb p i c width rw) = true).
  { intros p i c E. rewrite <- E. apply evs_ok. }
  pose proof (lay_indent_multiple (evs printable sp wd lb) width rw indent He _ _ _ _ _ _ HL
                (nk_top_doc sp lb indent v depth maxlen sort) (Z.divide_0_r indent)) as HF.
  assert (Hin : In (SLine j) (strip out)) by (unfold strip; apply filter_In; split; [exact Hj|reflexivity]).
  exact (proj1 (Forall_forall _ _) HF (SLine j) Hin).
Qed.

End E.

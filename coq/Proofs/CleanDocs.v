(** The documents the printers build for values without strings contain no
    contextual string document (and no layout-stack residue), so the bridge
    theorem of LayToks.v applies to them. *)
From Coq Require Import Lia.
From PP Require Import Doc PyStr PyVal Consts Printers PyExpr LayToks PrettyToks3.

Ltac inv H := inversion H; subst; clear H.

Lemma clean_cat l : clean (Cat l) = forallb clean l.
Proof. cbn [clean]. apply clean_list. Qed.
Lemma clean_fill l : clean (Fill l) = forallb clean l.
Proof. cbn [clean]. apply clean_list. Qed.

Lemma clean_nest i x : clean (Nest i x) = clean x. Proof. reflexivity. Qed.
Lemma clean_group x : clean (Group x) = clean x. Proof. reflexivity. Qed.
Lemma clean_ab x : clean (AlwaysBreak x) = clean x. Proof. reflexivity. Qed.
Lemma clean_annot a x : clean (Annot a x) = clean x. Proof. reflexivity. Qed.
Lemma clean_fc b f : clean (FlatChoice b f) = clean b && clean f. Proof. reflexivity. Qed.

Ltac cl := repeat (progress (rewrite ?clean_cat, ?clean_fill, ?clean_nest, ?clean_group, ?clean_ab, ?clean_annot,
                                ?clean_fc, ?forallb_app; cbn [forallb])).

Section CD.
Variable sp lb : N -> bool.

Lemma clean_intersperse x l : clean x = true -> forallb clean l = true -> forallb clean (intersperse x l) = true.
Proof.
  intros Hx. induction l as [|y [|z tl] IH]; intros H; cbn [intersperse forallb] in *; auto.
  apply andb_prop in H as [Hy H]. rewrite Hy, Hx. cbn [andb]. apply IH. exact H.
Qed.

Lemma clean_comment_items : forall l b, forallb clean (comment_items l b) = true.
Proof. induction l as [|p tl IH]; intros b; [reflexivity|]. cbn [comment_items forallb]. rewrite IH. destruct b; reflexivity. Qed.

Lemma clean_comment_line line : clean (comment_line sp line) = true.
Proof.
  unfold comment_line. cl. rewrite clean_comment_items.
  destruct (filter nonempty (re_split sp line)) as [|p tl]; [reflexivity|].
  destruct (existsb sp (firstn 1 p)); reflexivity.
Qed.

Lemma clean_commentdoc t : clean (commentdoc sp lb t) = true.
Proof.
  unfold commentdoc. cbn [clean].
  assert (H : clean (Cat (intersperse HardLine (map (comment_line sp) (splitlines lb t)))) = true).
  { cl. apply clean_intersperse; [reflexivity|]. induction (splitlines lb t) as [|x tl IH]; [reflexivity|].
    cbn [map forallb]. now rewrite clean_comment_line, IH. }
  destruct (Nat.ltb 1 _); cbn [clean]; exact H.
Qed.

Lemma clean_uncomment d : clean d = true -> clean (uncomment d) = true.
Proof. destruct d; auto. destruct a; auto. Qed.

Lemma clean_bracket ctx l c r : clean l = true -> clean c = true -> clean r = true -> clean (bracket ctx l c r) = true.
Proof. intros Hl Hc Hr. unfold bracket. cl. now rewrite Hl, Hc, Hr. Qed.

Lemma clean_seq_parts dangle : forall docs, forallb clean docs = true -> forallb clean (seq_parts sp lb docs dangle) = true.
Proof.
  induction docs as [|d tl IH]; intros H; [reflexivity|]. cbn [forallb] in H. apply andb_prop in H as [Hd H].
  cbn [seq_parts]. destruct (is_commented d) as [c|].
  - cbn [forallb]. rewrite (IH H). cl. rewrite Hd, clean_commentdoc.
    destruct tl, dangle; reflexivity.
  - destruct tl; cbn [forallb]; [now rewrite Hd|]. rewrite Hd, (IH H). reflexivity.
Qed.

Lemma clean_sequence_of_docs ctx l docs r dangle fb :
  clean l = true -> clean r = true -> forallb clean docs = true ->
  clean (sequence_of_docs sp lb ctx l docs r dangle fb) = true.
Proof.
  intros Hl Hr Hd. unfold sequence_of_docs. cbv zeta.
  assert (HB : clean (bracket ctx l (Cat (seq_parts sp lb docs dangle ++
               (if dangle && negb (nonempty_docs docs && match is_commented (last docs Nil) with Some _ => true | None => false end)
                then [COMMA] else []))) r) = true).
  { apply clean_bracket; auto. rewrite clean_cat, forallb_app, (clean_seq_parts dangle docs Hd).
    destruct (dangle && negb _); reflexivity. }
  destruct (_ || _); cbn [clean]; exact HB.
Qed.

Lemma clean_fncall_parts : forall docs hc, forallb clean docs = true ->
  forallb clean (fst (fncall_parts sp lb docs hc)) = true.
Proof.
  induction docs as [|d tl IH]; intros hc H; [reflexivity|]. cbn [forallb] in H. apply andb_prop in H as [Hd H].
  cbn [fncall_parts]. 
  destruct (fncall_parts sp lb tl (match is_commented d with Some _ => true | None => hc end)) as [rest hc'] eqn:E.
  cbn [fst forallb]. specialize (IH (match is_commented d with Some _ => true | None => hc end) H). rewrite E in IH.
  cbn [fst] in IH. rewrite IH. rewrite andb_true_r.
  pose proof (clean_uncomment d Hd) as Hu.
  destruct (is_commented d) as [c|]; destruct tl; cl; rewrite ?Hu, ?clean_commentdoc; try reflexivity;
    destruct hc; reflexivity.
Qed.

Lemma clean_kwarg_doc kv : clean (snd kv) = true -> clean (kwarg_doc kv) = true.
Proof.
  destruct kv as [k d]. cbn [snd]. intros H. unfold kwarg_doc.
  destruct d as [| | | | | | | | |an x| | | |];
    try (rewrite clean_cat; cbn [forallb]; rewrite H; reflexivity).
  destruct an; try (rewrite clean_cat; cbn [forallb]; rewrite H; reflexivity).
  cbn [clean] in H. change (clean (Annot (AComment s) (Cat [tok T_NAME_VARIABLE k; ASSIGN_OP; x]))) with (clean (Cat [tok T_NAME_VARIABLE k; ASSIGN_OP; x])).
  rewrite clean_cat. cbn [forallb]. rewrite H. reflexivity.
Qed.

Lemma clean_build_fncall ctx fndoc argdocs kwargdocs hug :
  clean fndoc = true -> forallb clean argdocs = true -> forallb (fun kv => clean (snd kv)) kwargdocs = true ->
  clean (build_fncall sp lb ctx fndoc argdocs kwargdocs hug) = true.
Proof.
  intros Hf Ha Hk. unfold build_fncall.
  assert (Hkw : forallb clean (map kwarg_doc kwargdocs) = true).
  { induction kwargdocs as [|kv tl IH]; [reflexivity|]. cbn [forallb map] in *. apply andb_prop in Hk as [H1 H2].
    now rewrite (clean_kwarg_doc kv H1), IH. }
  assert (Gen : clean (let '(parts, has_comment) := fncall_parts sp lb (argdocs ++ map kwarg_doc kwargdocs) false in
                       let body := Cat [fndoc; LPAREN; Nest (c_indent ctx) (Cat [SOFTLINE; Cat parts]); SOFTLINE; RPAREN] in
                       if has_comment then AlwaysBreak body else Group body) = true).
  { pose proof (clean_fncall_parts (argdocs ++ map kwarg_doc kwargdocs) false) as HP.
    rewrite forallb_app, Ha, Hkw in HP. specialize (HP eq_refl).
    destruct (fncall_parts sp lb (argdocs ++ map kwarg_doc kwargdocs) false) as [parts hcm]. cbn [fst] in HP.
    destruct hcm; cl; now rewrite Hf, HP. }
  destruct argdocs as [|a0 args']; destruct (map kwarg_doc kwargdocs) as [|k0 kr] eqn:Ek.
  - cl. now rewrite Hf.
  - rewrite !andb_false_r. exact Gen.
  - destruct (hug && true && _); [|exact Gen]. cbn [forallb] in Ha. apply andb_prop in Ha as [Ha0 _].
    cl. cbn [hd]. now rewrite Hf, Ha0.
  - rewrite !andb_false_r. exact Gen.
Qed.

Lemma clean_call_alt_d ctx f h same nested kws :
  forallb clean (same tt) = true -> forallb clean (nested tt) = true ->
  forallb (fun kv => clean (snd kv)) (kws tt) = true ->
  clean (call_alt_d sp lb ctx f h same nested kws) = true.
Proof.
  intros Hs Hn Hk. unfold call_alt_d. destruct (depth_le0 ctx); [reflexivity|].
  destruct h; apply clean_build_fncall; auto.
Qed.

Lemma clean_dict_part ctx last k x xp :
  clean k = true -> clean x = true -> clean (xp tt) = true ->
  clean (fst (dict_part sp lb ctx last k x xp)) = true.
Proof.
  intros Hk Hx Hp. unfold dict_part. cbn [fst].
  pose proof (clean_uncomment k Hk) as Huk. pose proof (clean_uncomment x Hx) as Hux.
  destruct (is_commented k) as [kc|], (is_commented x) as [vc|]; cl;
    rewrite ?Huk, ?Hux, ?Hp, ?clean_commentdoc; destruct last; reflexivity.
Qed.

Lemma clean_dict_parts ctx : forall l,
  forallb (fun t => clean (fst (fst t)) && clean (snd (fst t)) && clean (snd t tt)) l = true ->
  forallb clean (fst (dict_parts sp lb ctx l)) = true.
Proof.
  induction l as [|[[k x] xp] tl IH]; intros H; [reflexivity|].
  cbn [forallb fst snd] in H. apply andb_prop in H as [H1 H]. apply andb_prop in H1 as [H1 Hp].
  apply andb_prop in H1 as [Hk Hx].
  cbn [dict_parts]. pose proof (clean_dict_part ctx (match tl with [] => true | _ => false end) k x xp Hk Hx Hp) as HP.
  destruct (dict_part sp lb ctx _ k x xp) as [part hc]. specialize (IH H).
  destruct (dict_parts sp lb ctx tl) as [rest hc']. cbn [fst forallb] in *. now rewrite HP, IH.
Qed.

Lemma forallb_take {A} (f : A -> bool) n : forall l, forallb f l = true -> forallb f (take_z n l) = true.
Proof.
  intros l. revert n. induction l as [|x tl IH]; intros n H; cbn [take_z]; [reflexivity|].
  cbn [forallb] in H. apply andb_prop in H as [Hx Ht]. destruct (n <=? 0)%Z; cbn [forallb]; [reflexivity|].
  rewrite Hx. cbn [andb]. now apply IH.
Qed.
Lemma forallb_reorder {A} (f : A -> bool) l order : forallb f l = true -> forallb f (reorder l order) = true.
Proof.
  intros H. induction order as [|i tl IH]; [reflexivity|]. cbn [reorder].
  destruct (nth_error l i) as [x|] eqn:E; [|exact IH]. cbn [forallb]. rewrite IH, andb_true_r.
  apply nth_error_In in E. rewrite forallb_forall in H. auto.
Qed.

Lemma clean_seq_d ctx kind len sub tr els :
  forallb clean (els tt) = true -> clean (seq_d sp lb ctx kind len sub tr els) = true.
Proof.
  intros He. unfold seq_d. cbv zeta.
  assert (Hb : forall k, let '(lft, rgt) := match k with 0%nat => (LBRACKET, RBRACKET) | 1%nat => (LPAREN, RPAREN)
                                            | _ => (LBRACE, RBRACE) end in clean lft = true /\ clean rgt = true).
  { intros [|[|k]]; split; reflexivity. }
  specialize (Hb kind). destruct (match kind with 0%nat => _ | 1%nat => _ | _ => _ end) as [lft rgt]. destruct Hb as [Hl Hr].
  destruct len as [|n].
  - destruct (negb (is_some sub) && Nat.ltb kind 2); [cl; now rewrite Hl, Hr|].
    apply clean_call_alt_d; reflexivity.
  - destruct (depth_is0 ctx).
    + destruct (Nat.ltb kind 2).
      * assert (HL : clean (Cat [lft; ELLIPSIS; rgt]) = true) by (cl; now rewrite Hl, Hr).
        destruct (negb (is_some sub)); [exact HL|]. apply clean_build_fncall; cbn [forallb]; try reflexivity. now rewrite HL.
      * apply clean_call_alt_d; reflexivity.
    + set (els0 := match S n with 1%nat => els tt | _ => take_z (c_maxlen ctx) (els tt) end).
      assert (H0 : forallb clean els0 = true) by (unfold els0; destruct n; [exact He|now apply forallb_take]).
      set (tr' := if (c_maxlen ctx <? Z.of_nat (S n))%Z then _ else tr).
      assert (HL : clean (let '(els1, dangle) := match tr' with
                                                 | Some t => (els0 ++ [commentdoc sp lb t], false)
                                                 | None => (els0, Nat.eqb kind 1 && Nat.eqb (S n) 1) end in
                          sequence_of_docs sp lb ctx lft els1 rgt dangle (is_some tr')) = true).
      { destruct tr' as [t|]; apply clean_sequence_of_docs; auto.
        rewrite forallb_app, H0. cbn [forallb]. now rewrite clean_commentdoc. }
      destruct (match tr' with Some t => _ | None => _ end) as [els1 dangle].
      destruct (negb (is_some sub)); [exact HL|]. apply clean_build_fncall; cbn [forallb]; try reflexivity. now rewrite HL.
Qed.

Lemma clean_dict_d ctx sub tr so triples :
  forallb (fun t => clean (fst (fst t)) && clean (snd (fst t)) && clean (snd t tt)) (triples tt) = true ->
  clean (dict_d sp lb ctx sub tr so triples) = true.
Proof.
  intros Ht. unfold dict_d. cbv zeta. destruct (depth_is0 ctx).
  - destruct (negb (is_some sub)); [reflexivity|]. apply clean_build_fncall; reflexivity.
  - set (tr' := if (c_maxlen ctx <? _)%Z then _ else tr).
    set (shown := take_z (c_maxlen ctx) (if c_sort ctx then reorder (triples tt) so else triples tt)).
    assert (Hs : forallb (fun t => clean (fst (fst t)) && clean (snd (fst t)) && clean (snd t tt)) shown = true).
    { unfold shown. apply forallb_take. destruct (c_sort ctx); [now apply forallb_reorder|exact Ht]. }
    pose proof (clean_dict_parts ctx shown Hs) as HP. destruct (dict_parts sp lb ctx shown) as [parts0 hc0]. cbn [fst] in HP.
    set (parts := match tr' with Some t => parts0 ++ [Cat [HardLine; commentdoc sp lb t]] | None => parts0 end).
    assert (Hparts : forallb clean parts = true).
    { unfold parts. destruct tr' as [t|]; [|exact HP]. rewrite forallb_app, HP. cl. now rewrite clean_commentdoc. }
    assert (Hd : forall b : bool, clean (if b then AlwaysBreak (bracket ctx LBRACE (Cat parts) RBRACE)
                                         else Group (bracket ctx LBRACE (Cat parts) RBRACE)) = true).
    { intros b. assert (HB : clean (bracket ctx LBRACE (Cat parts) RBRACE) = true)
        by (apply clean_bracket; try reflexivity; now rewrite clean_cat).
      destruct b; cl; exact HB. }
    destruct (negb (is_some sub)); [apply Hd|].
    destruct parts; [apply clean_call_alt_d; reflexivity|].
    apply clean_build_fncall; cbn [forallb]; try reflexivity. now rewrite Hd.
Qed.

Lemma clean_num_d ctx t base lit sub : clean (num_d sp lb ctx t base lit sub) = true.
Proof.
  unfold num_d. destruct (depth_is0 ctx); [apply clean_call_alt_d; reflexivity|].
  destruct sub; [apply clean_build_fncall; reflexivity|reflexivity].
Qed.

Lemma clean_frozen_d ctx len sub lst : clean (lst tt) = true -> clean (frozen_d sp lb ctx len sub lst) = true.
Proof.
  intros H. unfold frozen_d. destruct len; apply clean_call_alt_d; cbn [forallb]; try reflexivity. now rewrite H.
Qed.

(** values without strings (special floats and paths print through the string printer) *)
Fixpoint nostr (v : pyval) : Prop :=
  match v with
  | VStr _ | VBytes _ | VInf | VNegInf | VNan | VPath _ _ => False
  | VList l | VTuple l | VSet l | VFrozenset l =>
      (fix all (l : list pyval) : Prop := match l with [] => True | x :: tl => nostr x /\ all tl end) l
  | VDict kvs _ =>
      (fix all (l : list (pyval * pyval)) : Prop :=
         match l with [] => True | (k, x) :: tl => nostr k /\ nostr x /\ all tl end) kvs
  | VSub _ b => nostr b
  | VCommented x _ | VTrailing x _ => nostr x
  | VCall _ args kw =>
      (fix all (l : list pyval) : Prop := match l with [] => True | x :: tl => nostr x /\ all tl end) args /\
      (fix all (l : list (str * pyval)) : Prop := match l with [] => True | (_, x) :: tl => nostr x /\ all tl end) kw
  | _ => True
  end.

Lemma nostr_list l :
  (fix all (l : list pyval) : Prop := match l with [] => True | x :: tl => nostr x /\ all tl end) l ->
  forall x, In x l -> nostr x.
Proof. induction l as [|y tl IH]; intros H x Hx; [destruct Hx|]. destruct H, Hx; subst; auto. Qed.
Lemma nostr_dict kvs :
  (fix all (l : list (pyval * pyval)) : Prop :=
     match l with [] => True | (k, x) :: tl => nostr k /\ nostr x /\ all tl end) kvs ->
  forall k x, In (k, x) kvs -> nostr k /\ nostr x.
Proof. induction kvs as [|[k0 x0] tl IH]; intros H k x Hx; [destruct Hx|]. destruct H as (?&?&?), Hx as [E|Hx]; [inv E; auto|auto]. Qed.
Lemma nostr_kw (kw : list (str * pyval)) :
  (fix all (l : list (str * pyval)) : Prop := match l with [] => True | (_, x) :: tl => nostr x /\ all tl end) kw ->
  forall k x, In (k, x) kw -> nostr x.
Proof. induction kw as [|[k0 x0] tl IH]; intros H k x Hx; [destruct Hx|]. destruct H, Hx as [E|Hx]; [inv E; auto|eauto]. Qed.

Notation pretty_pv := (pretty_pv sp lb).

Lemma clean_finish (cm : option str) d : clean d = true ->
  clean (match truthy cm with Some c => Annot (AComment c) d | None => d end) = true.
Proof. intros H. destruct (truthy cm); exact H. Qed.

Lemma key_nostr ctx k : nostr k -> key_doc_ sp lb ctx k = pretty_pv k (nested_call ctx) None None.
Proof.
  intros H. destruct k; try reflexivity; try contradiction. cbn [nostr] in H.
  destruct k; try reflexivity; contradiction.
Qed.

Lemma forallb_map_in {A} (f : A -> doc) l : (forall x, In x l -> clean (f x) = true) -> forallb clean (map f l) = true.
Proof.
  induction l as [|x tl IH]; intros H; [reflexivity|]. cbn [map forallb]. rewrite (H x (or_introl eq_refl)).
  apply IH. intros y Hy. apply H. now right.
Qed.

Definition CleanV (v : pyval) : Prop := forall ctx cm tr, nostr v -> clean (pretty_pv v ctx cm tr) = true.

Lemma clean_elems ctx l : (forall x, In x l -> nostr x /\ CleanV x) ->
  forallb clean (match l with
                 | [x] => [pretty_pv x (with_strategy (nested_call ctx) MPlain) None None]
                 | _ => map (fun x => pretty_pv x (nested_hang ctx) None None) l
                 end) = true.
Proof.
  intros H.
  assert (G : forall c', forallb clean (map (fun x => pretty_pv x c' None None) l) = true).
  { intros c'. apply forallb_map_in. intros x Hx. destruct (H x Hx) as [Hn Hc]. now apply Hc. }
  destruct l as [|x [|y tl]]; apply G.
Qed.

Lemma clean_triples ctx kvs : (forall k x, In (k, x) kvs -> (nostr k /\ CleanV k) /\ (nostr x /\ CleanV x)) ->
  forallb (fun t : doc * doc * (unit -> doc) => clean (fst (fst t)) && clean (snd (fst t)) && clean (snd t tt))
    (map (fun '(k, x) => (key_doc_ sp lb ctx k,
                          pretty_pv x (with_strategy (nested_call ctx) MIndented) None None,
                          fun _ : unit => pretty_pv x (with_strategy (nested_call ctx) MPlain) None None)) kvs) = true.
Proof.
  induction kvs as [|[k x] tl IH]; intros H; [reflexivity|]. cbn [map forallb fst snd].
  destruct (H k x (or_introl eq_refl)) as [[Hnk Hck] [Hnx Hcx]].
  rewrite (key_nostr ctx k Hnk), (Hck _ None None Hnk), !(Hcx _ None None Hnx). cbn [andb].
  apply IH. intros k' x' Hin. apply H. now right.
Qed.

Lemma clean_n : forall n v, (vsize v <= n)%nat -> CleanV v.
Proof.
  induction n as [|n IHn]; intros v Hn.
  { destruct v; cbn in Hn; lia. }
  destruct v as [z|b| | |r| | | |s|s|l|l|l|l|kvs so|w v|v c|v c|f args kwargs|w s|r];
    intros ctx cm tr Hs; cbn [Printers.pretty_pv]; try contradiction; try apply clean_finish.
  - apply clean_num_d.
  - destruct b; reflexivity.
  - reflexivity.
  - reflexivity.
  - apply clean_num_d.
  - rewrite vsize_list in Hn. apply clean_seq_d. apply clean_elems. intros x Hx. split; [exact (nostr_list l Hs x Hx)|].
    apply IHn. apply vsum_in in Hx. lia.
  - rewrite vsize_tuple in Hn. apply clean_seq_d. apply clean_elems. intros x Hx. split; [exact (nostr_list l Hs x Hx)|].
    apply IHn. apply vsum_in in Hx. lia.
  - rewrite vsize_set in Hn. apply clean_seq_d. apply clean_elems. intros x Hx. split; [exact (nostr_list l Hs x Hx)|].
    apply IHn. apply vsum_in in Hx. lia.
  - rewrite vsize_frozenset in Hn. apply clean_frozen_d. apply clean_seq_d. apply clean_elems.
    intros x Hx. split; [exact (nostr_list l Hs x Hx)|]. apply IHn. apply vsum_in in Hx. lia.
  - (* dict *)
    rewrite vsize_dict in Hn. apply clean_dict_d. apply (clean_triples ctx kvs).
    intros k x Hin. destruct (nostr_dict kvs Hs k x Hin) as [Hk Hx]. apply kvsum_in in Hin.
    repeat split; auto; apply IHn; lia.
  - (* sub *)
    cbn [nostr vsize] in Hs, Hn.
    destruct v as [z|b| | |r| | | |s|s|l|l|l|l|kvs so|w' v'|v' c'|v' c'|f' args' kwargs'|w' s|r]; try reflexivity;
      try contradiction.
    + apply clean_num_d.
    + apply clean_num_d.
    + rewrite vsize_list in Hn. apply clean_seq_d. apply clean_elems. intros x Hx. split; [exact (nostr_list l Hs x Hx)|].
      apply IHn. apply vsum_in in Hx. lia.
    + rewrite vsize_tuple in Hn. apply clean_seq_d. apply clean_elems. intros x Hx. split; [exact (nostr_list l Hs x Hx)|].
      apply IHn. apply vsum_in in Hx. lia.
    + rewrite vsize_set in Hn. apply clean_seq_d. apply clean_elems. intros x Hx. split; [exact (nostr_list l Hs x Hx)|].
      apply IHn. apply vsum_in in Hx. lia.
    + rewrite vsize_frozenset in Hn. apply clean_frozen_d. apply clean_seq_d. apply clean_elems.
      intros x Hx. split; [exact (nostr_list l Hs x Hx)|]. apply IHn. apply vsum_in in Hx. lia.
    + rewrite vsize_dict in Hn. apply clean_dict_d. apply (clean_triples ctx kvs).
      intros k x Hin. destruct (nostr_dict kvs Hs k x Hin) as [Hk Hx]. apply kvsum_in in Hin.
      repeat split; auto; apply IHn; lia.
  - (* commented *) cbn [vsize nostr] in *. apply IHn; [lia|exact Hs].
  - (* trailing *) cbn [vsize nostr] in *. apply IHn; [lia|exact Hs].
  - (* call *)
    rewrite vsize_call in Hn. destruct Hs as [Ha Hk].
    apply clean_call_alt_d.
    + apply forallb_map_in. intros a Hin. apply IHn; [apply vsum_in in Hin; lia|exact (nostr_list args Ha a Hin)].
    + apply forallb_map_in. intros a Hin. apply IHn; [apply vsum_in in Hin; lia|exact (nostr_list args Ha a Hin)].
    + assert (IHk : forall k x, In (k, x) kwargs -> clean (pretty_pv x (nested_hang ctx) None None) = true).
      { intros k x Hin. apply IHn; [apply kwsum_in in Hin; lia|exact (nostr_kw kwargs Hk k x Hin)]. }
      clear Hn Hk Ha. induction kwargs as [|[k x] tl IHl]; [reflexivity|]. cbn [map forallb snd].
      rewrite (IHk k x (or_introl eq_refl)). apply IHl. intros k' x' Hin. apply (IHk k'). now right.
  - reflexivity.
Qed.

Theorem clean_pretty v ctx cm tr : nostr v -> clean (pretty_pv v ctx cm tr) = true.
Proof. exact (clean_n (vsize v) v (le_n _) ctx cm tr). Qed.

Theorem clean_top_doc v indent depth maxlen sort : nostr v -> clean (top_doc sp lb v indent depth maxlen sort) = true.
Proof.
  intros H. unfold top_doc. pose proof (clean_pretty v (mkCtx indent depth MPlain maxlen sort) None None H) as Hc.
  destruct (is_commented _); [|exact Hc]. cl. now rewrite Hc, clean_commentdoc.
Qed.


End CD.

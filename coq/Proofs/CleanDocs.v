(** The documents the printers build for values without strings contain no
    contextual string document (and no layout-stack residue), so the bridge
    theorem of LayToks.v applies to them. *)
From Coq Require Import Lia.
From PP Require Import Doc PyStr PyVal Consts Printers PyExpr LayToks PrettyToks3.

Ltac inv H := inversion H; subst; clear H.

Lemma clean_cat l : clean (Cat l) = forallb clean l.
Proof. cbn [clean]. apply clean_list. Qed.
Lemma clean_fill l : clean (Fill l) = forallb clean l.
Proof. cbn [clean]. apply clean_list. Qed.

Lemma clean_nest i x : clean (Nest i x) = clean x. Proof. reflexivity. Qed.
Lemma clean_group x : clean (Group x) = clean x. Proof. reflexivity. Qed.
Lemma clean_ab x : clean (AlwaysBreak x) = clean x. Proof. reflexivity. Qed.
Lemma clean_annot a x : clean (Annot a x) = clean x. Proof. reflexivity. Qed.
Lemma clean_fc b f : clean (FlatChoice b f) = clean b && clean f. Proof. reflexivity. Qed.

Ltac cl := repeat (progress (rewrite ?clean_cat, ?clean_fill, ?clean_nest, ?clean_group, ?clean_ab, ?clean_annot,
                                ?clean_fc, ?forallb_app; cbn [forallb])).

Section CD.
Variable sp lb : N -> bool.

Lemma clean_intersperse x l : clean x = true -> forallb clean l = true -> forallb clean (intersperse x l) = true.
Proof.
  intros Hx. induction l as [|y [|z tl] IH]; intros H; cbn [intersperse forallb] in *; auto.
  apply andb_prop in H as [Hy H]. rewrite Hy, Hx. cbn [andb]. apply IH. exact H.
Qed.

Lemma clean_comment_items : forall l b, forallb clean (comment_items l b) = true.
Proof. induction l as [|p tl IH]; intros b; [reflexivity|]. cbn [comment_items forallb]. rewrite IH. destruct b; reflexivity. Qed.

Lemma clean_comment_line line : clean (comment_line sp line) = true.
Proof.
  unfold comment_line. cl. rewrite clean_comment_items.
  destruct (filter nonempty (re_split sp line)) as [|p tl]; [reflexivity|].
  destruct (existsb sp (firstn 1 p)); reflexivity.
Qed.

Lemma clean_commentdoc t : clean (commentdoc sp lb t) = true.
Proof.
  unfold commentdoc. cbn [clean].
  assert (H : clean (Cat (intersperse HardLine (map (comment_line sp) (splitlines lb t)))) = true).
  { cl. apply clean_intersperse; [reflexivity|]. induction (splitlines lb t) as [|x tl IH]; [reflexivity|].
    cbn [map forallb]. now rewrite clean_comment_line, IH. }
  destruct (Nat.ltb 1 _); cbn [clean]; exact H.
Qed.

Lemma clean_uncomment d : clean d = true -> clean (uncomment d) = true.
Proof. destruct d; auto. destruct a; auto. Qed.

Lemma clean_bracket ctx l c r : clean l = true -> clean c = true -> clean r = true -> clean (bracket ctx l c r) = true.
Proof. intros Hl Hc Hr. unfold bracket. cl. now rewrite Hl, Hc, Hr. Qed.

Lemma clean_seq_parts dangle : forall docs, forallb clean docs = true -> forallb clean (seq_parts sp lb docs dangle) = true.
Proof.
  induction docs as [|d tl IH]; intros H; [reflexivity|]. cbn [forallb] in H. apply andb_prop in H as [Hd H].
  cbn [seq_parts]. destruct (is_commented d) as [c|].
  - cbn [forallb]. rewrite (IH H). cl. rewrite Hd, clean_commentdoc.
    destruct tl, dangle; reflexivity.
  - destruct tl; cbn [forallb]; [now rewrite Hd|]. rewrite Hd, (IH H). reflexivity.
Qed.

Lemma clean_sequence_of_docs ctx l docs r dangle fb :
  clean l = true -> clean r = true -> forallb clean docs = true ->
  clean (sequence_of_docs sp lb ctx l docs r dangle fb) = true.
Proof.
  intros Hl Hr Hd. unfold sequence_of_docs. cbv zeta.
  assert (HB : clean (bracket ctx l (Cat (seq_parts sp lb docs dangle ++
               (if dangle && negb (nonempty_docs docs && match is_commented (last docs Nil) with Some _ => true | None => false end)
                then [COMMA] else []))) r) = true).
  { apply clean_bracket; auto. rewrite clean_cat, forallb_app, (clean_seq_parts dangle docs Hd).
    destruct (dangle && negb _); reflexivity. }
  destruct (_ || _); cbn [clean]; exact HB.
Qed.

Lemma clean_fncall_parts : forall docs hc, forallb clean docs = true ->
  forallb clean (fst (fncall_parts sp lb docs hc)) = true.
Proof.
  induction docs as [|d tl IH]; intros hc H; [reflexivity|]. cbn [forallb] in H. apply andb_prop in H as [Hd H].
  cbn [fncall_parts]. 
  destruct (fncall_parts sp lb tl (match is_commented d with Some _ => true | None => hc end)) as [rest hc'] eqn:E.
  cbn [fst forallb]. specialize (IH (match is_commented d with Some _ => true | None => hc end) H). rewrite E in IH.
  cbn [fst] in IH. rewrite IH. rewrite andb_true_r.
  pose proof (clean_uncomment d Hd) as Hu.
  destruct (is_commented d) as [c|]; destruct tl; cl; rewrite ?Hu, ?clean_commentdoc; try reflexivity;
    destruct hc; reflexivity.
Qed.

Lemma clean_kwarg_doc kv : clean (snd kv) = true -> clean (kwarg_doc kv) = true.
Proof.
  destruct kv as [k d]. cbn [snd]. intros H. unfold kwarg_doc.
  destruct d as [| | | | | | | | |an x| | | |];
    try (rewrite clean_cat; cbn [forallb]; rewrite H; reflexivity).
  destruct an; try (rewrite clean_cat; cbn [forallb]; rewrite H; reflexivity).
  cbn [clean] in H. change (clean (Annot (AComment s) (Cat [tok T_NAME_VARIABLE k; ASSIGN_OP; x]))) with (clean (Cat [tok T_NAME_VARIABLE k; ASSIGN_OP; x])).
  rewrite clean_cat. cbn [forallb]. rewrite H. reflexivity.
Qed.

Lemma clean_build_fncall ctx fndoc argdocs kwargdocs hug :
  clean fndoc = true -> forallb clean argdocs = true -> forallb (fun kv => clean (snd kv)) kwargdocs = true ->
  clean (build_fncall sp lb ctx fndoc argdocs kwargdocs hug) = true.
Proof.
  intros Hf Ha Hk. unfold build_fncall.
  assert (Hkw : forallb clean (map kwarg_doc kwargdocs) = true).
  { induction kwargdocs as [|kv tl IH]; [reflexivity|]. cbn [forallb map] in *. apply andb_prop in Hk as [H1 H2].
    now rewrite (clean_kwarg_doc kv H1), IH. }
  assert (Gen : clean (let '(parts, has_comment) := fncall_parts sp lb (argdocs ++ map kwarg_doc kwargdocs) false in
                       let body := Cat [fndoc; LPAREN; Nest (c_indent ctx) (Cat [SOFTLINE; Cat parts]); SOFTLINE; RPAREN] in
                       if has_comment then AlwaysBreak body else Group body) = true).
  { pose proof (clean_fncall_parts (argdocs ++ map kwarg_doc kwargdocs) false) as HP.
    rewrite forallb_app, Ha, Hkw in HP. specialize (HP eq_refl).
    destruct (fncall_parts sp lb (argdocs ++ map kwarg_doc kwargdocs) false) as [parts hcm]. cbn [fst] in HP.
    destruct hcm; cl; now rewrite Hf, HP. }
  destruct argdocs as [|a0 args']; destruct (map kwarg_doc kwargdocs) as [|k0 kr] eqn:Ek.
  - cl. now rewrite Hf.
  - rewrite !andb_false_r. exact Gen.
  - destruct (hug && true && _); [|exact Gen]. cbn [forallb] in Ha. apply andb_prop in Ha as [Ha0 _].
    cl. cbn [hd]. now rewrite Hf, Ha0.
  - rewrite !andb_false_r. exact Gen.
Qed.

End CD.

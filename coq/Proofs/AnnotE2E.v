(** C04, annotations, end to end: what the engine emits - for any document
    without layout-stack residue, and for pformat's document of any value -
    has properly nested annotation pushes and pops; erasing the annotations
    from the document erases exactly the pushes and pops from the layout. *)
From Coq Require Import Lia ZArith.
From PP Require Import Doc Normalize Layout Render Sem PyStr PyVal Consts Printers Pformat Membership
  IndentMult NestDocs IndentE2E AnnotProofs.

Lemma nestk_nopop k : forall d, nestk k d = true -> nopop d = true.
Proof.
  induction d using DocInd.doc_ind'; cbn [nestk nopop]; intros Hn; try reflexivity; try discriminate; auto.
  - rewrite nestk_list in Hn. rewrite nopop_list. rewrite forallb_forall in Hn. apply forallb_forall. intros x Hx.
    rewrite Forall_forall in H. auto.
  - apply andb_prop in Hn as [_ Hn]. auto.
  - apply andb_prop in Hn as [? ?]. apply andb_true_intro. auto.
  - apply andb_prop in Hn as [? ?]. apply andb_true_intro. auto.
  - rewrite nestk_list in Hn. rewrite nopop_list. rewrite forallb_forall in Hn. apply forallb_forall. intros x Hx.
    rewrite Forall_forall in H. auto.
Qed.

Theorem engine_wellnested (evs : strp -> Z -> Z -> Z -> Z -> doc) w rw fuel ff smart d out :
  (forall p i c, nopop (evs p i c w rw) = true) -> nopop d = true ->
  best_layout evs fuel ff smart w rw d = Some out -> WN (strip out).
Proof.
  intros He Hd H. apply membership in H as [c' HL]. exact (lay_wellnested evs w rw He _ _ _ _ _ _ HL Hd).
Qed.

Theorem engine_erase (evs : strp -> Z -> Z -> Z -> Z -> doc) w rw fuel ff smart d out :
  best_layout evs fuel ff smart w rw d = Some out ->
  exists c', Lay (evs' evs) w rw MBreak 0 0 (erase d) (drop_ann (strip out)) c'.
Proof. intros H. apply membership in H as [c' HL]. exists c'. now apply lay_erase. Qed.

Section P.
Variable printable sp wd lb : N -> bool.

Theorem pformat_wellnested fuel ff v indent width rw depth maxlen sort out :
  sdocs_model printable sp wd lb fuel ff v indent width rw depth maxlen sort = Some out -> WN (strip out).
Proof.
  intros H. unfold sdocs_model in H.
  apply (engine_wellnested (evs printable sp wd lb) width rw fuel ff true (top_doc sp lb v indent depth maxlen sort) out); [| |exact H].
  - intros p i c. apply (nestk_nopop (sp_indent p)). apply evs_ok.
  - apply (nestk_nopop indent). apply nk_top_doc.
Qed.

End P.

(** C15: the registry/deferred/predicate machinery refines the abstract rule
    "nearest class in the MRO with a (latest) registration, else first
    predicate, else repr", for every history. *)
From Coq Require Import Arith Bool.
From PP Require Import Doc Dispatch.

Lemma alookup_aupdate_same k v m : alookup k (aupdate k v m) = Some v.
Proof.
  induction m as [|[k' v'] tl IH]; cbn [aupdate alookup].
  - now rewrite Nat.eqb_refl.
  - destruct (Nat.eqb k k') eqn:E; cbn [alookup]; rewrite ?Nat.eqb_refl, ?E; auto.
Qed.

Lemma alookup_aupdate_other k k' v m : k <> k' -> alookup k (aupdate k' v m) = alookup k m.
Proof.
  intros Hne. induction m as [|[k2 v2] tl IH]; cbn [aupdate alookup].
  - apply Nat.eqb_neq in Hne. now rewrite Hne.
  - destruct (Nat.eqb k' k2) eqn:E; cbn [alookup].
    + apply Nat.eqb_eq in E. subst k2. apply Nat.eqb_neq in Hne. now rewrite Hne.
    + destruct (Nat.eqb k k2); auto.
Qed.

Lemma alookup_aremove_same k m : alookup k (aremove k m) = None.
Proof.
  induction m as [|[k' v'] tl IH]; cbn [aremove alookup]; [reflexivity|].
  destruct (Nat.eqb k k') eqn:E; cbn [alookup]; rewrite ?E; auto.
Qed.

Lemma alookup_aremove_other k k' m : k <> k' -> alookup k (aremove k' m) = alookup k m.
Proof.
  intros Hne. induction m as [|[k2 v2] tl IH]; cbn [aremove alookup]; [reflexivity|].
  destruct (Nat.eqb k' k2) eqn:E; cbn [alookup].
  - apply Nat.eqb_eq in E. subst k2. apply Nat.eqb_neq in Hne. now rewrite Hne.
  - destruct (Nat.eqb k k2); auto.
Qed.

Section DispatchProofs.
Variable mro : cls -> list cls.
Variable accepts : pd -> nat -> bool.
Hypothesis mro_head : forall c, exists tl, mro c = c :: tl.

(** the abstraction: a deferred entry is always the newest registration *)
Definition absmap (st : dstate) (c : cls) : option nat :=
  match alookup c (d_dfr st) with Some p => Some p | None => alookup c (d_reg st) end.

Fixpoint first_abs (l : list cls) (st : dstate) : option nat :=
  match l with
  | [] => None
  | s :: tl => match absmap st s with Some v => Some v | None => first_abs tl st end
  end.

Definition Inv (st : dstate) (s : sstate) : Prop :=
  (forall c, absmap st c = alookup c (s_latest s)) /\ d_preds st = s_preds s.

Lemma promote_abs st s c : absmap (promote st s) c = absmap st c.
Proof.
  unfold promote. destruct (alookup s (d_dfr st)) as [p|] eqn:E; [|reflexivity].
  unfold absmap. cbn [d_reg d_dfr]. destruct (Nat.eq_dec c s) as [->|Hne].
  - now rewrite alookup_aremove_same, alookup_aupdate_same, E.
  - now rewrite (alookup_aremove_other _ _ _ Hne), (alookup_aupdate_other _ _ _ _ Hne).
Qed.

Lemma promote_preds st s : d_preds (promote st s) = d_preds st.
Proof. unfold promote. now destruct (alookup s (d_dfr st)). Qed.

Lemma isreg_abs st c cs cd rd x :
  absmap (snd (isreg mro st c cs cd rd)) x = absmap st x.
Proof.
  unfold isreg. destruct (negb cd && rd); [reflexivity|].
  destruct (cd && ahas c (d_dfr st)); [destruct rd; cbn [snd]; auto using promote_abs|].
  destruct (ahas c (d_reg st)); [reflexivity|]. destruct (negb cs); [reflexivity|].
  destruct (if cd then first_in (tl (mro c)) (d_dfr st) else None); [|reflexivity].
  destruct rd; cbn [snd]; auto using promote_abs.
Qed.

Lemma isreg_preds st c cs cd rd : d_preds (snd (isreg mro st c cs cd rd)) = d_preds st.
Proof.
  unfold isreg. destruct (negb cd && rd); [reflexivity|].
  destruct (cd && ahas c (d_dfr st)); [destruct rd; cbn [snd]; auto using promote_preds|].
  destruct (ahas c (d_reg st)); [reflexivity|]. destruct (negb cs); [reflexivity|].
  destruct (if cd then first_in (tl (mro c)) (d_dfr st) else None); [|reflexivity].
  destruct rd; cbn [snd]; auto using promote_preds.
Qed.

(** with register_deferred = False, is_registered has no effect *)
Lemma isreg_pure st c cs cd : snd (isreg mro st c cs cd false) = st.
Proof.
  unfold isreg. destruct (negb cd && false); [reflexivity|].
  destruct (cd && ahas c (d_dfr st)); [reflexivity|].
  destruct (ahas c (d_reg st)); [reflexivity|]. destruct (negb cs); [reflexivity|].
  now destruct (if cd then first_in (tl (mro c)) (d_dfr st) else None).
Qed.

Lemma first_in_has l m s : first_in l m = Some s -> ahas s m = true.
Proof.
  induction l as [|x tl IH]; cbn [first_in]; [discriminate|].
  destruct (ahas x m) eqn:E; [intros H; inversion H; now subst|auto].
Qed.

(** after promoting the first deferred class of [l], the registry alone gives
    what the abstraction gives *)
Lemma first_val_promoted l : forall st s,
  first_in l (d_dfr st) = Some s ->
  first_val l (d_reg (promote st s)) = first_abs l st.
Proof.
  induction l as [|x tl IH]; intros st s H; cbn [first_in] in H; [discriminate|].
  cbn [first_val first_abs]. unfold absmap.
  destruct (ahas x (d_dfr st)) eqn:E.
  - inversion H; subst s. unfold ahas in E. unfold promote.
    destruct (alookup x (d_dfr st)) as [p|]; [|discriminate].
    cbn [d_reg]. now rewrite alookup_aupdate_same.
  - pose proof (first_in_has _ _ _ H) as Hs.
    assert (x <> s) by (intros ->; congruence).
    unfold ahas in E. destruct (alookup x (d_dfr st)); [discriminate|].
    unfold promote at 1. unfold ahas in Hs. destruct (alookup s (d_dfr st)) as [p|] eqn:Es; [|discriminate].
    cbn [d_reg]. rewrite (alookup_aupdate_other _ _ _ _ H0).
    destruct (alookup x (d_reg st)); [reflexivity|].
    exact (IH st s H).
Qed.

Lemma first_val_nodeferred l : forall st,
  first_in l (d_dfr st) = None -> first_val l (d_reg st) = first_abs l st.
Proof.
  induction l as [|x tl IH]; intros st H; cbn [first_in] in H; [reflexivity|].
  cbn [first_val first_abs]. unfold absmap.
  destruct (ahas x (d_dfr st)) eqn:E; [discriminate|].
  unfold ahas in E. destruct (alookup x (d_dfr st)); [discriminate|].
  destruct (alookup x (d_reg st)); [reflexivity|]. auto.
Qed.

(** the printer dispatch picks after the promotion step of a print *)
Lemma print_dispatch st c :
  first_val (mro c) (d_reg (snd (isreg mro st c true true true))) = first_abs (mro c) st.
Proof.
  destruct (mro_head c) as [tl Hm]. unfold isreg. cbn [negb andb]. rewrite Hm. cbn [List.tl].
  destruct (ahas c (d_dfr st)) eqn:Ed; cbn [snd].
  - cbn [first_val first_abs]. unfold absmap, promote. unfold ahas in Ed.
    destruct (alookup c (d_dfr st)) as [p|]; [|discriminate].
    cbn [d_reg]. now rewrite alookup_aupdate_same.
  - destruct (ahas c (d_reg st)) eqn:Er; cbn [snd].
    + cbn [first_val first_abs]. unfold absmap. unfold ahas in Ed, Er.
      destruct (alookup c (d_dfr st)); [discriminate|]. now destruct (alookup c (d_reg st)).
    + destruct (first_in tl (d_dfr st)) as [s|] eqn:Ef; cbn [snd].
      * pose proof (first_in_has _ _ _ Ef) as Hs.
        assert (c <> s) by (intros ->; congruence).
        cbn [first_val first_abs]. unfold absmap. unfold ahas in Ed, Er.
        destruct (alookup c (d_dfr st)); [discriminate|].
        destruct (alookup c (d_reg st)) eqn:Ec; [discriminate|].
        rewrite <- (first_val_promoted tl st s Ef).
        unfold promote. unfold ahas in Hs. destruct (alookup s (d_dfr st)); [|discriminate].
        cbn [d_reg]. now rewrite (alookup_aupdate_other _ _ _ _ H), Ec.
      * cbn [first_val first_abs]. unfold absmap. unfold ahas in Ed, Er.
        destruct (alookup c (d_dfr st)); [discriminate|].
        destruct (alookup c (d_reg st)); [discriminate|]. now apply first_val_nodeferred.
Qed.

Lemma first_abs_spec l st s : (forall c, absmap st c = alookup c (s_latest s)) ->
  first_abs l st = first_val l (s_latest s).
Proof.
  intros H. induction l as [|x tl IH]; [reflexivity|]. cbn [first_abs first_val].
  rewrite H. now rewrite IH.
Qed.

(** is_registered with check_deferred = True answers by the rule *)
Lemma isreg_answer st c cs rd :
  fst (isreg mro st c cs true rd) =
  Some (match first_abs (if cs then mro c else [c]) st with Some _ => true | None => false end).
Proof.
  destruct (mro_head c) as [tl Hm]. unfold isreg. cbn [negb andb].
  assert (Hc : first_abs [c] st = absmap st c).
  { cbn [first_abs]. now destruct (absmap st c). }
  destruct (ahas c (d_dfr st)) eqn:Ed.
  - cbn [fst]. f_equal. unfold ahas in Ed.
    assert (exists p, absmap st c = Some p) as [p Hp].
    { unfold absmap. destruct (alookup c (d_dfr st)); [eauto|discriminate]. }
    destruct cs; [rewrite Hm; cbn [first_abs]|cbn [first_abs]]; now rewrite Hp.
  - destruct (ahas c (d_reg st)) eqn:Er.
    + cbn [fst]. f_equal. unfold ahas in Ed, Er.
      assert (exists p, absmap st c = Some p) as [p Hp].
      { unfold absmap. destruct (alookup c (d_dfr st)); [discriminate|].
        destruct (alookup c (d_reg st)); [eauto|discriminate]. }
      destruct cs; [rewrite Hm; cbn [first_abs]|cbn [first_abs]]; now rewrite Hp.
    + assert (Hn : absmap st c = None).
      { unfold absmap. unfold ahas in Ed, Er. destruct (alookup c (d_dfr st)); [discriminate|].
        now destruct (alookup c (d_reg st)). }
      destruct cs; cbn [negb].
      * rewrite Hm. cbn [List.tl first_abs]. rewrite Hn.
        destruct (first_in tl (d_dfr st)) as [s|] eqn:Ef; cbn [fst]; f_equal.
        -- rewrite <- (first_val_promoted tl st s Ef).
           clear -Ef. revert Ef. induction tl as [|x tl IH]; cbn [first_in first_val]; [discriminate|].
           destruct (ahas x (d_dfr st)) eqn:E.
           ++ intros H; inversion H; subst. unfold promote. unfold ahas in E.
              destruct (alookup s (d_dfr st)); [|discriminate]. cbn [d_reg]. now rewrite alookup_aupdate_same.
           ++ intros H. destruct (alookup x (d_reg (promote st s))); auto.
        -- rewrite <- Hm at 1. rewrite Hm. cbn [first_val].
           unfold ahas in Er. destruct (alookup c (d_reg st)); [discriminate|].
           now rewrite (first_val_nodeferred tl st Ef).
      * cbn [fst]. f_equal. cbn [first_abs]. now rewrite Hn.
Qed.

(** ---- refinement ------------------------------------------------------- *)
Definition sobs (s : sstate) (o : dop) : dobs :=
  match o with
  | RegClass _ _ | RegName _ _ | RegPred _ _ => OUnit
  | Print c i => OChosen (schosen mro accepts s c i)
  | IsReg c cs cd rd =>
      if negb cd && rd then OBool None else OBool (Some (sisreg mro s c cs))
  end.

Fixpoint srun (s : sstate) (h : list dop) : list dobs :=
  match h with
  | [] => []
  | o :: tl => sobs s o :: srun (sstep s o) tl
  end.

(** histories whose is_registered queries look at deferred printers (or are
    the illegal flag combination); check_deferred=False is an
    implementation-level query, see [isreg_nodeferred_sound] *)
Definition cd_query (o : dop) : bool :=
  match o with IsReg _ _ cd rd => cd || rd | _ => true end.

Lemma step_refines st s o :
  Inv st s -> cd_query o = true ->
  fst (dstep mro accepts st o) = sobs s o /\ Inv (snd (dstep mro accepts st o)) (sstep s o).
Proof.
  intros [Ha Hp] Hq. destruct o as [c p|c p|q p|c i|c cs cd rd]; cbn [dstep sobs sstep fst snd].
  - split; [reflexivity|]. split; [|exact Hp]. intros x. unfold absmap, reg_class. cbn [d_reg d_dfr s_latest].
    destruct (Nat.eq_dec x c) as [->|Hne].
    + now rewrite alookup_aremove_same, !alookup_aupdate_same.
    + rewrite (alookup_aremove_other _ _ _ Hne), !(alookup_aupdate_other _ _ _ _ Hne). apply Ha.
  - split; [reflexivity|]. split; [|exact Hp]. intros x. unfold absmap, reg_name. cbn [d_reg d_dfr s_latest].
    destruct (Nat.eq_dec x c) as [->|Hne].
    + now rewrite !alookup_aupdate_same.
    + rewrite !(alookup_aupdate_other _ _ _ _ Hne). apply Ha.
  - split; [reflexivity|]. split; [exact Ha|]. unfold reg_pred. cbn [d_preds s_preds]. now rewrite Hp.
  - unfold print. cbn [fst snd]. rewrite print_dispatch, isreg_preds. split.
    + unfold schosen. rewrite (first_abs_spec _ _ _ Ha), Hp. reflexivity.
    + split; [|now rewrite isreg_preds]. intros x. rewrite isreg_abs. apply Ha.
  - destruct (isreg mro st c cs cd rd) as [b st'] eqn:E. cbn [fst snd].
    assert (Hst : st' = snd (isreg mro st c cs cd rd)) by now rewrite E.
    assert (Hb : b = fst (isreg mro st c cs cd rd)) by now rewrite E.
    split.
    + destruct cd; cbn [negb andb].
      * rewrite Hb, isreg_answer. unfold sisreg. now rewrite (first_abs_spec _ _ _ Ha).
      * cbn [cd_query orb] in Hq. subst rd. rewrite Hb. unfold isreg. reflexivity.
    + split; [intros x; rewrite Hst, isreg_abs; apply Ha|rewrite Hst, isreg_preds; exact Hp].
Qed.

Theorem refines : forall h st s,
  Inv st s -> forallb cd_query h = true -> drun mro accepts st h = srun s h.
Proof.
  induction h as [|o tl IH]; intros st s HI Hq; [reflexivity|].
  cbn [forallb] in Hq. apply andb_prop in Hq as [Hq1 Hq2].
  cbn [drun srun]. destruct (dstep mro accepts st o) as [x st'] eqn:E.
  destruct (step_refines st s o HI Hq1) as [Hx HI']. rewrite E in Hx, HI'. cbn [fst snd] in Hx, HI'.
  rewrite Hx. f_equal. now apply IH.
Qed.

Lemma Inv_init : Inv dinit sinit.
Proof. split; [intros c; reflexivity|reflexivity]. Qed.

(** check_deferred = False: a positive answer is sound for the rule *)
Lemma isreg_nodeferred_sound st c cs :
  fst (isreg mro st c cs false false) = Some true ->
  exists p, first_abs (if cs then mro c else [c]) st = Some p.
Proof.
  destruct (mro_head c) as [tl Hm]. unfold isreg. cbn [negb andb].
  destruct (ahas c (d_reg st)) eqn:Er.
  - intros _. unfold ahas in Er.
    assert (exists p, absmap st c = Some p) as [p Hp].
    { unfold absmap. destruct (alookup c (d_dfr st)); [eauto|].
      destruct (alookup c (d_reg st)); [eauto|discriminate]. }
    exists p. destruct cs; [rewrite Hm|]; cbn [first_abs]; now rewrite Hp.
  - destruct cs; cbn [negb fst]; [|discriminate].
    intros H. inversion H as [H1]. clear H.
    assert (G : forall l, first_val l (d_reg st) <> None -> exists p, first_abs l st = Some p).
    { induction l as [|x l IH]; cbn [first_val first_abs]; [congruence|].
      unfold absmap. destruct (alookup x (d_dfr st)); [eauto|].
      destruct (alookup x (d_reg st)); [eauto|auto]. }
    apply G. destruct (first_val (mro c) (d_reg st)); [discriminate|discriminate].
Qed.

End DispatchProofs.

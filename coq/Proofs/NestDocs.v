(** Every nest offset in the documents the printers build is ctx.indent, there
    is no align, and the string printer is handed ctx.indent: the hypothesis of
    IndentMult.lay_indent_multiple.  (Same structure as CleanDocs.v.) *)
From Coq Require Import Lia.
From PP Require Import Doc PyStr PyVal Consts Printers PyExpr LayToks PrettyToks3 IndentMult.

Ltac inv H := inversion H; subst; clear H.



Section ND.
Variable sp lb : N -> bool.
Variable ki : Z.

Lemma nk_cat l : nestk ki (Cat l) = forallb (nestk ki) l.
Proof. cbn [nestk]. apply nestk_list. Qed.
Lemma nk_fill l : nestk ki (Fill l) = forallb (nestk ki) l.
Proof. cbn [nestk]. apply nestk_list. Qed.
Lemma nk_nest x : nestk ki (Nest ki x) = nestk ki x.
Proof. cbn [nestk]. now rewrite Z.eqb_refl. Qed.
Lemma nk_group x : nestk ki (Group x) = nestk ki x. Proof. reflexivity. Qed.
Lemma nk_ab x : nestk ki (AlwaysBreak x) = nestk ki x. Proof. reflexivity. Qed.
Lemma nk_annot a x : nestk ki (Annot a x) = nestk ki x. Proof. reflexivity. Qed.
Lemma nk_fc b f : nestk ki (FlatChoice b f) = nestk ki b && nestk ki f. Proof. reflexivity. Qed.

Ltac cl := repeat (progress (rewrite ?nk_cat, ?nk_fill, ?nk_nest, ?nk_group, ?nk_ab, ?nk_annot, ?nk_fc, ?forallb_app;
                             cbn [forallb])).

Lemma nk_intersperse x l : nestk ki x = true -> forallb (nestk ki) l = true -> forallb (nestk ki) (intersperse x l) = true.
Proof.
  intros Hx. induction l as [|y [|z tl] IH]; intros H; cbn [intersperse forallb] in *; auto.
  apply andb_prop in H as [Hy H]. rewrite Hy, Hx. cbn [andb]. apply IH. exact H.
Qed.

Lemma nk_comment_items : forall l b, forallb (nestk ki) (comment_items l b) = true.
Proof. induction l as [|p tl IH]; intros b; [reflexivity|]. cbn [comment_items forallb]. rewrite IH. destruct b; reflexivity. Qed.

Lemma nk_comment_line line : nestk ki (comment_line sp line) = true.
Proof.
  unfold comment_line. cl. rewrite nk_comment_items.
  destruct (filter nonempty (re_split sp line)) as [|p tl]; [reflexivity|].
  destruct (existsb sp (firstn 1 p)); reflexivity.
Qed.

Lemma nk_commentdoc t : nestk ki (commentdoc sp lb t) = true.
Proof.
  unfold commentdoc. cbn [nestk].
  assert (H : nestk ki (Cat (intersperse HardLine (map (comment_line sp) (splitlines lb t)))) = true).
  { cl. apply nk_intersperse; [reflexivity|]. induction (splitlines lb t) as [|x tl IH]; [reflexivity|].
    cbn [map forallb]. now rewrite nk_comment_line, IH. }
  destruct (Nat.ltb 1 _); cbn [nestk]; exact H.
Qed.

Lemma nk_uncomment d : nestk ki d = true -> nestk ki (uncomment d) = true.
Proof. destruct d; auto. destruct a; auto. Qed.

Section WithCtx.
Variable ctx : pctx.
Hypothesis Hci : c_indent ctx = ki.
Ltac clc := rewrite ?Hci; cl.

Lemma nk_bracket l c r : nestk ki l = true -> nestk ki c = true -> nestk ki r = true -> nestk ki (bracket ctx l c r) = true.
Proof. intros Hl Hc Hr. unfold bracket. clc. now rewrite Hl, Hc, Hr. Qed.

Lemma nk_seq_parts dangle : forall docs, forallb (nestk ki) docs = true -> forallb (nestk ki) (seq_parts sp lb docs dangle) = true.
Proof.
  induction docs as [|d tl IH]; intros H; [reflexivity|]. cbn [forallb] in H. apply andb_prop in H as [Hd H].
  cbn [seq_parts]. destruct (is_commented d) as [c|].
  - cbn [forallb]. rewrite (IH H). clc. rewrite Hd, nk_commentdoc.
    destruct tl, dangle; reflexivity.
  - destruct tl; cbn [forallb]; [now rewrite Hd|]. rewrite Hd, (IH H). reflexivity.
Qed.

Lemma nk_sequence_of_docs l docs r dangle fb :
  nestk ki l = true -> nestk ki r = true -> forallb (nestk ki) docs = true ->
  nestk ki (sequence_of_docs sp lb ctx l docs r dangle fb) = true.
Proof.
  intros Hl Hr Hd. unfold sequence_of_docs. cbv zeta.
  assert (HB : nestk ki (bracket ctx l (Cat (seq_parts sp lb docs dangle ++
               (if dangle && negb (nonempty_docs docs && match is_commented (last docs Nil) with Some _ => true | None => false end)
                then [COMMA] else []))) r) = true).
  { apply nk_bracket; auto. rewrite nk_cat, forallb_app, (nk_seq_parts dangle docs Hd).
    destruct (dangle && negb _); reflexivity. }
  destruct (_ || _); cbn [nestk]; exact HB.
Qed.

Lemma nk_fncall_parts : forall docs hc, forallb (nestk ki) docs = true ->
  forallb (nestk ki) (fst (fncall_parts sp lb docs hc)) = true.
Proof.
  induction docs as [|d tl IH]; intros hc H; [reflexivity|]. cbn [forallb] in H. apply andb_prop in H as [Hd H].
  cbn [fncall_parts]. 
  destruct (fncall_parts sp lb tl (match is_commented d with Some _ => true | None => hc end)) as [rest hc'] eqn:E.
  cbn [fst forallb]. specialize (IH (match is_commented d with Some _ => true | None => hc end) H). rewrite E in IH.
  cbn [fst] in IH. rewrite IH. rewrite andb_true_r.
  pose proof (nk_uncomment d Hd) as Hu.
  destruct (is_commented d) as [c|]; destruct tl; clc; rewrite ?Hu, ?nk_commentdoc; try reflexivity;
    destruct hc; reflexivity.
Qed.

Lemma nk_kwarg_doc kv : nestk ki (snd kv) = true -> nestk ki (kwarg_doc kv) = true.
Proof.
  destruct kv as [k d]. cbn [snd]. intros H. unfold kwarg_doc.
  destruct d as [| | | | | | | | |an x| | | |];
    try (rewrite nk_cat; cbn [forallb]; rewrite H; reflexivity).
  destruct an; try (rewrite nk_cat; cbn [forallb]; rewrite H; reflexivity).
  cbn [nestk] in H. change (nestk ki (Annot (AComment s) (Cat [tok T_NAME_VARIABLE k; ASSIGN_OP; x]))) with (nestk ki (Cat [tok T_NAME_VARIABLE k; ASSIGN_OP; x])).
  rewrite nk_cat. cbn [forallb]. rewrite H. reflexivity.
Qed.

Lemma nk_build_fncall fndoc argdocs kwargdocs hug :
  nestk ki fndoc = true -> forallb (nestk ki) argdocs = true -> forallb (fun kv => nestk ki (snd kv)) kwargdocs = true ->
  nestk ki (build_fncall sp lb ctx fndoc argdocs kwargdocs hug) = true.
Proof.
  intros Hf Ha Hk. unfold build_fncall.
  assert (Hkw : forallb (nestk ki) (map kwarg_doc kwargdocs) = true).
  { induction kwargdocs as [|kv tl IH]; [reflexivity|]. cbn [forallb map] in *. apply andb_prop in Hk as [H1 H2].
    now rewrite (nk_kwarg_doc kv H1), IH. }
  assert (Gen : nestk ki (let '(parts, has_comment) := fncall_parts sp lb (argdocs ++ map kwarg_doc kwargdocs) false in
                       let body := Cat [fndoc; LPAREN; Nest (c_indent ctx) (Cat [SOFTLINE; Cat parts]); SOFTLINE; RPAREN] in
                       if has_comment then AlwaysBreak body else Group body) = true).
  { pose proof (nk_fncall_parts (argdocs ++ map kwarg_doc kwargdocs) false) as HP.
    rewrite forallb_app, Ha, Hkw in HP. specialize (HP eq_refl).
    destruct (fncall_parts sp lb (argdocs ++ map kwarg_doc kwargdocs) false) as [parts hcm]. cbn [fst] in HP.
    destruct hcm; clc; now rewrite Hf, HP. }
  destruct argdocs as [|a0 args']; destruct (map kwarg_doc kwargdocs) as [|k0 kr] eqn:Ek.
  - clc. now rewrite Hf.
  - rewrite !andb_false_r. exact Gen.
  - destruct (hug && true && _); [|exact Gen]. cbn [forallb] in Ha. apply andb_prop in Ha as [Ha0 _].
    clc. cbn [hd]. now rewrite Hf, Ha0.
  - rewrite !andb_false_r. exact Gen.
Qed.

Lemma nk_call_alt_d f h same nested kws :
  forallb (nestk ki) (same tt) = true -> forallb (nestk ki) (nested tt) = true ->
  forallb (fun kv => nestk ki (snd kv)) (kws tt) = true ->
  nestk ki (call_alt_d sp lb ctx f h same nested kws) = true.
Proof.
  intros Hs Hn Hk. unfold call_alt_d. destruct (depth_le0 ctx); [reflexivity|].
  destruct h; apply nk_build_fncall; auto.
Qed.

Lemma nk_dict_part last k x xp :
  nestk ki k = true -> nestk ki x = true -> nestk ki (xp tt) = true ->
  nestk ki (fst (dict_part sp lb ctx last k x xp)) = true.
Proof.
  intros Hk Hx Hp. unfold dict_part. cbn [fst].
  pose proof (nk_uncomment k Hk) as Huk. pose proof (nk_uncomment x Hx) as Hux.
  destruct (is_commented k) as [kc|], (is_commented x) as [vc|]; clc;
    rewrite ?Huk, ?Hux, ?Hp, ?nk_commentdoc; destruct last; reflexivity.
Qed.

Lemma nk_dict_parts : forall l,
  forallb (fun t => nestk ki (fst (fst t)) && nestk ki (snd (fst t)) && nestk ki (snd t tt)) l = true ->
  forallb (nestk ki) (fst (dict_parts sp lb ctx l)) = true.
Proof.
  induction l as [|[[k x] xp] tl IH]; intros H; [reflexivity|].
  cbn [forallb fst snd] in H. apply andb_prop in H as [H1 H]. apply andb_prop in H1 as [H1 Hp].
  apply andb_prop in H1 as [Hk Hx].
  cbn [dict_parts]. pose proof (nk_dict_part (match tl with [] => true | _ => false end) k x xp Hk Hx Hp) as HP.
  destruct (dict_part sp lb ctx _ k x xp) as [part hc]. specialize (IH H).
  destruct (dict_parts sp lb ctx tl) as [rest hc']. cbn [fst forallb] in *. now rewrite HP, IH.
Qed.

Lemma forallb_take {A} (f : A -> bool) n : forall l, forallb f l = true -> forallb f (take_z n l) = true.
Proof.
  intros l. revert n. induction l as [|x tl IH]; intros n H; cbn [take_z]; [reflexivity|].
  cbn [forallb] in H. apply andb_prop in H as [Hx Ht]. destruct (n <=? 0)%Z; cbn [forallb]; [reflexivity|].
  rewrite Hx. cbn [andb]. now apply IH.
Qed.
Lemma forallb_reorder {A} (f : A -> bool) l order : forallb f l = true -> forallb f (reorder l order) = true.
Proof.
  intros H. induction order as [|i tl IH]; [reflexivity|]. cbn [reorder].
  destruct (nth_error l i) as [x|] eqn:E; [|exact IH]. cbn [forallb]. rewrite IH, andb_true_r.
  apply nth_error_In in E. rewrite forallb_forall in H. auto.
Qed.

Lemma nk_seq_d kind len sub tr els :
  forallb (nestk ki) (els tt) = true -> nestk ki (seq_d sp lb ctx kind len sub tr els) = true.
Proof.
  intros He. unfold seq_d. cbv zeta.
  assert (Hb : forall k, let '(lft, rgt) := match k with 0%nat => (LBRACKET, RBRACKET) | 1%nat => (LPAREN, RPAREN)
                                            | _ => (LBRACE, RBRACE) end in nestk ki lft = true /\ nestk ki rgt = true).
  { intros [|[|k]]; split; reflexivity. }
  specialize (Hb kind). destruct (match kind with 0%nat => _ | 1%nat => _ | _ => _ end) as [lft rgt]. destruct Hb as [Hl Hr].
  destruct len as [|n].
  - destruct (negb (is_some sub) && Nat.ltb kind 2); [clc; now rewrite Hl, Hr|].
    apply nk_call_alt_d; reflexivity.
  - destruct (depth_is0 ctx).
    + destruct (Nat.ltb kind 2).
      * assert (HL : nestk ki (Cat [lft; ELLIPSIS; rgt]) = true) by (clc; now rewrite Hl, Hr).
        destruct (negb (is_some sub)); [exact HL|]. apply nk_build_fncall; cbn [forallb]; try reflexivity. now rewrite HL.
      * apply nk_call_alt_d; reflexivity.
    + set (els0 := match S n with 1%nat => els tt | _ => take_z (c_maxlen ctx) (els tt) end).
      assert (H0 : forallb (nestk ki) els0 = true) by (unfold els0; destruct n; [exact He|now apply forallb_take]).
      set (tr' := if (c_maxlen ctx <? Z.of_nat (S n))%Z then _ else tr).
      assert (HL : nestk ki (let '(els1, dangle) := match tr' with
                                                 | Some t => (els0 ++ [commentdoc sp lb t], false)
                                                 | None => (els0, Nat.eqb kind 1 && Nat.eqb (S n) 1) end in
                          sequence_of_docs sp lb ctx lft els1 rgt dangle (is_some tr')) = true).
      { destruct tr' as [t|]; apply nk_sequence_of_docs; auto.
        rewrite forallb_app, H0. cbn [forallb]. now rewrite nk_commentdoc. }
      destruct (match tr' with Some t => _ | None => _ end) as [els1 dangle].
      destruct (negb (is_some sub)); [exact HL|]. apply nk_build_fncall; cbn [forallb]; try reflexivity. now rewrite HL.
Qed.

Lemma nk_dict_d sub tr so triples :
  forallb (fun t => nestk ki (fst (fst t)) && nestk ki (snd (fst t)) && nestk ki (snd t tt)) (triples tt) = true ->
  nestk ki (dict_d sp lb ctx sub tr so triples) = true.
Proof.
  intros Ht. unfold dict_d. cbv zeta. destruct (depth_is0 ctx).
  - destruct (negb (is_some sub)); [reflexivity|]. apply nk_build_fncall; reflexivity.
  - set (tr' := if (c_maxlen ctx <? _)%Z then _ else tr).
    set (shown := take_z (c_maxlen ctx) (if c_sort ctx then reorder (triples tt) so else triples tt)).
    assert (Hs : forallb (fun t => nestk ki (fst (fst t)) && nestk ki (snd (fst t)) && nestk ki (snd t tt)) shown = true).
    { unfold shown. apply forallb_take. destruct (c_sort ctx); [now apply forallb_reorder|exact Ht]. }
    pose proof (nk_dict_parts shown Hs) as HP. destruct (dict_parts sp lb ctx shown) as [parts0 hc0]. cbn [fst] in HP.
    set (parts := match tr' with Some t => parts0 ++ [Cat [HardLine; commentdoc sp lb t]] | None => parts0 end).
    assert (Hparts : forallb (nestk ki) parts = true).
    { unfold parts. destruct tr' as [t|]; [|exact HP]. rewrite forallb_app, HP. clc. now rewrite nk_commentdoc. }
    assert (Hd : forall b : bool, nestk ki (if b then AlwaysBreak (bracket ctx LBRACE (Cat parts) RBRACE)
                                         else Group (bracket ctx LBRACE (Cat parts) RBRACE)) = true).
    { intros b. assert (HB : nestk ki (bracket ctx LBRACE (Cat parts) RBRACE) = true)
        by (apply nk_bracket; try reflexivity; now rewrite nk_cat).
      destruct b; clc; exact HB. }
    destruct (negb (is_some sub)); [apply Hd|].
    destruct parts; [apply nk_call_alt_d; reflexivity|].
    apply nk_build_fncall; cbn [forallb]; try reflexivity. now rewrite Hd.
Qed.

Lemma nk_num_d t base lit sub : nestk ki (num_d sp lb ctx t base lit sub) = true.
Proof.
  unfold num_d. destruct (depth_is0 ctx); [apply nk_call_alt_d; reflexivity|].
  destruct sub; [apply nk_build_fncall; reflexivity|reflexivity].
Qed.

Lemma nk_frozen_d len sub lst : nestk ki (lst tt) = true -> nestk ki (frozen_d sp lb ctx len sub lst) = true.
Proof.
  intros H. unfold frozen_d. destruct len; apply nk_call_alt_d; cbn [forallb]; try reflexivity. now rewrite H.
Qed.

End WithCtx.

Notation pretty_pv := (pretty_pv sp lb).

Lemma nk_finish (cm : option str) d : nestk ki d = true ->
  nestk ki (match truthy cm with Some c => Annot (AComment c) d | None => d end) = true.
Proof. intros H. destruct (truthy cm); exact H. Qed.

Lemma nk_str_doc ctx b s w p : c_indent ctx = ki -> nestk ki (str_doc ctx b s w p) = true.
Proof. intros H. unfold str_doc. destruct (depth_is0 ctx); [reflexivity|]. cbn [nestk sp_indent]. now apply Z.eqb_eq. Qed.

Lemma nk_special ctx name sub : c_indent ctx = ki -> nestk ki (special_float_d sp lb ctx name sub) = true.
Proof.
  intros H. unfold special_float_d. destruct (depth_is0 ctx); [apply nk_call_alt_d; auto; reflexivity|].
  apply nk_call_alt_d; auto; cbn [forallb]; try reflexivity. now rewrite nk_str_doc.
Qed.

Lemma forallb_map_in {A} (f : A -> doc) l : (forall x, In x l -> nestk ki (f x) = true) -> forallb (nestk ki) (map f l) = true.
Proof.
  induction l as [|x tl IH]; intros H; [reflexivity|]. cbn [map forallb]. rewrite (H x (or_introl eq_refl)).
  apply IH. intros y Hy. apply H. now right.
Qed.

Definition NestV (v : pyval) : Prop := forall ctx cm tr, c_indent ctx = ki -> nestk ki (pretty_pv v ctx cm tr) = true.

Lemma nk_elems ctx l : c_indent ctx = ki -> (forall x, In x l -> NestV x) ->
  forallb (nestk ki) (match l with
                 | [x] => [pretty_pv x (with_strategy (nested_call ctx) MPlain) None None]
                 | _ => map (fun x => pretty_pv x (nested_hang ctx) None None) l
                 end) = true.
Proof.
  intros Hc H.
  assert (G : forall c', c_indent c' = ki -> forallb (nestk ki) (map (fun x => pretty_pv x c' None None) l) = true).
  { intros c' Hc'. apply forallb_map_in. intros x Hx. now apply (H x Hx). }
  destruct l as [|x [|y tl]]; apply G; exact Hc.
Qed.

Lemma nk_key ctx kv : c_indent ctx = ki -> NestV kv -> nestk ki (key_doc_ sp lb ctx kv) = true.
Proof.
  intros Hc HV.
  assert (G : nestk ki (pretty_pv kv (nested_call ctx) None None) = true) by now apply HV.
  destruct kv; try exact G; try (apply nk_str_doc; exact Hc).
  destruct kv; try exact G; apply nk_str_doc; exact Hc.
Qed.

Lemma nk_triples ctx kvs : c_indent ctx = ki -> (forall kv x, In (kv, x) kvs -> NestV kv /\ NestV x) ->
  forallb (fun t : doc * doc * (unit -> doc) => nestk ki (fst (fst t)) && nestk ki (snd (fst t)) && nestk ki (snd t tt))
    (map (fun '(kv, x) => (key_doc_ sp lb ctx kv,
                          pretty_pv x (with_strategy (nested_call ctx) MIndented) None None,
                          fun _ : unit => pretty_pv x (with_strategy (nested_call ctx) MPlain) None None)) kvs) = true.
Proof.
  intros Hc. induction kvs as [|[kv x] tl IH]; intros H; [reflexivity|]. cbn [map forallb fst snd].
  destruct (H kv x (or_introl eq_refl)) as [Hk Hx].
  rewrite (nk_key ctx kv Hc Hk), (Hx (with_strategy (nested_call ctx) MIndented) None None Hc),
    (Hx (with_strategy (nested_call ctx) MPlain) None None Hc). cbn [andb].
  apply IH. intros k' x' Hin. apply H. now right.
Qed.

Lemma nk_n : forall n v, (vsize v <= n)%nat -> NestV v.
Proof.
  induction n as [|n IHn]; intros v Hn.
  { destruct v; cbn in Hn; lia. }
  assert (SEQ : forall l, (S (vsum l) <= S n)%nat -> forall ctx kind sub tr, c_indent ctx = ki ->
            nestk ki (seq_d sp lb ctx kind (length l) sub tr
                        (fun _ => match l with
                                  | [x] => [pretty_pv x (with_strategy (nested_call ctx) MPlain) None None]
                                  | _ => map (fun x => pretty_pv x (nested_hang ctx) None None) l end)) = true).
  { intros l Hl ctx kind sub tr Hc. apply nk_seq_d; [exact Hc|]. apply nk_elems; [exact Hc|].
    intros x Hx. apply IHn. apply vsum_in in Hx. lia. }
  assert (DICT : forall kvs, (S (kvsum kvs) <= S n)%nat -> forall ctx sub tr so, c_indent ctx = ki ->
            nestk ki (dict_d sp lb ctx sub tr so
                        (fun _ => map (fun '(kv, x) => (key_doc_ sp lb ctx kv,
                            pretty_pv x (with_strategy (nested_call ctx) MIndented) None None,
                            fun _ : unit => pretty_pv x (with_strategy (nested_call ctx) MPlain) None None)) kvs)) = true).
  { intros kvs Hl ctx sub tr so Hc. apply nk_dict_d; [exact Hc|]. apply (nk_triples ctx kvs Hc).
    intros kv x Hin. apply kvsum_in in Hin. split; apply IHn; lia. }
  destruct v as [z|b| | |r| | | |s|s|l|l|l|l|kvs so|w v|v c|v c|f args kwargs|w s|r];
    intros ctx cm tr Hc; cbn [Printers.pretty_pv]; try apply nk_finish.
  - now apply nk_num_d.
  - destruct b; reflexivity.
  - reflexivity.
  - reflexivity.
  - now apply nk_num_d.
  - now apply nk_special.
  - now apply nk_special.
  - now apply nk_special.
  - now apply nk_str_doc.
  - now apply nk_str_doc.
  - rewrite vsize_list in Hn. now apply SEQ.
  - rewrite vsize_tuple in Hn. now apply SEQ.
  - rewrite vsize_set in Hn. now apply SEQ.
  - rewrite vsize_frozenset in Hn. apply nk_frozen_d; [exact Hc|]. now apply SEQ.
  - rewrite vsize_dict in Hn. now apply DICT.
  - (* sub *)
    cbn [vsize] in Hn.
    destruct v as [z|b| | |r| | | |s|s|l|l|l|l|kvs so|w' v'|v' c'|v' c'|f' args' kwargs'|w' s|r]; try reflexivity.
    + now apply nk_num_d.
    + now apply nk_num_d.
    + now apply nk_special.
    + now apply nk_special.
    + now apply nk_special.
    + now apply nk_str_doc.
    + now apply nk_str_doc.
    + rewrite vsize_list in Hn. apply SEQ; [lia|exact Hc].
    + rewrite vsize_tuple in Hn. apply SEQ; [lia|exact Hc].
    + rewrite vsize_set in Hn. apply SEQ; [lia|exact Hc].
    + rewrite vsize_frozenset in Hn. apply nk_frozen_d; [exact Hc|]. apply SEQ; [lia|exact Hc].
    + rewrite vsize_dict in Hn. apply DICT; [lia|exact Hc].
  - cbn [vsize] in Hn. apply IHn; [lia|exact Hc].
  - cbn [vsize] in Hn. apply IHn; [lia|exact Hc].
  - (* call *)
    rewrite vsize_call in Hn. apply nk_call_alt_d; [exact Hc| | |].
    + apply forallb_map_in. intros a Hin. apply IHn; [apply vsum_in in Hin; lia|exact Hc].
    + apply forallb_map_in. intros a Hin. apply IHn; [apply vsum_in in Hin; lia|exact Hc].
    + assert (IHk : forall kn x, In (kn, x) kwargs -> nestk ki (pretty_pv x (nested_hang ctx) None None) = true).
      { intros kn x Hin. apply IHn; [apply kwsum_in in Hin; lia|exact Hc]. }
      clear Hn. induction kwargs as [|[kn x] tl IHl]; [reflexivity|]. cbn [map forallb snd].
      rewrite (IHk kn x (or_introl eq_refl)). apply IHl. intros k' x' Hin. apply (IHk k'). now right.
  - (* path *) apply nk_build_fncall; [exact Hc|reflexivity| |reflexivity]. cbn [forallb]. now rewrite nk_str_doc.
  - reflexivity.
Qed.

Theorem nk_pretty v ctx cm tr : c_indent ctx = ki -> nestk ki (pretty_pv v ctx cm tr) = true.
Proof. exact (nk_n (vsize v) v (le_n _) ctx cm tr). Qed.

Theorem nk_top_doc v depth maxlen sort : nestk ki (top_doc sp lb v ki depth maxlen sort) = true.
Proof.
  unfold top_doc. pose proof (nk_pretty v (mkCtx ki depth MPlain maxlen sort) None None eq_refl) as Hc.
  destruct (is_commented _); [|exact Hc]. cl. now rewrite Hc, nk_commentdoc.
Qed.

End ND.

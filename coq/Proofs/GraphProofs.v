(** C13 / C14: the stateful traversal (mutable visited set, exception
    containment) refines the pure unfolding of the object graph along the
    ancestors of each position. *)
From Coq Require Import Lia.
From PP Require Import Doc PyStr PyVal PyEval Graph.

Ltac inv H := inversion H; subst; clear H.

Definition is_nondoc (n : gnode) : bool := match n with GUser _ _ FNonDoc => true | _ => false end.
Definition no_nondoc (h : heap) : Prop := forall r n, nth_error h r = Some n -> is_nondoc n = false.

Section GP.
Variable h : heap.
Variable info : ginfo.
Hypothesis Hnd : no_nondoc h.

Definition Good1 (f : nat) : Prop :=
  forall r st res st', grun h info f r st = (res, st') ->
    (res = GFuel /\ gspec h info f (g_visited st) r = None) \/
    exists t, res = GOk t /\ gspec h info f (g_visited st) r = Some t /\
              g_visited st' = g_visited st /\
              g_warns st' = g_warns st ++ gwarns h f (g_visited st) r.

Definition GoodL (f : nat) : Prop :=
  forall l st resl st', gruns_with (grun h info f) l st = (resl, st') ->
    (resl = LFuel /\ mapM (gspec h info f (g_visited st)) l = None) \/
    exists vs, resl = LOk vs /\ mapM (gspec h info f (g_visited st)) l = Some vs /\
               g_visited st' = g_visited st /\
               g_warns st' = g_warns st ++ flat_map (gwarns h f (g_visited st)) l.

Lemma good_list f : Good1 f -> GoodL f.
Proof.
  intros G1 l. induction l as [|r tl IH]; intros st resl st' H; cbn [gruns_with] in H.
  - inv H. right. exists []. cbn. rewrite app_nil_r. auto.
  - destruct (grun h info f r st) as [res1 st1] eqn:E1.
    destruct (G1 r st res1 st1 E1) as [[-> Hn]|(t & -> & Hs & Hv & Hw)];
      [inv H; left; split; auto; cbn [mapM]; now rewrite Hn|].
    destruct (gruns_with (grun h info f) tl st1) as [resl2 st2] eqn:E2.
    destruct (IH st1 resl2 st2 E2) as [[-> Hn]|(vs & -> & Hs2 & Hv2 & Hw2)];
      [inv H; left; split; auto; cbn [mapM]; rewrite Hs; rewrite Hv in Hn; now rewrite Hn|].
    inv H. right. exists (t :: vs). rewrite Hv in *. cbn [mapM flat_map]. rewrite Hs, Hs2.
    repeat split; auto; try congruence. rewrite Hw2, Hw. now rewrite app_assoc.
Qed.

Lemma remove_first_head r l : remove_first r (r :: l) = l.
Proof. cbn. now rewrite Nat.eqb_refl. Qed.

Lemma good_step f : Good1 f -> Good1 (S f).
Proof.
  intros G1 r st res st' H. pose proof (good_list f G1) as GL.
  cbn [grun] in H. cbn [gspec gwarns]. unfold visited_b in H.
  destruct (existsb (Nat.eqb r) (g_visited st)) eqn:Ev.
  { inv H. right. eexists. repeat split. now rewrite app_nil_r. }
  assert (Cont : forall l mk res st',
            match gruns_with (grun h info f) l (start_visit r st) with
            | (LOk vs, st2) => (GOk (mk vs), end_visit r st2)
            | (LExc, st2) => (GOk (VRepr (gi_repr info r)), warn r true (end_visit r st2))
            | (LFuel, st2) => (GFuel, st2)
            end = (res, st') ->
            (res = GFuel /\ mapM (gspec h info f (r :: g_visited st)) l = None) \/
            exists t, res = GOk t /\ option_map mk (mapM (gspec h info f (r :: g_visited st)) l) = Some t /\
                      g_visited st' = g_visited st /\
                      g_warns st' = g_warns st ++ flat_map (gwarns h f (r :: g_visited st)) l).
  { intros l mk res0 st0 H0.
    destruct (gruns_with (grun h info f) l (start_visit r st)) as [resl st2] eqn:E.
    destruct (GL l (start_visit r st) resl st2 E) as [[-> Hn]|(vs & -> & Hs & Hv & Hw)]; [inv H0; now left|].
    inv H0. right. exists (mk vs). cbn [start_visit g_visited g_warns] in *. rewrite Hs. cbn [option_map].
    repeat split; auto. cbn [end_visit g_visited]. rewrite Hv. apply remove_first_head. }
  destruct (nth_error h r) as [n|] eqn:En.
  2:{ inv H. right. eexists. repeat split. now rewrite app_nil_r. }
  destruct n as [v|l|l|kvs|fn args fault].
  - inv H. right. eexists. repeat split. now rewrite app_nil_r.
  - destruct (Cont l VList res st' H) as [[-> Hn]|X]; [left; now rewrite Hn|now right].
  - destruct (Cont l VTuple res st' H) as [[-> Hn]|X]; [left; now rewrite Hn|now right].
  - destruct (Cont (split_pairs kvs) (fun vs => VDict (join_pairs vs) []) res st' H) as [[-> Hn]|X];
      [left; now rewrite Hn|now right].
  - destruct fault.
    + destruct (Cont args (mk_call h fn args) res st' H) as [[-> Hn]|X]; [left; now rewrite Hn|now right].
    + inv H. right. eexists. repeat split. cbn. now rewrite Nat.eqb_refl.
    + destruct (gruns_with (grun h info f) args (start_visit r st)) as [resl st2] eqn:E.
      destruct (GL args (start_visit r st) resl st2 E) as [[-> Hn]|(vs & -> & Hs & Hv & Hw)];
        [inv H; left; cbn [start_visit g_visited] in Hn; now rewrite Hn|].
      inv H. right. eexists. cbn [start_visit g_visited g_warns] in *. rewrite Hs. cbn [option_map].
      repeat split; cbn [warn end_visit g_visited g_warns].
      * rewrite Hv. apply remove_first_head.
      * rewrite Hw. now rewrite app_assoc.
    + pose proof (Hnd r _ En) as Hx. discriminate Hx.
Qed.

Theorem grun_refines : forall f, Good1 f.
Proof.
  induction f as [|f IH]; [|now apply good_step].
  intros r st res st' H. cbn in H. inv H. left. now split.
Qed.

End GP.

(** ---- termination: the unfolding never runs out of fuel ----------------- *)
Lemma mapM_total {A B} (f : A -> option B) l : (forall x, f x <> None) -> mapM f l <> None.
Proof.
  intros H. induction l as [|x tl IH]; cbn [mapM]; [discriminate|].
  destruct (f x) eqn:E; [|now apply H in E]. destruct (mapM f tl); [discriminate|congruence].
Qed.

Lemma existsb_eqb_false r l : existsb (Nat.eqb r) l = false -> ~ In r l.
Proof.
  intros H Hin. assert (existsb (Nat.eqb r) l = true); [|congruence].
  apply existsb_exists. exists r. split; [exact Hin|apply Nat.eqb_refl].
Qed.

Theorem gspec_total (h : heap) (info : ginfo) : forall fuel anc r,
  NoDup anc -> (forall x, In x anc -> (x < length h)%nat) -> (length h - length anc < fuel)%nat ->
  gspec h info fuel anc r <> None.
Proof.
  induction fuel as [|f IH]; intros anc r Hnd Hb Hf; [lia|].
  cbn [gspec]. destruct (existsb (Nat.eqb r) anc) eqn:Ev; [discriminate|].
  destruct (nth_error h r) as [n|] eqn:En; [|discriminate].
  assert (Hr : (r < length h)%nat) by (apply nth_error_Some; congruence).
  assert (Hnd' : NoDup (r :: anc)) by (constructor; [now apply existsb_eqb_false|exact Hnd]).
  assert (Hb' : forall x, In x (r :: anc) -> (x < length h)%nat) by (intros x [<-|Hx]; auto).
  assert (Hlen : (length (r :: anc) <= length h)%nat).
  { rewrite <- (seq_length (length h) 0). apply NoDup_incl_length; [exact Hnd'|].
    intros x Hx. apply in_seq. specialize (Hb' x Hx). lia. }
  assert (K : forall l, mapM (gspec h info f (r :: anc)) l <> None).
  { intros l. apply mapM_total. intros x. apply IH; auto. cbn [length] in *. lia. }
  destruct n as [v|l|l|kvs|fn args fault]; try discriminate.
  - specialize (K l). destruct (mapM _ l); [discriminate|congruence].
  - specialize (K l). destruct (mapM _ l); [discriminate|congruence].
  - specialize (K (split_pairs kvs)). destruct (mapM _ (split_pairs kvs)); [discriminate|congruence].
  - destruct fault; try discriminate; specialize (K args); destruct (mapM _ args); try discriminate; congruence.
Qed.

(** the stateful run therefore never runs out of fuel either *)
Theorem grun_total (h : heap) (info : ginfo) : no_nondoc h -> forall root,
  fst (gprint h info (S (length h)) root) <> GFuel.
Proof.
  intros Hnd root. unfold gprint. destruct (grun h info (S (length h)) root (mkG [] [])) as [res st'] eqn:E.
  destruct (grun_refines h info Hnd _ _ _ _ _ E) as [[-> Hn]|(t & -> & _)]; [|discriminate].
  exfalso. revert Hn. apply gspec_total; [constructor|intros x []|cbn; lia].
Qed.

(** ---- a printer returning a non-document at the top level: ValueError --- *)
Theorem nondoc_top (h : heap) (info : ginfo) fuel root fn args :
  nth_error h root = Some (GUser fn args FNonDoc) ->
  fst (gprint h info (S fuel) root) = GExc.
Proof. intros H. unfold gprint. cbn. now rewrite H. Qed.

(** ---- containment: the value of a print with failing printers is the print
    of the heap in which exactly the failing objects are opaque repr leaves -- *)
Lemma nth_patch_from info : forall h i r,
  nth_error (patch_from info i h) r =
  option_map (fun n => if failing n then GLeaf (VRepr (gi_repr info (i + r))) else n) (nth_error h r).
Proof.
  induction h as [|n tl IH]; intros i r; [now destruct r|].
  destruct r; cbn [patch_from nth_error option_map]; [now rewrite Nat.add_0_r|].
  rewrite IH. now rewrite Nat.add_succ_r.
Qed.

Lemma mapM_ext_some {A B} (f g : A -> option B) l vs :
  (forall x t, f x = Some t -> g x = Some t) -> mapM f l = Some vs -> mapM g l = Some vs.
Proof.
  intros H. revert vs. induction l as [|x tl IH]; intros vs E; cbn [mapM] in *; [exact E|].
  destruct (f x) eqn:Ef; [|discriminate]. destruct (mapM f tl) eqn:Et; [|discriminate].
  rewrite (H x _ Ef). now rewrite (IH _ eq_refl).
Qed.

Lemma mk_call_patch info h fn args vs : mk_call (patch_from info 0 h) fn args vs = mk_call h fn args vs.
Proof.
  unfold mk_call. destruct args as [|a [|]]; auto. destruct vs as [|v [|]]; auto. destruct v; auto.
  unfold is_container_ref. rewrite nth_patch_from. destruct (nth_error h a) as [n|]; cbn [option_map]; auto.
  destruct n as [| | | |? ? []]; reflexivity.
Qed.

Theorem gspec_patch (h : heap) (info : ginfo) : forall fuel anc r t,
  gspec h info fuel anc r = Some t -> gspec (patch info h) info fuel anc r = Some t.
Proof.
  induction fuel as [|f IH]; intros anc r t H; [discriminate|]. cbn [gspec] in *.
  destruct (existsb (Nat.eqb r) anc); [exact H|].
  unfold patch. rewrite nth_patch_from. cbn [Nat.add].
  destruct (nth_error h r) as [n|]; cbn [option_map]; [|exact H].
  assert (K : forall l vs, mapM (gspec h info f (r :: anc)) l = Some vs ->
              mapM (gspec (patch_from info 0 h) info f (r :: anc)) l = Some vs).
  { intros l vs. apply mapM_ext_some. intros x t0. apply IH. }
  destruct n as [v|l|l|kvs|fn args fault]; cbn [failing]; try exact H.
  - destruct (mapM _ l) eqn:E; [|discriminate]. now rewrite (K _ _ E).
  - destruct (mapM _ l) eqn:E; [|discriminate]. now rewrite (K _ _ E).
  - destruct (mapM _ (split_pairs kvs)) eqn:E; [|discriminate]. now rewrite (K _ _ E).
  - destruct fault; cbn [failing]; try exact H.
    + destruct (mapM _ args) eqn:E; [|discriminate]. rewrite (K _ _ E). cbn [option_map] in *.
      now rewrite mk_call_patch.
    + destruct (mapM _ args) eqn:E; [|discriminate]. exact H.
Qed.

(** ---- shared substructure prints the same wherever it occurs ------------ *)
Definition children (n : gnode) : list nat :=
  match n with
  | GLeaf _ => []
  | GList l | GTuple l => l
  | GDict kvs => split_pairs kvs
  | GUser _ args _ => args
  end.

Inductive reach (h : heap) : nat -> nat -> Prop :=
| reach_refl r : reach h r r
| reach_step r n x y : nth_error h r = Some n -> In x (children n) -> reach h x y -> reach h r y.

Lemma mapM_ext_in {A B} (f g : A -> option B) l : (forall x, In x l -> f x = g x) -> mapM f l = mapM g l.
Proof.
  induction l as [|x tl IH]; intros H; cbn [mapM]; [reflexivity|].
  rewrite (H x (or_introl eq_refl)). rewrite IH; [reflexivity|]. intros y Hy. apply H. now right.
Qed.

Lemma existsb_eqb_iff r l : existsb (Nat.eqb r) l = true <-> In r l.
Proof.
  split.
  - intros H. apply existsb_exists in H as (x & Hx & E). apply Nat.eqb_eq in E. now subst.
  - intros H. apply existsb_exists. exists r. split; [exact H|apply Nat.eqb_refl].
Qed.

Theorem gspec_sharing (h : heap) (info : ginfo) : forall fuel anc1 anc2 r,
  (forall x, reach h r x -> (In x anc1 <-> In x anc2)) ->
  gspec h info fuel anc1 r = gspec h info fuel anc2 r.
Proof.
  induction fuel as [|f IH]; intros anc1 anc2 r H; [reflexivity|]. cbn [gspec].
  assert (Eb : existsb (Nat.eqb r) anc1 = existsb (Nat.eqb r) anc2).
  { destruct (existsb (Nat.eqb r) anc1) eqn:E1, (existsb (Nat.eqb r) anc2) eqn:E2; auto.
    - apply existsb_eqb_iff in E1. apply (H r (reach_refl h r)) in E1. apply existsb_eqb_iff in E1. congruence.
    - apply existsb_eqb_iff in E2. apply (H r (reach_refl h r)) in E2. apply existsb_eqb_iff in E2. congruence. }
  rewrite Eb. destruct (existsb (Nat.eqb r) anc2); [reflexivity|].
  destruct (nth_error h r) as [n|] eqn:En; [|reflexivity].
  assert (K : forall l, (forall x, In x l -> In x (children n)) ->
              mapM (gspec h info f (r :: anc1)) l = mapM (gspec h info f (r :: anc2)) l).
  { intros l Hl. apply mapM_ext_in. intros x Hx. apply IH. intros y Hy.
    assert (Hry : reach h r y) by (eapply reach_step; eauto).
    cbn [In]. specialize (H y Hry). tauto. }
  destruct n as [v|l|l|kvs|fn args fault]; cbn [children] in K; try reflexivity.
  - now rewrite K.
  - now rewrite K.
  - now rewrite K.
  - destruct fault; try reflexivity; now rewrite K.
Qed.

Corollary gspec_acyclic_occurrence (h : heap) (info : ginfo) fuel anc r :
  (forall x, reach h r x -> ~ In x anc) ->
  gspec h info fuel anc r = gspec h info fuel [] r.
Proof. intros H. apply gspec_sharing. intros x Hx. split; [intros Hi; now apply H in Hi|intros []]. Qed.

(** ---- the visited set is restored on every exit, exceptional or not ------ *)
Section Restore.
Variable h : heap.
Variable info : ginfo.

Definition Rest1 (f : nat) : Prop :=
  forall r st res st', grun h info f r st = (res, st') -> res <> GFuel -> g_visited st' = g_visited st.
Definition RestL (f : nat) : Prop :=
  forall l st resl st', gruns_with (grun h info f) l st = (resl, st') -> resl <> LFuel -> g_visited st' = g_visited st.

Lemma rest_list f : Rest1 f -> RestL f.
Proof.
  intros R1 l. induction l as [|r tl IH]; intros st resl st' H Hf; cbn [gruns_with] in H; [now inv H|].
  destruct (grun h info f r st) as [res1 st1] eqn:E1.
  destruct res1 as [v| |].
  - destruct (gruns_with (grun h info f) tl st1) as [resl2 st2] eqn:E2.
    assert (Hv1 : g_visited st1 = g_visited st) by (apply (R1 _ _ _ _ E1); discriminate).
    destruct resl2; inv H; rewrite <- Hv1; apply (IH _ _ _ E2); congruence.
  - inv H. apply (R1 _ _ _ _ E1). discriminate.
  - inv H. congruence.
Qed.

Lemma rest_step f : Rest1 f -> Rest1 (S f).
Proof.
  intros R1 r st res st' H Hf. pose proof (rest_list f R1) as RL.
  cbn [grun] in H. destruct (visited_b r st); [now inv H|].
  assert (Cont : forall l (mk : list pyval -> pyval) res st',
            match gruns_with (grun h info f) l (start_visit r st) with
            | (LOk vs, st2) => (GOk (mk vs), end_visit r st2)
            | (LExc, st2) => (GOk (VRepr (gi_repr info r)), warn r true (end_visit r st2))
            | (LFuel, st2) => (GFuel, st2)
            end = (res, st') -> res <> GFuel -> g_visited st' = g_visited st).
  { intros l mk res0 st0 H0 Hf0.
    destruct (gruns_with (grun h info f) l (start_visit r st)) as [resl st2] eqn:E.
    assert (Hv : resl <> LFuel -> g_visited st2 = r :: g_visited st) by (intros X; exact (RL _ _ _ _ E X)).
    destruct resl; inv H0; try congruence; cbn [warn end_visit g_visited]; rewrite Hv by discriminate;
      apply remove_first_head. }
  destruct (nth_error h r) as [n|]; [|now inv H].
  destruct n as [v|l|l|kvs|fn args fault].
  1: now inv H.
  1: exact (Cont l VList res st' H Hf).
  1: exact (Cont l VTuple res st' H Hf).
  1: exact (Cont (split_pairs kvs) (fun vs => VDict (join_pairs vs) []) res st' H Hf).
  destruct fault.
  1: exact (Cont args (mk_call h fn args) res st' H Hf).
  - inv H. cbn. now rewrite Nat.eqb_refl.
  - destruct (gruns_with (grun h info f) args (start_visit r st)) as [resl st2] eqn:E.
    assert (Hv : resl <> LFuel -> g_visited st2 = r :: g_visited st) by (intros X; exact (RL _ _ _ _ E X)).
    destruct resl; inv H; try congruence; cbn [warn end_visit g_visited]; rewrite Hv by discriminate;
      apply remove_first_head.
  - inv H. cbn. now rewrite Nat.eqb_refl.
Qed.

Theorem visited_restored : forall f, Rest1 f.
Proof. induction f as [|f IH]; [|now apply rest_step]. intros r st res st' H Hf. cbn in H. inv H. congruence. Qed.
End Restore.

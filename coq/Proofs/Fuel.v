(** C12 (layout engine): on the classic algebra (text, concat, nest, group,
    line / softline, hardline, always_break - what the bundled printers build
    apart from strings, comments' fill and annotations) the main loop finishes
    within M + 1 iterations and every look-ahead within M + 1 iterations, M =
    the total size of the pending stack: at most (M + 1)^2 loop iterations. *)
From Coq Require Import Lia.
From PP Require Import Doc Normalize Layout.

Ltac inv H := inversion H; subst; clear H.

Definition is_hardb (d : doc) : bool := match d with HardLine => true | _ => false end.

Fixpoint clna (d : doc) : bool :=
  match d with
  | Nil | Text _ | HardLine => true
  | Cat l => (fix all (l : list doc) : bool := match l with [] => true | x :: tl => clna x && all tl end) l
  | Nest _ x | Group x | AlwaysBreak x => clna x
  | FlatChoice b f | FCN b f => is_hardb b && clna f
  | _ => false
  end.

Fixpoint sz (d : doc) : nat :=
  match d with
  | Cat l => S ((fix sum (l : list doc) : nat := match l with [] => O | x :: tl => (sz x + sum tl)%nat end) l)
  | Nest _ x | Group x | AlwaysBreak x => S (sz x)
  | FlatChoice b f | FCN b f => S (sz b + sz f)
  | _ => 1%nat
  end.

Definition szl (l : list doc) : nat := fold_right (fun x a => (sz x + a)%nat) O l.
Definition msz (s : list triple) : nat := fold_right (fun t a => (sz (snd t) + a)%nat) O s.
Definition clna_stk (s : list triple) : Prop := Forall (fun t => clna (snd t) = true) s.

Lemma sz_cat l : sz (Cat l) = S (szl l).
Proof. induction l as [|x tl IH]; [reflexivity|]. cbn [sz] in *. unfold szl in *. cbn [fold_right]. lia. Qed.
Lemma clna_cat l : clna (Cat l) = forallb clna l.
Proof. induction l as [|x tl IH]; [reflexivity|]. cbn [clna forallb] in *. now rewrite <- IH. Qed.
Lemma sz_pos d : (1 <= sz d)%nat.
Proof. destruct d; cbn; lia. Qed.

Lemma msz_push_all i m l rest : msz (push_all i m l rest) = (szl l + msz rest)%nat.
Proof.
  unfold push_all. induction l as [|x tl IH]; [reflexivity|].
  change (msz (map (fun x0 => (i, m, x0)) (x :: tl) ++ rest))
    with (sz x + msz (map (fun x0 => (i, m, x0)) tl ++ rest))%nat.
  rewrite IH. unfold szl. cbn [fold_right]. lia.
Qed.

Lemma clna_push_all i m l rest : clna (Cat l) = true -> clna_stk rest -> clna_stk (push_all i m l rest).
Proof.
  rewrite clna_cat. intros Hl Hr. unfold push_all. apply Forall_app; split; [|exact Hr].
  apply Forall_forall. intros t Ht. apply in_map_iff in Ht as (x & <- & Hx). cbn [snd].
  rewrite forallb_forall in Hl. auto.
Qed.

Lemma msz_cons i m d rest : msz ((i, m, d) :: rest) = (sz d + msz rest)%nat.
Proof. reflexivity. Qed.
Ltac fin := rewrite ?msz_cons, ?msz_push_all, ?sz_cat; cbn [sz]; try lia.

Section F.
Variable evs : strp -> Z -> Z -> Z -> Z -> doc.

(** one look-ahead iteration strictly shrinks the stack measure *)
Lemma fits_step_dec smart w rw mnl maxw cl stk cl' stk' :
  clna_stk stk -> fits_step evs smart w rw mnl maxw cl stk = FCont cl' stk' ->
  clna_stk stk' /\ (msz stk' < msz stk)%nat.
Proof.
  intros Hc H. unfold fits_step in H. destruct (cl <? 0)%Z; [discriminate|].
  destruct stk as [|[[i m] d] rest]; [discriminate|]. inv Hc. cbn [snd] in *.
  rename H2 into Hd. rename H3 into Hr.
  destruct d; cbn [clna] in Hd; try discriminate.
  - inv H. split; [exact Hr|]. fin.
  - inv H. split; [exact Hr|]. fin.
  - inv H. split; [now apply clna_push_all|]. fin.
  - inv H. split; [constructor; auto|]. fin.
  - inv H. split; [constructor; auto|]. fin.
  - apply andb_prop in Hd as [Hb Hf]. inv H. split.
    + constructor; [|exact Hr]. cbn [snd]. destruct m; [destruct d1; try discriminate; reflexivity|exact Hf].
    + destruct m; fin.
  - apply andb_prop in Hd as [Hb Hf]. inv H. split.
    + constructor; [|exact Hr]. cbn [snd]. destruct m; [destruct d1; try discriminate; reflexivity|exact Hf].
    + destruct m; [destruct d1; try discriminate; cbn [normalize_doc]; fin|fin].
  - destruct smart; [|discriminate]. destruct (i >? mnl)%Z; [|discriminate]. inv H. split; [exact Hr|]. fin.
Qed.

Theorem fits_total : forall fuel smart w rw mnl maxw cl stk,
  clna_stk stk -> (msz stk < fuel)%nat -> fits_loop evs fuel smart w rw mnl maxw cl stk <> None.
Proof.
  induction fuel as [|f IH]; intros smart w rw mnl maxw cl stk Hc Hf; [lia|].
  cbn [fits_loop]. destruct (fits_step evs smart w rw mnl maxw cl stk) as [| |cl' stk'] eqn:E; try discriminate.
  destruct (fits_step_dec _ _ _ _ _ _ _ _ _ Hc E) as [Hc' Hm]. apply IH; [exact Hc'|lia].
Qed.

(** one iteration of the main loop: never out of look-ahead fuel, and the
    pending stack strictly shrinks *)
Lemma layout_step_dec ff smart w rw st :
  clna_stk (ls_stk st) -> (msz (ls_stk st) <= ff)%nat ->
  match layout_step evs ff smart w rw st with
  | LDone _ => True
  | LFuel => False
  | LCont st' => clna_stk (ls_stk st') /\ (msz (ls_stk st') < msz (ls_stk st))%nat
  end.
Proof.
  intros Hc Hff. unfold layout_step. destruct (ls_stk st) as [|[[i m] d] rest] eqn:Es; [exact I|].
  inv Hc. cbn [snd] in *. rename H1 into Hd. rename H2 into Hr.
  destruct d; cbn [clna] in Hd; try discriminate; cbn [ls_stk].
  - split; [exact Hr|]. fin.
  - split; [exact Hr|]. fin.
  - split; [now apply clna_push_all|]. fin.
  - split; [constructor; auto|]. fin.
  - (* group *)
    assert (Hs : clna_stk ((i, MFlat, d) :: rest)) by (constructor; auto).
    pose proof (fits_total ff smart w rw (Z.min (ls_col st) i) (avail w rw (ls_col st) i)
                  (avail w rw (ls_col st) i) ((i, MFlat, d) :: rest) Hs) as Ht.
    unfold fits. rewrite msz_cons in Hff, Ht. cbn [sz] in Hff.
    destruct (fits_loop evs ff smart w rw (Z.min (ls_col st) i) (avail w rw (ls_col st) i)
                (avail w rw (ls_col st) i) ((i, MFlat, d) :: rest)) as [[|]|] eqn:E.
    + cbn [ls_stk]. split; [constructor; auto|]. fin.
    + cbn [ls_stk]. split; [constructor; auto|]. fin.
    + apply Ht; [lia|reflexivity].
  - split; [constructor; auto|]. fin.
  - apply andb_prop in Hd as [Hb Hf]. split.
    + constructor; [|exact Hr]. cbn [snd]. destruct m; [destruct d1; try discriminate; reflexivity|exact Hf].
    + destruct m; fin.
  - apply andb_prop in Hd as [Hb Hf]. split.
    + constructor; [|exact Hr]. cbn [snd]. destruct m; [destruct d1; try discriminate; reflexivity|exact Hf].
    + destruct m; [destruct d1; try discriminate; cbn [normalize_doc]; fin|fin].
  - split; [exact Hr|]. fin.
Qed.

Theorem layout_total : forall fuel ff smart w rw st,
  clna_stk (ls_stk st) -> (msz (ls_stk st) < fuel)%nat -> (msz (ls_stk st) <= ff)%nat ->
  layout_loop evs fuel ff smart w rw st <> None.
Proof.
  induction fuel as [|f IH]; intros ff smart w rw st Hc Hf Hff; [lia|].
  cbn [layout_loop]. pose proof (layout_step_dec ff smart w rw st Hc Hff) as H.
  destruct (layout_step evs ff smart w rw st) as [out|st'|]; [discriminate| |contradiction].
  destruct H as [Hc' Hm]. apply IH; [exact Hc'|lia|lia].
Qed.

End F.

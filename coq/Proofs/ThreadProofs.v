(** C20: for ANY number of threads and ANY schedule, every thread that finishes
    has printed with the lazily registered printer, and none raises. *)
From Coq Require Import Lia.
From PP Require Import Threads.

Ltac inv H := inversion H; subst; clear H.

(** what a thread may assume at each program point *)
Definition good (sh : shared) (t : thread) : Prop :=
  match t_pc t with
  | L0 => t_out t = None
  | L1 => t_out t = None /\ (t_fn t = false -> s_registry sh = true)
  | L2 => t_out t = None /\ t_fn t = true
  | L3 => t_out t = None /\ s_registry sh = true
  | L4 => t_out t = None /\ s_registry sh = true
  | LDone => t_out t = Some Printed
  end.

Definition Inv (st : shared * list thread) : Prop :=
  (s_deferred (fst st) || s_registry (fst st) = true) /\ Forall (good (fst st)) (snd st).

(** the registry only grows *)
Definition mono (sh sh' : shared) : Prop := s_registry sh = true -> s_registry sh' = true.

Lemma good_mono sh sh' t : mono sh sh' -> good sh t -> good sh' t.
Proof.
  unfold mono, good. intros M. destruct (t_pc t); intuition.
Qed.

Lemma step_new_ok sh t : (s_deferred sh || s_registry sh = true) -> good sh t ->
  let '(sh', t') := step_new sh t in
  (s_deferred sh' || s_registry sh' = true) /\ mono sh sh' /\ good sh' t'.
Proof.
  unfold step_new, good, mono, dispatch. intros HI HG.
  destruct (t_pc t) eqn:E; cbn [t_pc t_fn t_out s_deferred s_registry].
  - (* L0 *) split; [exact HI|]. split; [auto|]. split; [reflexivity|].
    intros Hd. rewrite Hd in HI. exact HI.
  - destruct HG as [Ho Hf]. split; [exact HI|]. split; [auto|].
    destruct (t_fn t) eqn:Ef; cbn [t_pc t_fn t_out]; split; auto.
  - destruct HG as [Ho Hf]. split; [now rewrite orb_true_r|]. split; [auto|]. cbn. auto.
  - destruct HG as [Ho Hr]. split; [rewrite Hr; reflexivity|]. split; [auto|]. cbn. auto.
  - destruct HG as [Ho Hr]. split; [exact HI|]. split; [auto|]. cbn. now rewrite Hr.
  - split; [exact HI|]. split; [auto|]. rewrite E. exact HG.
Qed.

Lemma Forall_upd (P : thread -> Prop) : forall l i x, Forall P l -> P x -> Forall P (upd l i x).
Proof.
  induction l as [|y tl IH]; intros i x Hl Hx; [constructor|]. inv Hl.
  destruct i; cbn [upd]; constructor; auto.
Qed.

Lemma sched1_inv st i : Inv st -> Inv (sched1 step_new st i).
Proof.
  intros [HI HF]. unfold sched1. destruct (nth_error (snd st) i) as [t|] eqn:En; [|split; auto].
  assert (HG : good (fst st) t).
  { apply nth_error_In in En. exact (proj1 (Forall_forall _ _) HF t En). }
  pose proof (step_new_ok (fst st) t HI HG) as H. destruct (step_new (fst st) t) as [sh' t'].
  destruct H as (HI' & HM & HG'). split; [exact HI'|]. cbn [fst snd].
  apply Forall_upd; [|exact HG'].
  apply Forall_forall. intros x Hx. apply (good_mono (fst st)); [exact HM|].
  exact (proj1 (Forall_forall _ _) HF x Hx).
Qed.

Theorem run_inv : forall sched st, Inv st -> Inv (run step_new sched st).
Proof.
  induction sched as [|i tl IH]; intros st H; [exact H|]. unfold run in *. cbn [fold_left].
  apply IH. now apply sched1_inv.
Qed.

Lemma init_inv n : Inv (sh0, repeat t0 n).
Proof. split; [reflexivity|]. apply Forall_forall. intros x Hx. apply repeat_spec in Hx. subst. reflexivity. Qed.

(** every outcome recorded by any thread, under any schedule, is "printed
    with the registered printer" - never the repr fallback, never KeyError *)
Theorem all_schedules_safe (n : nat) (sched : list nat) :
  forall t, In t (snd (run step_new sched (sh0, repeat t0 n))) ->
    t_out t = None \/ t_out t = Some Printed.
Proof.
  intros t Ht. destruct (run_inv sched _ (init_inv n)) as [_ HF].
  pose proof (proj1 (Forall_forall _ _) HF t Ht) as HG. unfold good in HG.
  destruct (t_pc t); intuition.
Qed.

(** ... and a thread that has taken its five steps is done *)
Theorem finished_threads_printed (n : nat) (sched : list nat) :
  forall t, In t (snd (run step_new sched (sh0, repeat t0 n))) -> t_pc t = LDone -> t_out t = Some Printed.
Proof.
  intros t Ht Hd. destruct (run_inv sched _ (init_inv n)) as [_ HF].
  pose proof (proj1 (Forall_forall _ _) HF t Ht) as HG. unfold good in HG. now rewrite Hd in HG.
Qed.

(** the code before the fix: two threads, schedule 0 1 1 1 1 0 - thread 0 passes
    the membership test, thread 1 pops, registers and prints, thread 0's pop
    raises KeyError; schedule 0 0 1 1 - thread 1 finds the printer in neither
    place and prints the repr *)
Theorem old_code_races :
  (exists sched, In (mkT LDone false (Some KeyErr)) (snd (run step_old sched (sh0, [t0; t0])))) /\
  (exists sched, exists t, In t (snd (run step_old sched (sh0, [t0; t0]))) /\ t_out t = Some ReprFallback).
Proof.
  split.
  - exists [0; 1; 1; 1; 1; 0]%nat. vm_compute. auto.
  - exists [0; 0; 1; 1]%nat. eexists. split; [vm_compute; right; left; reflexivity|reflexivity].
Qed.

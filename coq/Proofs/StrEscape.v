(** C02: escape_str_for_quote (repr() followed by the textual re-quoting)
    is, for either quote, the character-by-character escaping - and decodes
    back to the original string. *)
From Coq Require Import Lia.
From PP Require Import Doc PyStr PyLit.
Local Open Scope N_scope.

Section StrEscape.
Variable printable : N -> bool.

Ltac inv H := inversion H; subst; clear H.

Definition rc (bytes : bool) (q : N) : N -> str :=
  if bytes then repr_char_b q else repr_char_u printable q.

(** ---- hex digits ------------------------------------------------------- *)
Definition is_hexdigit (x : N) : Prop := (48 <= x <= 57) \/ (97 <= x <= 102).

Lemma hexdigit_ok d : d < 16 -> is_hexdigit (hexdigit d) /\ hexval (hexdigit d) = Some d.
Proof.
  intros H. unfold hexdigit, hexval, is_hexdigit.
  destruct (d <? 10) eqn:E.
  - apply N.ltb_lt in E. split; [lia|].
    replace ((48 <=? 48 + d) && (48 + d <=? 57))%bool with true.
    + f_equal. lia.
    + symmetry. apply andb_true_intro. split; apply N.leb_le; lia.
  - apply N.ltb_ge in E. split; [lia|].
    replace ((48 <=? 87 + d) && (87 + d <=? 57))%bool with false.
    + replace ((97 <=? 87 + d) && (87 + d <=? 102))%bool with true.
      * f_equal. lia.
      * symmetry. apply andb_true_intro. split; apply N.leb_le; lia.
    + symmetry. apply andb_false_intro2. apply N.leb_gt. lia.
Qed.

Lemma hex_digits k : forall c x, In x (hex k c) -> is_hexdigit x.
Proof.
  induction k as [|k IH]; intros c x H; cbn [hex] in H; [contradiction|].
  apply in_app_or in H as [H|[<-|[]]]; [eauto|].
  apply hexdigit_ok. apply N.mod_lt. lia.
Qed.

Lemma hex_length k : forall c, length (hex k c) = k.
Proof. induction k as [|k IH]; intros c; cbn [hex]; [reflexivity|]. rewrite app_length, IH. cbn. lia. Qed.

Definition hexfold (l : str) (acc : N) : N :=
  fold_left (fun a d => 16 * a + match hexval d with Some v => v | None => 0 end) l acc.

Lemma hexfold_hex k : forall c acc, c < 16 ^ N.of_nat k -> hexfold (hex k c) acc = acc * 16 ^ N.of_nat k + c.
Proof.
  induction k as [|k IH]; intros c acc H.
  - cbn in *. lia.
  - cbn [hex]. unfold hexfold in *. rewrite fold_left_app. cbn [fold_left].
    rewrite Nat2N.inj_succ, N.pow_succ_r' in *.
    assert (Hd : c / 16 < 16 ^ N.of_nat k) by (apply N.div_lt_upper_bound; lia).
    rewrite (IH _ _ Hd).
    destruct (hexdigit_ok (c mod 16)) as [_ ->]; [apply N.mod_lt; lia|].
    pose proof (N.div_mod c 16). lia.
Qed.

Lemma unhex_app l : forall acc rest,
  (forall x, In x l -> is_hexdigit x) ->
  unhex (length l) acc (l ++ rest) = Some (hexfold l acc, rest).
Proof.
  induction l as [|d tl IH]; intros acc rest H; [reflexivity|].
  cbn [length unhex app].
  assert (Hd : is_hexdigit d) by (apply H; now left).
  assert (exists v, hexval d = Some v) as [v Hv].
  { unfold hexval, is_hexdigit in *. destruct Hd as [Hd|Hd].
    - replace ((48 <=? d) && (d <=? 57))%bool with true; [eauto|].
      symmetry. apply andb_true_intro. split; apply N.leb_le; lia.
    - replace ((48 <=? d) && (d <=? 57))%bool with false.
      + replace ((97 <=? d) && (d <=? 102))%bool with true; [eauto|].
        symmetry. apply andb_true_intro. split; apply N.leb_le; lia.
      + symmetry. apply andb_false_intro2. apply N.leb_gt. lia. }
  rewrite Hv. rewrite IH by (intros x Hx; apply H; now right).
  unfold hexfold. cbn [fold_left]. now rewrite Hv.
Qed.

Lemma unhex_hex k c rest : c < 16 ^ N.of_nat k -> unhex k 0 (hex k c ++ rest) = Some (c, rest).
Proof.
  intros H. rewrite <- (hex_length k c) at 1. rewrite unhex_app by apply hex_digits.
  rewrite hexfold_hex by exact H. rewrite N.mul_0_l, N.add_0_l. reflexivity.
Qed.

(** ---- the chunks of repr ----------------------------------------------- *)
Lemma rc_nonempty bytes q c : rc bytes q c <> [].
Proof.
  unfold rc, repr_char_b, repr_char_u. destruct bytes;
    repeat match goal with |- context [if ?b then _ else _] => destruct b end; discriminate.
Qed.

Opaque hex.
(** a character other than [x] never produces [x], provided [x] is a quote *)
Lemma rc_notin bytes q c x : (x = SQ \/ x = DQ) -> c <> x -> ~ In x (rc bytes q c).
Proof.
  intros Hx Hc Hin.
  assert (Hh : forall k, ~ In x (hex k c)).
  { intros k H. apply hex_digits in H. unfold is_hexdigit, SQ, DQ in *. lia. }
  unfold rc, repr_char_b, repr_char_u in Hin.
  destruct bytes;
    repeat match type of Hin with context [if ?b then _ else _] => destruct b end;
    cbn [In] in Hin; unfold BS, SQ, DQ in *;
    repeat (destruct Hin as [Hin|Hin]; [try lia|]); try contradiction;
    try (apply (Hh 2%nat); exact Hin); try (apply (Hh 4%nat); exact Hin); try (apply (Hh 8%nat); exact Hin);
    try match goal with
        | H : hexdigit ?d = _ |- _ =>
            destruct (hexdigit_ok d) as [Hd _]; [apply N.mod_lt; lia|]; unfold is_hexdigit in Hd; lia
        end.
Qed.

Transparent hex.
Lemma rc_hd_not_quote bytes q c x : (x = SQ \/ x = DQ) -> hd 0 (rc bytes q c) = x -> c = x /\ q <> x.
Proof.
  intros Hx. unfold rc, repr_char_b, repr_char_u.
  destruct bytes;
    repeat match goal with |- context [if ?b then _ else _] => destruct b eqn:? end;
    cbn [hd]; unfold BS, SQ, DQ in *; intros H; try lia;
    repeat match goal with
    | H : (_ || _)%bool = false |- _ => apply orb_false_iff in H as [? ?]
    | H : (_ =? _) = false |- _ => apply N.eqb_neq in H
    end; split; lia.
Qed.

Lemma flat_map_rc_hd bytes q s x : (x = SQ \/ x = DQ) -> q = x ->
  match flat_map (rc bytes q) s with [] => True | y :: _ => y <> x end.
Proof.
  intros Hx Hq. destruct s as [|c tl]; [exact I|]. cbn [flat_map].
  pose proof (rc_nonempty bytes q c). destruct (rc bytes q c) as [|y ys] eqn:E; [congruence|].
  cbn [app]. intros ->. assert (H0 : hd 0 (rc bytes q c) = x) by now rewrite E.
  apply rc_hd_not_quote in H0; auto. tauto.
Qed.

(** ---- str.replace ------------------------------------------------------- *)
Lemma replace1_flat_map a new (g : N -> str) s :
  replace1 a new (flat_map g s) = flat_map (fun c => replace1 a new (g c)) s.
Proof.
  unfold replace1. induction s as [|c tl IH]; [reflexivity|]. cbn [flat_map].
  now rewrite flat_map_app, IH.
Qed.

Lemma replace1_notin a new s : ~ In a s -> replace1 a new s = s.
Proof.
  unfold replace1. induction s as [|x tl IH]; intros H; [reflexivity|]. cbn [flat_map].
  destruct (x =? a) eqn:E; [apply N.eqb_eq in E; subst; exfalso; apply H; now left|].
  cbn [app]. f_equal. apply IH. intros Hin. apply H. now right.
Qed.

Lemma replace2_notin a b new s : ~ In b s -> replace2 a b new s = s.
Proof.
  induction s as [|x tl IH]; intros H; [reflexivity|].
  destruct tl as [|y tl']; [reflexivity|]. cbn [replace2].
  assert (y <> b) by (intros ->; apply H; right; now left).
  apply N.eqb_neq in H0. rewrite H0, andb_false_r. f_equal. apply IH. intros Hin. apply H. now right.
Qed.

Lemma replace2_step_ne a b new x y l :
  y <> b -> replace2 a b new (x :: y :: l) = x :: replace2 a b new (y :: l).
Proof. intros H. apply N.eqb_neq in H. cbn [replace2]. now rewrite H, andb_false_r. Qed.

(** a chunk without the quote, followed by text that does not start with it *)
Lemma replace2_chunk_other a b new chunk rest :
  ~ In b chunk -> match rest with [] => True | y :: _ => y <> b end ->
  replace2 a b new (chunk ++ rest) = chunk ++ replace2 a b new rest.
Proof.
  induction chunk as [|x tl IH]; intros Hn Hr; [reflexivity|]. cbn [app].
  assert (IH' : replace2 a b new (tl ++ rest) = tl ++ replace2 a b new rest).
  { apply IH; auto. intros Hin. apply Hn. now right. }
  destruct (tl ++ rest) as [|y l'] eqn:E.
  - apply app_eq_nil in E as [-> ->]. reflexivity.
  - assert (y <> b).
    { destruct tl as [|t tl']; cbn [app] in E.
      - subst rest. exact Hr.
      - inv E. intros ->. apply Hn. right. now left. }
    rewrite replace2_step_ne by exact H. now rewrite IH'.
Qed.

Lemma replace2_chunk_hit a b new rest :
  replace2 a b new ([a; b] ++ rest) = new ++ replace2 a b new rest.
Proof. cbn [app replace2]. now rewrite !N.eqb_refl. Qed.

(** re-quoting a body that repr quoted with [q0] for the other quote [q1] *)
Lemma requote bytes q0 q1 s :
  (q0 = SQ /\ q1 = DQ) \/ (q0 = DQ /\ q1 = SQ) ->
  replace1 q1 [BS; q1] (replace2 BS q0 [q0] (flat_map (rc bytes q0) s)) = flat_map (rc bytes q1) s.
Proof.
  intros Hq.
  assert (Hq0 : q0 = SQ \/ q0 = DQ) by tauto. assert (Hq1 : q1 = SQ \/ q1 = DQ) by tauto.
  assert (Hne : q0 <> q1) by (unfold SQ, DQ in *; lia).
  assert (R2 : replace2 BS q0 [q0] (flat_map (rc bytes q0) s) =
               flat_map (fun c => if c =? q0 then [q0] else rc bytes q0 c) s).
  { induction s as [|c tl IH]; [reflexivity|]. cbn [flat_map].
    destruct (c =? q0) eqn:E.
    - apply N.eqb_eq in E. subst c.
      assert (rc bytes q0 q0 = [BS; q0]) as ->.
      { unfold rc, repr_char_b, repr_char_u. destruct bytes; now rewrite N.eqb_refl. }
      now rewrite replace2_chunk_hit, IH.
    - apply N.eqb_neq in E. rewrite replace2_chunk_other, IH; auto.
      + now apply rc_notin.
      + now apply flat_map_rc_hd. }
  rewrite R2, replace1_flat_map. apply flat_map_ext. intros c.
  destruct (c =? q0) eqn:E0.
  - apply N.eqb_eq in E0. subst c.
    rewrite replace1_notin by (cbn; intros [H|[]]; congruence).
    unfold rc, repr_char_b, repr_char_u.
    destruct Hq as [[-> ->]|[-> ->]]; destruct bytes; reflexivity.
  - apply N.eqb_neq in E0. destruct (c =? q1) eqn:E1.
    + apply N.eqb_eq in E1. subst c.
      assert (rc bytes q0 q1 = [q1]) as ->.
      { unfold rc, repr_char_b, repr_char_u. destruct Hq as [[-> ->]|[-> ->]]; destruct bytes; reflexivity. }
      assert (rc bytes q1 q1 = [BS; q1]) as ->.
      { unfold rc, repr_char_b, repr_char_u. destruct bytes; now rewrite N.eqb_refl. }
      unfold replace1. cbn [flat_map]. now rewrite N.eqb_refl.
    + apply N.eqb_neq in E1. rewrite replace1_notin by now apply rc_notin.
      unfold rc, repr_char_b, repr_char_u.
      apply N.eqb_neq in E0, E1. destruct bytes; now rewrite E0, E1.
Qed.

Lemma repr_quote_cases s : repr_quote s = SQ \/ (repr_quote s = DQ /\ ~ In DQ s).
Proof.
  unfold repr_quote. destruct (mem_n SQ s && negb (mem_n DQ s))%bool eqn:E; [right|now left].
  split; [reflexivity|]. apply andb_prop in E as [_ E]. apply negb_true_iff in E.
  intros Hin. unfold mem_n in E. rewrite <- Bool.not_true_iff_false in E. apply E.
  apply existsb_exists. exists DQ. split; [exact Hin|apply N.eqb_refl].
Qed.

(** escape_str_for_quote is the character-wise escaping for the wanted quote *)
Theorem escape_direct bytes q s :
  q = SQ \/ q = DQ -> escape_for_quote printable bytes q s = flat_map (rc bytes q) s.
Proof.
  intros Hq. unfold escape_for_quote, repr_body. fold (rc bytes (repr_quote s)).
  destruct (repr_quote s =? q) eqn:E; [apply N.eqb_eq in E; now rewrite E|].
  apply N.eqb_neq in E.
  destruct (repr_quote_cases s) as [Hr|[Hr Hnd]]; rewrite Hr in *.
  - destruct Hq as [-> | ->]; [congruence|]. cbn [N.eqb Pos.eqb SQ DQ]. apply requote. now left.
  - destruct Hq as [-> | ->]; [|congruence]. rewrite N.eqb_refl. apply requote. now right.
Qed.

(** ---- decoding ---------------------------------------------------------- *)
Definition valid (bytes : bool) (c : N) : Prop := if bytes then c < 256 else c < 1114112.

Lemma unesc_chunk bytes q c f rest :
  q = SQ \/ q = DQ -> valid bytes c ->
  unesc (S f) bytes q (rc bytes q c ++ rest) = option_map (cons c) (unesc f bytes q rest).
Proof.
  intros Hq Hv.
  assert (Hqb : (BS =? q) = false) by (apply N.eqb_neq; unfold BS, SQ, DQ in *; lia).
  assert (H256 : c < 256 -> c < 16 ^ N.of_nat 2) by (cbn; lia).
  assert (H64k : c <= 65535 -> c < 16 ^ N.of_nat 4) by (cbn; lia).
  assert (H32 : c < 1114112 -> c < 16 ^ N.of_nat 8) by (cbn; lia).
  unfold rc, repr_char_b, repr_char_u, valid in *.
  destruct bytes.
  - (* bytes *)
    destruct ((c =? q) || (c =? BS))%bool eqn:E1.
    { cbn [app unesc]. rewrite Hqb, N.eqb_refl. cbn [andb orb].
      replace ((c =? BS) || (c =? SQ) || (c =? DQ))%bool with true; [reflexivity|].
      symmetry. apply orb_true_iff in E1 as [E1|E1]; apply N.eqb_eq in E1; subst;
        destruct Hq as [-> | ->]; reflexivity. }
    apply orb_false_iff in E1 as [Ecq Ecb].
    destruct (c =? 9) eqn:E9; [apply N.eqb_eq in E9; subst; cbn [app unesc]; now rewrite Hqb|].
    destruct (c =? 10) eqn:E10; [apply N.eqb_eq in E10; subst; cbn [app unesc]; now rewrite Hqb|].
    destruct (c =? 13) eqn:E13; [apply N.eqb_eq in E13; subst; cbn [app unesc]; now rewrite Hqb|].
    destruct ((c <? 32) || (127 <=? c))%bool eqn:Ex.
    { cbn [app unesc]. rewrite Hqb, N.eqb_refl. cbn [andb orb N.eqb Pos.eqb BS SQ DQ].
      now rewrite (unhex_hex 2 c rest (H256 Hv)). }
    cbn [app unesc]. now rewrite Ecq, Ecb.
  - (* str *)
    destruct ((c =? q) || (c =? BS))%bool eqn:E1.
    { cbn [app unesc]. rewrite Hqb, N.eqb_refl. cbn [andb orb].
      replace ((c =? BS) || (c =? SQ) || (c =? DQ))%bool with true; [reflexivity|].
      symmetry. apply orb_true_iff in E1 as [E1|E1]; apply N.eqb_eq in E1; subst;
        destruct Hq as [-> | ->]; reflexivity. }
    apply orb_false_iff in E1 as [Ecq Ecb].
    destruct (c =? 9) eqn:E9; [apply N.eqb_eq in E9; subst; cbn [app unesc]; now rewrite Hqb|].
    destruct (c =? 10) eqn:E10; [apply N.eqb_eq in E10; subst; cbn [app unesc]; now rewrite Hqb|].
    destruct (c =? 13) eqn:E13; [apply N.eqb_eq in E13; subst; cbn [app unesc]; now rewrite Hqb|].
    destruct ((c <? 32) || (c =? 127))%bool eqn:Ex.
    { cbn [app unesc]. rewrite Hqb, N.eqb_refl. cbn [andb orb N.eqb Pos.eqb BS SQ DQ].
      assert (c < 256).
      { apply orb_true_iff in Ex as [Ex|Ex]; [apply N.ltb_lt in Ex|apply N.eqb_eq in Ex]; lia. }
      now rewrite (unhex_hex 2 c rest (H256 H)). }
    destruct (c <? 127) eqn:E127; [cbn [app unesc]; now rewrite Ecq, Ecb|].
    destruct (printable c); [cbn [app unesc]; now rewrite Ecq, Ecb|].
    destruct (c <=? 255) eqn:E255.
    { apply N.leb_le in E255. cbn [app unesc]. rewrite Hqb, N.eqb_refl.
      cbn [andb orb N.eqb Pos.eqb BS SQ DQ].
      now rewrite (unhex_hex 2 c rest (H256 ltac:(lia))). }
    destruct (c <=? 65535) eqn:E64.
    { apply N.leb_le in E64. cbn [app unesc]. rewrite Hqb, N.eqb_refl.
      cbn [andb orb negb N.eqb Pos.eqb BS SQ DQ].
      now rewrite (unhex_hex 4 c rest (H64k E64)). }
    cbn [app unesc]. rewrite Hqb, N.eqb_refl. cbn [andb orb negb N.eqb Pos.eqb BS SQ DQ].
    now rewrite (unhex_hex 8 c rest (H32 Hv)).
Qed.

Lemma unesc_flat_map bytes q : q = SQ \/ q = DQ -> forall s fuel,
  Forall (valid bytes) s -> (length s < fuel)%nat ->
  unesc fuel bytes q (flat_map (rc bytes q) s) = Some s.
Proof.
  intros Hq. induction s as [|c tl IH]; intros fuel HF Hl.
  - destruct fuel; [cbn in Hl; lia|reflexivity].
  - destruct fuel as [|f]; [cbn in Hl; lia|]. cbn [flat_map]. inv HF.
    rewrite unesc_chunk by auto. rewrite IH; auto. cbn [length] in Hl. lia.
Qed.

Lemma flat_map_rc_len bytes q s : (length s <= length (flat_map (rc bytes q) s))%nat.
Proof.
  induction s as [|c tl IH]; [cbn; lia|]. cbn [flat_map length]. rewrite app_length.
  pose proof (rc_nonempty bytes q c). destruct (rc bytes q c); [congruence|]. cbn [length]. lia.
Qed.

(** C02_escape_roundtrip: the literal  q ++ escape_str_for_quote(q, s) ++ q
    denotes exactly s - for str (every code point) and bytes (every byte),
    either quote, every printable-class instantiation *)
Theorem escape_roundtrip bytes q s :
  q = SQ \/ q = DQ -> Forall (valid bytes) s ->
  literal_value bytes q (escape_for_quote printable bytes q s) = Some s.
Proof.
  intros Hq HF. unfold literal_value. rewrite escape_direct by exact Hq.
  apply unesc_flat_map; auto. pose proof (flat_map_rc_len bytes q s). lia.
Qed.

End StrEscape.

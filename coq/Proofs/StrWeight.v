(** C12: the document the string printer evaluates to weighs at most
    80 * len + 100, whatever the indentation, column, page and ribbon.  With
    FuelAll this bounds the layout loops on EVERY document the printers build. *)
From Coq Require Import Lia.
From PP Require Import Doc PyStr PyLit Consts Printers Normalize Layout StrEscape StrSplit StrTotal StrPieces FuelAll.

Section StrWeight.
Variable printable : N -> bool.
Variable is_space_u : N -> bool.
Variable is_word_u : N -> bool.
Variable is_linebreak : N -> bool.
Variable cb : strp -> nat.

Notation wt := (wt cb).
Notation wtl := (wtl cb).

Lemma flush_len cur : (length (flush_run cur) <= 1)%nat.
Proof. destruct cur; cbn; lia. Qed.

Lemma split_escapes_aux_len : forall fuel s cur,
  (length (split_escapes_aux fuel s cur) <= 2 * fuel + 1)%nat.
Proof.
  induction fuel as [|f IH]; intros s cur; cbn [split_escapes_aux]; [pose proof (flush_len cur); lia|].
  destruct s as [|c tl]; [pose proof (flush_len cur); lia|].
  destruct (c =? 92)%N; [|specialize (IH tl (c :: cur)); lia].
  destruct (esc_len tl) as [|n]; [specialize (IH tl (c :: cur)); lia|].
  rewrite app_length. cbn [length]. pose proof (flush_len cur).
  specialize (IH (skipn (S n) (c :: tl)) []). lia.
Qed.

Lemma wtl_toks (l : list (bool * str)) :
  wtl (map (fun p : bool * str => tok (if fst p then T_STRING_ESCAPE else T_LITERAL_STRING) (snd p)) l)
  = (3 * length l)%nat.
Proof. induction l as [|x tl IH]; [reflexivity|]. cbn [map length]. rewrite wtl_cons, IH. cbn. lia. Qed.

Lemma rc_len bytes q c : (length (rc printable bytes q c) <= 10)%nat.
Proof.
  unfold rc, repr_char_b, repr_char_u. destruct bytes.
  all: repeat match goal with |- context [if ?b then _ else _] => destruct b end.
  all: cbn [length]; rewrite ?hex_length; lia.
Qed.

Lemma flat_map_rc_len bytes q s : (length (flat_map (rc printable bytes q) s) <= 10 * length s)%nat.
Proof.
  induction s as [|c tl IH]; [cbn; lia|]. cbn [flat_map length]. rewrite app_length.
  pose proof (rc_len bytes q c). lia.
Qed.

Lemma single_wt bytes q s : q = SQ \/ q = DQ ->
  (wt (single_line_str printable bytes q s) <= 19 + 60 * length s)%nat.
Proof.
  intros Hq. unfold single_line_str. rewrite escape_direct by exact Hq.
  pose proof (flat_map_rc_len bytes q s) as He.
  set (e := flat_map (rc printable bytes q) s) in *.
  match goal with |- context [Cat [Text [q]; ?m; Text [q]]] => set (X := m) end.
  assert (HX : (wt X <= 10 + 6 * length e)%nat).
  { subst X. destruct e as [|x xs] eqn:Ee; [cbn; lia|]. rewrite wt_cat, wtl_toks. unfold split_escapes.
    pose proof (split_escapes_aux_len (S (length (x :: xs))) (x :: xs) []). lia. }
  clearbody X.
  rewrite wt_cat, !wtl_cons. cbn [FuelAll.wtl fold_right].
  change (wt (Annot (ATok T_LITERAL_STRING) (Cat [Text [q]; X; Text [q]])))
    with (S (S (wt (Cat [Text [q]; X; Text [q]])))).
  rewrite wt_cat, !wtl_cons. cbn [FuelAll.wtl fold_right].
  assert ((wt (if bytes then tok T_STRING_AFFIX (ch 98) else Text []) <= 3)%nat) by (destruct bytes; cbn; lia).
  change (wt (Text [q])) with 1%nat. lia.
Qed.

Lemma wtl_singles bytes q lines : q = SQ \/ q = DQ ->
  (wtl (map (single_line_str printable bytes q) lines) <= 19 * length lines + 60 * length (concat lines))%nat.
Proof.
  intros Hq. induction lines as [|l tl IH]; [cbn; lia|].
  cbn [map length concat]. rewrite wtl_cons, app_length. pose proof (single_wt bytes q l Hq). lia.
Qed.

Lemma wtl_intersperse l : (wtl (intersperse HardLine l) <= wtl l + length l)%nat.
Proof.
  induction l as [|x tl IH]; [cbn; lia|]. destruct tl as [|y tl2]; [cbn; lia|].
  change (intersperse HardLine (x :: y :: tl2)) with (x :: HardLine :: intersperse HardLine (y :: tl2)).
  rewrite !wtl_cons. rewrite wtl_cons in IH. cbn [length] in *. change (wt HardLine) with 1%nat. lia.
Qed.

Lemma pieces_count (lines : list str) :
  Forall (fun l => l <> []) lines -> (length lines <= length (concat lines))%nat.
Proof.
  induction 1 as [|l tl Hl _ IH]; [cbn; lia|]. cbn [length concat]. rewrite app_length.
  destruct l; [congruence|]. cbn [length]. lia.
Qed.

Lemma wrap_wt ctx f d : is_commented d = None ->
  (wt (build_fncall is_space_u is_linebreak ctx f [d] [] false) <= 30 + wt f + wt d)%nat.
Proof.
  intros Hc. unfold build_fncall. cbn [map andb app fncall_parts]. rewrite Hc.
  assert (Hu : uncomment d = d) by (destruct d; try reflexivity; destruct a; try reflexivity; discriminate).
  rewrite Hu. cbn [wt]. change (wt LPAREN) with 3%nat. change (wt RPAREN) with 3%nat. change (wt SOFTLINE) with 2%nat. lia.
Qed.

Definition cb_str (p : strp) : nat := (80 * length (sp_s p) + 100)%nat.

Theorem eval_str_weight p indent column page_width ribbon_width :
  (wt (eval_str printable is_space_u is_word_u is_linebreak p indent column page_width ribbon_width) <= cb_str p)%nat.
Proof.
  destruct (eval_str_pieces printable is_space_u is_word_u is_linebreak p indent column page_width ribbon_width)
    as (lines & q & Hq & Hcat & Hne & Hf & Hin).
  assert (Hn : (@length str lines <= length (sp_s p) + 1)%nat).
  { destruct Hf as [Hf|[-> _]]; [pose proof (pieces_count lines Hf) as Hp; rewrite Hcat in Hp; lia|cbn; lia]. }
  pose proof (wtl_singles (sp_bytes p) q lines Hq) as Hs. rewrite Hcat in Hs.
  pose proof (wtl_intersperse (map (single_line_str printable (sp_bytes p) q) lines)) as Hi.
  rewrite map_length in Hi.
  set (parts := intersperse HardLine (map (single_line_str printable (sp_bytes p) q) lines)) in *.
  assert (H1 : (wt (hd Nil (map (single_line_str printable (sp_bytes p) q) lines)) <= 19 + 60 * length (sp_s p))%nat).
  { destruct lines as [|l tl]; [congruence|]. cbn [map hd]. pose proof (single_wt (sp_bytes p) q l Hq).
    rewrite <- Hcat. cbn [concat]. rewrite app_length. lia. }
  assert (Hc1 : is_commented (hd Nil (map (single_line_str printable (sp_bytes p) q) lines)) = None).
  { destruct lines; reflexivity. }
  unfold cb_str. unfold assemble in Hin. fold parts in Hin. cbn [In] in Hin.
  destruct Hin as [<-|[<-|[<-|[<-|[<-|[]]]]]].
  - destruct (sp_wrap p) as [[t name]|]; [|lia].
    pose proof (wrap_wt (mkCtx (sp_indent p) None MPlain 0 false) (tok t name) _ Hc1). cbn [wt tok] in *. lia.
  - destruct (sp_wrap p) as [[t name]|].
    + pose proof (wrap_wt (mkCtx (sp_indent p) None MPlain 0 false) (tok t name) (AlwaysBreak (Cat parts)) eq_refl) as Hw.
      change (wt (AlwaysBreak (Cat parts))) with (S (wt (Cat parts))) in Hw. rewrite wt_cat in Hw.
      cbn [wt tok] in Hw. lia.
    + change (wt (AlwaysBreak (Cat parts))) with (S (wt (Cat parts))). rewrite wt_cat. lia.
  - change (wt (AlwaysBreak (Nest (sp_indent p) (Cat parts)))) with (S (S (wt (Cat parts)))). rewrite wt_cat. lia.
  - match goal with |- (wt (AlwaysBreak ?d) <= _)%nat => change (wt (AlwaysBreak d)) with (S (wt d)) end.
    rewrite wt_cat, !wtl_cons.
    change (wt (Nest (sp_indent p) (Cat (HardLine :: parts)))) with (S (wt (Cat (HardLine :: parts)))).
    rewrite wt_cat, wtl_cons. cbn [FuelAll.wtl fold_right wt LPAREN RPAREN tok]. lia.
  - match goal with |- (wt (AlwaysBreak ?d) <= _)%nat => change (wt (AlwaysBreak d)) with (S (wt d)) end.
    rewrite wt_cat, !wtl_cons.
    change (wt (Nest (sp_indent p) (Cat (HardLine :: parts)))) with (S (wt (Cat (HardLine :: parts)))).
    rewrite wt_cat, wtl_cons. cbn [FuelAll.wtl fold_right wt]. lia.
Qed.

End StrWeight.

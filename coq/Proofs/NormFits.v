(** When max_seq_len does not truncate, [norm] is the identity on built-in
    values up to the order in which dict entries are printed. *)
From Coq Require Import Lia.
From PP Require Import Doc PyStr PyVal Consts Printers PyExpr PyEval PrettyToks3.

Ltac inv H := inversion H; subst; clear H.

(** built-in literal values only (the universe of C01) *)
Fixpoint builtin (v : pyval) : Prop :=
  match v with
  | VList l | VTuple l | VSet l | VFrozenset l =>
      (fix all (l : list pyval) : Prop := match l with [] => True | x :: tl => builtin x /\ all tl end) l
  | VDict kvs _ =>
      (fix all (l : list (pyval * pyval)) : Prop :=
         match l with [] => True | (k, x) :: tl => builtin k /\ builtin x /\ all tl end) kvs
  | VSub _ _ | VCommented _ _ | VTrailing _ _ | VCall _ _ _ | VPath _ _ | VRepr _ => False
  | _ => True
  end.

(** no container is longer than [n] *)
Fixpoint fits (n : Z) (v : pyval) : Prop :=
  match v with
  | VList l | VTuple l | VSet l | VFrozenset l =>
      Z.of_nat (length l) <= n /\
      (fix all (l : list pyval) : Prop := match l with [] => True | x :: tl => fits n x /\ all tl end) l
  | VDict kvs so =>
      Z.of_nat (length kvs) <= n /\ (length so <= length kvs)%nat /\
      (fix all (l : list (pyval * pyval)) : Prop :=
         match l with [] => True | (k, x) :: tl => fits n k /\ fits n x /\ all tl end) kvs
  | VSub _ b => fits n b
  | VCommented x _ | VTrailing x _ => fits n x
  | VCall _ args kw =>
      (fix all (l : list pyval) : Prop := match l with [] => True | x :: tl => fits n x /\ all tl end) args /\
      (fix all (l : list (str * pyval)) : Prop := match l with [] => True | (_, x) :: tl => fits n x /\ all tl end) kw
  | _ => True
  end.

(** the same value with dict entries in the order printed *)
Fixpoint canon (sort : bool) (v : pyval) : pyval :=
  match v with
  | VList l => VList (map (canon sort) l)
  | VTuple l => VTuple (map (canon sort) l)
  | VSet l => VSet (map (canon sort) l)
  | VFrozenset l => VFrozenset (map (canon sort) l)
  | VDict kvs so =>
      let kvs' := map (fun kv => (canon sort (fst kv), canon sort (snd kv))) kvs in
      VDict (if sort then reorder kvs' so else kvs') []
  | x => x
  end.

Lemma take_z_all {A} n (l : list A) : Z.of_nat (length l) <= n -> take_z n l = l.
Proof.
  revert n. induction l as [|x tl IH]; intros n H; cbn [take_z]; [reflexivity|].
  cbn [length] in H. destruct (n <=? 0) eqn:E; [lia|]. rewrite IH; [reflexivity|lia].
Qed.

Lemma reorder_length {A} (l : list A) order :
  (length (reorder l order) <= length order)%nat.
Proof. induction order as [|i tl IH]; cbn [reorder length]; [lia|]. destruct (nth_error l i); cbn [length]; lia. Qed.

Lemma map_ext_in' {A B} (f g : A -> B) l : (forall x, In x l -> f x = g x) -> map f l = map g l.
Proof. induction l as [|x tl IH]; intros H; cbn [map]; [reflexivity|]. rewrite H by now left. rewrite IH; auto. intros y Hy. apply H. now right. Qed.

Section NF.
Variable n : Z.
Variable sort : bool.

Lemma bf_list l :
  (fix all (l : list pyval) : Prop := match l with [] => True | x :: tl => builtin x /\ all tl end) l ->
  (fix all (l : list pyval) : Prop := match l with [] => True | x :: tl => fits n x /\ all tl end) l ->
  forall x, In x l -> builtin x /\ fits n x.
Proof.
  induction l as [|y tl IH]; intros Hb Hf x Hx; [destruct Hx|].
  destruct Hb as [Hb1 Hb2], Hf as [Hf1 Hf2]. destruct Hx as [E|Hx]; [subst; auto|now apply IH].
Qed.

Lemma bf_dict kvs :
  (fix all (l : list (pyval * pyval)) : Prop :=
     match l with [] => True | (k, x) :: tl => builtin k /\ builtin x /\ all tl end) kvs ->
  (fix all (l : list (pyval * pyval)) : Prop :=
     match l with [] => True | (k, x) :: tl => fits n k /\ fits n x /\ all tl end) kvs ->
  forall k x, In (k, x) kvs -> (builtin k /\ fits n k) /\ (builtin x /\ fits n x).
Proof.
  induction kvs as [|[k0 x0] tl IH]; intros Hb Hf k x Hx; [destruct Hx|].
  destruct Hb as (Hb1 & Hb2 & Hb3), Hf as (Hf1 & Hf2 & Hf3).
  destruct Hx as [E|Hx]; [inv E; auto|now apply IH].
Qed.

Lemma norm_fits_n : forall m v, (vsize v <= m)%nat -> builtin v -> fits n v -> norm n sort v = canon sort v.
Proof.
  induction m as [|m IHm]; intros v Hm Hb Hf.
  { destruct v; cbn in Hm; lia. }
  assert (L : forall l, (S (vsum l) <= S m)%nat ->
            (fix all (l : list pyval) : Prop := match l with [] => True | x :: tl => builtin x /\ all tl end) l ->
            Z.of_nat (length l) <= n /\
            (fix all (l : list pyval) : Prop := match l with [] => True | x :: tl => fits n x /\ all tl end) l ->
            take_z n (map (norm n sort) l) = map (canon sort) l).
  { intros l Hl Hbl [Hlen Hfl]. rewrite take_z_all by now rewrite map_length.
    apply map_ext_in'. intros x Hx. destruct (bf_list l Hbl Hfl x Hx). apply IHm; auto.
    apply vsum_in in Hx. lia. }
  destruct v; try contradiction; try reflexivity; cbn [norm canon].
  - rewrite vsize_list in Hm. f_equal. now apply L.
  - rewrite vsize_tuple in Hm. f_equal. now apply L.
  - rewrite vsize_set in Hm. f_equal. now apply L.
  - rewrite vsize_frozenset in Hm. f_equal. now apply L.
  - rewrite vsize_dict in Hm. cbn [builtin fits] in Hb, Hf. destruct Hf as (Hlen & Hso & Hf).
    assert (E : map (fun kv => (norm n sort (fst kv), norm n sort (snd kv))) kvs
                = map (fun kv => (canon sort (fst kv), canon sort (snd kv))) kvs).
    { apply map_ext_in'. intros [k x] Hx. destruct (bf_dict kvs Hb Hf k x Hx) as [[? ?] [? ?]].
      apply kvsum_in in Hx. cbn [fst snd]. rewrite !IHm; auto; lia. }
    rewrite E. f_equal. apply take_z_all. destruct sort.
    + pose proof (reorder_length (map (fun kv => (canon true (fst kv), canon true (snd kv))) kvs) sorted). lia.
    + now rewrite map_length.
Qed.

Theorem norm_fits v : builtin v -> fits n v -> norm n sort v = canon sort v.
Proof. exact (norm_fits_n (vsize v) v (le_n _)). Qed.

End NF.

(** built-in values are well-formed and need no class in scope *)
From PP Require Import EvalRT.

Lemma builtin_wf_n : forall m v, (vsize v <= m)%nat -> builtin v -> wf_val v.
Proof.
  induction m as [|m IHm]; intros v Hm Hb.
  { destruct v; cbn in Hm; lia. }
  assert (L : forall l, (S (vsum l) <= S m)%nat ->
            (fix all (l : list pyval) : Prop := match l with [] => True | x :: tl => builtin x /\ all tl end) l ->
            (fix all (l : list pyval) : Prop := match l with [] => True | x :: tl => wf_val x /\ all tl end) l).
  { induction l as [|x tl IHl]; intros Hl Hbl; [exact I|]. destruct Hbl as [H1 H2].
    cbn [vsum fold_right] in Hl. split; [apply IHm; auto; lia|]. apply IHl; auto. unfold vsum. lia. }
  destruct v; try contradiction; try exact I; cbn [wf_val].
  - rewrite vsize_list in Hm. now apply L.
  - rewrite vsize_tuple in Hm. now apply L.
  - rewrite vsize_set in Hm. now apply L.
  - rewrite vsize_frozenset in Hm. now apply L.
  - rewrite vsize_dict in Hm. cbn [builtin] in Hb. revert Hm Hb.
    induction kvs as [|[k x] tl IHl]; intros Hl Hbl; [exact I|]. destruct Hbl as (H1 & H2 & H3).
    unfold kvsum in Hl. cbn [fold_right fst snd] in Hl.
    split; [apply IHm; auto; lia|]. split; [apply IHm; auto; lia|]. apply IHl; auto. unfold kvsum. lia.
Qed.

Lemma builtin_wf v : builtin v -> wf_val v.
Proof. exact (builtin_wf_n (vsize v) v (le_n _)). Qed.

Lemma builtin_evaluable_n env : forall m v, (vsize v <= m)%nat -> builtin v -> evaluable env v.
Proof.
  induction m as [|m IHm]; intros v Hm Hb.
  { destruct v; cbn in Hm; lia. }
  assert (L : forall l, (S (vsum l) <= S m)%nat ->
            (fix all (l : list pyval) : Prop := match l with [] => True | x :: tl => builtin x /\ all tl end) l ->
            (fix all (l : list pyval) : Prop := match l with [] => True | x :: tl => evaluable env x /\ all tl end) l).
  { induction l as [|x tl IHl]; intros Hl Hbl; [exact I|]. destruct Hbl as [H1 H2].
    cbn [vsum fold_right] in Hl. split; [apply IHm; auto; lia|]. apply IHl; auto. unfold vsum. lia. }
  destruct v; try contradiction; try exact I; cbn [evaluable].
  - rewrite vsize_list in Hm. now apply L.
  - rewrite vsize_tuple in Hm. now apply L.
  - rewrite vsize_set in Hm. now apply L.
  - rewrite vsize_frozenset in Hm. now apply L.
  - rewrite vsize_dict in Hm. cbn [builtin] in Hb. revert Hm Hb.
    induction kvs as [|[k x] tl IHl]; intros Hl Hbl; [exact I|]. destruct Hbl as (H1 & H2 & H3).
    unfold kvsum in Hl. cbn [fold_right fst snd] in Hl.
    split; [apply IHm; auto; lia|]. split; [apply IHm; auto; lia|]. apply IHl; auto. unfold kvsum. lia.
Qed.

Lemma builtin_evaluable env v : builtin v -> evaluable env v.
Proof. exact (builtin_evaluable_n env (vsize v) v (le_n _)). Qed.

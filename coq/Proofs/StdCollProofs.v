(** C07, the collections: what CPython's constructors make of the call a
    bundled printer prints is the printed object again; the items of an
    OrderedDict and the elements of a deque come back in their own order
    whatever sort_dict_keys says. *)
From Coq Require Import Lia.
From PP Require Import Doc PyStr PyVal Printers PyExpr PyEval StdColl NormFits.

Section R.
Variable keq : pyval -> pyval -> bool.

Definition fresh (k : pyval) (m : items) : bool := forallb (fun kv => negb (keq k (fst kv))) m.
(** pairwise different keys (each key differs from all the earlier ones) *)
Fixpoint distinct (m l : items) : bool :=
  match l with
  | [] => true
  | (k, x) :: tl => fresh k m && distinct (m ++ [(k, x)]) tl
  end.

Lemma set_item_fresh k x m : fresh k m = true -> set_item keq k x m = m ++ [(k, x)].
Proof.
  induction m as [|[k' x'] tl IH]; intros H; [reflexivity|].
  cbn [fresh forallb fst] in H. apply andb_prop in H as [H1 H2].
  cbn [set_item app]. destruct (keq k k'); [discriminate|]. f_equal. now apply IH.
Qed.

Lemma fold_distinct : forall l m, distinct m l = true ->
  fold_left (fun m kv => set_item keq (fst kv) (snd kv) m) l m = m ++ l.
Proof.
  induction l as [|[k x] tl IH]; intros m H; cbn [fold_left]; [now rewrite app_nil_r|].
  cbn [distinct] in H. apply andb_prop in H as [H1 H2]. cbn [fst snd].
  rewrite set_item_fresh by exact H1. rewrite IH by exact H2. now rewrite <- app_assoc.
Qed.

Lemma from_pairs_distinct l : distinct [] l = true -> from_pairs keq l = l.
Proof. intros H. unfold from_pairs. now rewrite fold_distinct. Qed.

Lemma untuples_pairs kvs : untuples (map pair_tuple kvs) = Some kvs.
Proof. induction kvs as [|[k x] tl IH]; [reflexivity|]. cbn [map untuples pair_tuple untuple fst snd]. now rewrite IH. Qed.

Lemma lastn_all {A} (m : nat) (l : list A) : (length l <= m)%nat -> lastn m l = l.
Proof. intros H. unfold lastn. replace (length l - m)%nat with O by lia. reflexivity. Qed.

Lemma undicts_dicts maps : undicts (map dict_of maps) = Some maps.
Proof. induction maps as [|[kvs o] tl IH]; [reflexivity|]. cbn [map undicts dict_of undict fst snd]. now rewrite IH. Qed.

Definition kind_of (x : stdval) : skind :=
  match x with
  | SOrdered _ _ => KOrdered | SDeque _ _ _ => KDeque | SDefault _ _ _ _ => KDefault | SCounter _ _ _ => KCounter
  | SChain _ _ => KChain | SProxy _ _ _ => KProxy | SExc _ _ => KExc | SPartial _ _ _ _ => KPartial
  | SUuid _ _ => KUuid | SNamespace _ _ _ => KNamespace | SNamedtuple _ _ => KNamedtuple
  end.

(** the invariants CPython maintains for the objects themselves *)
Definition std_ok (x : stdval) : Prop :=
  match x with
  | SOrdered _ kvs => distinct [] kvs = true
  | SDeque _ els (Some m) => (0 <= m)%Z /\ (Z.of_nat (length els) <= m)%Z
  | _ => True
  end.

(** a ChainMap without content is rebuilt as ChainMap(): one empty dict *)
Definition canon (x : stdval) : stdval :=
  match x with
  | SChain c [] => SChain c [([], [])]
  | SChain c [([], _)] => SChain c [([], [])]
  | SNamespace c attrs o => SNamespace c (reorder attrs o) []     (* attribute order is not part of a namespace *)
  | _ => x
  end.

Theorem std_rebuild_print x : std_ok x -> std_rebuild keq (kind_of x) (std_print x) = Some (canon x).
Proof.
  destruct x as [c kvs|c els ml|c f kvs o|c mc o|c maps|c kvs o|c args|c f args kws|c text|c attrs o|c fields]; intros Hok;
    cbn [std_ok kind_of std_print canon] in *.
  - cbn [std_rebuild]. rewrite untuples_pairs. cbn [option_map]. now rewrite from_pairs_distinct.
  - destruct ml as [m|]; cbn [std_rebuild]; [|reflexivity].
    destruct Hok as [H0 Hl]. apply Z.leb_le in H0. rewrite H0. rewrite lastn_all by lia. reflexivity.
  - reflexivity.
  - reflexivity.
  - destruct maps as [|[kvs o] tl]; [reflexivity|].
    destruct kvs as [|kv kvs]; destruct tl as [|[kvs2 o2] tl]; try reflexivity;
      cbn [chain_args map dict_of fst snd std_rebuild undicts undict];
      rewrite ?undicts_dicts; reflexivity.
  - reflexivity.
  - destruct args; reflexivity.
  - reflexivity.
  - reflexivity.
  - reflexivity.
  - reflexivity.
Qed.

End R.

(** ---- evaluation keeps the order of an OrderedDict / a deque -------------- *)
Definition normpair (n : Z) (sort : bool) (kv : pyval * pyval) : pyval * pyval :=
  (norm n sort (fst kv), norm n sort (snd kv)).

Lemma norm_pairs n sort kvs : (2 <= n)%Z ->
  map (norm n sort) (map pair_tuple kvs) = map pair_tuple (map (normpair n sort) kvs).
Proof.
  intros Hn. induction kvs as [|[k x] tl IH]; [reflexivity|]. cbn [map]. rewrite IH. f_equal.
  unfold pair_tuple, normpair. cbn [norm fst snd map].
  rewrite take_z_all by (cbn [length]; lia). reflexivity.
Qed.

Theorem ordered_order_kept n sort c kvs : (2 <= n)%Z -> (Z.of_nat (length kvs) <= n)%Z ->
  norm n sort (std_print (SOrdered c kvs)) = std_print (SOrdered c (map (normpair n sort) kvs)).
Proof.
  intros Hn Hl. cbn [std_print norm map]. rewrite norm_pairs by exact Hn.
  rewrite take_z_all by (now rewrite !map_length). reflexivity.
Qed.

Theorem deque_order_kept n sort c els ml : (Z.of_nat (length els) <= n)%Z ->
  norm n sort (std_print (SDeque c els ml)) = std_print (SDeque c (map (norm n sort) els) ml).
Proof.
  intros Hl. cbn [std_print norm map]. rewrite take_z_all by (now rewrite map_length).
  destruct ml; reflexivity.
Qed.

(** Inversion and structural lemmas for the reference semantics. *)
From PP Require Import Doc Sem.

Section SemLemmas.
Variable evs : strp -> Z -> Z -> Z -> Z -> doc.
Variables w rw : Z.
Notation Lay := (Lay evs w rw).
Notation LayList := (LayList evs w rw).
Notation LayFill := (LayFill evs w rw).
Notation LayStk := (LayStk evs w rw).

Lemma Lay_weaken m i c d o c' : Lay MBreak i c d o c' -> Lay m i c d o c'.
Proof. destruct m; [easy|]. apply L_demote. Qed.

Lemma LayList_weaken m i c l o c' : LayList MBreak i c l o c' -> LayList m i c l o c'.
Proof.
  revert c o c'. induction l as [|x tl IH]; intros c o c' H; inversion H; subst.
  - constructor.
  - econstructor; eauto using Lay_weaken.
Qed.

Ltac inv H := inversion H; subst; clear H.

(** inversion in break mode is syntax directed *)
Lemma Lay_nil_inv m i c o c' : Lay m i c Nil o c' -> o = [] /\ c' = c.
Proof. intros H. destruct m; inv H; auto. match goal with H : Lay MBreak _ _ Nil _ _ |- _ => inv H end; auto. Qed.

Lemma Lay_cat_inv m i c l o c' : Lay m i c (Cat l) o c' -> LayList m i c l o c'.
Proof.
  intros H. destruct m; inv H; auto.
  match goal with H : Lay MBreak _ _ (Cat _) _ _ |- _ => inv H end.
  now apply LayList_weaken.
Qed.

Lemma Lay_nest_inv m i c j d o c' : Lay m i c (Nest j d) o c' -> Lay m (i + j) c d o c'.
Proof.
  intros H. destruct m; inv H; auto.
  match goal with H : Lay MBreak _ _ (Nest _ _) _ _ |- _ => inv H end.
  now apply L_demote.
Qed.

Lemma Lay_group_inv m i c d o c' : Lay m i c (Group d) o c' -> Lay MFlat i c d o c'.
Proof.
  intros H. destruct m; inv H; auto.
  match goal with H : Lay MBreak _ _ (Group _) _ _ |- _ => inv H end. auto.
Qed.

Lemma Lay_ab_inv m i c d o c' : Lay m i c (AlwaysBreak d) o c' -> Lay MBreak i c d o c'.
Proof.
  intros H. destruct m; inv H; auto.
  match goal with H : Lay MBreak _ _ (AlwaysBreak _) _ _ |- _ => inv H end. auto.
Qed.

Lemma Lay_fill_inv m i c l o c' : Lay m i c (Fill l) o c' -> LayFill i c l o c'.
Proof.
  intros H. destruct m; inv H; auto.
  match goal with H : Lay MBreak _ _ (Fill _) _ _ |- _ => inv H end. auto.
Qed.

Lemma Lay_annot_inv m i c a d o c' :
  Lay m i c (Annot a d) o c' -> exists o', o = SPush a :: o' ++ [SPop a] /\ Lay m i c d o' c'.
Proof.
  intros H. destruct m; inv H; eauto.
  match goal with H : Lay MBreak _ _ (Annot _ _) _ _ |- _ => inv H end.
  eexists; split; eauto. now apply L_demote.
Qed.

Lemma Lay_fcn_inv m i c b f o c' :
  Lay m i c (FCN b f) o c' -> Lay m i c (FlatChoice b f) o c'.
Proof.
  intros H. destruct m; inv H.
  - now constructor.
  - match goal with H : Lay MBreak _ _ (FCN _ _) _ _ |- _ => inv H end.
    apply L_demote. now constructor.
  - now constructor.
Qed.

Lemma Lay_fc_fcn m i c b f o c' :
  Lay m i c (FlatChoice b f) o c' -> Lay m i c (FCN b f) o c'.
Proof.
  intros H. destruct m; inv H.
  - now constructor.
  - match goal with H : Lay MBreak _ _ (FlatChoice _ _) _ _ |- _ => inv H end.
    apply L_demote. now constructor.
  - now constructor.
Qed.

Lemma LayList_app m i c l1 l2 o c' :
  LayList m i c (l1 ++ l2) o c' <->
  exists o1 c1 o2, o = o1 ++ o2 /\ LayList m i c l1 o1 c1 /\ LayList m i c1 l2 o2 c'.
Proof.
  revert c o. induction l1 as [|x tl IH]; intros c o; cbn [app].
  - split.
    + intros H. exists [], c, o. repeat split; auto. constructor.
    + intros (o1 & c1 & o2 & -> & H1 & H2). inv H1. exact H2.
  - split.
    + intros H. inv H.
      match goal with H : LayList _ _ _ (tl ++ l2) _ _ |- _ =>
        apply IH in H as (o1' & c1' & o2' & -> & Ha & Hb) end.
      eexists _, c1', o2'. rewrite app_assoc. repeat split; eauto.
      econstructor; eauto.
    + intros (o1 & c1 & o2 & -> & H1 & H2). inv H1.
      rewrite <- app_assoc. econstructor; eauto. apply IH. eauto 10.
Qed.

Lemma LayFill_app i c l1 l2 o c' :
  LayFill i c (l1 ++ l2) o c' <->
  exists o1 c1 o2, o = o1 ++ o2 /\ LayFill i c l1 o1 c1 /\ LayFill i c1 l2 o2 c'.
Proof.
  revert c o. induction l1 as [|x tl IH]; intros c o; cbn [app].
  - split.
    + intros H. exists [], c, o. repeat split; auto. constructor.
    + intros (o1 & c1 & o2 & -> & H1 & H2). inv H1. exact H2.
  - split.
    + intros H. inv H.
      match goal with H : LayFill _ _ (tl ++ l2) _ _ |- _ =>
        apply IH in H as (o1' & c1' & o2' & -> & Ha & Hb) end.
      eexists _, c1', o2'. rewrite app_assoc. repeat split; eauto.
      econstructor; eauto.
    + intros (o1 & c1 & o2 & -> & H1 & H2). inv H1.
      rewrite <- app_assoc. econstructor; eauto. apply IH. eauto 10.
Qed.

Lemma LayStk_app s1 s2 c o c' :
  LayStk (s1 ++ s2) c o c' <->
  exists o1 c1 o2, o = o1 ++ o2 /\ LayStk s1 c o1 c1 /\ LayStk s2 c1 o2 c'.
Proof.
  revert c o. induction s1 as [|x tl IH]; intros c o; cbn [app].
  - split.
    + intros H. exists [], c, o. repeat split; auto. constructor.
    + intros (o1 & c1 & o2 & -> & H1 & H2). inv H1. exact H2.
  - split.
    + intros H. inv H.
      match goal with H : LayStk (tl ++ s2) _ _ _ |- _ =>
        apply IH in H as (o1' & c1' & o2' & -> & Ha & Hb) end.
      eexists _, c1', o2'. rewrite app_assoc. repeat split; eauto.
      econstructor; eauto.
    + intros (o1 & c1 & o2 & -> & H1 & H2). inv H1.
      rewrite <- app_assoc. econstructor; eauto. apply IH. eauto 10.
Qed.

(** a list of documents pushed with one mode denotes what their concat denotes *)
Lemma LayStk_push_all i m l c o c' :
  LayStk (map (fun x => (i, m, x)) l) c o c' <-> LayList m i c l o c'.
Proof.
  revert c o. induction l as [|x tl IH]; intros c o; cbn [map].
  - split; intros H; inv H; constructor.
  - split; intros H; inv H; econstructor; eauto; now apply IH.
Qed.

(** a document in any mode is a layout of its fill-item reading *)
Lemma Lay_unab d : forall m i c o c', Lay m i c d o c' -> exists mx, Lay mx i c (unab d) o c'.
Proof.
  induction d; intros m0 i0 c0 o0 c0' H; cbn [unab]; eauto.
  apply Lay_ab_inv in H. eauto.
Qed.

End SemLemmas.

(** C04 (annotation clauses): in every layout a document denotes, the
    annotation pushes and pops are properly nested around the fragments they
    wrap, and erasing the annotations from the document erases exactly the
    pushes and pops from its layouts (same fragments, line breaks, columns). *)
From Coq Require Import Lia.
From PP Require Import Doc Sem DocInd.

Ltac inv H := inversion H; subst; clear H.

Fixpoint nopop (d : doc) : bool :=
  match d with
  | Cat l | Fill l => (fix all (l : list doc) : bool := match l with [] => true | x :: tl => nopop x && all tl end) l
  | Nest _ x | Group x | AlwaysBreak x | Annot _ x | Align x => nopop x
  | FlatChoice b f | FCN b f => nopop b && nopop f
  | PopD _ => false
  | _ => true
  end.
Lemma nopop_list l : (fix all (l : list doc) : bool := match l with [] => true | x :: tl => nopop x && all tl end) l = forallb nopop l.
Proof. induction l as [|x tl IH]; [reflexivity|]. cbn [forallb]. now rewrite IH. Qed.
Lemma nopop_unab d : nopop d = true -> nopop (unab d) = true.
Proof. induction d; cbn [unab nopop]; auto. Qed.

Fixpoint erase (d : doc) : doc :=
  match d with
  | Cat l => Cat ((fix go (l : list doc) : list doc := match l with [] => [] | x :: tl => erase x :: go tl end) l)
  | Fill l => Fill ((fix go (l : list doc) : list doc := match l with [] => [] | x :: tl => erase x :: go tl end) l)
  | Nest j x => Nest j (erase x)
  | Group x => Group (erase x)
  | AlwaysBreak x => AlwaysBreak (erase x)
  | Align x => Align (erase x)
  | FlatChoice b f => FlatChoice (erase b) (erase f)
  | FCN b f => FCN (erase b) (erase f)
  | Annot _ x => erase x
  | PopD _ => Nil
  | _ => d
  end.
Lemma erase_list l : (fix go (l : list doc) : list doc := match l with [] => [] | x :: tl => erase x :: go tl end) l = map erase l.
Proof. induction l as [|x tl IH]; [reflexivity|]. cbn [map]. now rewrite IH. Qed.

Definition not_ann (x : sdoc) : bool := match x with SPush _ | SPop _ => false | _ => true end.
Definition drop_ann (o : list sdoc) : list sdoc := filter not_ann o.
Lemma drop_app a b : drop_ann (a ++ b) = drop_ann a ++ drop_ann b.
Proof. unfold drop_ann. induction a as [|x tl IH]; [reflexivity|]. cbn [app filter]. destruct (not_ann x); cbn [app]; now rewrite IH. Qed.

(** properly nested streams *)
Inductive WN : list sdoc -> Prop :=
| WN_nil : WN []
| WN_text s : WN [SText s]
| WN_line i : WN [SLine i]
| WN_app a b : WN a -> WN b -> WN (a ++ b)
| WN_wrap a o : WN o -> WN (SPush a :: o ++ [SPop a]).

Section AP.
Variable evs : strp -> Z -> Z -> Z -> Z -> doc.
Variables w rw : Z.

Scheme Lay_mut := Induction for Lay Sort Prop
  with LayList_mut := Induction for LayList Sort Prop
  with LayFill_mut := Induction for LayFill Sort Prop.

Hypothesis evs_nopop : forall p i c, nopop (evs p i c w rw) = true.

Theorem lay_wellnested :
  forall m i c d o c', Lay evs w rw m i c d o c' -> nopop d = true -> WN o.
Proof.
  apply (Lay_mut evs w rw
           (fun m i c d o c' _ => nopop d = true -> WN o)
           (fun m i c l o c' _ => forallb nopop l = true -> WN o)
           (fun i c l o c' _ => forallb nopop l = true -> WN o)); intros; cbn [nopop] in *;
    rewrite ?nopop_list in *;
    try match goal with H : (_ && _)%bool = true |- _ => apply andb_prop in H as [? ?] end; auto; try discriminate.
  - constructor.
  - unfold txt. destruct s; constructor.
  - apply WN_wrap. auto.
  - constructor.
  - constructor.
  - cbn [forallb] in *. apply andb_prop in H1 as [? ?]. apply WN_app; auto.
  - constructor.
  - cbn [forallb] in *. apply andb_prop in H1 as [? ?]. apply WN_app; auto. apply H. now apply nopop_unab.
Qed.

End AP.

Section Erase.
Variable evs : strp -> Z -> Z -> Z -> Z -> doc.
Variables w rw : Z.

Definition evs' : strp -> Z -> Z -> Z -> Z -> doc := fun p i c w0 rw0 => erase (evs p i c w0 rw0).

(** a layout of a document is a layout of the document without its outermost always_breaks *)
Lemma lay_unab (e : strp -> Z -> Z -> Z -> Z -> doc) :
  forall m i c d o c', Lay e w rw m i c d o c' -> Lay e w rw m i c (unab d) o c'.
Proof.
  apply (Lay_mut e w rw
           (fun m i c d o c' _ => Lay e w rw m i c (unab d) o c')
           (fun m i c l o c' _ => True) (fun i c l o c' _ => True)); intros; cbn [unab]; try exact I;
    try (econstructor; eassumption); try (now apply L_demote).
  all: destruct m; try assumption; now apply L_demote.
Qed.

Lemma unab_erase d : unab (erase d) = unab (erase (unab d)).
Proof. induction d; cbn [unab erase]; auto. Qed.

Lemma drop_txt s : drop_ann (txt s) = txt s.
Proof. destruct s; reflexivity. Qed.

Theorem lay_erase :
  forall m i c d o c', Lay evs w rw m i c d o c' -> Lay evs' w rw m i c (erase d) (drop_ann o) c'.
Proof.
  apply (Lay_mut evs w rw
           (fun m i c d o c' _ => Lay evs' w rw m i c (erase d) (drop_ann o) c')
           (fun m i c l o c' _ => LayList evs' w rw m i c (map erase l) (drop_ann o) c')
           (fun i c l o c' _ => LayFill evs' w rw i c (map erase l) (drop_ann o) c')); intros; cbn [erase];
    rewrite ?erase_list.
  - now apply L_demote.
  - constructor.
  - rewrite drop_txt. constructor.
  - now constructor.
  - now constructor.
  - now constructor.
  - now constructor.
  - now apply L_fc_flat.
  - now apply L_fc_break.
  - now apply L_fcn_flat.
  - now apply L_fcn_break.
  - now constructor.
  - (* annot: the push and the pop disappear *)
    cbn [drop_ann filter not_ann]. fold (drop_ann (o ++ [SPop a])). rewrite drop_app. cbn. now rewrite app_nil_r.
  - constructor.
  - apply L_align. exact H.
  - apply L_ctxs. exact H.
  - constructor.
  - constructor.
  - cbn [map]. rewrite drop_app. econstructor; eassumption.
  - constructor.
  - cbn [map]. rewrite drop_app. apply (LF_cons evs' w rw mx) with (c1 := c1); [|assumption].
    rewrite unab_erase. apply lay_unab. exact H.
Qed.

End Erase.

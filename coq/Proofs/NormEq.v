(** Equations for [normalize_doc] on the list constructors (the model uses local
    fixpoints; these top-level copies are what the proofs work with). *)
From PP Require Import Doc Normalize.

Definition contrib (nd : doc) : list doc * bool :=
  match nd with
  | Cat l' => (l', false)
  | AlwaysBreak y => ([y], true)
  | Nil => ([], false)
  | _ => ([nd], false)
  end.

Fixpoint cat_go (l acc : list doc) (prop : bool) : list doc * bool :=
  match l with
  | [] => (acc, prop)
  | x :: tl =>
      let '(k, p) := contrib (normalize_doc x) in cat_go tl (acc ++ k) (prop || p)
  end.

Definition cat_finish (r : list doc * bool) : doc :=
  let '(items, prop) := r in
  match items with
  | [] => Nil
  | [x] => if prop then AlwaysBreak x else x
  | _ => if prop then AlwaysBreak (Cat items) else Cat items
  end.

Lemma normalize_cat l : normalize_doc (Cat l) = cat_finish (cat_go l [] false).
Proof.
  cbn [normalize_doc].
  match goal with
  | |- (let '(_, _) := ?G l [] false in _) = _ =>
      assert (E : forall l acc prop, G l acc prop = cat_go l acc prop)
  end.
  { clear l. induction l as [|x tl IH]; intros acc prop; [reflexivity|].
    cbn [cat_go]. destruct (normalize_doc x) eqn:En; cbn [contrib];
      rewrite ?app_nil_r, ?orb_false_r, ?orb_true_r; apply IH. }
  rewrite E. unfold cat_finish. destruct (cat_go l [] false) as [items prop]. reflexivity.
Qed.

Definition fill_contrib (x : doc) : list doc * bool :=
  match x with
  | AlwaysBreak y => (if is_nil y then [] else [y], true)
  | Nil => ([], false)
  | _ => ([x], false)
  end.

Fixpoint fill_go (l acc : list doc) (prop : bool) : list doc * bool :=
  match l with
  | [] => (acc, prop)
  | x :: tl => let '(k, p) := fill_contrib x in fill_go tl (acc ++ k) (prop || p)
  end.

Definition fill_finish (r : list doc * bool) : doc :=
  let '(items, prop) := r in
  match items with
  | [] => Nil
  | _ => if prop then AlwaysBreak (Fill items) else Fill items
  end.

Lemma normalize_fill l : normalize_doc (Fill l) = fill_finish (fill_go l [] false).
Proof.
  cbn [normalize_doc].
  match goal with
  | |- (let '(_, _) := ?G l [] false in _) = _ =>
      assert (E : forall l acc prop, G l acc prop = fill_go l acc prop)
  end.
  { clear l. induction l as [|x tl IH]; intros acc prop; [reflexivity|].
    cbn [fill_go]. destruct x; cbn [fill_contrib];
      rewrite ?app_nil_r, ?orb_false_r, ?orb_true_r; try apply IH.
    destruct (is_nil x); rewrite ?app_nil_r; apply IH. }
  rewrite E. unfold fill_finish. destruct (fill_go l [] false) as [items prop]. reflexivity.
Qed.

(** accumulator-free form *)
Lemma cat_go_acc l : forall acc prop,
  cat_go l acc prop = (acc ++ fst (cat_go l [] false), prop || snd (cat_go l [] false)).
Proof.
  induction l as [|x tl IH]; intros acc prop; cbn [cat_go].
  - cbn. now rewrite app_nil_r, orb_false_r.
  - destruct (contrib (normalize_doc x)) as [k p].
    rewrite IH. rewrite (IH ([] ++ k) (false || p)). cbn [fst snd app].
    now rewrite app_assoc, orb_assoc.
Qed.

Lemma fill_go_acc l : forall acc prop,
  fill_go l acc prop = (acc ++ fst (fill_go l [] false), prop || snd (fill_go l [] false)).
Proof.
  induction l as [|x tl IH]; intros acc prop; cbn [fill_go].
  - cbn. now rewrite app_nil_r, orb_false_r.
  - destruct (fill_contrib x) as [k p].
    rewrite IH. rewrite (IH ([] ++ k) (false || p)). cbn [fst snd app].
    now rewrite app_assoc, orb_assoc.
Qed.

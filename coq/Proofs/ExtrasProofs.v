(** C17: the extras print exactly the fields with repr enabled whose value
    differs from the declared default (or that have none), in declaration
    order, and the call reconstructs the instance. *)
From Coq Require Import Lia.
From PP Require Import Doc PyStr PyVal Extras PyEval ExtrasModel EvalRT.

Ltac inv H := inversion H; subst; clear H.

(** what the property prescribes *)
Definition spec_shown (f : field) : bool :=
  f_repr f && (negb (has_default f || has_factory f) || f_ne f).

(** a dataclass field cannot declare both a default and a default factory *)
Definition dc_wf (f : field) : Prop := has_default f = false \/ has_factory f = false.

Lemma dc_shown_spec f : dc_wf f -> dc_shown f = spec_shown f.
Proof.
  unfold dc_wf, dc_shown, spec_shown, dc_display.
  destruct (f_repr f), (has_default f), (has_factory f), (f_ne f); cbn; intros [H|H]; try reflexivity; discriminate.
Qed.

Lemma attrs_shown_spec f : dc_wf f -> attrs_shown f = spec_shown f.
Proof.
  unfold dc_wf, attrs_shown, spec_shown, attrs_display.
  destruct (f_repr f), (has_default f), (has_factory f), (f_ne f); cbn; intros [H|H]; try reflexivity; discriminate.
Qed.

Lemma filter_ext_in' {A} (f g : A -> bool) l : (forall x, In x l -> f x = g x) -> filter f l = filter g l.
Proof.
  induction l as [|x tl IH]; intros H; cbn [filter]; [reflexivity|].
  rewrite (H x (or_introl eq_refl)). rewrite IH; [reflexivity|]. intros y Hy. apply H. now right.
Qed.

Theorem dataclass_fields fields : Forall dc_wf fields ->
  kwargs_of dc_shown fields = map (fun f => (f_name f, f_value f)) (filter spec_shown fields).
Proof.
  intros H. unfold kwargs_of. f_equal. apply filter_ext_in'. intros f Hf.
  apply dc_shown_spec. exact (proj1 (Forall_forall _ _) H f Hf).
Qed.

Theorem attrs_fields fields : Forall dc_wf fields ->
  kwargs_of attrs_shown fields = map (fun f => (f_name f, f_value f)) (filter spec_shown fields).
Proof.
  intros H. unfold kwargs_of. f_equal. apply filter_ext_in'. intros f Hf.
  apply attrs_shown_spec. exact (proj1 (Forall_forall _ _) H f Hf).
Qed.

(** reconstruction: != is honest (a field that does not differ from its
    default holds it), distinct field names *)
Definition honest (f : field) : Prop :=
  f_ne f = false -> (match f_default f, f_factory f with
                     | Some d, _ => d = f_value f
                     | None, Some d => d = f_value f
                     | None, None => True end).
(** a field hidden by repr=False must hold its default for the print to be reconstructible *)
Definition hidden_ok (f : field) : Prop :=
  f_repr f = false -> (has_default f || has_factory f) = true /\ f_ne f = false.

Lemma str_eqb_eq a b : str_eqb a b = true -> a = b.
Proof.
  revert b. induction a as [|x a IH]; destruct b as [|y b]; cbn; try discriminate; auto.
  intros H. apply andb_prop in H as [H1 H2]. apply N.eqb_eq in H1. subst. f_equal. now apply IH.
Qed.
Lemma str_eqb_refl' a : str_eqb a a = true.
Proof. induction a; cbn; auto. now rewrite N.eqb_refl. Qed.

Lemma lookup_kwargs shown : forall fields f,
  NoDup (map f_name fields) -> In f fields ->
  lookup (f_name f) (kwargs_of shown fields) = if shown f then Some (f_value f) else None.
Proof.
  unfold kwargs_of. induction fields as [|g tl IH]; intros f Hnd Hin; [destruct Hin|].
  cbn [map] in Hnd. inv Hnd. cbn [filter]. destruct Hin as [->|Hin].
  - destruct (shown f) eqn:E; cbn [map lookup].
    + now rewrite str_eqb_refl'.
    + (* f's name does not occur in the tail *)
      assert (G : forall l, ~ In (f_name f) (map f_name l) ->
                  lookup (f_name f) (map (fun f0 => (f_name f0, f_value f0)) (filter shown l)) = None).
      { induction l as [|x l IHl]; intros Hn; [reflexivity|]. cbn [filter]. cbn [map In] in Hn.
        destruct (shown x); cbn [map lookup]; [|apply IHl; tauto].
        destruct (str_eqb (f_name f) (f_name x)) eqn:Ex; [apply str_eqb_eq in Ex; rewrite Ex in Hn; tauto|apply IHl; tauto]. }
      now apply G.
  - destruct (shown g); cbn [map lookup]; [|now apply IH].
    destruct (str_eqb (f_name f) (f_name g)) eqn:Ex; [|now apply IH].
    apply str_eqb_eq in Ex. exfalso. apply H1. rewrite <- Ex. now apply in_map.
Qed.

Theorem reconstructs fields :
  NoDup (map f_name fields) -> Forall dc_wf fields -> Forall honest fields -> Forall hidden_ok fields ->
  forall f, In f fields -> init_value (kwargs_of spec_shown fields) f = Some (f_value f).
Proof.
  intros Hnd Hwf Hh Hhid f Hin. unfold init_value. rewrite (lookup_kwargs spec_shown fields f Hnd Hin).
  pose proof (proj1 (Forall_forall _ _) Hh f Hin) as Hf.
  pose proof (proj1 (Forall_forall _ _) Hhid f Hin) as Hd.
  unfold spec_shown, honest, hidden_ok, has_default, has_factory in *.
  destruct (f_repr f).
  - cbn [andb]. destruct (f_default f) as [d|], (f_factory f) as [e|]; cbn [orb negb] in *;
      destruct (f_ne f); cbn; auto; rewrite Hf; auto.
  - cbn [andb]. destruct Hd as [Hd1 Hd2]; auto. rewrite Hd2 in Hf.
    destruct (f_default f) as [d|], (f_factory f) as [e|]; cbn in *; try discriminate; rewrite Hf; auto.
Qed.

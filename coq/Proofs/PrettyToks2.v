(** Sequences, dicts, numbers, special floats, frozensets. *)
From Coq Require Import Lia.
From PP Require Import Doc PyStr PyVal Consts Printers PyExpr DocToks PrettyToks1.

Section PrettyToks2.
Variable is_space_u : N -> bool.
Variable is_linebreak : N -> bool.

Ltac inv H := inversion H; subst; clear H.

Lemma Forall2_take_z {A B} (R : A -> B -> Prop) : forall l1 l2 n,
  Forall2 R l1 l2 -> Forall2 R (take_z n l1) (take_z n l2).
Proof.
  induction l1 as [|x tl IH]; intros l2 n H; inv H; cbn [take_z]; [constructor|].
  destruct (n <=? 0)%Z; constructor; auto.
Qed.

Lemma Forall2_nth_error {A B} (R : A -> B -> Prop) : forall l1 l2 i,
  Forall2 R l1 l2 ->
  match nth_error l1 i, nth_error l2 i with
  | Some a, Some b => R a b
  | None, None => True
  | _, _ => False
  end.
Proof.
  induction l1 as [|x tl IH]; intros l2 i H; inv H; destruct i; cbn [nth_error]; auto.
  now apply IH.
Qed.

Lemma Forall2_reorder {A B} (R : A -> B -> Prop) l1 l2 : Forall2 R l1 l2 ->
  forall order, Forall2 R (reorder l1 order) (reorder l2 order).
Proof.
  intros H. induction order as [|i tl IH]; cbn [reorder]; [constructor|].
  pose proof (Forall2_nth_error R l1 l2 i H) as Hn.
  destruct (nth_error l1 i), (nth_error l2 i); try contradiction; [constructor; auto|auto].
Qed.

Lemma Forall2_length {A B} (R : A -> B -> Prop) l1 l2 : Forall2 R l1 l2 -> length l1 = length l2.
Proof. induction 1; cbn; auto. Qed.

Lemma sepcomma_snoc_nil tss : tss <> [] -> sepcomma (tss ++ [[]]) = sepcomma tss ++ [p_comma].
Proof.
  induction tss as [|x tl IH]; [congruence|]. intros _.
  destruct tl as [|y tl']; [reflexivity|].
  change ((x :: y :: tl') ++ [[]]) with (x :: (y :: tl') ++ [[]]).
  cbn [app]. rewrite !sepcomma_cons. cbn [app] in IH. rewrite IH by discriminate.
  now rewrite <- app_assoc.
Qed.

Definition trb (tr : option str) : bool := match tr with Some (_ :: _) => true | _ => false end.

Lemma is_some_truthy tr : is_some (truthy tr) = trb tr.
Proof. destruct tr as [[|c t]|]; reflexivity. Qed.

(** numbers *)
Lemma num_d_DT ctx t base lit sub le :
  t <> 14%N -> tok_of t lit = TNum lit -> etoks le = [TNum lit] ->
  match sub with Some w => wf_cls w | None => True end ->
  DT (num_d is_space_u is_linebreak ctx t base lit sub)
     (etoks (if e_is0 (ectx_of ctx)
             then placeholder (match sub with Some w => cn_name w | None => base end)
             else match sub with None => le | Some w => ECall (cn_name w) [le] [] end)).
Proof.
  intros Ht Htok Hle Hw. unfold num_d. rewrite is0_ectx. destruct (depth_is0 ctx) eqn:E0.
  - rewrite <- (ecall_is0 (ectx_of ctx) _ [EEllipsis] []) by exact E0.
    destruct sub as [w|]; apply call_ellipsis_DT; auto. apply wf_cls_of.
  - assert (Hl : DT (Printers.tok t lit) [TNum lit]) by (rewrite <- Htok; now apply DT_tok).
    destruct sub as [w|].
    + pose proof (build_fncall_DT is_space_u is_linebreak ctx (general_identifier w) [TName (cn_name w)]
                    [Printers.tok t lit] [[TNum lit]] [] [] false (DT_ident w Hw)
                    ltac:(constructor; [exact Hl|constructor]) (Forall2_nil _)) as H.
      cbn [etoks map app sepcomma]. rewrite Hle. exact H.
    + rewrite Hle. exact Hl.
Qed.

Lemma nested_hang_ectx ctx : ectx_of (nested_hang ctx) = e_nested (ectx_of ctx).
Proof. reflexivity. Qed.

Lemma special_float_d_DT ctx name sub :
  match sub with Some w => wf_cls w | None => True end ->
  DT (special_float_d is_space_u is_linebreak ctx name sub)
     (etoks (let nm := match sub with Some w => cn_name w | None => n_float end in
             if e_is0 (ectx_of ctx) then placeholder nm
             else ecall (ectx_of ctx) nm [estr (e_nested (ectx_of ctx)) false name None] [])).
Proof.
  intros Hw. unfold special_float_d. rewrite is0_ectx. destruct (depth_is0 ctx) eqn:E0; cbv zeta.
  - rewrite <- (ecall_is0 (ectx_of ctx) _ [EEllipsis] []) by exact E0.
    destruct sub as [w|]; apply call_ellipsis_DT; auto. apply wf_cls_of.
  - assert (Hs : Forall2 DT [str_doc (nested_hang ctx) false name None false]
                   (map etoks [estr (e_nested (ectx_of ctx)) false name None])).
    { constructor; [|constructor]. rewrite <- nested_hang_ectx. now apply str_doc_DT. }
    destruct sub as [w|]; apply call_alt_d_nested_DT; auto; try constructor; apply wf_cls_of.
Qed.

Lemma frozen_d_DT ctx len sub lst le :
  match sub with Some w => wf_cls w | None => True end ->
  (len <> 0%nat -> DT (lst tt) (etoks le)) ->
  DT (frozen_d is_space_u is_linebreak ctx len sub lst)
     (etoks (let nm := match sub with Some w => cn_name w | None => n_frozenset end in
             match len with
             | O => ecall (ectx_of ctx) nm [] []
             | _ => ecall (ectx_of ctx) nm [le] []
             end)).
Proof.
  intros Hw Hl. unfold frozen_d. cbv zeta.
  assert (Hc : wf_cls (match sub with Some c => c | None => cls_of n_frozenset end)).
  { destruct sub; auto. apply wf_cls_of. }
  assert (En : cn_name (match sub with Some c => c | None => cls_of n_frozenset end)
               = match sub with Some w => cn_name w | None => n_frozenset end) by now destruct sub.
  destruct len as [|n].
  - rewrite <- En. now apply call_noargs_DT.
  - rewrite <- En. apply call_alt_d_hug_DT; auto.
Qed.

Definition kind_of (kind : nat) : seqkind := match kind with 0%nat => KList | 1%nat => KTuple | _ => KSet end.

Lemma DT_brackets kind :
  let '(lft, rgt) := match kind with
                     | 0%nat => (LBRACKET, RBRACKET)
                     | 1%nat => (LPAREN, RPAREN)
                     | _ => (LBRACE, RBRACE)
                     end in
  DT lft [opener (kind_of kind)] /\ DT rgt [closer (kind_of kind)].
Proof.
  destruct kind as [|[|k]]; cbn [kind_of opener closer]; split;
    match goal with |- DT (Printers.tok ?t ?s) _ => apply (DT_tok t s); discriminate
                  | |- DT ?d _ => unfold d; apply DT_tok; discriminate end.
Qed.

(** list / tuple / set *)
Lemma seq_d_DT ctx kind sub tr els eels :
  match sub with Some w => wf_cls w | None => True end ->
  Forall2 DT (els tt) (map etoks eels) ->
  DT (seq_d is_space_u is_linebreak ctx kind (length eels) sub (truthy tr) els)
     (etoks (eseq (ectx_of ctx) (kind_of kind) (length eels) sub (trb tr) eels)).
Proof.
  intros Hw Hels. unfold seq_d, eseq. cbv zeta.
  set (constructor := match sub with
                      | Some c => c
                      | None => cls_of match kind with 0%nat => n_list | 1%nat => n_tuple | _ => n_set end
                      end).
  assert (Hc : wf_cls constructor) by (unfold constructor; destruct sub; auto; apply wf_cls_of).
  assert (En : cn_name constructor = match sub with Some w => cn_name w | None => kind_name (kind_of kind) end).
  { unfold constructor. destruct sub; [reflexivity|]. now destruct kind as [|[|k]]. }
  assert (Hset : (match kind_of kind with KSet => true | _ => false end) = negb (Nat.ltb kind 2)).
  { now destruct kind as [|[|k]]. }
  pose proof (DT_brackets kind) as HB.
  destruct (match kind with 0%nat => (LBRACKET, RBRACKET) | 1%nat => (LPAREN, RPAREN) | _ => (LBRACE, RBRACE) end)
    as [lft rgt]. destruct HB as [Hlft Hrgt].
  assert (Enat : is_some sub = negb (match sub with None => true | Some _ => false end)) by now destruct sub.
  rewrite Hset, <- En, is0_ectx.
  replace (match sub with None => true | Some _ => false end) with (negb (is_some sub)) by now destruct sub.
  destruct (length eels) as [|n] eqn:El.
  - (* empty *)
    rewrite Bool.negb_involutive. destruct (negb (is_some sub) && Nat.ltb kind 2).
    + cbn [etoks map sepcomma app]. apply DT_cat. apply DTL_cons1; [exact Hlft|]. now apply DTL_one.
    + now apply call_noargs_DT.
  - destruct (depth_is0 ctx) eqn:E0.
    + (* no depth left *)
      destruct (Nat.ltb kind 2) eqn:Ek; cbn [negb].
      * assert (Hlit : DT (Cat [lft; ELLIPSIS; rgt]) (etoks (ESeq (kind_of kind) [EEllipsis] false))).
        { apply DT_cat. cbn [etoks map sepcomma app]. apply DTL_cons1; [exact Hlft|].
          apply DTL_cons1; [apply DT_ELLIPSIS|]. now apply DTL_one. }
        destruct sub as [w|]; cbn [is_some negb]; [|exact Hlit].
        pose proof (build_fncall_DT is_space_u is_linebreak ctx (general_identifier constructor)
                      [TName (cn_name constructor)] [Cat [lft; ELLIPSIS; rgt]]
                      [etoks (ESeq (kind_of kind) [EEllipsis] false)] [] [] true (DT_ident _ Hc)
                      ltac:(constructor; [exact Hlit|constructor]) (Forall2_nil _)) as H.
        exact H.
      * rewrite <- (ecall_is0 (ectx_of ctx) _ [EEllipsis] []) by exact E0. now apply call_ellipsis_DT.
    + (* the literal *)
      set (tss0 := map etoks (match S n with 1%nat => eels | _ => take_z (e_maxlen (ectx_of ctx)) eels end)).
      assert (H0 : Forall2 DT (match S n with 1%nat => els tt | _ => take_z (c_maxlen ctx) (els tt) end) tss0).
      { unfold tss0. destruct n; [exact Hels|]. cbn [ectx_of e_maxlen].
        rewrite <- (map_id (take_z (c_maxlen ctx) eels)).
        assert (G : forall l1 (l2 : list expr) m, Forall2 DT l1 (map etoks l2) ->
                    Forall2 DT (take_z m l1) (map etoks (take_z m l2))).
        { clear. induction l1 as [|x tl IH]; intros l2 m H; destruct l2; inv H; cbn [take_z map]; [constructor|].
          destruct (m <=? 0)%Z; cbn [map]; constructor; auto. }
        rewrite map_id. now apply G. }
      set (shown := match S n with 1%nat => eels | _ => take_z (e_maxlen (ectx_of ctx)) eels end) in *.
      set (els0 := match S n with 1%nat => els tt | _ => take_z (c_maxlen ctx) (els tt) end) in *.
      set (trunc := (c_maxlen ctx <? Z.of_nat (S n))%Z).
      assert (Htr : is_some (if trunc then Some (join_comments (trunc_comment (Z.of_nat (S n) - c_maxlen ctx)) (truthy tr))
                             else truthy tr) = trunc || trb tr).
      { destruct trunc; [reflexivity|]. apply is_some_truthy. }
      assert (Hlit : DT (let '(els1, dangle) :=
                           match (if trunc then Some (join_comments (trunc_comment (Z.of_nat (S n) - c_maxlen ctx)) (truthy tr))
                                  else truthy tr) with
                           | Some t => (els0 ++ [commentdoc is_space_u is_linebreak t], false)
                           | None => (els0, Nat.eqb kind 1 && Nat.eqb (S n) 1)
                           end in
                         sequence_of_docs is_space_u is_linebreak ctx lft els1 rgt dangle
                           (is_some (if trunc then Some (join_comments (trunc_comment (Z.of_nat (S n) - c_maxlen ctx)) (truthy tr))
                                     else truthy tr)))
                        (etoks (ESeq (kind_of kind) shown
                                  match shown with
                                  | [] => false
                                  | _ => (trunc || trb tr) || match kind_of kind with KTuple => Nat.eqb (S n) 1 | _ => false end
                                  end))).
      { rewrite Htr.
        destruct (if trunc then Some _ else truthy tr) as [t|] eqn:Et; cbn [is_some] in Htr; rewrite <- Htr.
        - cbn [orb].
          pose proof (sequence_of_docs_DT is_space_u is_linebreak ctx lft
                        (els0 ++ [commentdoc is_space_u is_linebreak t]) rgt false true
                        [opener (kind_of kind)] [closer (kind_of kind)] (tss0 ++ [[]]) Hlft Hrgt
                        ltac:(apply Forall2_app; [exact H0|constructor; [apply DT_commentdoc|constructor]])) as H.
          cbn [etoks]. fold tss0. rewrite app_nil_r in H.
          destruct shown as [|s0 srest] eqn:Es.
          + unfold tss0 in *. cbn [map app sepcomma] in *. exact H.
          + rewrite sepcomma_snoc_nil in H by (unfold tss0; discriminate). cbn [app] in *.
            rewrite <- app_assoc in H. exact H.
        - cbn [orb].
          pose proof (sequence_of_docs_DT is_space_u is_linebreak ctx lft els0 rgt
                        (Nat.eqb kind 1 && Nat.eqb (S n) 1) false
                        [opener (kind_of kind)] [closer (kind_of kind)] tss0 Hlft Hrgt H0) as H.
          cbn [etoks]. fold tss0.
          assert (Ed : match shown with
                       | [] => false
                       | _ :: _ => match kind_of kind with KTuple => Nat.eqb (S n) 1 | _ => false end
                       end = (Nat.eqb kind 1 && Nat.eqb (S n) 1)).
          { destruct n.
            - (* one element: shown = eels, non-empty *)
              unfold shown. destruct eels as [|e0 [|e1 er]]; cbn [length] in El; try discriminate.
              destruct kind as [|[|k]]; reflexivity.
            - rewrite andb_false_r. destruct shown; [reflexivity|]. now destruct (kind_of kind). }
          rewrite Ed. cbn [app] in H. rewrite <- app_assoc in H. exact H. }
      destruct sub as [w|]; cbn [is_some negb]; [|exact Hlit].
      revert Hlit.
      match goal with |- DT (let '(_, _) := ?p in _) _ -> _ => destruct p as [els1 dangle] end.
      intros Hlit.
      match type of Hlit with DT ?d ?ts =>
        pose proof (build_fncall_DT is_space_u is_linebreak ctx (general_identifier constructor)
                      [TName (cn_name constructor)] [d] [ts] [] [] true (DT_ident _ Hc)
                      ltac:(constructor; [exact Hlit|constructor]) (Forall2_nil _)) as H
      end.
      exact H.
Qed.

(** dict *)
Definition TR (t : doc * doc * (unit -> doc)) (p : expr * expr) : Prop :=
  DT (fst (fst t)) (etoks (fst p)) /\ DT (snd (fst t)) (etoks (snd p)) /\ DT (snd t tt) (etoks (snd p)).

Lemma DT_LBRACE : DT LBRACE [TP [123]%N].
Proof. apply (DT_tok 13 [123]%N). discriminate. Qed.
Lemma DT_RBRACE : DT RBRACE [TP [125]%N].
Proof. apply (DT_tok 13 [125]%N). discriminate. Qed.

Lemma dict_d_DT ctx sub tr sorted triples pairs :
  match sub with Some w => wf_cls w | None => True end ->
  Forall2 TR (triples tt) pairs ->
  DT (dict_d is_space_u is_linebreak ctx sub (truthy tr) sorted triples)
     (etoks (edict (ectx_of ctx) sub sorted pairs (trb tr))).
Proof.
  intros Hw HF. unfold dict_d, edict. cbv zeta. rewrite is0_ectx.
  set (constructor := match sub with Some c => c | None => cls_of n_dict end).
  assert (Hc : wf_cls constructor) by (unfold constructor; destruct sub; auto; apply wf_cls_of).
  assert (En : cn_name constructor = match sub with Some w => cn_name w | None => n_dict end)
    by (unfold constructor; now destruct sub).
  rewrite <- En.
  replace (match sub with None => true | Some _ => false end) with (negb (is_some sub)) by now destruct sub.
  destruct (depth_is0 ctx) eqn:E0.
  - assert (Hlit : DT (Cat [LBRACE; ELLIPSIS; RBRACE]) (etoks (ESeq KSet [EEllipsis] false))).
    { apply DT_cat. cbn [etoks map sepcomma app opener closer]. apply DTL_cons1; [apply DT_LBRACE|].
      apply DTL_cons1; [apply DT_ELLIPSIS|]. apply DTL_one, DT_RBRACE. }
    destruct sub as [w|]; cbn [is_some negb]; [|exact Hlit].
    exact (build_fncall_DT is_space_u is_linebreak ctx (general_identifier constructor)
             [TName (cn_name constructor)] [Cat [LBRACE; ELLIPSIS; RBRACE]]
             [etoks (ESeq KSet [EEllipsis] false)] [] [] true (DT_ident _ Hc)
             ltac:(constructor; [exact Hlit|constructor]) (Forall2_nil _)).
  - pose proof (Forall2_length _ _ _ HF) as Hlen. rewrite Hlen.
    cbn [ectx_of e_maxlen e_sort].
    set (trunc := (c_maxlen ctx <? Z.of_nat (length pairs))%Z).
    set (tr' := if trunc then Some (join_comments (trunc_comment (Z.of_nat (length pairs) - c_maxlen ctx)) (truthy tr))
                else truthy tr).
    assert (Htr : is_some tr' = trunc || trb tr).
    { unfold tr'. destruct trunc; [reflexivity|]. apply is_some_truthy. }
    set (shownT := take_z (c_maxlen ctx) (if c_sort ctx then reorder (triples tt) sorted else triples tt)).
    set (shownE := take_z (c_maxlen ctx) (if c_sort ctx then reorder pairs sorted else pairs)).
    assert (HS : Forall2 TR shownT shownE).
    { unfold shownT, shownE. apply Forall2_take_z. destruct (c_sort ctx); [now apply Forall2_reorder|exact HF]. }
    pose proof (dict_parts_DT is_space_u is_linebreak ctx shownT
                  (map (fun p => (etoks (fst p), etoks (snd p))) shownE)) as HP.
    assert (HS' : Forall2 (fun tr0 pt => DT (fst (fst tr0)) (fst pt) /\ DT (snd (fst tr0)) (snd pt) /\ DT (snd tr0 tt) (snd pt))
                    shownT (map (fun p => (etoks (fst p), etoks (snd p))) shownE)).
    { clear -HS. induction HS as [|t p l l' H _ IH]; cbn [map]; constructor; auto. }
    specialize (HP HS'). rewrite map_map in HP. unfold pairtoks in HP. cbn [fst snd] in HP.
    pose proof (Forall2_length _ _ _ HS) as HlenS.
    destruct (dict_parts is_space_u is_linebreak ctx shownT) as [parts0 hc0] eqn:Ep. cbn [fst] in HP.
    assert (Hparts : DTL (match tr' with
                          | Some t => parts0 ++ [Cat [HardLine; commentdoc is_space_u is_linebreak t]]
                          | None => parts0 end)
                         (sepcomma (map (fun x => etoks (fst x) ++ p_colon :: etoks (snd x)) shownE))).
    { destruct tr' as [t|]; [|exact HP].
      rewrite <- (app_nil_r (sepcomma _)). apply DTL_app; [exact HP|].
      apply DTL_one, DT_cat. apply DTL_nilhead; [constructor|]. apply DTL_one, DT_commentdoc. }
    set (parts := match tr' with
                  | Some t => parts0 ++ [Cat [HardLine; commentdoc is_space_u is_linebreak t]]
                  | None => parts0 end) in *.
    set (body := bracket ctx LBRACE (Cat parts) RBRACE).
    assert (Hd : forall b : bool, DT (if b then AlwaysBreak body else Group body) (etoks (EDict shownE))).
    { intros b. cbn [etoks].
      assert (HB := DT_bracket ctx LBRACE (Cat parts) RBRACE _ _ _ DT_LBRACE (DT_cat _ _ Hparts) DT_RBRACE).
      cbn [app] in HB. destruct b; [now apply DT_ab|now apply DT_group]. }
    destruct sub as [w|]; cbn [is_some negb].
    + assert (Hcall : forall b : bool, DT (build_fncall is_space_u is_linebreak ctx (general_identifier constructor)
                 [if b then AlwaysBreak body else Group body] [] true)
                 (etoks (ECall (cn_name constructor) [EDict shownE] []))).
      { intros b. exact (build_fncall_DT is_space_u is_linebreak ctx (general_identifier constructor)
             [TName (cn_name constructor)] [_] [etoks (EDict shownE)] [] [] true (DT_ident _ Hc)
             ltac:(constructor; [exact (Hd b)|constructor]) (Forall2_nil _)). }
      fold shownE. rewrite <- Htr.
      destruct tr' as [t|]; cbn [is_some].
      * assert (Hne : parts <> []) by (unfold parts; destruct parts0; discriminate).
        destruct parts as [|p0 pr]; [congruence|]. destruct shownE; apply Hcall.
      * destruct shownE as [|e0 er].
        -- destruct shownT; [|discriminate]. cbn in Ep. inversion Ep; subst. now apply call_noargs_DT.
        -- destruct shownT as [|t0 trest]; [discriminate|]. cbn [dict_parts] in Ep.
           destruct t0 as [[k0 x0] xp0].
           destruct (dict_part _ _ ctx _ k0 x0 xp0), (dict_parts _ _ ctx trest). inversion Ep; subst. apply Hcall.
    + apply Hd.
Qed.

End PrettyToks2.

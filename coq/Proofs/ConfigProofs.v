(** C18: explicit arguments override defaults; set_default_config changes
    exactly the keys it is given; all entry points plumb identically. *)
From Coq Require Import String Bool.
From PP Require Import Doc Config.
Open Scope string_scope.

Lemma lookup_update_same k v e : lookup k (update k v e) = Some v.
Proof.
  induction e as [|[k' v'] tl IH]; cbn [update lookup].
  - now rewrite String.eqb_refl.
  - destruct (String.eqb k k') eqn:E; cbn [lookup]; rewrite ?String.eqb_refl, ?E; auto.
Qed.

Lemma lookup_update_other k k' v e : k <> k' -> lookup k (update k' v e) = lookup k e.
Proof.
  intros Hne. induction e as [|[k2 v2] tl IH]; cbn [update lookup].
  - apply String.eqb_neq in Hne. now rewrite Hne.
  - destruct (String.eqb k' k2) eqn:E; cbn [lookup].
    + apply String.eqb_eq in E. subst k2. apply String.eqb_neq in Hne. now rewrite Hne.
    + destruct (String.eqb k k2); auto.
Qed.

(** keys of the defaults are preserved by update of a present key and by merge *)
Lemma merge_lookup k e d :
  lookup k (merge e d) =
  match lookup k d with
  | None => None
  | Some dv => Some (match lookup k e with Some v => v | None => dv end)
  end.
Proof.
  unfold merge. induction d as [|[k' v'] tl IH]; cbn [map lookup fst snd]; [reflexivity|].
  destruct (String.eqb k k') eqn:E; [|exact IH].
  apply String.eqb_eq in E. now subst.
Qed.

(** one set_default_config call, for any plumbing whose written keys are distinct *)
Fixpoint param_for (k : string) (sets : list (string * string)) : option string :=
  match sets with
  | [] => None
  | (p, k') :: tl => if String.eqb k k' then Some p else param_for k tl
  end.

Lemma set_default_lookup sets : NoDup (map snd sets) -> forall k args d,
  lookup k (set_default sets args d) =
  match param_for k sets with
  | Some p => match lookup p args with Some v => Some v | None => lookup k d end
  | None => lookup k d
  end.
Proof.
  unfold set_default. induction sets as [|[p k'] tl IH]; intros ND k args d; [reflexivity|].
  inversion ND as [|? ? Hnin ND']; subst. cbn [fold_left fst snd param_for].
  rewrite (IH ND'). destruct (String.eqb k k') eqn:E.
  - apply String.eqb_eq in E. subst k'.
    assert (param_for k tl = None) as ->.
    { clear -Hnin. induction tl as [|[p2 k2] tl IH]; [reflexivity|]. cbn [param_for map snd] in *.
      destruct (String.eqb k k2) eqn:E2.
      - apply String.eqb_eq in E2. subst. exfalso. apply Hnin. now left.
      - apply IH. intros H. apply Hnin. now right. }
    destruct (lookup p args); [apply lookup_update_same|reflexivity].
  - apply String.eqb_neq in E.
    destruct (param_for k tl) as [p2|]; destruct (lookup p args);
      rewrite ?(lookup_update_other _ _ _ _ E); reflexivity.
Qed.

(** arbitrary sequences of set_default_config: the value of a key is the one
    given by the last call that passed its parameter, else the initial one *)
Theorem set_default_sequence sets : NoDup (map snd sets) -> forall h k d0,
  lookup k (fold_left (fun d a => set_default sets a d) h d0) =
  fold_left (fun cur a => match param_for k sets with
                          | Some p => match lookup p a with Some v => Some v | None => cur end
                          | None => cur
                          end) h (lookup k d0).
Proof.
  intros ND h. induction h as [|a tl IH]; intros k d0; cbn [fold_left]; [reflexivity|].
  rewrite IH. rewrite (set_default_lookup sets ND).
  destruct (param_for k sets); reflexivity.
Qed.

(** identity plumbing: explicit arguments win, key by key *)
Definition idplumb (ks : list string) : list (string * string) := map (fun k => (k, k)) ks.

Lemma lookup_flat_id ks args k :
  lookup k (flat_map (fun kp : string * string =>
              match lookup (snd kp) args with Some v => [(fst kp, v)] | None => [] end) (idplumb ks)) =
  if existsb (String.eqb k) ks then lookup k args else None.
Proof.
  unfold idplumb. induction ks as [|k' tl IH]; cbn [map flat_map existsb fst snd]; [reflexivity|].
  destruct (lookup k' args) as [v|] eqn:El; cbn [app lookup].
  - destruct (String.eqb k k') eqn:E; cbn [orb].
    + apply String.eqb_eq in E. subst. now rewrite El.
    + exact IH.
  - destruct (String.eqb k k') eqn:E; cbn [orb].
    + apply String.eqb_eq in E. subst k'. rewrite IH, El. now destruct (existsb (String.eqb k) tl).
    + exact IH.
Qed.

Theorem override ks args d k :
  lookup k (call_merge (idplumb ks) args d) =
  match lookup k d with
  | None => None
  | Some dv => Some (if existsb (String.eqb k) ks
                     then match lookup k args with Some v => v | None => dv end
                     else dv)
  end.
Proof.
  unfold call_merge. rewrite merge_lookup, lookup_flat_id.
  destruct (lookup k d); [|reflexivity]. now destruct (existsb (String.eqb k) ks).
Qed.

(** End to end, inside Coq: the SDoc stream that the model of the layout
    engine really emits for a (string-free) value - at any width, ribbon,
    indent, depth, max_seq_len, sort setting - carries exactly the tokens of
    the expression [expr_of] prescribes.  Composition of the engine theorem
    (C04_membership), the bridge (LayToks) and the printers' denotation
    theorem (PrettyToks3). *)
From PP Require Import Doc Normalize Layout Render Sem PyStr PyVal Printers Pformat PyExpr Membership
     LayToks CleanDocs PrettyToks1 PrettyToks3.

Theorem engine_output_tokens :
  forall (printable sp wd lb : N -> bool) (fuel ff : nat) (v : pyval) (indent width rw : Z)
         (depth : option Z) (maxlen : Z) (sort : bool) (out : list sdoc),
    nostr v -> wf_val v ->
    sdocs_model printable sp wd lb fuel ff v indent width rw depth maxlen sort = Some out ->
    stoks (strip out) MNormal = etoks (expr_of (mkE depth maxlen sort) v false).
Proof.
  intros printable sp wd lb fuel ff v indent width rw depth maxlen sort out Hn Hw H.
  unfold sdocs_model in H. apply membership in H as [c' HL].
  pose proof (lay_tokens _ _ _ _ _ _ _ _ _ HL _ (top_doc_DT sp lb v indent depth maxlen sort Hw)
                (clean_top_doc sp lb v indent depth maxlen sort Hn) []) as HT.
  rewrite app_nil_r in HT. cbn [stoks] in HT. now rewrite app_nil_r in HT.
Qed.

(** ... and for EVERY value, strings included: the raw tokens of the stream
    the engine emits glue to the tokens of the expression - a string value
    from the literal pieces of one non-empty split of it (StrBridge). *)
From PP Require Import AnnotProofs NestDocs IndentE2E AnnotE2E StrBridge.

Theorem engine_output_tokens_all :
  forall (printable sp wd lb : N -> bool) (fuel ff : nat) (v : pyval) (indent width rw : Z)
         (depth : option Z) (maxlen : Z) (sort : bool) (out : list sdoc),
    wf_val v ->
    sdocs_model printable sp wd lb fuel ff v indent width rw depth maxlen sort = Some out ->
    exists raw, rtoks (strip out) NNormal = raw /\
                Glue printable raw (etoks (expr_of (mkE depth maxlen sort) v false)).
Proof.
  intros printable sp wd lb fuel ff v indent width rw depth maxlen sort out Hw H.
  unfold sdocs_model in H. apply membership in H as [c' HL].
  assert (Hn : nopop (top_doc sp lb v indent depth maxlen sort) = true)
    by (apply (nestk_nopop indent); apply nk_top_doc).
  destruct (lay_tokens_all printable sp wd lb width rw _ _ _ _ _ _ HL Hn _
              (top_doc_DT sp lb v indent depth maxlen sort Hw)) as (raw & HT & HG).
  exists raw. split; [|exact HG].
  specialize (HT []). rewrite app_nil_r in HT. cbn [rtoks] in HT. now rewrite app_nil_r in HT.
Qed.

(** the whole chain: what the engine emits glues to the tokens of an
    expression that EVALUATES to the value (cut to max_seq_len, dicts in the
    requested order) *)
From PP Require Import PyEval EvalRT.
Theorem engine_output_evaluates :
  forall (printable sp wd lb : N -> bool) (fuel ff : nat) (env : str -> option target),
    env n_float = None -> env n_frozenset = None -> env n_set = None ->
    forall (v : pyval) (indent width rw : Z) (n : Z) (sort : bool) (out : list sdoc),
    (1 <= n)%Z -> wf_val v -> evaluable env v ->
    sdocs_model printable sp wd lb fuel ff v indent width rw None n sort = Some out ->
    exists e, Glue printable (rtoks (strip out) NNormal) (etoks e) /\ eval env e = Some (norm n sort v).
Proof.
  intros printable sp wd lb fuel ff env E1 E2 E3 v indent width rw n sort out Hn Hw He H.
  exists (expr_of (mkE None n sort) v false). split.
  - destruct (engine_output_tokens_all _ _ _ _ _ _ _ _ _ _ _ _ _ _ Hw H) as (raw & <- & G). exact G.
  - now apply eval_expr_of.
Qed.
